(* driver.ml — I/O glue between the harness and the extracted model.
   usage: driver ENTRY < cases   (one S-expression per line; one result per line)
   format:  INT | sC.C.C (string of code points, "s" alone = empty) | ( items ) *)
module W = Wdmodel

let rec pos_of_int (i : int) : W.positive =
  if i = 1 then W.XH
  else if i land 1 = 1 then W.XI (pos_of_int (i lsr 1))
  else W.XO (pos_of_int (i lsr 1))
let n_of_int (i : int) : W.n = if i = 0 then W.N0 else W.Npos (pos_of_int i)
let rec int_of_pos = function
  | W.XH -> 1 | W.XO p -> 2 * int_of_pos p | W.XI p -> 2 * int_of_pos p + 1
let int_of_n = function W.N0 -> 0 | W.Npos p -> int_of_pos p

let str_of_string (s : string) : W.n list =
  List.init (String.length s) (fun i -> n_of_int (Char.code s.[i]))

let z_of_token (t : string) : W.z =
  let neg = String.length t > 0 && t.[0] = '-' in
  let d = if neg then String.sub t 1 (String.length t - 1) else t in
  W.z_of_dec neg (str_of_string d)

let parse_line (line : string) : W.sx =
  let n = String.length line in
  let pos = ref 0 in
  let skip () = while !pos < n && line.[!pos] = ' ' do incr pos done in
  let token () =
    let st = !pos in
    while !pos < n && line.[!pos] <> ' ' && line.[!pos] <> ')' && line.[!pos] <> '(' do incr pos done;
    String.sub line st (!pos - st) in
  let rec item () : W.sx =
    skip ();
    if !pos >= n then failwith "unexpected end";
    if line.[!pos] = '(' then begin
      incr pos;
      let acc = ref [] in
      skip ();
      while !pos < n && line.[!pos] <> ')' do
        acc := item () :: !acc; skip ()
      done;
      if !pos >= n then failwith "missing )";
      incr pos;
      W.SL (List.rev !acc)
    end else begin
      let t = token () in
      if String.length t > 0 && t.[0] = 's' then begin
        let body = String.sub t 1 (String.length t - 1) in
        if body = "" then W.SS []
        else W.SS (List.map (fun x -> n_of_int (int_of_string x)) (String.split_on_char '.' body))
      end else W.SZ (z_of_token t)
    end in
  item ()

let buf = Buffer.create 65536
let rec print_sx (x : W.sx) : unit =
  match x with
  | W.SZ z -> List.iter (fun c -> Buffer.add_char buf (Char.chr (int_of_n c))) (W.z_to_dec z)
  | W.SS s ->
      Buffer.add_char buf 's';
      List.iteri (fun i c -> if i > 0 then Buffer.add_char buf '.';
                   Buffer.add_string buf (string_of_int (int_of_n c))) s
  | W.SL l ->
      Buffer.add_char buf '(';
      List.iteri (fun i y -> if i > 0 then Buffer.add_char buf ' '; print_sx y) l;
      Buffer.add_char buf ')'

let () =
  let name = str_of_string Sys.argv.(1) in
  let db =
    if Array.length Sys.argv > 2 then begin
      let ic = open_in Sys.argv.(2) in
      let l = input_line ic in
      close_in ic;
      W.db_or_empty (parse_line l)
    end else [] in
  (try
    while true do
      let line = input_line stdin in
      (try
        let a = parse_line line in
        print_sx (W.run_entry db name a)
      with
      | Stack_overflow -> Buffer.add_string buf "(s100.114.105.118.101.114.45.115.116.97.99.107)"
      | Failure m -> Buffer.add_string buf "(s100.114.105.118.101.114.45.102.97.105.108)");
      Buffer.add_char buf '\n';
      if Buffer.length buf > 60000 then (print_string (Buffer.contents buf); Buffer.clear buf)
    done
  with End_of_file -> ());
  print_string (Buffer.contents buf)
