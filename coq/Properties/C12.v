(* C12 — filter/breakpoint commands accumulate alternatives and exclusions. *)
From WD Require Import Base Wire Conn Color Matcher MatcherParse MatcherProofs.
Open Scope Z_scope.

(* one command, current matcher and new matcher both non-constant: alternatives join the existing
   alternatives (always-true ones are dropped as soon as a specific one is present), exclusions
   join the existing exclusions; a message is selected iff some alternative and no exclusion
   matches *)
Theorem C12_join_accumulates : forall new old v,
  always old = None -> always new = None ->
  let '(op, on) := as_list old in
  let '(np, nn) := as_list new in
  matches (simplify (join new old)) v =
  let pos := filter (fun p => negb (is_always true p)) (np ++ op) in
  sel (match pos with [] => [MAlways true] | _ => pos end) (nn ++ on) v.
Proof. exact join_accumulates. Qed.
Print Assumptions C12_join_accumulates.

(* a matcher given while the current one is `*` or `!` replaces it; `!` (or `*`) given replaces too *)
Theorem C12_join_replaces : forall new old,
  (exists b, old = MAlways b) \/ (exists b, new = MAlways b) -> join new old = new.
Proof. exact join_replaces. Qed.
Print Assumptions C12_join_replaces.

(* the alternatives/exclusions kept from earlier commands keep their meaning: they are already
   simplified and simplification is idempotent *)
Theorem C12_kept_parts_stable : forall m, simplify (simplify m) = simplify m.
Proof. exact simplify_idempotent. Qed.
Print Assumptions C12_kept_parts_stable.

(* non-vacuity: three commands; `*` drops out when a specific alternative arrives *)
Definition cmd (cur : mt) (t : string) : mt :=
  match parse (s2l t) with Ok p => simplify (join p cur) | Raise _ _ => cur end.
Example C12_ex :
  mshow false (cmd (cmd (cmd (MAlways true) "wl_pointer ! .motion") ".commit ! .frame") "(") =
  s2l "[*.commit(*), [wl_pointer.*(*), *.*(*=wl_pointer)] ! *.frame(*), *.motion(*)]"
  /\ mshow false (cmd (cmd (MAlways true) "! .motion") "wl_surface.attach") = s2l "[wl_surface.attach(*) ! *.motion(*)]"
  /\ cmd (cmd (MAlways true) "wl_pointer") "!" = MAlways false.
Proof. vm_compute. repeat split. Qed.
