(* C12 — filter/breakpoint commands accumulate alternatives and exclusions.
   The state the tool holds after a command is  simplify (join (parse TEXT) cur)  (cur unchanged
   when TEXT does not parse).  Proofs: MatcherProofs.v (one step), JoinSteps.v (any number of steps). *)
From WD Require Import Base Wire Conn Color Matcher MatcherParse MatcherProofs JoinSteps.
Open Scope Z_scope.

(* ---- any number of commands -------------------------------------------------------------------- *)
(* EXACT, no side condition: reading the accumulator (a constant, or alternatives + exclusions) off
   the matcher the tool holds commutes with every command, so after any sequence of command texts a
   message is selected iff it matches some accumulated alternative and no accumulated exclusion,
   where the accumulator evolves by acc_step (JoinSteps.v: replace when the current one is a constant
   or the new one is literally a constant; otherwise new alternatives in front of the old ones,
   literal `*` dropped when a specific alternative is present, new exclusions in front of the old
   ones; then constant folding: settle) *)
Theorem C12_run_exact : forall ts cur0,
  abs (fold_left cmd ts cur0) = fold_left (lift acc_step) (map parsed ts) (abs cur0).
Proof. exact run_texts_exact. Qed.
Print Assumptions C12_run_exact.

Theorem C12_run_selects : forall ts cur0 v,
  matches (fold_left cmd ts cur0) v = sel_acc (fold_left (lift acc_step) (map parsed ts) (abs cur0)) v.
Proof. exact run_texts_sound. Qed.
Print Assumptions C12_run_selects.

(* the plain reading of the property text: for commands none of whose parts folds to a constant
   (PlainCmd; resets `!` and literal constants included) the tool's lists are exactly the lists
   obtained by appending, elementwise simplified ... *)
Theorem C12_plain_accumulates : forall ts b v,
  Forall PlainOpt (map parsed ts) ->
  matches (fold_left cmd ts (MAlways b)) v
  = sel_raw (fold_left (lift raw_step) (map parsed ts) (AConst b)) v.
Proof. exact run_texts_raw_sound. Qed.
Print Assumptions C12_plain_accumulates.

(* ... and that raw accumulator is, over a run of accumulating commands, all alternatives (minus
   literal `*`) and all exclusions given so far *)
Theorem C12_closed_form : forall ps a e,
  Forall Accumulating ps -> ps <> [] ->
  fold_left raw_step ps (ALists a e) = ALists (star_or (dropstar (alts_of ps ++ a))) (excls_of ps ++ e).
Proof. exact raw_run_closed. Qed.
Print Assumptions C12_closed_form.

(* the parts kept from earlier commands are never altered by later ones *)
Theorem C12_kept_parts_stable : forall cur a e,
  Good cur -> abs cur = ALists a e -> map simplify a = a /\ map simplify e = e.
Proof. exact good_acc_stable. Qed.
Print Assumptions C12_kept_parts_stable.

(* a matcher that fails to parse leaves the current one exactly as it was *)
Theorem C12_parse_error_keeps : forall cur t e m, parse t = Raise e m -> cmd cur t = cur.
Proof. exact cmd_unparsed. Qed.

(* `*` as an alternative: "no restriction" — every earlier alternative is subsumed (and does not
   come back when the next specific alternative arrives), the exclusions stay *)
Theorem C12_star_alternative : forall a e p,
  always p = None ->
  existsb (fun x => is_always true (simplify x)) (dropstar (fst (as_list p))) = true ->
  existsb (fun n => is_always true (simplify n)) (snd (as_list p) ++ e) = false ->
  acc_step (ALists a e) p =
  match dropbang (map simplify (snd (as_list p) ++ e)) with
  | [] => AConst true
  | e3 => ALists [MAlways true] e3
  end.
Proof. exact star_alternative_wipes. Qed.
Print Assumptions C12_star_alternative.

(* ---- one command ----------------------------------------------------------------------------------- *)
Theorem C12_join_accumulates : forall new old v,
  always old = None -> always new = None ->
  let '(op, on) := as_list old in
  let '(np, nn) := as_list new in
  matches (simplify (join new old)) v =
  let pos := filter (fun p => negb (is_always true p)) (np ++ op) in
  sel (match pos with [] => [MAlways true] | _ => pos end) (nn ++ on) v.
Proof. exact join_accumulates. Qed.
Print Assumptions C12_join_accumulates.

(* a matcher given while the current one is `*` or `!` replaces it; `!` (or a literal `*`) given replaces too *)
Theorem C12_join_replaces : forall new old,
  (exists b, old = MAlways b) \/ (exists b, new = MAlways b) -> join new old = new.
Proof. exact join_replaces. Qed.
Print Assumptions C12_join_replaces.

(* ---- non-vacuity ------------------------------------------------------------------------------------ *)
Example C12_ex :
  forallb plain_optb (map parsed ex_texts) = true
  /\ mshow false (fold_left cmd ex_texts (MAlways true))
     = s2l "[wl_surface.attach(*), *.commit(*), [wl_pointer.*(*), *.*(*=wl_pointer)] ! *.enter(*), *.frame(*), *.motion(*)]"
  /\ fold_left cmd (ex_texts ++ [s2l "!"]) (MAlways true) = MAlways false
  /\ mshow false (fold_left cmd [s2l "wl_pointer ! .motion"; s2l "*"; s2l "wl_surface"] (MAlways true))
     = s2l "[wl_surface.*(*), *.*(*=wl_surface) ! *.motion(*)]".
Proof. vm_compute. repeat split. Qed.
