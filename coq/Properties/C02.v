(* C02 — every object mention is attributed to the right incarnation of its id. *)
From WD Require Import Base Wire Protocol Conn LetterId ConnProofs HistorySpecA HistorySpecB HistorySpecC.
Open Scope Z_scope.

(* invariant of every reachable table (ALL histories): per id the incarnations are numbered
   0,1,2,... in creation order, carry that id, and all but the last are dead *)
Theorem C02_table_invariant : forall P h, Inv (fst (conn_run P db_init h)).
Proof. exact reachable_inv. Qed.
Print Assumptions C02_table_invariant.

(* a mention (target, object argument, new-id argument, delete_id subject all go through
   resolve_ref / retrieve_latest) is attributed to the most recent incarnation of its id *)
Theorem C02_latest_incarnation : forall d id ty id' g, Inv d -> resolve_ref d id ty = Resolved id' g ->
  id' = id /\ exists l, db_get d id = Some l /\ N.to_nat g = (List.length l - 1)%nat
                        /\ lookup_obj d id g = Some (last l display_obj).
Proof. exact resolve_ref_latest. Qed.
Print Assumptions C02_latest_incarnation.

(* ... and is left unresolved only if the id has no incarnation or the printed interface
   contradicts the incarnation's *)
Theorem C02_unresolved_only_if : forall d id ty id' ty', resolve_ref d id ty = Unresolved id' ty' ->
  id' = id /\ ty' = ty /\
  (db_get d id = None \/ (exists l t ot, db_get d id = Some l /\ ty = Some t /\
                                      o_type (last l display_obj) = Some ot /\ str_match t ot = false)
                       \/ db_get d id = Some []).
Proof. exact resolve_ref_unresolved. Qed.
Print Assumptions C02_unresolved_only_if.

(* creation: exactly one new incarnation, numbered by the count of earlier ones (label letters
   n2l of that count, by C14 a,b,c,... in creation order), typed as given, nothing else changes
   except that a live server-range predecessor is destroyed *)
Theorem C02_creation_exact : forall d t id ty d', create_object d t id ty = Ok d' ->
  1 < id /\ created d d' id t ty.
Proof. exact create_object_spec. Qed.
Print Assumptions C02_creation_exact.

(* no other message creates: without a typed new-id argument the table keeps its ids and the
   number of incarnations of each *)
Theorem C02_only_new_id_creates : forall P d t m d' rm err args,
  resolve_msg P d t m = (d', rm, err) -> effective_args d m = Ok args ->
  forallb (fun a => negb (is_new_typed a)) args = true -> same_shape d d'.
Proof. exact only_new_id_creates. Qed.
Print Assumptions C02_only_new_id_creates.

(* no message retypes or relabels an existing incarnation *)
Theorem C02_no_retype_relabel : forall P h1 h2 id g o,
  lookup_obj (fst (conn_run P db_init h1)) id g = Some o ->
  exists o', lookup_obj (fst (conn_run P (fst (conn_run P db_init h1)) h2)) id g = Some o' /\
             o_id o' = o_id o /\ o_gen o' = o_gen o /\ o_type o' = o_type o /\ o_create o' = o_create o /\
             (o_alive o = false -> o_alive o' = false).
Proof. exact never_resurrected. Qed.
Print Assumptions C02_no_retype_relabel.

(* non-vacuity: id 3 created, destroyed, reused; the later mention goes to incarnation b *)
Definition ex_hist : list (Z * pmsg) :=
  [ (0, mkPmsg 0 (Some (s2l "wl_display")) 1 true (s2l "get_registry") [PObj 2 (Some (s2l "wl_registry")) true]);
    (1, mkPmsg 1 (Some (s2l "wl_registry")) 2 true (s2l "bind") [PInt 1; PStr (s2l "wl_compositor"); PInt 4; PObj 3 None true]);
    (2, mkPmsg 2 (Some (s2l "wl_display")) 1 false (s2l "delete_id") [PInt 3]);
    (3, mkPmsg 3 (Some (s2l "wl_registry")) 2 true (s2l "bind") [PInt 2; PStr (s2l "wl_shm"); PInt 1; PObj 3 None true]);
    (4, mkPmsg 4 (Some (s2l "wl_shm")) 3 false (s2l "format") [PInt 0]) ].
Example C02_ex : map m_obj (snd (conn_run [] db_init ex_hist)) =
                 [Resolved 1 0; Resolved 2 0; Resolved 1 0; Resolved 2 0; Resolved 3 1]
                 /\ id_label 3 1 = s2l "3b".
Proof. vm_compute. split; reflexivity. Qed.

(* ---- WHOLE HISTORIES against a table-free specification (Proofs/HistorySpecA-D.v) ---------------------------
   The history is read as a trace of events  ECre id type | EDel id  (trace P h, computed by counting, without
   the table): ncre tr id = number of creations of id, spec_ref tr id ty = Resolved id (ncre tr id - 1) when id
   was created (and the printed interface does not contradict the recorded one), Unresolved otherwise.
   Within one message: target first (against earlier messages only), then the display's delete_id, then the
   arguments left to right, a typed new id being attributed after its own creation.  For EVERY protocol
   database and EVERY history (no well-formedness hypothesis): *)
Theorem C02_attribution_is_creation_count : forall P h k t m rm,
  nth_error h k = Some (t, m) ->
  nth_error (snd (conn_run P db_init h)) k = Some rm ->
  let tr := trace P (firstn k h) in
  m_obj rm = spec_ref tr (p_id m) (p_type m) /\
  map arg_oref (m_args rm) = ms_args (spec_msg P tr m) /\
  m_destroyed rm = ms_destroyed (spec_msg P tr m).
Proof. exact attrib_refines. Qed.
Print Assumptions C02_attribution_is_creation_count.

(* the table holds exactly as many incarnations of an id as the history created *)
Theorem C02_table_counts : forall P h id,
  match db_get (fst (conn_run P db_init h)) id with
  | None => ncre (trace P h) id = 0%nat
  | Some l => List.length l = ncre (trace P h) id
  end.
Proof. exact table_counts. Qed.
Print Assumptions C02_table_counts.

(* on well-formed histories (no creation of a live client id: wf_hist, computed without the table) the
   trace is the naive one in which every typed new id reached counts as a creation *)
Theorem C02_wf_trace_is_naive : forall P h, wf_hist P h = true -> trace P h = ntrace P h.
Proof. exact wf_trace. Qed.
Print Assumptions C02_wf_trace_is_naive.
