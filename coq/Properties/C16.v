(* C16 — displayed times are the log's times relative to the first message.
   Times are exact decimals (microseconds); the last-digit rounding of binary64 is outside the model. *)
From WD Require Import Base Wire Protocol Conn Color LetterId Matcher MatcherParse Show Session.
From WD Require Import ControllerProofs SessionProofs.
Open Scope Z_scope.

(* adding a constant to every time in the log changes nothing that is shown (and nothing in the
   state except the absolute base time), for every event sequence *)
Theorem C16_shift_invariant : forall P c es T,
  run P (shift_top c T) (map (shift_event c) es) = (shift_top c (fst (run P T es)), snd (run P T es)).
Proof. exact run_shift. Qed.
Print Assumptions C16_shift_invariant.

(* the time attached to a message is its log time minus the log time of the first message *)
Theorem C16_first_is_zero : forall t, rel_time None t = (Some t, 0).
Proof. exact rel_time_first. Qed.
Theorem C16_relative : forall b t, rel_time (Some b) t = (Some b, t - b).
Proof. exact rel_time_later. Qed.

(* a separator giving the gap is printed in front of a shown message iff the previously shown
   message of the same run is more than one second older *)
Theorem C16_separator_iff : forall on ci d cn last m,
  let outs := fst (show_message on ci d cn last m) in
  let gap := match last with Some t => m_time m - t | None => 0 end in
  (1000000 < gap -> outs = [OOut (sep_line on gap); OMsg ci m (show_msg on d cn m)]) /\
  (gap < 1000000 -> outs = [OMsg ci m (show_msg on d cn m)]) /\
  (gap = 1000000 -> outs = [OMaybe (sep_line on gap); OMsg ci m (show_msg on d cn m)]) /\
  snd (show_message on ci d cn last m) = Some (m_time m).
Proof. exact separator_iff. Qed.
Print Assumptions C16_separator_iff.

Definition sy (t : Z) := mkPmsg t (Some (s2l "wl_display")) 1 true (s2l "sync") [PObj 2 (Some (s2l "wl_callback")) true].
Example C16_ex :
  let outs := snd (run [] (mkTop None (init_sess (MAlways true) (MAlways false) false true false))
                      [EMsg (s2l "x") (sy 5000000); EMsg (s2l "x") (sy 7500000)]) in
  map (fun l => List.length l) outs = [2%nat; 2%nat].   (* notice+message ; separator+message *)
Proof. vm_compute. reflexivity. Qed.
