(* C16 — displayed times are the log's times relative to the first message.
   Times are exact decimals (microseconds); the last-digit rounding of binary64 is outside the model. *)
From WD Require Import Base Wire Protocol Conn Color LetterId Matcher MatcherParse Show Session.
From WD Require Import ControllerProofs SessionProofs.
From WD Require Import IsolationRuns StreamSpecA SeparatorRuns.
Open Scope Z_scope.

(* adding a constant to every time in the log changes nothing that is shown (and nothing in the
   state except the absolute base time), for every event sequence *)
Theorem C16_shift_invariant : forall P c es T,
  run P (shift_top c T) (map (shift_event c) es) = (shift_top c (fst (run P T es)), snd (run P T es)).
Proof. exact run_shift. Qed.
Print Assumptions C16_shift_invariant.

(* the time attached to a message is its log time minus the log time of the first message *)
Theorem C16_first_is_zero : forall t, rel_time None t = (Some t, 0).
Proof. exact rel_time_first. Qed.
Theorem C16_relative : forall b t, rel_time (Some b) t = (Some b, t - b).
Proof. exact rel_time_later. Qed.

(* a separator giving the gap is printed in front of a shown message iff the previously shown
   message of the same run is more than one second older *)
Theorem C16_separator_iff : forall on ci d cn last m,
  let outs := fst (show_message on ci d cn last m) in
  let gap := match last with Some t => m_time m - t | None => 0 end in
  (1000000 < gap -> outs = [OOut (sep_line on gap); OMsg ci m (show_msg on d cn m)]) /\
  (gap < 1000000 -> outs = [OMsg ci m (show_msg on d cn m)]) /\
  (gap = 1000000 -> outs = [OMaybe (sep_line on gap); OMsg ci m (show_msg on d cn m)]) /\
  snd (show_message on ci d cn last m) = Some (m_time m).
Proof. exact separator_iff. Qed.
Print Assumptions C16_separator_iff.

Definition sy (t : Z) := mkPmsg t (Some (s2l "wl_display")) 1 true (s2l "sync") [PObj 2 (Some (s2l "wl_callback")) true].
Example C16_ex :
  let outs := snd (run [] (mkTop None (init_sess (MAlways true) (MAlways false) false true false))
                      [EMsg (s2l "x") (sy 5000000); EMsg (s2l "x") (sy 7500000)]) in
  map (fun l => List.length l) outs = [2%nat; 2%nat].   (* notice+message ; separator+message *)
Proof. vm_compute. reflexivity. Qed.

(* ---- WHOLE STREAMS (Proofs/SeparatorRuns.v), read off the output alone -------------------------------------------
   out = with_seps c None (strip out): removing the separators from the output and re-inserting, in front of each
   shown message, the separator demanded by the gap to the PREVIOUS shown message of the whole output (whatever
   connection, whatever hidden messages lie in between) gives the output back.  sep_for: gap > 1 s: the separator
   with that gap; gap = 1 s exactly: OMaybe (binary64 rounding decides in the tool); otherwise nothing; never
   before the first shown message.  Any filter, breakpoint, colour; message and text lines. *)
Theorem C16_separators_exact : forall P d st c u g evs, forallb live_event evs = true ->
  let out := List.concat (snd (run P (top0 d st c u g) evs)) in
  out = with_seps c None (strip out).
Proof. exact separators_exact. Qed.
Print Assumptions C16_separators_exact.

(* ... and nowhere else: every separator line stands immediately before a shown message and is that message's *)
Theorem C16_separator_only_before_item : forall P d st c u g evs pre x post,
  forallb live_event evs = true ->
  List.concat (snd (run P (top0 d st c u g) evs)) = pre ++ x :: post -> is_gap_sep x = true ->
  exists ci m l post', post = OMsg ci m l :: post' /\ sep_for c (last_after None pre) (m_time m) = [x] /\ ends_clean pre.
Proof. exact sep_only_before_item. Qed.
Print Assumptions C16_separator_only_before_item.

(* with commands: every listing is a run of its own (no separator before its first item), and a listing that
   showed something resets the live view's memory (the reading fixed in DESIGN.md) *)
Theorem C16_separators_with_commands : forall P evs T, forallb view_event evs = true ->
  cmds_exact (onT T) (klT T) evs (snd (run P T evs)).
Proof. exact separators_exact_cmds. Qed.
Print Assumptions C16_separators_with_commands.
