(* C01 — every libwayland debug line decodes to exactly the message it denotes. *)
From WD Require Import Base Wire Decode Render.
From WD Require Import DecodeProofs DecodeArgs DecodeSplit DecodeHeader DecodeRoundTrip DecodeSound.
Open Scope Z_scope.

(* every line libwayland's printer can emit for a message in the domain of C01 (both object
   syntaxes, both fixed-point renderings, array / array[N], both time-stamp formats and decimal
   marks - the dialect switches are independent -, with or without queue and connection tags,
   0..any number of arguments of every kind in every position, 32-bit integers, every 24.8 value,
   strings without double quote and backslash) is decoded into exactly the message it denotes *)
Theorem C01_decode_render : forall d m, wf_wmsg m = true -> message (render d m) = Ok (denote d m).
Proof. exact decode_render. Qed.
Print Assumptions C01_decode_render.

(* string arguments containing commas, brackets, parentheses or spaces never split or merge
   neighbouring arguments *)
Theorem C01_args_split_exact : forall d args, forallb wf_warg args = true ->
  split_args (intercalate (s2l ", ") (map (render_arg d) args)) = map (render_arg d) args.
Proof. exact split_render. Qed.
Print Assumptions C01_args_split_exact.

(* each argument kind is recognised as that kind (alternation order of the argument pattern) *)
Theorem C01_argument_kinds : forall d a, wf_warg a = true -> argument (render_arg d a) = Ok (denote_arg d a).
Proof. exact argument_render. Qed.
Print Assumptions C01_argument_kinds.

(* a line without `[` is never reported as a message *)
Theorem C01_no_bracket_no_message : forall out s pos,
  forallb (fun c => negb (N.eqb c 91)) s = true -> search out s pos = None.
Proof. exact no_bracket_no_message. Qed.
Print Assumptions C01_no_bracket_no_message.

Example C01_ex :
  let m := mkWmsg 1234567 (Some (s2l "Default Queue")) (Some (s2l "c0")) true (s2l "wl_surface") 3 (s2l "attach")
           [WObj (s2l "wl_buffer") 7; WFixed (-384); WStr (s2l "a, b) [x] } wl_a#1.f("); WNew None 9; WArray 8; WNil; WFd 5] in
  wf_wmsg m = true /\
  message (render (mkDialect true true true true false) m) = Ok (denote (mkDialect true true true true false) m) /\
  message (render (mkDialect false false false false true) m) = Ok (denote (mkDialect false false false false true) m).
Proof. vm_compute. repeat split. Qed.

(* ---- the converse (Proofs/DecodeSound.v): "a line that contains no such message is never reported as one" ----------
   Whenever the decoder reports a message, the line IS some text followed by
       [ ws digits (.|,) digits ws ]  ( {queue})?  ( <conn>)?  ("  -> " | " ")  type (@|#) digits . name ( args )
   with the closing parenthesis as the last character of the line, and every reported field is that piece of the
   text: the connection tag (or PARSED), the direction, the interface, the id (the decimal value of the digits, never
   0), the message name, the time (the digits read as milliseconds) and the arguments (the argument text split at
   top-level ", " and classified one by one).  Nothing is invented and no other line yields a message. *)
Theorem C01_reported_only_if_present : forall raw cid pm, message raw = Ok (cid, pm) ->
  exists p, raw = text_of p /\ pieces_ok p /\
    cid = (match pc_conn p with Some c => c | None => s2l "PARSED" end) /\
    p_sent pm = pc_sent p /\ p_type pm = Some (pc_type p) /\ p_id pm = Z.of_N (dec_value (pc_id p)) /\
    p_name pm = pc_name p /\ ts_micros (pc_ip p) (pc_fp p) = Ok (p_time pm) /\
    mapM argument (split_args (pc_args p)) = Ok (p_args pm) /\
    (p_id pm <> 0)%Z.
Proof. exact message_sound. Qed.
Print Assumptions C01_reported_only_if_present.

Theorem C01_no_shape_no_message : forall raw, (forall p, pieces_ok p -> raw <> text_of p) -> forall r, message raw <> Ok r.
Proof. exact no_shape_no_message. Qed.
Print Assumptions C01_no_shape_no_message.

(* non-vacuity: a line that is reported, its pieces, and a bracketed line that is not *)
Example C01_reports_a_message := message_reports_a_message.
Example C01_accepted_line_has_the_shape := accepted_line_has_the_shape.
Example C01_rejects_other_text := message_rejects_other_text.
