(* C01 placeholder until DecodeProofs lands *)
From WD Require Import Base Wire Decode Render.
Example C01_ex : message (render (mkDialect true true true true false)
   (mkWmsg 1234567 (Some (s2l "Default Queue")) (Some (s2l "c0")) true (s2l "wl_surface") 3 (s2l "attach")
           [WObj (s2l "wl_buffer") 7; WFixed (-384); WStr (s2l "a, b) [x]"); WNew None 9; WArray 8; WNil; WFd 5]))
  = Ok (denote (mkDialect true true true true false)
   (mkWmsg 1234567 (Some (s2l "Default Queue")) (Some (s2l "c0")) true (s2l "wl_surface") 3 (s2l "attach")
           [WObj (s2l "wl_buffer") 7; WFixed (-384); WStr (s2l "a, b) [x]"); WNew None 9; WArray 8; WNil; WFd 5])).
Proof. vm_compute. reflexivity. Qed.
