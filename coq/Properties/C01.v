(* C01 — every libwayland debug line decodes to exactly the message it denotes. *)
From WD Require Import Base Wire Decode Render.
From WD Require Import DecodeProofs DecodeArgs DecodeSplit DecodeHeader DecodeRoundTrip.
Open Scope Z_scope.

(* every line libwayland's printer can emit for a message in the domain of C01 (both object
   syntaxes, both fixed-point renderings, array / array[N], both time-stamp formats and decimal
   marks - the dialect switches are independent -, with or without queue and connection tags,
   0..any number of arguments of every kind in every position, 32-bit integers, every 24.8 value,
   strings without double quote and backslash) is decoded into exactly the message it denotes *)
Theorem C01_decode_render : forall d m, wf_wmsg m = true -> message (render d m) = Ok (denote d m).
Proof. exact decode_render. Qed.
Print Assumptions C01_decode_render.

(* string arguments containing commas, brackets, parentheses or spaces never split or merge
   neighbouring arguments *)
Theorem C01_args_split_exact : forall d args, forallb wf_warg args = true ->
  split_args (intercalate (s2l ", ") (map (render_arg d) args)) = map (render_arg d) args.
Proof. exact split_render. Qed.
Print Assumptions C01_args_split_exact.

(* each argument kind is recognised as that kind (alternation order of the argument pattern) *)
Theorem C01_argument_kinds : forall d a, wf_warg a = true -> argument (render_arg d a) = Ok (denote_arg d a).
Proof. exact argument_render. Qed.
Print Assumptions C01_argument_kinds.

(* a line without `[` is never reported as a message *)
Theorem C01_no_bracket_no_message : forall out s pos,
  forallb (fun c => negb (N.eqb c 91)) s = true -> search out s pos = None.
Proof. exact no_bracket_no_message. Qed.
Print Assumptions C01_no_bracket_no_message.

Example C01_ex :
  let m := mkWmsg 1234567 (Some (s2l "Default Queue")) (Some (s2l "c0")) true (s2l "wl_surface") 3 (s2l "attach")
           [WObj (s2l "wl_buffer") 7; WFixed (-384); WStr (s2l "a, b) [x] } wl_a#1.f("); WNew None 9; WArray 8; WNil; WFd 5] in
  wf_wmsg m = true /\
  message (render (mkDialect true true true true false) m) = Ok (denote (mkDialect true true true true false) m) /\
  message (render (mkDialect false false false false true) m) = Ok (denote (mkDialect false false false false true) m).
Proof. vm_compute. repeat split. Qed.
