(* C14 — labels are unambiguous.  Only statements closed by [exact]. *)
From WD Require Import Base LetterId LetterIdProofs.
Open Scope N_scope.

(* letters convert back to the same position, for every index, both cases *)
Theorem C14_l2n_n2l : forall caps n, letter_id_to_number (n2l caps n) = Ok (Z.of_N n).
Proof. exact l2n_n2l. Qed.
Print Assumptions C14_l2n_n2l.

(* every non-empty lower-case word is the label of exactly the index it converts to *)
Theorem C14_n2l_l2n : forall s k, s <> [] -> lower_letters s ->
  letter_id_to_number s = Ok k -> n2l false (Z.to_N k) = s /\ (0 <= k)%Z.
Proof. exact n2l_l2n. Qed.
Print Assumptions C14_n2l_l2n.

(* a, b, ..., z, aa, ab, ...: no gaps, no repeats *)
Theorem C14_first : n2l false 0 = [97].
Proof. exact n2l_zero. Qed.
Theorem C14_succ : forall n, n2l false (n + 1) = incr (n2l false n).
Proof. exact n2l_succ. Qed.
Print Assumptions C14_succ.
Theorem C14_suffix_inj : forall caps n m, n2l caps n = n2l caps m -> n = m.
Proof. exact n2l_inj. Qed.
Print Assumptions C14_suffix_inj.

(* distinct (id, generation) never share a displayed label *)
Theorem C14_label_inj : forall id1 g1 id2 g2, (0 <= id1)%Z -> (0 <= id2)%Z ->
  id_label id1 g1 = id_label id2 g2 -> id1 = id2 /\ g1 = g2.
Proof. exact label_inj. Qed.
Print Assumptions C14_label_inj.

(* distinct connection ordinals never share a name *)
Theorem C14_conn_names_distinct : forall n m, conn_name n = conn_name m -> n = m.
Proof. exact n2l_caps_inj. Qed.
Print Assumptions C14_conn_names_distinct.

(* non-vacuity: concrete labels *)
Example C14_ex1 : n2l false 27 = s2l "ab" /\ id_label 7 2 = s2l "7c" /\ conn_name 701 = s2l "ZZ".
Proof. vm_compute. repeat split. Qed.
