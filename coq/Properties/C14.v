(* C14 — labels are unambiguous and work as matchers.  Only statements closed by [exact]. *)
From WD Require Import Base LetterId LetterIdProofs Matcher MatcherParse Doc LabelMatcher.
Open Scope N_scope.

(* letters convert back to the same position, for every index, both cases *)
Theorem C14_l2n_n2l : forall caps n, letter_id_to_number (n2l caps n) = Ok (Z.of_N n).
Proof. exact l2n_n2l. Qed.
Print Assumptions C14_l2n_n2l.

(* every non-empty lower-case word is the label of exactly the index it converts to *)
Theorem C14_n2l_l2n : forall s k, s <> [] -> lower_letters s ->
  letter_id_to_number s = Ok k -> n2l false (Z.to_N k) = s /\ (0 <= k)%Z.
Proof. exact n2l_l2n. Qed.
Print Assumptions C14_n2l_l2n.

(* a, b, ..., z, aa, ab, ...: no gaps, no repeats *)
Theorem C14_first : n2l false 0 = [97].
Proof. exact n2l_zero. Qed.
Theorem C14_succ : forall n, n2l false (n + 1) = incr (n2l false n).
Proof. exact n2l_succ. Qed.
Print Assumptions C14_succ.
Theorem C14_suffix_inj : forall caps n m, n2l caps n = n2l caps m -> n = m.
Proof. exact n2l_inj. Qed.
Print Assumptions C14_suffix_inj.

(* distinct (id, generation) never share a displayed label *)
Theorem C14_label_inj : forall id1 g1 id2 g2, (0 <= id1)%Z -> (0 <= id2)%Z ->
  id_label id1 g1 = id_label id2 g2 -> id1 = id2 /\ g1 = g2.
Proof. exact label_inj. Qed.
Print Assumptions C14_label_inj.

(* distinct connection ordinals never share a name *)
Theorem C14_conn_names_distinct : forall n m, conn_name n = conn_name m -> n = m.
Proof. exact n2l_caps_inj. Qed.
Print Assumptions C14_conn_names_distinct.

(* a displayed label used as a matcher (`B: 7c`): the text parses (0, 1 or 2 blanks at every place the
   parser strips them; mixed placements: see DESIGN.md) and the matcher the user gets selects exactly
   the messages of that connection that are on the object, create it, destroy it or mention it.
   The object is identified by id AND incarnation: gen_of o = g. *)
Theorem C14_label_as_matcher : forall lay cname id g m,
  wf_word cname = true -> (0 <= id)%Z ->
  exists p, parse_simplify (Doc.render lay (label_expr cname id (n2l false g))) = Ok p
            /\ matches p (VM m) = conn_is cname m && involves id g m.
Proof. exact label_as_matcher. Qed.
Print Assumptions C14_label_as_matcher.

(* ... for every white-space placement (DocLay.Renders), in particular exactly as displayed: `B: 7c` *)
Theorem C14_displayed_label_as_matcher : forall cname id g m,
  wf_word cname = true -> (0 <= id)%Z ->
  exists p, parse_simplify (label_text_of cname id (n2l false g)) = Ok p
            /\ matches p (VM m) = conn_is cname m && involves id g m.
Proof. exact displayed_label_as_matcher. Qed.
Print Assumptions C14_displayed_label_as_matcher.
Example C14_displayed_label_text : label_text_of (s2l "B") 7 (n2l false 2) = s2l "B: 7c".
Proof. exact displayed_label_text. Qed.

(* `B:` selects exactly the messages of that connection *)
Theorem C14_conn_as_matcher : forall lay cname m,
  wf_word cname = true ->
  exists p, parse_simplify (Doc.render lay (conn_expr cname)) = Ok p /\ matches p (VM m) = conn_is cname m.
Proof. exact conn_as_matcher. Qed.
Print Assumptions C14_conn_as_matcher.
Theorem C14_conn_is_equality : forall w s, mem_char 42%N w = false -> word_matches w s = str_eqb w s.
Proof. exact word_matches_plain. Qed.
Example C14_label_text : Doc.render 0 (label_expr (s2l "B") 7 (n2l false 2)) = s2l "B:7c"
  /\ Doc.render 1 (label_expr (s2l "B") 7 (n2l false 2)) = s2l " B : 7c "
  /\ wf_word (conn_name 1) = true /\ wf_word (conn_name 700) = true.
Proof. exact label_text. Qed.

(* non-vacuity: concrete labels *)
Example C14_ex1 : n2l false 27 = s2l "ab" /\ id_label 7 2 = s2l "7c" /\ conn_name 701 = s2l "ZZ".
Proof. vm_compute. repeat split. Qed.
