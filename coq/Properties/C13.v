(* C13 — file, pipe and run modes show the same thing; run mode is transparent.  PARTIAL: the
   part a model can carry; pipes, threads, buffering and exit codes are explored, not proved. *)
From WD Require Import Base Runner RunnerProofs Session SessionProofs Utf8 Utf8ProofsA Utf8ProofsB Newlines NewlinesProofs.
Open Scope N_scope.

Theorem C13_spawn_transparent : forall args lib e,
  sp_argv (spawn_spec args lib e) = args /\
  env_get (sp_env (spawn_spec args lib e)) (s2l "WAYLAND_DEBUG") = Some [49] /\
  sp_stdout_inherited (spawn_spec args lib e) = true /\
  (forall k, k <> s2l "WAYLAND_DEBUG" -> k <> s2l "LD_LIBRARY_PATH" ->
             env_get (sp_env (spawn_spec args lib e)) k = env_get e k).
Proof. exact spawn_transparent. Qed.
Print Assumptions C13_spawn_transparent.

(* however the bytes are split into writes over time, the same lines are read, and no byte is lost *)
Theorem C13_chunking_irrelevant : forall c1 c2, List.concat c1 = List.concat c2 -> lines_of_chunks c1 = lines_of_chunks c2.
Proof. exact chunking_irrelevant. Qed.
Theorem C13_lines_lossless : forall s, List.concat (lines_of s) = s.
Proof. exact lines_concat. Qed.
Print Assumptions C13_lines_lossless.

(* the three modes feed the same lines to the same pipeline (Session.run): the display is a
   function of the line sequence alone *)
Theorem C13_display_is_a_fold : forall P es1 es2 T,
  run P T (es1 ++ es2) =
  let '(T1, o1) := run P T es1 in let '(T2, o2) := run P T1 es2 in (T2, o1 ++ o2).
Proof. exact run_app. Qed.

Theorem C13_exit_status : forall st eof, run_exit_status st eof = st.
Proof. exact exit_status_is_childs. Qed.

(* BYTES: the pipe is read as UTF-8 text with errors='replace' through an incremental decoder
   (Model/Utf8.v: CPython's bytes.decode('utf-8','replace') and its incremental decoder, compared with
   CPython on every run by harness/utf8_corr.py).  However the program's bytes are split into reads -
   also inside a multi-byte character, also for invalid bytes - the same text and the same lines result *)
Theorem C13_decode_chunks_concat : forall chunks, decode_chunks chunks = decode_utf8 (List.concat chunks).
Proof. exact decode_chunks_concat. Qed.
Print Assumptions C13_decode_chunks_concat.

Theorem C13_byte_chunking_irrelevant : forall c1 c2, List.concat c1 = List.concat c2 ->
  lines_of (decode_chunks c1) = lines_of (decode_chunks c2).
Proof. exact lines_chunking_irrelevant. Qed.
Print Assumptions C13_byte_chunking_irrelevant.

(* LINE ENDS: all three modes read with universal newlines (file: open(); run: os.fdopen(); pipe: sys.stdin
   reconfigured with newline=None since the fix of D14).  Model/Newlines.v is CPython's incremental newline
   decoder behind the UTF-8 decoder (compared with io.TextIOWrapper / IncrementalNewlineDecoder on every run by
   harness/newline_corr.py): a CRLF pair split across two reads is ONE line end, a bare CR ends a line, and the
   text read does not depend on the chunking *)
Theorem C13_read_text_chunks_concat : forall bchunks,
  read_text_chunks bchunks = translate (decode_utf8 (List.concat bchunks)).
Proof. exact read_text_chunks_concat. Qed.
Print Assumptions C13_read_text_chunks_concat.

Theorem C13_read_lines_chunking_irrelevant : forall c1 c2, List.concat c1 = List.concat c2 ->
  lines_of (read_text_chunks c1) = lines_of (read_text_chunks c2).
Proof. exact read_lines_chunking_irrelevant. Qed.
Print Assumptions C13_read_lines_chunking_irrelevant.

Theorem C13_no_cr_survives : forall s, ~ In 13%N (translate s).
Proof. exact translate_no_cr. Qed.

(* text written by the program arrives as written *)
Theorem C13_decode_encode : forall cps, Forall (fun c => is_scalar c = true) cps -> decode_utf8 (encode_utf8 cps) = cps.
Proof. exact decode_encode. Qed.
Print Assumptions C13_decode_encode.

Example C13_ex :
  lines_of_chunks [s2l "[1.0] a@1"; s2l ".b()"; [10]; s2l "tail"] = [s2l "[1.0] a@1.b()" ++ [10]; s2l "tail"] /\
  ld_path (Some (s2l "/x")) [(s2l "LD_LIBRARY_PATH", s2l "/y")] = s2l "/x:/y" /\
  ld_path None [(s2l "LD_LIBRARY_PATH", s2l "/y")] = s2l "/y" /\ ld_path (Some (s2l "/x")) [] = s2l "/x".
Proof. vm_compute. repeat split. Qed.
