(* C07 — argument names, nil types and enum labels come from the protocol descriptions. *)
From WD Require Import Base Protocol ProtocolProofs Shipped.
From WD Require Import ShippedDB.
From Coq Require Import Permutation.
Open Scope Z_scope.

(* ---- generic, unbounded ---------------------------------------------------------------------- *)
(* when an interface is described more than once the highest version wins ... *)
Theorem C07_load_max_version : forall fs name r,
  od_get pi_name (load_files fs) name = Some r ->
  In r (all_descriptions fs) /\ pi_name r = name /\
  forall i, In i (all_descriptions fs) -> pi_name i = name -> pi_version i <= pi_version r.
Proof. exact load_max_version. Qed.
Print Assumptions C07_load_max_version.

(* ... whatever the order of loading *)
Theorem C07_load_order_independent : forall l1 l2 name, Permutation l1 l2 ->
  option_map pi_version (od_get pi_name (fold_left load_iface l1 []) name) =
  option_map pi_version (od_get pi_name (fold_left load_iface l2 []) name).
Proof. exact load_order_independent. Qed.
Print Assumptions C07_load_order_independent.

(* argument i is labelled with the name of the i-th described argument; a nil object argument with
   the declared interface *)
Theorem C07_positional : forall db iface mname idx i m,
  (str_eqb iface (s2l "wl_registry") && str_eqb mname (s2l "bind")) = false ->
  od_get pi_name db iface = Some i -> od_get pm_name (pi_msgs i) mname = Some m ->
  get_arg_name db iface mname idx =
    match nth_error (pm_args m) idx with
    | Some a => Ok (Some (pa_name a))
    | None => get_arg_name db iface mname idx
    end /\
  (forall a, nth_error (pm_args m) idx = Some a -> look_up_interface db iface mname idx = Ok (pa_iface a)).
Proof. exact get_arg_positional. Qed.
Print Assumptions C07_positional.

Theorem C07_bind_exempt : forall db idx, get_arg db (s2l "wl_registry") (s2l "bind") idx = Ok None.
Proof. exact bind_exempt. Qed.

(* interfaces without a description: undecorated, never an error *)
Theorem C07_unknown_undecorated : forall db iface mname idx v, od_get pi_name db iface = None ->
  get_arg_name db iface mname idx = Ok None /\ look_up_interface db iface mname idx = Ok None /\
  look_up_enum db iface mname idx v = Ok [].
Proof. exact unknown_iface_undecorated. Qed.
Print Assumptions C07_unknown_undecorated.

(* enum annotation: exactly the entries equal to the value / whose bits intersect it, in
   declaration order; `(none)` / `INVALID ENUM VALUE` when there are none *)
Theorem C07_enum_decode_exact : forall db iface mname idx v a path en ls,
  get_arg db iface mname idx = Ok (Some a) -> pa_enum a = Some path -> get_enum db iface path = Some en ->
  look_up_enum db iface mname idx v = Ok ls ->
  let hits := filter (enum_entry_hits (pn_bitfield en) v) (pn_entries en) in
  (hits <> [] -> ls = map pe_name hits) /\
  (hits = [] -> ls = [if pn_bitfield en then s2l "(none)" else s2l "INVALID ENUM VALUE"]) /\
  (forall e, In e hits <-> In e (pn_entries en) /\
             (if pn_bitfield en then Z.land (pe_value e) v <> 0 else pe_value e = v)).
Proof. exact enum_decode_exact. Qed.
Print Assumptions C07_enum_decode_exact.

Theorem C07_literal_decimal : forall s c, forallb is_digit (c :: s) = true -> c <> 48%N ->
  int_base0 (c :: s) = Some (Z.of_N (dec_value (c :: s))).
Proof. exact int_base0_decimal. Qed.
Theorem C07_literal_hex : forall h, h <> [] -> int_base0 (48%N :: 120%N :: h) = option_map Z.of_N (base_value 16 0 h).
Proof. exact int_base0_hex. Qed.
Example C07_literals : parse_enum_value (s2l "0x10") = Ok 16 /\ parse_enum_value (s2l "7") = Ok 7 /\
                       parse_enum_value (s2l "1 << 4") = Ok 16 /\ parse_enum_value (s2l "3<<2") = Ok 12.
Proof. vm_compute. repeat split. Qed.

(* ---- finite, about the REGENERATED shipped data (whole shipped set, by computation) ----------- *)
Fixpoint nodup_names (l : list str) : bool :=
  match l with [] => true | x :: r => negb (existsb (str_eqb x) r) && nodup_names r end.

Definition raw_ifaces : list p_iface := List.concat shipped_files.

(* no message has two arguments with the same name (otherwise positions would shift) *)
Definition no_dup_args : bool :=
  forallb (fun i => forallb (fun m => nodup_names (map pa_name (pm_args m))) (pi_msgs i)) raw_ifaces.
(* a request and an event sharing a name within an interface have the same argument names *)
Definition no_msg_collisions : bool :=
  forallb (fun i => forallb (fun m => forallb (fun m' =>
     negb (str_eqb (pm_name m) (pm_name m')) ||
     list_eqb str_eqb (map pa_name (pm_args m)) (map pa_name (pm_args m'))) (pi_msgs i)) (pi_msgs i)) raw_ifaces.
(* every enum= reference (from XML or hand-applied) resolves to an enum that is loaded *)
Definition enums_resolve : bool :=
  forallb (fun i => forallb (fun m => forallb (fun a =>
     match pa_enum a with
     | None => true
     | Some p => match get_enum shipped_db (pi_name i) p with Some _ => true | None => false end
     end) (pm_args m)) (pi_msgs i)) shipped_db.
(* every hand-applied tag of load_all() names an existing argument (no KeyError path) *)
Fixpoint steps_resolve (db : pdb) (steps : list tag_step) : bool :=
  match steps with
  | [] => true
  | TagEnum t :: rest => tag_resolves db t && steps_resolve (apply_tag db t) rest
  | AddIface i :: rest => steps_resolve (od_set pi_name db i) rest
  end.

Theorem C07_shipped_db_wf :
  no_dup_args = true /\ no_msg_collisions = true /\ enums_resolve = true /\
  steps_resolve (load_files shipped_files) shipped_tag_steps = true.
Proof. vm_compute. repeat split. Qed.
Print Assumptions C07_shipped_db_wf.

Example C07_ex :
  get_arg_name shipped_db (s2l "wl_surface") (s2l "attach") 1 = Ok (Some (s2l "x")) /\
  look_up_interface shipped_db (s2l "wl_surface") (s2l "attach") 0 = Ok (Some (s2l "wl_buffer")) /\
  look_up_enum shipped_db (s2l "wl_pointer") (s2l "button") 2 272 = Ok [s2l "left"] /\
  look_up_enum shipped_db (s2l "wl_data_offer") (s2l "set_actions") 0 3 = Ok [s2l "copy"; s2l "move"] /\
  look_up_enum shipped_db (s2l "wl_data_offer") (s2l "set_actions") 0 0 = Ok [s2l "(none)"] /\
  look_up_enum shipped_db (s2l "wl_pointer") (s2l "button") 3 7 = Ok [s2l "INVALID ENUM VALUE"].
Proof. vm_compute. repeat split. Qed.
