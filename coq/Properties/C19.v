(* C19 — everything after -r/-g is forwarded verbatim; everything before is ours. *)
From WD Require Import Base Wire Conn Color Matcher MatcherParse Show Args ArgsProofs ArgsProofsB.
Open Scope N_scope.

(* the first marker wins; everything after it is forwarded verbatim and in order, whatever it
   looks like (further markers, our own option spellings); everything before stays with us *)
Theorem C19_first_marker_exact : forall pre a post id,
  Forall not_marker pre -> classify a = Exact id -> split_command (pre ++ a :: post) = Ok (pre, id, post).
Proof. exact split_first_marker_exact. Qed.
Print Assumptions C19_first_marker_exact.

(* marker as the last letter of a cluster: the cluster minus that letter stays with us *)
Theorem C19_first_marker_cluster : forall pre a post id a',
  Forall not_marker pre -> classify a = ClusterEnd id a' -> split_command (pre ++ a :: post) = Ok (pre ++ [a'], id, post).
Proof. exact split_first_marker_cluster. Qed.
Print Assumptions C19_first_marker_cluster.

Theorem C19_cluster_shape : forall body, body <> [] ->
  forallb (fun c => negb (N.eqb c 45) && negb (N.eqb c 103) && negb (N.eqb c 114)) body = true ->
  classify (45 :: body ++ [114]) = ClusterEnd [114] (45 :: body).
Proof. exact classify_cluster_r. Qed.
Print Assumptions C19_cluster_shape.

Theorem C19_marker_must_be_last : forall pre a post,
  Forall not_marker pre -> classify a = ClusterError -> split_command (pre ++ a :: post) = Raise RuntimeError [].
Proof. exact split_cluster_marker_must_be_last. Qed.

Theorem C19_no_marker : forall args, Forall not_marker args -> split_command args = Ok (args, [], []).
Proof. exact split_no_marker. Qed.

Theorem C19_spellings :
  classify (s2l "-r") = Exact [114] /\ classify (s2l "--run") = Exact [114] /\
  classify (s2l "-g") = Exact [103] /\ classify (s2l "--gdb") = Exact [103] /\
  classify (s2l "-Cr") = ClusterEnd [114] (s2l "-C") /\ classify (s2l "-Cpg") = ClusterEnd [103] (s2l "-Cp") /\
  classify (s2l "-rC") = ClusterError /\ classify (s2l "-f") = NotMarker /\ classify (s2l "--running") = NotMarker /\
  classify (s2l "prog") = NotMarker /\ classify (s2l "r") = NotMarker.
Proof. exact classify_spellings. Qed.

(* exactly one mode must be selected *)
Theorem C19_exactly_one_mode : forall id o m, select_mode id o = Some m ->
  let run := str_eqb id [114] in let gdb := str_eqb id [103] in
  let load := match o_load o with Some _ => true | None => false end in
  let pipe := o_pipe o in
  match m with
  | MRun => run = true /\ gdb = false /\ load = false /\ pipe = false
  | MGdbRunner => gdb = true /\ load = false /\ pipe = false
  | MLoad => gdb = false /\ run = false /\ load = true /\ pipe = false
  | MPipe => gdb = false /\ run = false /\ load = false /\ pipe = true
  end.
Proof. exact exactly_one_mode. Qed.
Print Assumptions C19_exactly_one_mode.

(* GDB mode: the instance started inside GDB receives exactly our words - each word, written as a
   Python literal into the `python ...` command, evaluates back to itself (all ASCII words, quotes
   and backslashes included) - and GDB receives the forwarded words verbatim *)
Theorem C19_gdb_argv_roundtrip : forall ws, Forall (fun w => forallb (fun c => c <? 128) w = true) ws ->
  map py_eval_literal (map quote_word ws) = map Some ws.
Proof. exact gdb_argv_roundtrip. Qed.
Print Assumptions C19_gdb_argv_roundtrip.
Theorem C19_gdb_forwarded_verbatim : forall ours forwarded, skipn 3 (gdb_argv ours forwarded) = forwarded.
Proof. exact gdb_forwarded_verbatim. Qed.

Example C19_ex :
  split_command [s2l "main.py"; s2l "-f"; s2l "wl_surface"; s2l "-Cr"; s2l "prog"; s2l "-g"; s2l "--run"; s2l "-f"]
  = Ok ([s2l "main.py"; s2l "-f"; s2l "wl_surface"; s2l "-C"], [114], [s2l "prog"; s2l "-g"; s2l "--run"; s2l "-f"])
  /\ py_eval_literal (quote_word (s2l "a\b""c'd")) = Some (s2l "a\b""c'd").
Proof. vm_compute. split; reflexivity. Qed.

(* ---- our own words: what argparse makes of them (option table of parse_args, Python 3.12) -------------- *)
(* word lists of exact spellings with separate values (the former extent of the model) are read as before *)
Theorem C19_exact_spellings : forall f ws o o', parse_opts_spec f ws o = Ok o' -> parse_opts ws o = Ok o'.
Proof. exact parse_opts_exact_spelling. Qed.
Print Assumptions C19_exact_spellings.

(* a cluster of single-letter flags sets exactly those flags; a trailing valued letter takes the rest of
   the word, or the next word, as its value *)
Theorem C19_cluster_flags : forall ls acts o, ls <> [] -> flag_letters ls acts ->
  exists o', argparse [45 :: ls] o = APOk o' /\ values_of o' = values_of o /\
             forall a, is_store_true a = true -> flag_of a o' = flag_of a o || existsb (action_eqb a) acts.
Proof. exact cluster_flags. Qed.
Print Assumptions C19_cluster_flags.
Theorem C19_cluster_attached_value : forall ls acts c a v o,
  flag_letters ls acts -> lookup [45; c] = Some a -> takes_value a = true ->
  v <> [] -> all_ascii v = true -> mem_char 61 v = false ->
  exists o', apply_flags acts o = Some o' /\ argparse [45 :: ls ++ c :: v] o = APOk (set_value a (norm_value v) o').
Proof. exact cluster_attached_value. Qed.
Theorem C19_cluster_next_value : forall ls acts c a v o,
  flag_letters ls acts -> lookup [45; c] = Some a -> takes_value a = true -> starts_with [45] v = false ->
  exists o', apply_flags acts o = Some o' /\ argparse [45 :: ls ++ [c]; v] o = APOk (set_value a v o').
Proof. exact cluster_next_value. Qed.

(* a unique prefix of a long option, anywhere among our words, behaves as the full spelling *)
Theorem C19_abbrev_unique : forall p s a pre post o,
  starts_with (s2l "--") p = true -> all_ascii p = true -> mem_char 61 p = false ->
  lookup p = None -> long_matches p = [(s, a)] ->
  starts_with (s2l "--") s = true -> all_ascii s = true -> lookup s = Some a ->
  argparse (pre ++ p :: post) o = argparse (pre ++ s :: post) o.
Proof. exact abbrev_unique. Qed.
Print Assumptions C19_abbrev_unique.

(* an unknown option or the "--" pseudo-argument anywhere, a stray word in front: never accepted *)
Theorem C19_unknown_is_error : forall ws w o, In w ws -> classify_word w = CUnknown ->
  (argparse ws o = APError \/ argparse ws o = APOut) /\ exists m, parse_opts ws o = Raise OutOfModel m.
Proof. exact unknown_is_error. Qed.
Print Assumptions C19_unknown_is_error.
Theorem C19_separator_is_error : forall ws o, In (s2l "--") ws -> argparse ws o = APError \/ argparse ws o = APOut.
Proof. exact separator_is_error. Qed.
Theorem C19_stray_first_is_error : forall w ws o, classify_word w = CArg ->
  argparse (w :: ws) o = APError \/ argparse (w :: ws) o = APOut.
Proof. exact stray_first_is_error. Qed.

Example C19_argparse_ex :
  argparse [s2l "-Cp"] opts0 = argparse [s2l "--no-color"; s2l "--pipe"] opts0
  /\ argparse [s2l "--fil"; s2l "x"; s2l "--sup"] opts0 = argparse [s2l "-f"; s2l "x"; s2l "--supress"] opts0
  /\ argparse [s2l "-Cfx"] opts0 = argparse [s2l "-C"; s2l "--filter=x"] opts0
  /\ argparse [s2l "--l"; s2l "x"] opts0 = APError /\ argparse [s2l "-R"] opts0 = APError /\ argparse [s2l "stray"] opts0 = APError
  /\ argparse [s2l "-f"; s2l "-x"] opts0 = APError /\ argparse [s2l "-p"; s2l "--"] opts0 = APError
  /\ (exists o, argparse [s2l "-f"; s2l "-5"] opts0 = APOk o /\ o_filter o = Some (s2l "-5"))
  /\ argparse [s2l "-h"] opts0 = APOut.
Proof. vm_compute. repeat split. eexists. split; reflexivity. Qed.
