(* C06 — the live view shows exactly the messages matching the current filter. *)
From WD Require Import Base Wire Protocol Conn Color LetterId Matcher MatcherParse Show Session.
From WD Require Import ControllerProofs SessionProofs StreamSpecA.
Open Scope Z_scope.

(* for every sequence of arriving messages, filter changes and selection changes: the message
   lines shown are exactly those that match the filter and selection in force when they arrive,
   each once, in arrival order; every message is recorded *)
Theorem C06_shown_exact : forall on es k,
  shown_msgs (snd (crun on k es)) = spec_shown (k_display k) (k_current k) es /\
  k_all (fst (crun on k es)) = k_all k ++ arrived es.
Proof. exact shown_exact. Qed.
Print Assumptions C06_shown_exact.

Theorem C06_one_message : forall on k ci d cn m k' outs stop,
  ctrl_on_message on k ci d cn m = (k', outs, stop) ->
  k_all k' = k_all k ++ [(ci, m)] /\
  k_display k' = k_display k /\ k_stop k' = k_stop k /\ k_current k' = k_current k /\
  shown_msgs outs = (if selected (k_current k) ci && matches (k_display k) (VM (view_msg d cn m))
                     then [(ci, m)] else []) /\
  stop = selected (k_current k) ci && matches (k_stop k) (VM (view_msg d cn m)).
Proof. exact ctrl_on_message_spec. Qed.
Print Assumptions C06_one_message.

(* no command - filter, connection, list, anything - changes what is recorded *)
Theorem C06_commands_keep_record : forall P T c,
  record_of (t_sess (fst (step P T (ECmd c)))) = record_of (t_sess T).
Proof. exact cmds_do_not_touch_record. Qed.
Print Assumptions C06_commands_keep_record.

Example C06_ex :
  let m1 := mkRmsg 0 (Resolved 1 0) true (s2l "sync") [] None in
  let m2 := mkRmsg 5 (Resolved 1 0) false (s2l "error") [] None in
  let k := mkCtrl (MAlways true) (MAlways false) None [] None in
  let es := [CMsg 0 db_init (s2l "A") m1;
             CDisplay (mk_pattern (MAlways true) (MAlways true) (MEqS (s2l "error")) (MAlways true));
             CMsg 0 db_init (s2l "A") m1; CMsg 0 db_init (s2l "A") m2; CSelect (Some 1%nat); CMsg 0 db_init (s2l "A") m2] in
  shown_msgs (snd (crun false k es)) = [(0%nat, m1); (0%nat, m2)] /\ List.length (k_all (fst (crun false k es))) = 4%nat.
Proof. vm_compute. split; reflexivity. Qed.

(* ---- THE WHOLE SESSION (Proofs/StreamSpecA.v): any start state, any events in between (commands of
   every kind, text lines, other connections' lines).  For the k-th event, a message line: what the
   live view shows for it is exactly  live_spec  of the controller state in force just before it and
   of what the line resolves to on its connection (arrival): shown iff it resolved, its connection
   passes the selection in force and it matches the filter in force; once. *)
Theorem C06_live_view_event : forall P T evs k id m,
  nth_error evs k = Some (EMsg id m) ->
  let Tk := fst (run P T (firstn k evs)) in
  exists o, nth_error (snd (run P T evs)) k = Some o /\
            shown_msgs o = live_spec (s_ctrl (t_sess Tk)) (arrival_top P Tk id m).
Proof. exact live_view_event. Qed.
Print Assumptions C06_live_view_event.

(* all message lines of a stream: each shown item once, in arrival order *)
Theorem C06_live_view_stream : forall P evs T,
  live_shown evs (snd (run P T evs)) = live_expected P T evs.
Proof. exact live_view_stream. Qed.
Print Assumptions C06_live_view_stream.
