(* C06 — the live view shows exactly the messages matching the current filter. *)
From WD Require Import Base Wire Protocol Conn Color LetterId Matcher MatcherParse Show Session.
From WD Require Import ControllerProofs SessionProofs.
Open Scope Z_scope.

(* for every sequence of arriving messages, filter changes and selection changes: the message
   lines shown are exactly those that match the filter and selection in force when they arrive,
   each once, in arrival order; every message is recorded *)
Theorem C06_shown_exact : forall on es k,
  shown_msgs (snd (crun on k es)) = spec_shown (k_display k) (k_current k) es /\
  k_all (fst (crun on k es)) = k_all k ++ arrived es.
Proof. exact shown_exact. Qed.
Print Assumptions C06_shown_exact.

Theorem C06_one_message : forall on k ci d cn m k' outs stop,
  ctrl_on_message on k ci d cn m = (k', outs, stop) ->
  k_all k' = k_all k ++ [(ci, m)] /\
  k_display k' = k_display k /\ k_stop k' = k_stop k /\ k_current k' = k_current k /\
  shown_msgs outs = (if selected (k_current k) ci && matches (k_display k) (VM (view_msg d cn m))
                     then [(ci, m)] else []) /\
  stop = selected (k_current k) ci && matches (k_stop k) (VM (view_msg d cn m)).
Proof. exact ctrl_on_message_spec. Qed.
Print Assumptions C06_one_message.

(* no command - filter, connection, list, anything - changes what is recorded *)
Theorem C06_commands_keep_record : forall P T c,
  record_of (t_sess (fst (step P T (ECmd c)))) = record_of (t_sess T).
Proof. exact cmds_do_not_touch_record. Qed.
Print Assumptions C06_commands_keep_record.

Example C06_ex :
  let m1 := mkRmsg 0 (Resolved 1 0) true (s2l "sync") [] None in
  let m2 := mkRmsg 5 (Resolved 1 0) false (s2l "error") [] None in
  let k := mkCtrl (MAlways true) (MAlways false) None [] None in
  let es := [CMsg 0 db_init (s2l "A") m1;
             CDisplay (mk_pattern (MAlways true) (MAlways true) (MEqS (s2l "error")) (MAlways true));
             CMsg 0 db_init (s2l "A") m1; CMsg 0 db_init (s2l "A") m2; CSelect (Some 1%nat); CMsg 0 db_init (s2l "A") m2] in
  shown_msgs (snd (crun false k es)) = [(0%nat, m1); (0%nat, m2)] /\ List.length (k_all (fst (crun false k es))) = 4%nat.
Proof. vm_compute. split; reflexivity. Qed.
