(* C11 — `list` returns exactly the recorded messages that match, with honest counts. *)
From WD Require Import Base Wire Protocol Conn Color LetterId Matcher MatcherParse Show Session.
From WD Require Import ControllerProofs SessionProofs IsolationRuns StreamSpecA SeparatorRuns SessionColorD ListRuns.
Open Scope Z_scope.

(* the scan behind `list`: exactly the matching recorded messages oldest first; with a cap N >= 1
   exactly the last N of them; matched + didn't match + not checked = recorded *)
Theorem C11_list_exact : forall s m (cap : option nat) msgs res d ns,
  (match cap with Some c => (0 < c)%nat | None => True end) ->
  scan_matching s m cap (rev msgs) [] 0 = (res, d, ns) ->
  let matching := filter (fun x => matches m (msg_view s x)) msgs in
  res = (match cap with Some c => lastn c matching | None => matching end) /\
  (List.length res + d + ns = List.length msgs)%nat.
Proof. exact list_exact. Qed.
Print Assumptions C11_list_exact.

(* listing never changes filter, breakpoints, selection or what is recorded *)
Theorem C11_readonly : forall s m cap s' o, show_messages s m cap = (s', o) ->
  s_conns s' = s_conns s /\ k_display (s_ctrl s') = k_display (s_ctrl s) /\
  k_stop (s_ctrl s') = k_stop (s_ctrl s) /\ k_current (s_ctrl s') = k_current (s_ctrl s) /\
  k_all (s_ctrl s') = k_all (s_ctrl s) /\ s_paused s' = s_paused s /\ s_quit s' = s_quit s.
Proof. exact show_messages_readonly. Qed.
Print Assumptions C11_readonly.

Example C11_ex :
  let mk t := (0%nat, mkRmsg t (Resolved 1 0) true (s2l "sync") [] None) in
  let s := init_sess (MAlways true) (MAlways false) false true false in
  scan_matching s (MAlways true) (Some 2%nat) (rev [mk 1; mk 2; mk 3]) [] 0 = ([mk 2; mk 3], 0%nat, 1%nat).
Proof. vm_compute. reflexivity. Qed.

(* ---- WHOLE SESSIONS (Proofs/ListRuns.v): any start state, any message / text / command events -------------------
   the record is exactly what the message lines delivered, in order; refused lines, text lines, commands add nothing *)
Theorem C11_record_is_delivered : forall P evs T, forallb log_event evs = true ->
  kall (fst (run P T evs)) = kall T ++ delivered P T evs.
Proof. exact record_is_delivered. Qed.
Print Assumptions C11_record_is_delivered.

(* the k-th event, a command line that resolves to `list` (any spelling: list, l, wl list ...): it shows exactly
   the last-N of the matching messages among those recorded BEFORE it (of the selected connection, or of all),
   oldest first; the counts add up to the size of the scope; nothing but the separator memory changes *)
Theorem C11_list_shows_delivered : forall P T evs k c a errs mm cap,
  forallb log_event evs = true -> idx_ok (t_sess T) ->
  nth_error evs k = Some (ECmd c) -> resolved c = Some (s2l "list", a) ->
  let s := at_ P T evs k in
  list_query s a = QList errs mm cap ->
  let scope := scope_run P T (firstn k evs) (k_current (s_ctrl s)) in
  let shown := lastn_opt (cap_of cap) (filter (fun x => matches mm (msg_view s x)) scope) in
  exists o, nth_error (snd (run P T evs)) k = Some o /\
    shown_msgs o = shown /\
    (shown = [] ->
       o = errs ++ [header_line (s_color s) mm; none_line (s_color s) (s_conns s) (List.length scope)]) /\
    (shown <> [] -> exists outs didnt ns,
       o = errs ++ [header_line (s_color s) mm] ++ outs ++ [counts_line (s_color s) (List.length shown) didnt ns] /\
       SeparatorRuns.strip outs = map (list_item s) shown /\
       (List.length shown + didnt + ns = List.length scope)%nat /\
       (ns = 0%nat \/ exists n, cap_of cap = Some n /\ (n <= List.length shown)%nat)).
Proof. exact list_shows_delivered. Qed.
Print Assumptions C11_list_shows_delivered.

(* listing changes nothing a later listing depends on: the same `list` twice, with only text lines and commands
   other than filter / connection in between, prints the same lines *)
Theorem C11_repeated_list : forall P T evs k k' c a,
  nth_error evs k = Some (ECmd c) -> nth_error evs k' = Some (ECmd c) -> (k < k')%nat ->
  resolved c = Some (s2l "list", a) ->
  (forall i, (k < i < k')%nat -> exists e, nth_error evs i = Some e /\ keeps_event e) ->
  exists o, nth_error (snd (run P T evs)) k = Some o /\ nth_error (snd (run P T evs)) k' = Some o.
Proof. exact repeated_list. Qed.
Print Assumptions C11_repeated_list.
