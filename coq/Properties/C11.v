(* C11 — `list` returns exactly the recorded messages that match, with honest counts. *)
From WD Require Import Base Wire Protocol Conn Color LetterId Matcher MatcherParse Show Session.
From WD Require Import ControllerProofs SessionProofs.
Open Scope Z_scope.

(* the scan behind `list`: exactly the matching recorded messages oldest first; with a cap N >= 1
   exactly the last N of them; matched + didn't match + not checked = recorded *)
Theorem C11_list_exact : forall s m (cap : option nat) msgs res d ns,
  (match cap with Some c => (0 < c)%nat | None => True end) ->
  scan_matching s m cap (rev msgs) [] 0 = (res, d, ns) ->
  let matching := filter (fun x => matches m (msg_view s x)) msgs in
  res = (match cap with Some c => lastn c matching | None => matching end) /\
  (List.length res + d + ns = List.length msgs)%nat.
Proof. exact list_exact. Qed.
Print Assumptions C11_list_exact.

(* listing never changes filter, breakpoints, selection or what is recorded *)
Theorem C11_readonly : forall s m cap s' o, show_messages s m cap = (s', o) ->
  s_conns s' = s_conns s /\ k_display (s_ctrl s') = k_display (s_ctrl s) /\
  k_stop (s_ctrl s') = k_stop (s_ctrl s) /\ k_current (s_ctrl s') = k_current (s_ctrl s) /\
  k_all (s_ctrl s') = k_all (s_ctrl s) /\ s_paused s' = s_paused s /\ s_quit s' = s_quit s.
Proof. exact show_messages_readonly. Qed.
Print Assumptions C11_readonly.

Example C11_ex :
  let mk t := (0%nat, mkRmsg t (Resolved 1 0) true (s2l "sync") [] None) in
  let s := init_sess (MAlways true) (MAlways false) false true false in
  scan_matching s (MAlways true) (Some 2%nat) (rev [mk 1; mk 2; mk 3]) [] 0 = ([mk 2; mk 3], 0%nat, 1%nat).
Proof. vm_compute. reflexivity. Qed.
