(* C05 — a matcher selects exactly the messages its documented meaning says.
   Status: the full statement (C05_full, below) is NOT yet proved; proved so far are the laws of the
   evaluator/simplifier it rests on.  See DESIGN.md section 9 C05. *)
From WD Require Import Base Wire Conn Color Matcher MatcherParse MatcherProofs.
Open Scope Z_scope.

(* a comma list matches when any alternative does and anything after `!` excludes, at every
   level, and constant folding does not change that *)
Theorem C05_list_meaning : forall pos neg v,
  matches (simplify (MList pos neg)) v =
  existsb (fun p => matches (simplify p) v) pos && negb (existsb (fun n => matches (simplify n) v) neg).
Proof. exact simplify_list_sem. Qed.
Print Assumptions C05_list_meaning.

(* name=value items: both parts must hold *)
Theorem C05_pair_meaning : forall a d b x y,
  matches (simplify (MPair a d b)) (VP x y) = matches (simplify a) x && matches (simplify b) y.
Proof. exact simplify_pair_sem. Qed.
Print Assumptions C05_pair_meaning.

(* a part that accepts everything / nothing is folded to that constant, otherwise kept *)
Theorem C05_wrap_meaning : forall k w v,
  matches (simplify (MWrap k w)) v =
  match always (simplify w) with Some b => b | None => matches (MWrap k (simplify w)) v end.
Proof. exact simplify_wrap_sem. Qed.
Print Assumptions C05_wrap_meaning.

(* the matcher the user gets is stable under further simplification *)
Theorem C05_simplify_idempotent : forall m, simplify (simplify m) = simplify m.
Proof. exact simplify_idempotent. Qed.
Print Assumptions C05_simplify_idempotent.

Theorem C05_star_all : forall v, matches (simplify (MAlways true)) v = true.
Proof. exact star_all. Qed.
Theorem C05_bang_none : forall v, matches (simplify (MAlways false)) v = false.
Proof. exact bang_none. Qed.

(* non-vacuity + the documented examples, computed through parse/simplify/matches *)
Definition ev (text : string) (m : vmsg) : option bool :=
  match parse_simplify (s2l text) with Ok p => Some (matches p (VM m)) | Raise _ _ => None end.
Definition surf (g : N) := mkVobj 3 (Some g) (Some (s2l "wl_surface")).
Definition m_commit := mkVmsg (Some (s2l "B")) (surf 1) (s2l "commit") [] None.
Definition m_attach := mkVmsg (Some (s2l "A")) (surf 0) (s2l "attach")
  [mkVarg (Some (s2l "buffer")) (VAObj (mkVobj 7 (Some 2%N) (Some (s2l "wl_buffer"))) false);
   mkVarg (Some (s2l "x")) (VAInt 0 None); mkVarg (Some (s2l "y")) (VAInt 0 None)] None.
Example C05_examples :
  ev "wl_surface" m_commit = Some true /\ ev "B: .commit" m_commit = Some true /\ ev "A: .commit" m_commit = Some false /\
  ev "3b" m_commit = Some true /\ ev "3a" m_commit = Some false /\ ev "(x=0, y=0)" m_attach = Some true /\
  ev "(x=0, y=1)" m_attach = Some false /\ ev "([x=0, y=1])" m_attach = Some true /\ ev "7c" m_attach = Some true /\
  ev "wl_s* ! .attach" m_attach = Some false /\ ev " [ wl_surface ] . [ attach ] ( [ x = 0 ] ) " m_attach = Some true.
Proof. vm_compute. repeat split. Qed.

(* KNOWN FINDING (D11): the full compositional statement is false of the faithful model at one
   point: an argument list whose items are all `*` and which has no exclusion is folded to
   `always` and then selects zero-argument messages, while the same list with an exclusion that
   hits nothing does not. *)
Example C05_args_star_refuted :
  ev "(*)" m_commit = Some true /\ ev "(* ! 12345)" m_commit = Some false.
Proof. vm_compute. split; reflexivity. Qed.
