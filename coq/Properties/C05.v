(* C05 — a matcher selects exactly the messages its documented meaning says.
   The documented language is WD.Doc: a syntax tree (dtop), its compositional meaning (denote, a
   transcription of matchers.md), its concrete text (render, any amount of white space) and its
   well-formedness (wf_top).  The tool is WD.MatcherParse.parse, WD.Matcher.simplify / matches, the
   transcription of core/matcher.py.  C05_main joins the two halves:
     T1 (C05_parse_render)          parse (render lay e) succeeds and simplifies to simplify (elab e)
     T2 (C05_simplified_means_doc)  simplify (elab e) selects exactly what denote e says
   Side conditions, each discussed in DESIGN.md:
     mok_top          string literals ASCII, no label word made of float characters only (the model
                      of Python float()/int() answers OutOfModel there; counterexamples cex_word, cex_str)
     bracket_depth_ok bracket nesting <= 60 (the model's stand-in for the interpreter's recursion limit)
     simple_side_ok   the message has an argument, or no argument list of the expression contains an
                      item that accepts everything: exactly the D11 family, where the tool and the
                      documentation genuinely differ (C05_args_star_refuted, C05_args_excl_star_refuted) *)
From WD Require Import Base Wire Conn Color Matcher MatcherParse Doc MatcherProofs.
From WD Require Import DocLay DocSemLevels DocSemTop DocParseE DocParseF DocLayC DocLayD.
Open Scope Z_scope.

Theorem C05_simplified_means_doc : forall e m, wf_top e = true -> side_condition e m ->
  matches (simplify (elab e)) (VM m) = denote e m.
Proof. exact simplified_means_doc. Qed.
Print Assumptions C05_simplified_means_doc.

Theorem C05_parse_render : forall lay e, wf_top e = true -> mok_top e = true -> bracket_depth_ok e ->
  exists m, parse (Doc.render lay e) = Ok m /\ simplify m = simplify (elab e).
Proof. exact parse_render. Qed.
Print Assumptions C05_parse_render.

(* the matcher the user gets from documented text (any white space) selects what the documentation says *)
Theorem C05_main : forall lay e m,
  wf_top e = true -> mok_top e = true -> bracket_depth_ok e -> simple_side_ok e m = true ->
  exists p, parse_simplify (Doc.render lay e) = Ok p /\ matches p (VM m) = denote e m.
Proof.
  intros lay e m W M D S. destruct (parse_render lay e W M D) as [p [Hp Hs]].
  exists (simplify p). split.
  - unfold parse_simplify. rewrite Hp. reflexivity.
  - rewrite Hs. apply simplified_means_doc_simple; assumption.
Qed.
Print Assumptions C05_main.

(* EVERY white-space placement: Renders e s says the text s is a way of writing e, each strippable
   position carrying its own run of white space (blanks, TABs, any str.isspace() character) *)
Theorem C05_parse_renders : forall e s, wf_top e = true -> mok_top e = true -> bracket_depth_ok e ->
  Renders e s -> exists m, parse s = Ok m /\ simplify m = simplify (elab e).
Proof. exact parse_renders. Qed.
Print Assumptions C05_parse_renders.

Theorem C05_main_any_layout : forall e s m,
  wf_top e = true -> mok_top e = true -> bracket_depth_ok e -> simple_side_ok e m = true -> Renders e s ->
  exists p, parse_simplify s = Ok p /\ matches p (VM m) = denote e m.
Proof.
  intros e s m W M D S R. destruct (parse_renders e s W M D R) as [p [Hp Hs]].
  exists (simplify p). split.
  - unfold parse_simplify. rewrite Hp. reflexivity.
  - rewrite Hs. apply simplified_means_doc_simple; assumption.
Qed.
Print Assumptions C05_main_any_layout.

(* added white space does not change the matcher the user gets *)
Theorem C05_whitespace_irrelevant_any : forall e s1 s2,
  wf_top e = true -> mok_top e = true -> bracket_depth_ok e -> Renders e s1 -> Renders e s2 ->
  exists p, parse_simplify s1 = Ok p /\ parse_simplify s2 = Ok p.
Proof.
  intros e s1 s2 W M D R1 R2.
  destruct (parse_renders e s1 W M D R1) as [p1 [H1 S1]]. destruct (parse_renders e s2 W M D R2) as [p2 [H2 S2]].
  exists (simplify p1). unfold parse_simplify. rewrite H1, H2. split; [reflexivity|]. cbn. rewrite S2, <- S1. reflexivity.
Qed.
Print Assumptions C05_whitespace_irrelevant_any.

(* the uniform layouts of Doc.render and the stream-driven renderer used by the harness are instances *)
Theorem C05_render_is_Renders : forall lay e, Renders e (Doc.render lay e).
Proof. exact render_uniform. Qed.
Theorem C05_render_l_is_Renders : forall l e, Renders e (render_l l e).
Proof. exact render_l_Renders. Qed.
Print Assumptions C05_render_l_is_Renders.

(* redundant brackets do not change what is selected: a bracketed single element means the element *)
Theorem C05_redundant_brackets : forall (t : dtext) s, den_text (TList [t] []) s = den_text t s.
Proof. intros. cbn [den_text]. unfold den_list. cbn [existsb negb]. rewrite orb_false_r, andb_true_r. reflexivity. Qed.

(* added white space does not change what is selected (uniform layouts) *)
Corollary C05_whitespace_irrelevant : forall lay1 lay2 e,
  wf_top e = true -> mok_top e = true -> bracket_depth_ok e ->
  exists p1 p2, parse_simplify (Doc.render lay1 e) = Ok p1 /\ parse_simplify (Doc.render lay2 e) = Ok p2 /\ p1 = p2.
Proof.
  intros lay1 lay2 e W M D.
  destruct (parse_render lay1 e W M D) as [p1 [H1 S1]]. destruct (parse_render lay2 e W M D) as [p2 [H2 S2]].
  exists (simplify p1), (simplify p2). unfold parse_simplify. rewrite H1, H2. repeat split; try reflexivity. congruence.
Qed.
Print Assumptions C05_whitespace_irrelevant.

(* a comma list matches when any alternative does and anything after `!` excludes, at every
   level, and constant folding does not change that *)
Theorem C05_list_meaning : forall pos neg v,
  matches (simplify (MList pos neg)) v =
  existsb (fun p => matches (simplify p) v) pos && negb (existsb (fun n => matches (simplify n) v) neg).
Proof. exact simplify_list_sem. Qed.
Print Assumptions C05_list_meaning.

(* name=value items: both parts must hold *)
Theorem C05_pair_meaning : forall a d b x y,
  matches (simplify (MPair a d b)) (VP x y) = matches (simplify a) x && matches (simplify b) y.
Proof. exact simplify_pair_sem. Qed.
Print Assumptions C05_pair_meaning.

(* a part that accepts everything / nothing is folded to that constant, otherwise kept *)
Theorem C05_wrap_meaning : forall k w v,
  matches (simplify (MWrap k w)) v =
  match always (simplify w) with Some b => b | None => matches (MWrap k (simplify w)) v end.
Proof. exact simplify_wrap_sem. Qed.
Print Assumptions C05_wrap_meaning.

(* the matcher the user gets is stable under further simplification *)
Theorem C05_simplify_idempotent : forall m, simplify (simplify m) = simplify m.
Proof. exact simplify_idempotent. Qed.
Print Assumptions C05_simplify_idempotent.

Theorem C05_star_all : forall v, matches (simplify (MAlways true)) v = true.
Proof. exact star_all. Qed.
Theorem C05_bang_none : forall v, matches (simplify (MAlways false)) v = false.
Proof. exact bang_none. Qed.

(* non-vacuity + the documented examples, computed through parse/simplify/matches *)
Definition ev (text : string) (m : vmsg) : option bool :=
  match parse_simplify (s2l text) with Ok p => Some (matches p (VM m)) | Raise _ _ => None end.
Definition surf (g : N) := mkVobj 3 (Some g) (Some (s2l "wl_surface")).
Definition m_commit := mkVmsg (Some (s2l "B")) (surf 1) (s2l "commit") [] None.
Definition m_attach := mkVmsg (Some (s2l "A")) (surf 0) (s2l "attach")
  [mkVarg (Some (s2l "buffer")) (VAObj (mkVobj 7 (Some 2%N) (Some (s2l "wl_buffer"))) false);
   mkVarg (Some (s2l "x")) (VAInt 0 None); mkVarg (Some (s2l "y")) (VAInt 0 None)] None.
Example C05_examples :
  ev "wl_surface" m_commit = Some true /\ ev "B: .commit" m_commit = Some true /\ ev "A: .commit" m_commit = Some false /\
  ev "3b" m_commit = Some true /\ ev "3a" m_commit = Some false /\ ev "(x=0, y=0)" m_attach = Some true /\
  ev "(x=0, y=1)" m_attach = Some false /\ ev "([x=0, y=1])" m_attach = Some true /\ ev "7c" m_attach = Some true /\
  ev "wl_s* ! .attach" m_attach = Some false /\ ev " [ wl_surface ] . [ attach ] ( [ x = 0 ] ) " m_attach = Some true.
Proof. vm_compute. repeat split. Qed.

(* KNOWN FINDING (D11): the full compositional statement is false of the faithful model at one
   point: an argument list whose items are all `*` and which has no exclusion is folded to
   `always` and then selects zero-argument messages, while the same list with an exclusion that
   hits nothing does not. *)
Example C05_args_star_refuted :
  ev "(*)" m_commit = Some true /\ ev "(* ! 12345)" m_commit = Some false.
Proof. vm_compute. split; reflexivity. Qed.

(* the same finding stated against the documented language, and its second shape: an exclusion that
   accepts everything, with no positive item, is folded to `never`, although a message without
   arguments has no argument to exclude.  Both lie outside simple_side_ok and nowhere else. *)
Definition e_star := TPats [mkDpat None (BFull OAny None (Some (AItems [IItem None (Some VAny)] [])))] [].
Definition e_excl_star := TPats [mkDpat None (BFull OAny None (Some (AItems [] [IItem None (Some VAny)])))] [].
Definition tool (e : dtop) (m : vmsg) : option bool :=
  match parse_simplify (Doc.render 0 e) with Ok p => Some (matches p (VM m)) | Raise _ _ => None end.
Example C05_args_star_refuted_doc :
  wf_top e_star = true /\ mok_top e_star = true /\ Doc.render 0 e_star = s2l "(*)" /\
  denote e_star m_commit = false /\ tool e_star m_commit = Some true /\ simple_side_ok e_star m_commit = false.
Proof. vm_compute. repeat split. Qed.
Example C05_args_excl_star_refuted :
  wf_top e_excl_star = true /\ mok_top e_excl_star = true /\ Doc.render 0 e_excl_star = s2l "(!*)" /\
  denote e_excl_star m_commit = true /\ tool e_excl_star m_commit = Some false /\ simple_side_ok e_excl_star m_commit = false.
Proof. vm_compute. repeat split. Qed.
(* the hypotheses of C05_main are satisfiable: with an argument present the tool follows the documentation *)
Example C05_main_nonvacuous :
  simple_side_ok e_star m_attach = true /\ tool e_star m_attach = Some (denote e_star m_attach) /\ denote e_star m_attach = true.
Proof. vm_compute. repeat split. Qed.
