(* C09 — GDB mode reports each libwayland closure faithfully, as log mode would. *)
From WD Require Import Base Wire Render Extract ExtractProofs Decode.
Open Scope Z_scope.

(* a well-formed closure (every signature over i u f s o n a h with version prefix and `?`
   markers, any number of arguments, arrays of any length anywhere) is reported with its name,
   direction, sender id, interface and one argument per entry of its signature, in order *)
Theorem C09_extract_exact : forall k target cl time, wf_closure cl = true ->
  exists args,
    extract_message k target cl time =
      Ok (mkPmsg time (match k with Sent => None | _ => Some target end) (cl_sender cl)
                 (match k with Sent => true | _ => false end) (cl_name cl) args) /\
    denote_args (codes (cl_sig cl)) (cl_types cl) (cl_args cl) = Some args.
Proof. exact extract_exact. Qed.
Print Assumptions C09_extract_exact.

(* in everything libwayland's own print-out of the closure retains, this agrees with what log mode
   decodes from that print-out (uses C01's decode_render); NULL strings included since the fix of D5 *)
Theorem C09_gdb_agrees_with_log : forall k target cl time wargs queue conn,
  wf_closure cl = true ->
  wire_args (codes (cl_sig cl)) (cl_types cl) (cl_args cl) = Some wargs ->
  let w := mkWmsg (Z.to_N time) queue conn (match k with Sent => true | _ => false end) target (cl_sender cl) (cl_name cl) wargs in
  wf_wmsg w = true -> 0 <= time ->
  exists gm lm cid,
    extract_message k target cl time = Ok gm /\ Decode.message (render cur w) = Ok (cid, lm) /\
    p_time gm = p_time lm /\ p_id gm = p_id lm /\ p_sent gm = p_sent lm /\ p_name gm = p_name lm /\
    (match k with Sent => True | _ => p_type gm = p_type lm end) /\
    map retained_arg (p_args gm) = map retained_arg (p_args lm).
Proof. exact gdb_agrees_with_log. Qed.
Print Assumptions C09_gdb_agrees_with_log.

Example C09_ex : extract_message RecvServer (s2l "wl_surface")
  (mkClosure (s2l "attach") (s2l "2?oaif") [Some (s2l "wl_buffer"); None; None; None]
             [CObj None; CArr [1; 2; 3]; CInt 5; CFixed 384] 7) 0
  = Ok (mkPmsg 0 (Some (s2l "wl_surface")) 7 false (s2l "attach")
               [PNull (Some (s2l "wl_buffer")); PArray (Some [1; 2; 3]); PInt 5; PFloat (mkDec 150000000 8)])
  /\ wf_closure (mkClosure (s2l "attach") (s2l "2?oaif") [Some (s2l "wl_buffer"); None; None; None]
             [CObj None; CArr [1; 2; 3]; CInt 5; CFixed 384] 7) = true.
Proof. vm_compute. split; reflexivity. Qed.

(* D5 (fixed in /repo): a NULL string is reported as a null argument by GDB mode, which is what log mode decodes
   from libwayland's print-out `nil` of the same closure *)
Example C09_null_string_agrees :
  extract_arg false (mkClosure [] (s2l "s") [None] [CStr None] 1) 115%N 0 = Ok (PNull None) /\
  denote_arg (mkDialect true true true true false) WNil = PNull None.
Proof. vm_compute. split; reflexivity. Qed.

(* ---- lifted to whole sessions (Proofs/CrossMode.v) ---------------------------------------------------------- *)
From WD Require Import Protocol Conn LetterId Matcher Session GdbProofs GdbRunsA IsolationRuns CrossMode.

(* the same messages of one connection, fed through GDB mode (closure by closure) and through log
   mode (line by line): the two recorded connections are equal records except for the identifier
   (libwayland address vs log tag) — same name, role, title, app id, object table with every
   incarnation and its creation/destruction times, same recorded messages with resolved targets
   and arguments.  Side condition: no message trips log mode's decoding switch (log_accepts; it
   follows from the shape condition wf_msg, C09_cross_mode_single_wf). *)
Theorem C09_cross_mode_single : forall P d st c u g g' a th id ms,
  ms <> [] -> log_accepts P ms = true ->
  exists cg,
    s_conns (t_sess (fst (run P (mkTop None (init_sess d st c u g)) (map (EGdbMsg a th) ms)))) = [cg] /\
    the_conn (t_sess (fst (run P (mkTop None (init_sess d st c u g')) (map (EMsg id) ms)))) id = Some (reid id cg) /\
    c_id cg = a /\ c_open cg = true /\ c_name cg = conn_name 0 /\
    List.length (c_msgs cg) = List.length ms.
Proof. exact cross_mode_single. Qed.
Print Assumptions C09_cross_mode_single.

Theorem C09_cross_mode_single_wf : forall P d st c u g g' a th id ms,
  ms <> [] -> forallb wf_msg ms = true ->
  exists cg,
    s_conns (t_sess (fst (run P (mkTop None (init_sess d st c u g)) (map (EGdbMsg a th) ms)))) = [cg] /\
    the_conn (t_sess (fst (run P (mkTop None (init_sess d st c u g')) (map (EMsg id) ms)))) id = Some (reid id cg).
Proof. exact cross_mode_single_wf. Qed.
Print Assumptions C09_cross_mode_single_wf.

(* several connections: ANY GDB-mode events (messages on any addresses and threads, destroys,
   commands) and ANY log in which the lines tagged id are exactly the messages of the GDB run's i-th
   lifetime, however interleaved with other tags, text and commands: the two connections have the same
   body (role, title, app id, object table, recorded messages) once time stamps are blanked (the two
   runs have different time origins) *)
Theorem C09_cross_mode_lifetime_wf : forall P d st c u gevs lev i l id,
  forallb gdb_event gevs = true ->
  nth_error (lifetimes gevs) i = Some l ->
  forallb log_event lev = true -> forallb wf_event lev = true ->
  only id lev = map (EMsg id) (lt_msgs l) ->
  exists cg cl,
    nth_error (s_conns (t_sess (fst (run P (mkTop None (init_sess d st c u true)) gevs)))) i = Some cg /\
    the_conn (t_sess (fst (run P (top0 d st c u false) lev))) id = Some cl /\
    untimed_body cg = untimed_body cl /\
    c_id cg = lt_addr l /\ c_id cl = id /\
    c_open cg = lt_open l /\ c_open cl = true /\
    c_name cg = conn_name (N.of_nat i).
Proof. exact cross_mode_lifetime_wf. Qed.
Print Assumptions C09_cross_mode_lifetime_wf.

(* non-vacuity: a two-lifetime GDB run against an interleaved three-tag log meets the hypotheses *)
Example C09_cross_mode_hyps := CrossExamples.ex_hypotheses.
(* and the side condition is exact: after an ill-typed delete_id log mode drops what GDB mode keeps *)
Example C09_cross_mode_switch_differs := CrossExamples.ex_switch_differs.
