(* C09 — GDB mode reports each libwayland closure faithfully, as log mode would. *)
From WD Require Import Base Wire Render Extract ExtractProofs Decode.
Open Scope Z_scope.

(* a well-formed closure (every signature over i u f s o n a h with version prefix and `?`
   markers, any number of arguments, arrays of any length anywhere) is reported with its name,
   direction, sender id, interface and one argument per entry of its signature, in order *)
Theorem C09_extract_exact : forall k target cl time, wf_closure cl = true ->
  exists args,
    extract_message k target cl time =
      Ok (mkPmsg time (match k with Sent => None | _ => Some target end) (cl_sender cl)
                 (match k with Sent => true | _ => false end) (cl_name cl) args) /\
    denote_args (codes (cl_sig cl)) (cl_types cl) (cl_args cl) = Some args.
Proof. exact extract_exact. Qed.
Print Assumptions C09_extract_exact.

(* in everything libwayland's own print-out of the closure retains, this agrees with what log mode
   decodes from that print-out (uses C01's decode_render); NULL strings excluded: known finding D5 *)
Theorem C09_gdb_agrees_with_log : forall k target cl time wargs queue conn,
  wf_closure cl = true -> no_null_string (cl_args cl) = true ->
  wire_args (codes (cl_sig cl)) (cl_types cl) (cl_args cl) = Some wargs ->
  let w := mkWmsg (Z.to_N time) queue conn (match k with Sent => true | _ => false end) target (cl_sender cl) (cl_name cl) wargs in
  wf_wmsg w = true -> 0 <= time ->
  exists gm lm cid,
    extract_message k target cl time = Ok gm /\ Decode.message (render cur w) = Ok (cid, lm) /\
    p_time gm = p_time lm /\ p_id gm = p_id lm /\ p_sent gm = p_sent lm /\ p_name gm = p_name lm /\
    (match k with Sent => True | _ => p_type gm = p_type lm end) /\
    map retained_arg (p_args gm) = map retained_arg (p_args lm).
Proof. exact gdb_agrees_with_log. Qed.
Print Assumptions C09_gdb_agrees_with_log.

Example C09_ex : extract_message RecvServer (s2l "wl_surface")
  (mkClosure (s2l "attach") (s2l "2?oaif") [Some (s2l "wl_buffer"); None; None; None]
             [CObj None; CArr [1; 2; 3]; CInt 5; CFixed 384] 7) 0
  = Ok (mkPmsg 0 (Some (s2l "wl_surface")) 7 false (s2l "attach")
               [PNull (Some (s2l "wl_buffer")); PArray (Some [1; 2; 3]); PInt 5; PFloat (mkDec 150000000 8)])
  /\ wf_closure (mkClosure (s2l "attach") (s2l "2?oaif") [Some (s2l "wl_buffer"); None; None; None]
             [CObj None; CArr [1; 2; 3]; CInt 5; CFixed 384] 7) = true.
Proof. vm_compute. split; reflexivity. Qed.

(* KNOWN FINDING (D5): for a NULL string GDB mode reports a string, log mode a null argument *)
Example C09_null_string_differs :
  extract_arg false (mkClosure [] (s2l "s") [None] [CStr None] 1) 115%N 0 = Ok (PStr (s2l "[null string]")) /\
  denote_arg (mkDialect true true true true false) WNil = PNull None.
Proof. vm_compute. split; reflexivity. Qed.
