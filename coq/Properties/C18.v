(* C18 — no input makes the tool fail with an unhandled error.  PARTIAL: theorems cover the
   exception sources the model contains; the rest is exploration (see DESIGN.md section 9 C18). *)
From WD Require Import Base Wire Conn Color LetterId Matcher MatcherParse Session.
From WD Require Import Decode TotalityProofs SessionProofs EofCloses NoRaiseA NoRaiseB.
From Coq Require Import Permutation.
Open Scope N_scope.

(* arbitrary text given as a matcher is either accepted or rejected with a diagnostic: the only
   exception that leaves matcher.parse is RuntimeError (OutOfModel / OutOfFuel are the model's own
   markers for text it does not cover / recursion deeper than the text is long) *)
Theorem C18_parse_raises_only_runtime_error : forall t, okx (parse t).
Proof. exact parse_raises_only_runtime_error. Qed.
Print Assumptions C18_parse_raises_only_runtime_error.

(* an accepted matcher can be evaluated on any message and printed: matches, simplify and mshow
   are total functions (Coq accepts them without fuel), so this holds by construction; non-vacuity: *)
Example C18_total_eval :
  match parse (s2l "[a, [b ! c]].x(1, y=[2, ""s""] ! nil)") with
  | Ok m => mshow false (simplify m) <> [] /\ matches (simplify m) (VS []) = false
  | Raise _ _ => False
  end.
Proof. vm_compute. split; [discriminate|reflexivity]. Qed.

(* arbitrary text typed as a command produces output or an error line and never changes what is
   recorded: process_command is total; its record-preservation is C06_commands_keep_record *)
Theorem C18_command_total : forall P T c,
  record_of (t_sess (fst (step P T (ECmd c)))) = record_of (t_sess T).
Proof. exact cmds_do_not_touch_record. Qed.

(* end of input reports closed connections only (every close notice is a connection the backend opened) *)
Theorem C18_eof_closes : forall s, Forall is_closed_notice (snd (log_eof s)).
Proof. exact eof_only_close_notices. Qed.

(* every connection that was opened is reported closed: after any log-mode event sequence (message
   lines, other lines, commands) end of input leaves no connection open, changes nothing else, and
   prints exactly one `Closed` notice per connection that was open (as a multiset: the code
   iterates a set) *)
Theorem C18_all_opened_are_closed : forall P evs d st c u g,
  Forall log_event evs ->
  let T0 := mkTop None (init_sess d st c u g) in
  let T1 := fst (run P T0 evs) in
  let r := run P T0 (evs ++ [EEof]) in
  s_conns (t_sess (fst r)) = map closef (s_conns (t_sess T1)) /\
  Forall (fun x => c_open x = false) (s_conns (t_sess (fst r))) /\
  exists o, snd r = snd (run P T0 evs) ++ [o] /\
            Permutation o (map (notice (s_color (t_sess T1))) (filter c_open (s_conns (t_sess T1)))).
Proof. exact run_then_eof_exact. Qed.
Print Assumptions C18_all_opened_are_closed.

(* the log-line decoder on ARBITRARY text: it succeeds, or raises RuntimeError (the line is passed through), or -
   exactly when an object id in the line is zero - AssertionError, which the blanket handler around it catches
   (traceback + error line, decoding switched off, the program goes on reading: O5 in DESIGN.md); never any other
   class (OutOfModel: text the model does not cover) *)
Theorem C18_decode_exception_classes : forall l, only msg_class (message l).
Proof. exact decode_exn_classes. Qed.
Print Assumptions C18_decode_exception_classes.

Theorem C18_decode_only_runtime_error : forall l, ~ zero_id_line l -> okx (message l).
Proof. exact decode_only_runtime_error. Qed.
Print Assumptions C18_decode_only_runtime_error.

Theorem C18_decode_assertion_only_zero_id : forall l m, message l = Raise AssertionError m -> zero_id_line l.
Proof. exact decode_assertion_only_zero_id. Qed.
Print Assumptions C18_decode_assertion_only_zero_id.

(* log mode, any start state, any message / text / command / end-of-input events: no exception ever escapes
   (no ORaise output line) *)
Theorem C18_log_run_never_raises : forall P evs T,
  Forall log_event evs -> Forall (Forall noraise) (snd (run P T evs)).
Proof. exact log_run_never_raises. Qed.
Print Assumptions C18_log_run_never_raises.

Example C18_ex : is_runtime_error (parse (s2l "(")) = true /\ is_runtime_error (parse (s2l "a.b.c")) = true /\
                 is_runtime_error (parse (s2l "")) = true /\ is_ok (parse (s2l "*")) = true.
Proof. vm_compute. repeat split. Qed.
