(* C15 — GDB mode follows libwayland's connections as they come and go. *)
From WD Require Import Base Wire Protocol Conn Color LetterId Matcher MatcherParse Show Session.
From WD Require Import ControllerProofs SessionProofs ConnMgrProofs GdbProofs.
Open Scope Z_scope.

(* destruction of any connection (known, already closed, never seen): no exception, False to GDB,
   at most that connection is closed, every other connection untouched, the address is forgotten *)
Theorem C15_destroy_tolerated : forall s id,
  let r := gdb_destroy s id in
  (exists pre, snd r = pre ++ [OStop false] /\ Forall is_closed_notice pre) /\
  gdb_get (s_gdb (fst r)) id = None /\
  others_untouched id s (fst r).
Proof. exact gdb_destroy_spec. Qed.
Print Assumptions C15_destroy_tolerated.

(* a message on one address never disturbs a connection at another address (any thread) *)
Theorem C15_others_undisturbed : forall P s id th rel m, others_untouched id s (fst (gdb_message P s id th rel m)).
Proof. exact gdb_message_isolation. Qed.
Print Assumptions C15_others_undisturbed.

(* opening (first message on an unknown address, in particular after a destroy of the same
   address): fresh connection, next name, empty object table; an older live namesake is closed and
   stays listed *)
Theorem C15_reopen_is_fresh : forall s id sv,
  let s0 := fst (close_conn s id) in
  s_conns (fst (open_conn s id sv)) =
    s_conns s0 ++ [mkConn id (conn_name (s_next s)) sv true None None db_init []] /\
  s_next (fst (open_conn s id sv)) = (s_next s + 1)%N /\
  snd (open_conn s id sv) = snd (close_conn s id) ++ [new_conn_line (s_color s) sv (conn_name (s_next s))].
Proof. exact open_conn_spec. Qed.

(* names stay the letter words in opening order across any gdb event sequence *)
Theorem C15_names : forall P es d st c u g,
  names_ok (t_sess (fst (run P (mkTop None (init_sess d st c u g)) es))).
Proof. intros. apply names_sequential. apply names_ok_init. Qed.
Print Assumptions C15_names.

Definition gr (t : Z) := mkPmsg t (Some (s2l "wl_display")) 1 true (s2l "get_registry") [PObj 2 (Some (s2l "wl_registry")) true].
Example C15_ex :
  let T := fst (run [] (mkTop None (init_sess (MAlways true) (MAlways false) false true true))
                    [EGdbDestroy (s2l "a"); EGdbMsg (s2l "a") 1 (gr 0); EGdbDestroy (s2l "a"); EGdbDestroy (s2l "a");
                     EGdbMsg (s2l "a") 2 (gr 9)]) in
  map (fun c => (c_name c, c_open c, List.length (c_msgs c))) (s_conns (t_sess T)) =
  [(s2l "A", false, 1%nat); (s2l "B", true, 1%nat)].
Proof. vm_compute. reflexivity. Qed.
