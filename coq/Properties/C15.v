(* C15 — GDB mode follows libwayland's connections as they come and go. *)
From WD Require Import Base Wire Protocol Conn Color LetterId Matcher MatcherParse Show Session.
From WD Require Import ControllerProofs SessionProofs ConnMgrProofs GdbProofs IsolationRuns GdbRunsA GdbRunsB.
Open Scope Z_scope.

(* destruction of any connection (known, already closed, never seen): no exception, False to GDB,
   at most that connection is closed, every other connection untouched, the address is forgotten *)
Theorem C15_destroy_tolerated : forall s id,
  let r := gdb_destroy s id in
  (exists pre, snd r = pre ++ [OStop false] /\ Forall is_closed_notice pre) /\
  gdb_get (s_gdb (fst r)) id = None /\
  others_untouched id s (fst r).
Proof. exact gdb_destroy_spec. Qed.
Print Assumptions C15_destroy_tolerated.

(* a message on one address never disturbs a connection at another address (any thread) *)
Theorem C15_others_undisturbed : forall P s id th rel m, others_untouched id s (fst (gdb_message P s id th rel m)).
Proof. exact gdb_message_isolation. Qed.
Print Assumptions C15_others_undisturbed.

(* opening (first message on an unknown address, in particular after a destroy of the same
   address): fresh connection, next name, empty object table; an older live namesake is closed and
   stays listed *)
Theorem C15_reopen_is_fresh : forall s id sv,
  let s0 := fst (close_conn s id) in
  s_conns (fst (open_conn s id sv)) =
    s_conns s0 ++ [mkConn id (conn_name (s_next s)) sv true None None db_init []] /\
  s_next (fst (open_conn s id sv)) = (s_next s + 1)%N /\
  snd (open_conn s id sv) = snd (close_conn s id) ++ [new_conn_line (s_color s) sv (conn_name (s_next s))].
Proof. exact open_conn_spec. Qed.

(* names stay the letter words in opening order across any gdb event sequence *)
Theorem C15_names : forall P es d st c u g,
  names_ok (t_sess (fst (run P (mkTop None (init_sess d st c u g)) es))).
Proof. intros. apply names_sequential. apply names_ok_init. Qed.
Print Assumptions C15_names.

(* ---- WHOLE RUNS (Proofs/GdbRunsA/B.v): any sequence of closure / connection-destroy / command events ------------
   lifetimes evs is read off the event list alone: for each address, the maximal runs of its messages between
   its destroys, in order of first message; a destroy of an address with no live lifetime changes nothing. *)

(* one connection per lifetime, in that order, named A, B, C, ...; open iff not destroyed since; every message
   of the lifetime recorded; role from the lifetime's first message *)
Theorem C15_conns_are_lifetimes : forall P d st c u evs,
  forallb gdb_event evs = true ->
  let cs := s_conns (t_sess (fst (run P (mkTop None (init_sess d st c u true)) evs))) in
  let L := lifetimes evs in
  List.length cs = List.length L /\
  map c_name cs = names_list (List.length L) /\
  map c_id cs = map lt_addr L /\
  map c_open cs = map lt_open L /\
  map c_server cs = map lt_sv L /\
  map (fun c => List.length (c_msgs c)) cs = map (fun l => List.length (lt_msgs l)) L.
Proof. exact gdb_conns_are_lifetimes. Qed.
Print Assumptions C15_conns_are_lifetimes.

(* an address is live iff the last event concerning it is a message *)
Theorem C15_live_iff_last_is_message : forall evs a, has_live a (lifetimes evs) = live_after a evs.
Proof. exact live_iff_last_is_message. Qed.

(* what is recorded for a lifetime (everything but name and time origin) is what its messages produce ALONE from
   a fresh state: a later connection at the same address has a fresh object table; other addresses, destroys of
   other or never-seen addresses, commands and thread numbers play no part.  Unconditional: gdb mode has no
   decoding switch. *)
Theorem C15_lifetime_is_solo : forall P d st c u evs i l th,
  forallb gdb_event evs = true ->
  nth_error (lifetimes evs) i = Some l ->
  let T0 := mkTop None (init_sess d st c u true) in
  exists cm cs,
    nth_error (s_conns (t_sess (fst (run P T0 evs)))) i = Some cm /\
    s_conns (t_sess (fst (run P T0 (solo_events th l)))) = [cs] /\
    untimed (conn_view cm) = untimed (conn_view cs) /\
    untimed (conn_view cm) = lt_view P l /\
    c_name cm = conn_name (N.of_nat i) /\ c_name cs = conn_name 0.
Proof. exact gdb_lifetime_is_solo. Qed.
Print Assumptions C15_lifetime_is_solo.

Theorem C15_threads_irrelevant : forall P d st c u g ob evs evs',
  forallb gdb_event evs = true ->
  map forget_thread evs = map forget_thread evs' ->
  s_conns (t_sess (fst (run P (mkTop ob (init_sess d st c u g)) evs))) =
  s_conns (t_sess (fst (run P (mkTop ob (init_sess d st c u g)) evs'))).
Proof. exact gdb_threads_irrelevant. Qed.
Print Assumptions C15_threads_irrelevant.

(* exceptions escaping to GDB: exactly the messages whose resolution against their own lifetime's table raises
   (delete_id of an id never created, ill-typed delete_id: outside libwayland-emittable traffic, O6); destroys
   and commands never raise *)
Theorem C15_raises_exactly : forall P d st c u evs,
  forallb gdb_event evs = true ->
  map raises (snd (run P (mkTop None (init_sess d st c u true)) evs)) = map opt_list (err_trace P [] evs).
Proof. exact gdb_run_raises_exactly. Qed.
Print Assumptions C15_raises_exactly.

Definition gr (t : Z) := mkPmsg t (Some (s2l "wl_display")) 1 true (s2l "get_registry") [PObj 2 (Some (s2l "wl_registry")) true].
Example C15_ex :
  let T := fst (run [] (mkTop None (init_sess (MAlways true) (MAlways false) false true true))
                    [EGdbDestroy (s2l "a"); EGdbMsg (s2l "a") 1 (gr 0); EGdbDestroy (s2l "a"); EGdbDestroy (s2l "a");
                     EGdbMsg (s2l "a") 2 (gr 9)]) in
  map (fun c => (c_name c, c_open c, List.length (c_msgs c))) (s_conns (t_sess T)) =
  [(s2l "A", false, 1%nat); (s2l "B", true, 1%nat)].
Proof. vm_compute. reflexivity. Qed.
