(* C03 — object lifetimes: alive from creation to delete_id, never resurrected. *)
From WD Require Import Base Wire Protocol Conn ConnProofs HistorySpecA HistorySpecB.
Open Scope Z_scope.

(* never alive again, on all histories *)
Theorem C03_never_resurrected : forall P h1 h2 id g o,
  lookup_obj (fst (conn_run P db_init h1)) id g = Some o ->
  exists o', lookup_obj (fst (conn_run P (fst (conn_run P db_init h1)) h2)) id g = Some o' /\
             o_id o' = o_id o /\ o_gen o' = o_gen o /\ o_type o' = o_type o /\ o_create o' = o_create o /\
             (o_alive o = false -> o_alive o' = false).
Proof. exact never_resurrected. Qed.
Print Assumptions C03_never_resurrected.

(* at most one object per id is alive at any time, on all histories *)
Theorem C03_at_most_one_alive : forall P h id g1 g2 o1 o2,
  lookup_obj (fst (conn_run P db_init h)) id g1 = Some o1 ->
  lookup_obj (fst (conn_run P db_init h)) id g2 = Some o2 ->
  o_alive o1 = true -> o_alive o2 = true -> g1 = g2.
Proof. exact at_most_one_alive. Qed.
Print Assumptions C03_at_most_one_alive.

(* an object is born alive, created at the time of the creating message *)
Theorem C03_born_alive : forall d t id ty d', create_object d t id ty = Ok d' ->
  1 < id /\ created d d' id t ty.
Proof. exact create_object_spec. Qed.

(* an object stops being alive only through the display's delete_id naming its id, or - for a
   server-range id - through that id being handed out again *)
Theorem C03_death_cause : forall P d t m d' rm err id g o o',
  Inv d -> resolve_msg P d t m = (d', rm, err) ->
  lookup_obj d id g = Some o -> o_alive o = true ->
  lookup_obj d' id g = Some o' -> o_alive o' = false ->
  is_delete_on_display d m = Some id \/
  (owned_by_server id = true /\ exists args, effective_args d m = Ok args /\ names_new id args = true).
Proof. exact death_cause. Qed.
Print Assumptions C03_death_cause.

(* the delete_id line is annotated with exactly the object it destroyed (the latest incarnation
   of the named id), which is dead afterwards ... *)
Theorem C03_annotation_sound : forall P d t m d' rm err r,
  Inv d -> resolve_msg P d t m = (d', rm, err) -> m_destroyed rm = Some r ->
  exists v l, is_delete_on_display d m = Some v /\ db_get d v = Some l /\
              r = Resolved v (N.of_nat (List.length l - 1)) /\
              exists o', lookup_obj d' v (N.of_nat (List.length l - 1)) = Some o' /\
                         o_alive o' = false /\ m_time rm = t.
Proof. exact destroyed_annotation_sound. Qed.
Print Assumptions C03_annotation_sound.

(* ... and no other line carries a destruction annotation *)
Theorem C03_annotation_only_delete : forall P d t m d' rm err,
  resolve_msg P d t m = (d', rm, err) -> is_delete_on_display d m = None -> m_destroyed rm = None.
Proof. exact destroyed_annotation_only_delete. Qed.
Print Assumptions C03_annotation_only_delete.

(* non-vacuity and the lifespan arithmetic on a concrete history: object 3a lives from t=1000
   to t=251000 (lifespan 250000 us), 3b is alive afterwards *)
Definition ex_hist : list (Z * pmsg) :=
  [ (0, mkPmsg 0 (Some (s2l "wl_display")) 1 true (s2l "get_registry") [PObj 2 (Some (s2l "wl_registry")) true]);
    (1000, mkPmsg 1 (Some (s2l "wl_registry")) 2 true (s2l "bind") [PInt 1; PStr (s2l "wl_compositor"); PInt 4; PObj 3 None true]);
    (251000, mkPmsg 2 (Some (s2l "wl_display")) 1 false (s2l "delete_id") [PInt 3]);
    (300000, mkPmsg 3 (Some (s2l "wl_registry")) 2 true (s2l "bind") [PInt 2; PStr (s2l "wl_shm"); PInt 1; PObj 3 None true]) ].
Example C03_ex :
  let r := conn_run [] db_init ex_hist in
  map m_destroyed (snd r) = [None; None; Some (Resolved 3 0); None] /\
  option_map (fun o => (o_alive o, o_create o, o_destroy o)) (lookup_obj (fst r) 3 0) = Some (false, 1000, Some 251000) /\
  option_map o_alive (lookup_obj (fst r) 3 1) = Some true.
Proof. vm_compute. repeat split. Qed.

(* ---- WHOLE HISTORIES against the table-free event trace (Proofs/HistorySpecA-D.v), every history ------------
   incarnation g of id is alive iff it is the (g+1)-th creation of id in the trace and nothing about id
   (no delete_id, no further creation) follows it *)
Theorem C03_alive_interval : forall P h id g,
  (exists o, lookup_obj (fst (conn_run P db_init h)) id g = Some o /\ o_alive o = true) <->
  (exists tr1 ty tr2, trace P h = tr1 ++ ECre id ty :: tr2 /\
                      ncre tr1 id = N.to_nat g /\ quiet id tr2 = true).
Proof. exact alive_interval. Qed.
Print Assumptions C03_alive_interval.

(* message by message: alive after k messages iff created by some message k0 < k and every message in
   between is quiet about id *)
Theorem C03_alive_interval_msgs : forall P h k id g, id <> 1%Z ->
  (exists o, lookup_obj (fst (conn_run P db_init (firstn k h))) id g = Some o /\ o_alive o = true) <->
  (exists k0, (k0 < k)%nat /\
              (ncre (trace_at P h k0) id <= N.to_nat g)%nat /\
              ncre (trace_at P h (S k0)) id = S (N.to_nat g) /\
              forall k1, (k0 < k1 < k)%nat -> quiet id (msg_evs P h k1) = true).
Proof. exact alive_interval_msgs. Qed.
Print Assumptions C03_alive_interval_msgs.

(* for client-range ids a life never ends by re-creation: between two creations there is a delete_id *)
Theorem C03_client_gap : forall P h tr1 id ty tr2 ty' tr3,
  trace P h = tr1 ++ ECre id ty :: tr2 ++ ECre id ty' :: tr3 ->
  owned_by_server id = false -> In (EDel id) tr2.
Proof. exact client_gap. Qed.
Print Assumptions C03_client_gap.

(* the destroyed annotation: present exactly on the display's delete_id(v) of an id that was created, and
   it names the latest incarnation of v *)
Theorem C03_annotation_exact : forall P h k t m rm,
  nth_error h k = Some (t, m) ->
  nth_error (snd (conn_run P db_init h)) k = Some rm ->
  let tr := trace P (firstn k h) in
  m_destroyed rm =
  match delete_subject m with
  | Some v => if (ncre tr v =? 0)%nat then None else Some (Resolved v (N.of_nat (ncre tr v - 1)))
  | None => None
  end.
Proof. exact annotation_exact. Qed.
Print Assumptions C03_annotation_exact.
