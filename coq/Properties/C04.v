(* C04 — messages are attributed to the right connection; connections are isolated. *)
From WD Require Import Base Wire Protocol Conn Color LetterId Matcher MatcherParse Show Session.
From WD Require Import LetterIdProofs SessionProofs ConnMgrProofs IsolationRuns.
Open Scope Z_scope.

(* connections are named A, B, C, ... in order of opening, in every reachable state, for any event
   sequence (log mode and gdb mode, commands, end of input) *)
Theorem C04_names_sequential : forall P es d st c u g,
  names_ok (t_sess (fst (run P (mkTop None (init_sess d st c u g)) es))).
Proof. intros. apply names_sequential. apply names_ok_init. Qed.
Print Assumptions C04_names_sequential.

Theorem C04_names_distinct : forall s i j ci cj,
  names_ok s -> nth_error (s_conns s) i = Some ci -> nth_error (s_conns s) j = Some cj ->
  c_name ci = c_name cj -> i = j.
Proof. exact names_distinct. Qed.
Print Assumptions C04_names_distinct.

(* a line tagged with one identifier leaves every connection with another identifier untouched:
   objects, incarnation letters, alive flags, role, recorded messages *)
Theorem C04_isolation : forall P s id rel m, others_untouched id s (fst (log_message P s id rel m)).
Proof. exact log_message_isolation. Qed.
Print Assumptions C04_isolation.

(* ... and what it does to its own connection is a function of that connection's state and the
   message alone (conn_step), whatever the neighbours are *)
Theorem C04_own_state_only : forall P s id rel m i, find_open s id = Some i ->
  let s' := fst (fst (fst (conn_message P s id rel m))) in
  (forall j, j <> i -> nth_error (s_conns s') j = nth_error (s_conns s) j) /\
  (forall c, nth_error (s_conns s) i = Some c -> nth_error (s_conns s') i = Some (conn_step P c rel m)).
Proof. exact conn_message_frame. Qed.
Print Assumptions C04_own_state_only.

(* WHOLE RUNS.  What is recorded for a connection (role, open flag, title, app id, the whole object
   table with incarnation numbers, types and alive flags, every recorded message with its resolved
   target, arguments and destroyed object; NOT its name, and the time stamps only up to the common
   time origin) in a log in which its lines are interleaved with any other connections' lines, text
   lines and commands equals what is recorded when its lines are read alone.  Side condition: no
   line of ANOTHER connection switched decoding off (the documented `except Exception: parse = False`
   path; corner_abort in IsolationRuns.v shows it is needed); implied by wf_event of every line. *)
Theorem C04_merged_is_solo : forall P d st c u g evs id,
  forallb log_event evs = true ->
  foreign_abort P id (top0 d st c u g) evs = false ->
  option_map untimed (view_of id (fst (run P (top0 d st c u g) evs))) =
  option_map untimed (view_of id (fst (run P (top0 d st c u g) (only id evs)))).
Proof. exact merged_is_solo. Qed.
Print Assumptions C04_merged_is_solo.

Theorem C04_merged_is_solo_wf : forall P d st c u g evs id,
  forallb log_event evs = true -> forallb wf_event evs = true ->
  option_map untimed (view_of id (fst (run P (top0 d st c u g) evs))) =
  option_map untimed (view_of id (fst (run P (top0 d st c u g) (only id evs)))).
Proof. exact merged_is_solo_wf. Qed.
Print Assumptions C04_merged_is_solo_wf.

(* time stamps included, when the solo log is read with the merged log's time origin *)
Theorem C04_merged_is_solo_timed : forall P d st c u g evs id t0,
  forallb log_event evs = true -> first_time evs = Some t0 ->
  foreign_abort P id (top0 d st c u g) evs = false ->
  view_of id (fst (run P (top0 d st c u g) evs)) =
  view_of id (fst (run P (mkTop (Some t0) (init_sess d st c u g)) (only id evs))).
Proof. exact merged_is_solo_timed. Qed.
Print Assumptions C04_merged_is_solo_timed.

(* two logs in which a connection has the same lines in the same order record the same for it,
   whatever else they contain and however it is interleaved *)
Theorem C04_interleaving_irrelevant : forall P d st c u g evs1 evs2 id,
  forallb log_event evs1 = true -> forallb log_event evs2 = true ->
  forallb wf_event evs1 = true -> forallb wf_event evs2 = true ->
  only id evs1 = only id evs2 ->
  option_map untimed (view_of id (fst (run P (top0 d st c u g) evs1))) =
  option_map untimed (view_of id (fst (run P (top0 d st c u g) evs2))).
Proof. exact interleaving_irrelevant_wf. Qed.
Print Assumptions C04_interleaving_irrelevant.

(* opening: a live connection with the same identifier is closed first and stays listed; the new
   one gets the next name, an empty object table, and exactly one `New ... connection` notice *)
Theorem C04_open_is_fresh : forall s id sv,
  let s0 := fst (close_conn s id) in
  s_conns (fst (open_conn s id sv)) =
    s_conns s0 ++ [mkConn id (conn_name (s_next s)) sv true None None db_init []] /\
  s_next (fst (open_conn s id sv)) = (s_next s + 1)%N /\
  snd (open_conn s id sv) = snd (close_conn s id) ++ [new_conn_line (s_color s) sv (conn_name (s_next s))].
Proof. exact open_conn_spec. Qed.
Print Assumptions C04_open_is_fresh.

(* end of input prints only `Closed ... connection` notices *)
Theorem C04_eof_only_close_notices : forall s, Forall is_closed_notice (snd (log_eof s)).
Proof. exact eof_only_close_notices. Qed.
Print Assumptions C04_eof_only_close_notices.

(* non-vacuity: two tagged connections interleaved, same object ids on both *)
Definition gr (t : Z) := mkPmsg t (Some (s2l "wl_display")) 1 true (s2l "get_registry") [PObj 2 (Some (s2l "wl_registry")) true].
Example C04_ex_runs :
  forallb log_event Examples.merged = true /\ forallb wf_event Examples.merged = true /\
  view_of Examples.y (fst (run [] Examples.T0 Examples.merged)) <> None /\ only Examples.y Examples.merged <> Examples.merged.
Proof. vm_compute. repeat split; discriminate. Qed.

Example C04_ex :
  let T := fst (run [] (mkTop None (init_sess (MAlways true) (MAlways false) false true false))
                    [EMsg (s2l "x") (gr 0); EMsg (s2l "y") (gr 5); EMsg (s2l "x") (gr 7); EEof]) in
  map (fun c => (c_name c, c_open c, List.length (c_msgs c))) (s_conns (t_sess T)) =
  [(s2l "A", false, 2%nat); (s2l "B", false, 1%nat)].
Proof. vm_compute. reflexivity. Qed.
