(* C04 — messages are attributed to the right connection; connections are isolated. *)
From WD Require Import Base Wire Protocol Conn Color LetterId Matcher MatcherParse Show Session.
From WD Require Import LetterIdProofs SessionProofs ConnMgrProofs.
Open Scope Z_scope.

(* connections are named A, B, C, ... in order of opening, in every reachable state, for any event
   sequence (log mode and gdb mode, commands, end of input) *)
Theorem C04_names_sequential : forall P es d st c u g,
  names_ok (t_sess (fst (run P (mkTop None (init_sess d st c u g)) es))).
Proof. intros. apply names_sequential. apply names_ok_init. Qed.
Print Assumptions C04_names_sequential.

Theorem C04_names_distinct : forall s i j ci cj,
  names_ok s -> nth_error (s_conns s) i = Some ci -> nth_error (s_conns s) j = Some cj ->
  c_name ci = c_name cj -> i = j.
Proof. exact names_distinct. Qed.
Print Assumptions C04_names_distinct.

(* a line tagged with one identifier leaves every connection with another identifier untouched:
   objects, incarnation letters, alive flags, role, recorded messages *)
Theorem C04_isolation : forall P s id rel m, others_untouched id s (fst (log_message P s id rel m)).
Proof. exact log_message_isolation. Qed.
Print Assumptions C04_isolation.

(* ... and what it does to its own connection is a function of that connection's state and the
   message alone (conn_step), whatever the neighbours are *)
Theorem C04_own_state_only : forall P s id rel m i, find_open s id = Some i ->
  let s' := fst (fst (fst (conn_message P s id rel m))) in
  (forall j, j <> i -> nth_error (s_conns s') j = nth_error (s_conns s) j) /\
  (forall c, nth_error (s_conns s) i = Some c -> nth_error (s_conns s') i = Some (conn_step P c rel m)).
Proof. exact conn_message_frame. Qed.
Print Assumptions C04_own_state_only.

(* opening: a live connection with the same identifier is closed first and stays listed; the new
   one gets the next name, an empty object table, and exactly one `New ... connection` notice *)
Theorem C04_open_is_fresh : forall s id sv,
  let s0 := fst (close_conn s id) in
  s_conns (fst (open_conn s id sv)) =
    s_conns s0 ++ [mkConn id (conn_name (s_next s)) sv true None None db_init []] /\
  s_next (fst (open_conn s id sv)) = (s_next s + 1)%N /\
  snd (open_conn s id sv) = snd (close_conn s id) ++ [new_conn_line (s_color s) sv (conn_name (s_next s))].
Proof. exact open_conn_spec. Qed.
Print Assumptions C04_open_is_fresh.

(* end of input prints only `Closed ... connection` notices *)
Theorem C04_eof_only_close_notices : forall s, Forall is_closed_notice (snd (log_eof s)).
Proof. exact eof_only_close_notices. Qed.
Print Assumptions C04_eof_only_close_notices.

(* non-vacuity: two tagged connections interleaved, same object ids on both *)
Definition gr (t : Z) := mkPmsg t (Some (s2l "wl_display")) 1 true (s2l "get_registry") [PObj 2 (Some (s2l "wl_registry")) true].
Example C04_ex :
  let T := fst (run [] (mkTop None (init_sess (MAlways true) (MAlways false) false true false))
                    [EMsg (s2l "x") (gr 0); EMsg (s2l "y") (gr 5); EMsg (s2l "x") (gr 7); EEof]) in
  map (fun c => (c_name c, c_open c, List.length (c_msgs c))) (s_conns (t_sess T)) =
  [(s2l "A", false, 2%nat); (s2l "B", false, 1%nat)].
Proof. vm_compute. reflexivity. Qed.
