(* C10 — GDB halts the program at a message iff it matches the breakpoint matcher. *)
From WD Require Import Base Wire Protocol Conn Color LetterId Matcher MatcherParse Show Session.
From WD Require Import ControllerProofs SessionProofs ConnMgrProofs GdbProofs.
From WD Require Import StreamSpecA GdbRunsA HaltRuns.
Open Scope Z_scope.

(* the boolean returned to GDB by the closure breakpoint's stop(): true exactly when the message
   belongs to the selected connection (or none is selected) and matches the breakpoint matcher in
   force; the pause flag is cleared before each message, so an earlier halt does not leak *)
Theorem C10_stop_iff : forall P s id th rel m s' o,
  gdb_message P s id th rel m = (s', o) ->
  (exists e pre, o = pre ++ [ORaise e]) \/
  (exists pre b, o = pre ++ [OStop b] /\ s_paused s' = b /\
     exists s2 i c d' rm,
       find_open s2 id = Some i /\ nth_error (s_conns s2) i = Some c /\ resolve_msg P (c_db c) rel m = (d', rm, None) /\
       k_current (s_ctrl s2) = k_current (s_ctrl s) /\ k_stop (s_ctrl s2) = k_stop (s_ctrl s) /\
       b = selected (k_current (s_ctrl s)) i && matches (k_stop (s_ctrl s)) (VM (view_msg d' (c_name c) rm))).
Proof. exact gdb_stop_iff. Qed.
Print Assumptions C10_stop_iff.

(* ... with a `Stopped at` notice exactly then (same flag as the shown/stop decision of C06) *)
Theorem C10_stop_flag : forall on k ci d cn m k' outs stop,
  ctrl_on_message on k ci d cn m = (k', outs, stop) ->
  stop = selected (k_current k) ci && matches (k_stop k) (VM (view_msg d cn m)).
Proof. intros. eapply ctrl_on_message_spec. eassumption. Qed.

(* once halted: a line resolving to `resume` -> continue, to `quit` -> quit, anything else
   (other command, unknown, ambiguous, malformed) -> neither: the program stays halted *)
Theorem C10_after_command : forall s cmd,
  let s0 := set_pause s true (s_quit s) in
  gdb_command s cmd =
  (fst (process_command command_fuel s0 cmd),
   snd (process_command command_fuel s0 cmd) ++ after_command (s_quit s) (resolves_to (s_color s) cmd)).
Proof. exact gdb_command_spec. Qed.
Print Assumptions C10_after_command.

Theorem C10_command_effect : forall s name arg,
  pause_of (fst (run_command s name arg)) =
  if str_eqb name (s2l "resume") then (false, s_quit s)
  else if str_eqb name (s2l "quit") then (s_paused s, true)
  else pause_of s.
Proof. exact run_command_pause. Qed.
Print Assumptions C10_command_effect.

(* the prompt of file and run mode keeps prompting until a line resolves to resume or quit *)
Theorem C10_prompt_loop : forall s inputs, s_quit s = false ->
  let '(_, _, n, e) := run_until_stopped s inputs in (n, e) = prompts_needed (s_color s) inputs.
Proof. exact prompt_loop. Qed.
Print Assumptions C10_prompt_loop.

Example C10_ex :
  resolves_to false (s2l "r") = Some (s2l "resume") /\ resolves_to false (s2l " wl  res") = Some (s2l "resume") /\
  resolves_to false (s2l "q") = Some (s2l "quit") /\ resolves_to false (s2l "list") = Some (s2l "list") /\
  resolves_to false (s2l "x") = None /\
  prompts_needed false [s2l "list"; s2l "zzz"; s2l "filter wl_surface"; s2l "w r"; s2l "quit"] = (4%nat, false).
Proof. vm_compute. repeat split. Qed.

(* ---- WHOLE RUNS (Proofs/HaltRuns.v): any start state, any gdb events (closures, destroys, commands) -------------
   the k-th event, a closure: its output ends with the value handed to GDB, which is `halt` iff the message was
   delivered on its connection, that connection passes the selection in force and the message matches the
   breakpoint matcher in force (the state reached by the first k events); a `Stopped at` notice naming exactly
   that message precedes it iff it halts; everything before is quiet.  A message whose resolution raises gets
   no verdict at all (the exception escapes stop(): O6). *)
Theorem C10_halt_event : forall P T evs k id th m,
  nth_error evs k = Some (EGdbMsg id th m) ->
  let Tk := fst (run P T (firstn k evs)) in
  let kc := s_ctrl (t_sess Tk) in
  exists o, nth_error (snd (run P T evs)) k = Some o /\
    match gdb_arrival_top P Tk id th m with
    | GDelivered ci cn d rm =>
        let b := selected (k_current kc) ci && matches (k_stop kc) (VM (view_msg d cn rm)) in
        exists pre, quiet pre = true /\
          o = pre ++ (if b then [stop_notice (s_color (t_sess Tk)) d rm] else []) ++ [OStop b]
    | GRaised e => exists pre, quiet pre = true /\ o = pre ++ [ORaise e]
    end.
Proof. exact halt_event. Qed.
Print Assumptions C10_halt_event.

(* all halt decisions of a run, in order *)
Theorem C10_halt_stream : forall P evs T, halt_trace evs (snd (run P T evs)) = halt_expected P T evs.
Proof. exact halt_stream. Qed.
Print Assumptions C10_halt_stream.
