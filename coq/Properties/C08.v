(* C08 — no input line is lost, reordered or altered; output keeps pace with input. *)
From WD Require Import Base Wire Protocol Conn Color LetterId Matcher MatcherParse Show Session.
From WD Require Import ControllerProofs SessionProofs.
Open Scope Z_scope.

(* the run is a left fold: output for a line is produced by that line's step, before the next
   line is consumed; hence the output of a prefix is a prefix of the output *)
Theorem C08_prefix_closed : forall P es1 es2 T,
  run P T (es1 ++ es2) =
  let '(T1, o1) := run P T es1 in let '(T2, o2) := run P T1 es2 in (T2, o1 ++ o2).
Proof. exact run_app. Qed.
Print Assumptions C08_prefix_closed.

(* input that stops after any n lines yields the first n output items of the full run followed
   only by what end-of-input prints ... *)
Theorem C08_truncation : forall P es n T,
  snd (run P T (firstn n es ++ [EEof])) =
  firstn n (snd (run P T es)) ++ [snd (step P (fst (run P T (firstn n es))) EEof)].
Proof. exact truncation. Qed.
Print Assumptions C08_truncation.

(* ... which is nothing but connection-closed notices *)
Theorem C08_eof_only_close_notices : forall s, Forall is_closed_notice (snd (log_eof s)).
Proof. exact eof_only_close_notices. Qed.

(* a line that is not a message: exactly one item carrying its own text, omitted exactly under
   --supress, and no state change *)
Theorem C08_text_passthrough : forall P T t,
  step P T (EText t) =
  (T, if s_unprocessed (t_sess T)
      then [OOut [Txt (color (s_color (t_sess T)) symbol_color (s2l "       |  " ++ t))]] else []).
Proof. exact text_passthrough. Qed.
Print Assumptions C08_text_passthrough.

(* a message line with filter `*`, no selection: exactly one message item (after the
   connection-opened notice, if any) *)
Theorem C08_message_item : forall on k ci d cn m k' outs stop,
  k_display k = MAlways true -> k_current k = None ->
  ctrl_on_message on k ci d cn m = (k', outs, stop) -> shown_msgs outs = [(ci, m)].
Proof.
  intros on k ci d cn m k' outs stop Hd Hc H.
  destruct (ctrl_on_message_spec _ _ _ _ _ _ _ _ _ H) as (_ & _ & _ & _ & Hs & _).
  rewrite Hs, Hd, Hc. reflexivity.
Qed.
Print Assumptions C08_message_item.
