(* C08 — no input line is lost, reordered or altered; output keeps pace with input. *)
From WD Require Import Base Wire Protocol Conn Color LetterId Matcher MatcherParse Show Session.
From WD Require Import ControllerProofs SessionProofs IsolationRuns StreamSpecA StreamSpecB.
Open Scope Z_scope.

(* the run is a left fold: output for a line is produced by that line's step, before the next
   line is consumed; hence the output of a prefix is a prefix of the output *)
Theorem C08_prefix_closed : forall P es1 es2 T,
  run P T (es1 ++ es2) =
  let '(T1, o1) := run P T es1 in let '(T2, o2) := run P T1 es2 in (T2, o1 ++ o2).
Proof. exact run_app. Qed.
Print Assumptions C08_prefix_closed.

(* input that stops after any n lines yields the first n output items of the full run followed
   only by what end-of-input prints ... *)
Theorem C08_truncation : forall P es n T,
  snd (run P T (firstn n es ++ [EEof])) =
  firstn n (snd (run P T es)) ++ [snd (step P (fst (run P T (firstn n es))) EEof)].
Proof. exact truncation. Qed.
Print Assumptions C08_truncation.

(* ... which is nothing but connection-closed notices *)
Theorem C08_eof_only_close_notices : forall s, Forall is_closed_notice (snd (log_eof s)).
Proof. exact eof_only_close_notices. Qed.

(* a line that is not a message: exactly one item carrying its own text, omitted exactly under
   --supress, and no state change *)
Theorem C08_text_passthrough : forall P T t,
  step P T (EText t) =
  (T, if s_unprocessed (t_sess T)
      then [OOut [Txt (color (s_color (t_sess T)) symbol_color (s2l "       |  " ++ t))]] else []).
Proof. exact text_passthrough. Qed.
Print Assumptions C08_text_passthrough.

(* a message line with filter `*`, no selection: exactly one message item (after the
   connection-opened notice, if any) *)
Theorem C08_message_item : forall on k ci d cn m k' outs stop,
  k_display k = MAlways true -> k_current k = None ->
  ctrl_on_message on k ci d cn m = (k', outs, stop) -> shown_msgs outs = [(ci, m)].
Proof.
  intros on k ci d cn m k' outs stop Hd Hc H.
  destruct (ctrl_on_message_spec _ _ _ _ _ _ _ _ _ H) as (_ & _ & _ & _ & Hs & _).
  rewrite Hs, Hd, Hc. reflexivity.
Qed.
Print Assumptions C08_message_item.

(* ---- WHOLE STREAMS (Proofs/StreamSpecA/B.v) -------------------------------------------------------------
   items1 drops connection-opened notices and time-gap separators and keeps everything else;
   ref_items is what the property demands, computed by a reference resolver that knows nothing of the
   controller, the notices or the output code: per line, in input order,
     text line                                  -> its passthrough item (nothing under --supress)
     message line that resolves                 -> the message item of exactly that message
     message line whose resolution is refused   -> the refusal text in passthrough shape
     (RuntimeError: e.g. delete_id of an id never created - outside well-formed streams)
     message line raising another exception     -> error lines, decoding goes off (excluded by wf_event)
   Filter `*`, no selection, breakpoint `!`. *)
Theorem C08_one_item_per_line : forall P on u g evs,
  forallb line_event evs = true ->
  map items1 (snd (run P (top0 (MAlways true) (MAlways false) on u g) evs)) = ref_items P on u R0 evs.
Proof. exact one_item_per_line. Qed.
Print Assumptions C08_one_item_per_line.

(* nothing lost, duplicated or reordered: exactly one item per line for well-shaped lines *)
Theorem C08_exactly_one_item : forall P on g evs,
  forallb line_event evs = true -> forallb wf_event evs = true ->
  Forall (fun l => List.length l = 1%nat)
         (map items1 (snd (run P (top0 (MAlways true) (MAlways false) on true g) evs))).
Proof. exact exactly_one_item_wf. Qed.
Print Assumptions C08_exactly_one_item.

(* --supress removes exactly the passed-through items *)
Theorem C08_supress_removes_exactly_passthrough : forall P on g evs,
  forallb line_event evs = true ->
  map items1 (snd (run P (top0 (MAlways true) (MAlways false) on false g) evs)) =
  map drop_pass (map items1 (snd (run P (top0 (MAlways true) (MAlways false) on true g) evs))).
Proof. exact supress_removes_exactly_passthrough. Qed.
Print Assumptions C08_supress_removes_exactly_passthrough.
