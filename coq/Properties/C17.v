(* C17 — colour is presentation only. *)
From WD Require Import Base Wire Conn Color LetterId Show MatcherParse.
From WD Require Import Protocol Matcher Session Shipped.
From WD Require Import ColorProofs ShowProofs ConnMgrProofs Help HelpProofs.
From WD Require Import SessionColorA SessionColorB SessionColorJ SessionColorC SessionColorD SessionColorE SessionColorG SessionColorH SessionColorI SessionColorK SessionColorL.
Open Scope N_scope.

(* with colour disabled color() adds nothing *)
Theorem C17_color_off : forall code s, color false code s = s.
Proof. exact color_off. Qed.

(* with colour enabled what color() adds is exactly what no_color removes, whatever follows *)
Theorem C17_strip_color : forall code s k, code_ok code -> esc_free s ->
  no_color (color true code s ++ k) = s ++ no_color k.
Proof. exact strip_color. Qed.
Print Assumptions C17_strip_color.

Theorem C17_palette_ok :
  code_ok timestamp_color /\ code_ok object_type_color /\ code_ok object_id_color /\ code_ok message_color /\
  code_ok symbol_color /\ code_ok int_color /\ code_ok int_symbol_color /\ code_ok float_color /\ code_ok string_color /\
  code_ok fd_color /\ code_ok array_color /\ code_ok null_color /\ code_ok good_color /\ code_ok bad_color /\
  code_ok alert_color /\ code_ok white_color.
Proof. exact palette_ok. Qed.

(* message lines (every argument kind, enum labels, destroyed annotation with lifespan, unresolved
   objects, connection prefix, time column): coloured, stripped = uncoloured, and the uncoloured
   line contains no escape sequence; strings are printed through repr, which never emits ESC *)
Theorem C17_message_lines : forall fmt d cn m,
  (forall b z, esc_free (fmt b z)) -> esc_free cn -> msg_clean d m ->
  Strips (line_str fmt (show_msg true d cn m)) (line_str fmt (show_msg false d cn m)).
Proof. exact show_msg_strips. Qed.
Print Assumptions C17_message_lines.

Theorem C17_repr_never_emits_esc : forall s, esc_free (py_repr s).
Proof. exact py_repr_esc_free. Qed.
Print Assumptions C17_repr_never_emits_esc.

(* pasted back: matcher.parse looks only at the colour-stripped text *)
Theorem C17_parse_ignores_colour : forall t t', no_color t = no_color t' -> parse t = parse t'.
Proof. intros t t' H. unfold parse. rewrite H. reflexivity. Qed.
Print Assumptions C17_parse_ignores_colour.

(* ---- THE WHOLE SESSION (SessionColorA..L) -------------------------------------------------------------
   LineStrips l1 l0: same kind of output line, same payload, and the two texts are equal once escape
   sequences are removed, whatever follows them; LineExact: no_color (coloured text) = the plain text,
   character for character. *)

(* any protocol data, any log lines, any commands (list, filter, breakpoint, matcher, connection, help,
   unknown ones), log mode and gdb mode, any start-up matchers: the output with colour and the output
   without are, line by line, equal after stripping.  No hypothesis. *)
Theorem C17_session : forall P display stop un ig es,
  Forall2 (Forall2 LineStrips)
    (snd (run P (mkTop None (init_sess display stop true un ig)) es))
    (snd (run P (mkTop None (init_sess display stop false un ig)) es)).
Proof. exact C17_session_color_invariant. Qed.
Print Assumptions C17_session.

(* with colour disabled the tool emits no escape sequence of its own: if the input pieces it echoes
   (non-message lines, command texts, interface/message names, titles) are ESC-free, so is every output line *)
Theorem C17_off_no_escape : forall P, pdb_clean P -> forall es T, TOff T -> Forall ev_off_ok es ->
  TOff (fst (run P T es)) /\ Forall (Forall oline_clean) (snd (run P T es)).
Proof. exact C17_off_emits_no_escape. Qed.
Print Assumptions C17_off_no_escape.

(* both halves, over the shipped protocol descriptions (regenerated from /repo on every run):
   coloured output, stripped, IS the uncoloured output *)
Theorem C17_session_exact : forall display stop un ig es,
  mclean display -> mclean stop -> Forall ev_off_ok es ->
  Forall2 (Forall2 LineExact)
    (snd (run shipped_db (mkTop None (init_sess display stop true un ig)) es))
    (snd (run shipped_db (mkTop None (init_sess display stop false un ig)) es)).
Proof. exact C17_session_color_exact_shipped. Qed.
Print Assumptions C17_session_exact.

Theorem C17_shipped_names_clean : pdb_clean shipped_db.
Proof. exact shipped_clean. Qed.

Example C17_ex :
  no_color (color true good_color (s2l "new ") ++ color true object_type_color (s2l "wl_surface") ++ color true object_id_color (s2l "@3a"))
  = s2l "new wl_surface@3a" /\
  parse (color true bad_color (s2l "wl_surface") ++ s2l ".commit") = parse (s2l "wl_surface.commit").
Proof. vm_compute. split; reflexivity. Qed.

(* ---- pasted back as a COMMAND (Proofs/PastedCommands.v) ---------------------------------------------------------
   A typed line and its colour-stripped text resolve to the same command, the same argument text and the same
   output lines (and hence run identically, C17_pasted_process_command), wherever the selection put the sequences:
   around or inside words, before the first word (a sequence followed by a blank used to trip an assertion: D13,
   repaired in /repo), after the last one.  Hypotheses, both necessary (PastedCommands.ex_settled_needed,
   ex_fuel_needed): stripping once leaves nothing to strip (true of everything the tool itself coloured: no_color is
   a single pass), and the line does not exceed the model's fuel of 200 prefix words. *)
From WD Require Import PastedCommands.
Theorem C17_pasted_command : forall fuel on c,
  no_color (no_color c) = no_color c ->
  has_oom (fst (resolve_cmd fuel on c)) = false ->
  resolve_cmd fuel on (no_color c) = resolve_cmd fuel on c.
Proof. exact pasted_command. Qed.
Print Assumptions C17_pasted_command.

Theorem C17_pasted_process_command : forall fuel s c,
  no_color (no_color c) = no_color c ->
  has_oom (fst (resolve_cmd fuel (s_color s) c)) = false ->
  process_command fuel s (no_color c) = process_command fuel s c.
Proof. exact pasted_process_command. Qed.
Print Assumptions C17_pasted_process_command.

Example C17_pasted_ex := ex_reset_list.
Example C17_pasted_hyps := ex_reset_list_hyps.

(* the fuel hypothesis made concrete (Proofs/CommandFuel.v): a line needs at most one step per word, so any typed line of
   fewer than 200 words (in particular: shorter than 200 characters) is within the fuel the model's step function uses;
   the bound is tight (CommandFuel.ex_words_tight) *)
From WD Require Import CommandFuel.
Theorem C17_pasted_command_words : forall fuel on c,
  no_color (no_color c) = no_color c -> (count_words c < fuel)%nat ->
  resolve_cmd fuel on (no_color c) = resolve_cmd fuel on c.
Proof. exact pasted_command_words. Qed.
Print Assumptions C17_pasted_command_words.

Theorem C17_pasted_process_command_200 : forall s c,
  no_color (no_color c) = no_color c -> (List.length c < command_fuel)%nat ->
  process_command command_fuel s (no_color c) = process_command command_fuel s c.
Proof. exact pasted_process_command_200. Qed.
Print Assumptions C17_pasted_process_command_200.

(* ---- the help screen (Model/Help.v, Proofs/HelpProofs.v) ----------------------------------------------
   help_text turns the text of matchers.md into the screen of `help matcher`; the model takes the FILE TEXT.
   For every text without an escape character: the coloured screen, stripped, IS the plain screen, which
   contains no escape character; and whether a screen is produced at all never depends on the switch. *)
Theorem C17_help_screen : forall text, esc_free text ->
  match help_text true text, help_text false text with
  | Ok a, Ok b => no_color a = b /\ esc_free b
  | Raise e _, Raise e' _ => e = e'
  | _, _ => False
  end.
Proof. exact help_text_color_invariant. Qed.
Print Assumptions C17_help_screen.

Theorem C17_help_outcome : forall text,
  match help_text true text, help_text false text with
  | Ok _, Ok _ => True
  | Raise e _, Raise e' _ => e = e'
  | _, _ => False
  end.
Proof. exact help_text_outcome_colour_independent. Qed.
Print Assumptions C17_help_outcome.

(* the second column starts at column 32 of the plain screen: the padding is computed from the plain cell *)
Theorem C17_help_column : forall m0 m1, (List.length m0 <= 32)%nat ->
  exists pad, help_row false m0 m1 = m0 ++ pad ++ m1 /\ List.length (m0 ++ pad) = 32%nat.
Proof. exact help_row_column. Qed.
Print Assumptions C17_help_column.

(* the SHIPPED matchers.md (Gen/ShippedHelp.v, regenerated from /repo on every run): `help matcher` produces a
   screen with both settings - no table line of the file fails the row pattern, the file is inside the model -
   and the coloured screen, stripped, is the plain screen, character for character *)
From WD Require Import HelpShipped.
Theorem C17_help_shipped_exact :
  match shipped_help true, shipped_help false with
  | Ok a, Ok b => no_color a = b /\ esc_free b
  | _, _ => False
  end.
Proof. exact shipped_help_screen. Qed.
Print Assumptions C17_help_shipped_exact.
