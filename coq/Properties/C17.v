(* C17 — colour is presentation only. *)
From WD Require Import Base Wire Conn Color LetterId Show MatcherParse.
From WD Require Import ColorProofs ShowProofs.
Open Scope N_scope.

(* with colour disabled color() adds nothing *)
Theorem C17_color_off : forall code s, color false code s = s.
Proof. exact color_off. Qed.

(* with colour enabled what color() adds is exactly what no_color removes, whatever follows *)
Theorem C17_strip_color : forall code s k, code_ok code -> esc_free s ->
  no_color (color true code s ++ k) = s ++ no_color k.
Proof. exact strip_color. Qed.
Print Assumptions C17_strip_color.

Theorem C17_palette_ok :
  code_ok timestamp_color /\ code_ok object_type_color /\ code_ok object_id_color /\ code_ok message_color /\
  code_ok symbol_color /\ code_ok int_color /\ code_ok int_symbol_color /\ code_ok float_color /\ code_ok string_color /\
  code_ok fd_color /\ code_ok array_color /\ code_ok null_color /\ code_ok good_color /\ code_ok bad_color /\
  code_ok alert_color /\ code_ok white_color.
Proof. exact palette_ok. Qed.

(* message lines (every argument kind, enum labels, destroyed annotation with lifespan, unresolved
   objects, connection prefix, time column): coloured, stripped = uncoloured, and the uncoloured
   line contains no escape sequence; strings are printed through repr, which never emits ESC *)
Theorem C17_message_lines : forall fmt d cn m,
  (forall b z, esc_free (fmt b z)) -> esc_free cn -> msg_clean d m ->
  Strips (line_str fmt (show_msg true d cn m)) (line_str fmt (show_msg false d cn m)).
Proof. exact show_msg_strips. Qed.
Print Assumptions C17_message_lines.

Theorem C17_repr_never_emits_esc : forall s, esc_free (py_repr s).
Proof. exact py_repr_esc_free. Qed.
Print Assumptions C17_repr_never_emits_esc.

(* pasted back: matcher.parse looks only at the colour-stripped text *)
Theorem C17_parse_ignores_colour : forall t t', no_color t = no_color t' -> parse t = parse t'.
Proof. intros t t' H. unfold parse. rewrite H. reflexivity. Qed.
Print Assumptions C17_parse_ignores_colour.

Example C17_ex :
  no_color (color true good_color (s2l "new ") ++ color true object_type_color (s2l "wl_surface") ++ color true object_id_color (s2l "@3a"))
  = s2l "new wl_surface@3a" /\
  parse (color true bad_color (s2l "wl_surface") ++ s2l ".commit") = parse (s2l "wl_surface.commit").
Proof. vm_compute. split; reflexivity. Qed.
