(* LetterId.v — core/letter_id_generator.py *)
From WD Require Import Base.
Open Scope N_scope.

(* while value > 0: value -= 1; result = chr(value % 26 + base) + result; value //= 26 *)
Fixpoint n2l_loop (fuel : nat) (base : N) (v : N) (acc : str) : str :=
  match fuel with
  | O => acc
  | S f =>
      if v =? 0 then acc
      else let v1 := v - 1 in
           n2l_loop f base (v1 / 26) ((v1 mod 26 + base) :: acc)
  end.

Definition letter_base (caps : bool) : N := if caps then 65 else 97.

(* number_to_letter_id on non-negative input *)
Definition n2l (caps : bool) (n : N) : str :=
  n2l_loop (S (N.to_nat (N.log2 (n + 1)))) (letter_base caps) (n + 1) [].

(* number_to_letter_id(value, caps) including the assertion *)
Definition number_to_letter_id (value : Z) (caps : bool) : res str :=
  if (value <? 0)%Z then Raise AssertionError []
  else Ok (n2l caps (Z.to_N value)).

(* t = result + 1 of the python loop; structural, left to right *)
Fixpoint l2n_loop (t : N) (s : str) : option N :=
  match s with
  | [] => Some t
  | c :: s' =>
      if is_lower c then l2n_loop (t * 26 + (c - 97) + 1) s' else None
  end.

(* letter_id_to_number(text) *)
Definition letter_id_to_number (text : str) : res Z :=
  if negb (all_ascii text) then Raise OutOfModel [] else
  let t := lower text in
  match t with
  | [] => Raise AssertionError []
  | _ =>
      match l2n_loop 0 t with
      | Some v => Ok (Z.of_N v - 1)%Z
      | None => Raise AssertionError []
      end
  end.

(* LetterIdGenerator.next(): the k-th call returns n2l true k *)
Definition conn_name (k : N) : str := n2l true k.

(* ObjectBase.id_str() without colour: '@' + str(id) + letters / '@id?' *)
Definition id_label (id : Z) (gen : N) : str := z_to_dec id ++ n2l false gen.
