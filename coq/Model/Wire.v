(* Wire.v — decoded messages (what parse.message / extract_message return) and
   resolved messages (what Connection.messages() holds), plus exact decimals. *)
From WD Require Import Base.
Open Scope Z_scope.

(* ---- exact decimals: value = mant / 10^scale ---------------------------- *)
Record dec := mkDec { d_mant : Z; d_scale : N }.

Fixpoint dec_norm_fuel (fuel : nat) (m : Z) (s : N) : dec :=
  match fuel with
  | O => mkDec m s
  | S f => if (s =? 0)%N then mkDec m s
           else if (m mod 10 =? 0) then dec_norm_fuel f (m / 10) (s - 1)%N
           else mkDec m s
  end.
(* strip trailing zeros of the fraction *)
Definition dec_norm (d : dec) : dec :=
  if d_mant d =? 0 then mkDec 0 0 else dec_norm_fuel (N.to_nat (d_scale d)) (d_mant d) (d_scale d).

Definition dec_eqb (a b : dec) : bool :=
  let a' := dec_norm a in let b' := dec_norm b in
  (d_mant a' =? d_mant b') && (d_scale a' =? d_scale b')%N.

Definition dec_is_int (d : dec) : bool := (d_scale (dec_norm d) =? 0)%N.
Definition dec_to_int (d : dec) : Z := d_mant (dec_norm d).   (* when dec_is_int *)
Definition dec_of_z (z : Z) : dec := mkDec z 0.

(* str(float) for values whose repr is positional (1e-4 <= |x| < 1e16): digits '.' digits, at
   least one fractional digit *)
Fixpoint pad_zeros (n : nat) (s : str) : str :=
  match n with O => s | S k => 48%N :: pad_zeros k s end.

Definition dec_to_str (d : dec) : str :=
  let d' := dec_norm d in
  let m := d_mant d' in
  let sc := N.to_nat (d_scale d') in
  let digits := n_to_dec (Z.abs_N m) in
  let len := List.length digits in
  let sign := if m <? 0 then [45%N] else [] in
  if (d_scale d' =? 0)%N then sign ++ digits ++ [46; 48]%N
  else if Nat.leb len sc
       then sign ++ [48; 46]%N ++ pad_zeros (sc - len) digits
       else sign ++ firstn (len - sc) digits ++ [46%N] ++ skipn (len - sc) digits.

(* ---- decoded (unresolved) arguments and messages ------------------------- *)
Inductive parg :=
| PInt (v : Z)
| PFloat (d : dec)
| PStr (s : str)
| PNull (ty : option str)
| PObj (id : Z) (ty : option str) (is_new : bool)
| PFd (v : Z)
| PArray (vals : option (list Z))
| PUnknown (s : option str).

Record pmsg := mkPmsg {
  p_time : Z;               (* absolute time, microseconds *)
  p_type : option str;      (* interface printed for the target (None: gdb sent_message) *)
  p_id : Z;
  p_sent : bool;
  p_name : str;
  p_args : list parg }.

(* ---- objects ---------------------------------------------------------------- *)
Record obj := mkObj {
  o_id : Z; o_gen : N; o_type : option str; o_alive : bool;
  o_create : Z;             (* relative time of the creating message (0 for wl_display) *)
  o_destroy : option Z }.

(* reference held by a message: the incarnation it was attributed to, or unresolved *)
Inductive oref :=
| Resolved (id : Z) (gen : N)
| Unresolved (id : Z) (ty : option str).

Inductive rval :=
| RInt (v : Z) (labels : option (list str))
| RFloat (d : dec)
| RStr (s : str)
| RNull (ty : option str)
| RObj (o : oref) (is_new : bool)
| RFd (v : Z)
| RArray (vals : option (list (Z * option (list str))))
| RUnknown (s : option str).

Record rarg := mkRarg { a_name : option str; a_val : rval }.

Record rmsg := mkRmsg {
  m_time : Z;               (* relative time, microseconds *)
  m_obj : oref;
  m_sent : bool;
  m_name : str;
  m_args : list rarg;
  m_destroyed : option oref }.

(* ---- sx codecs ---------------------------------------------------------------- *)
Definition sx_ostr (o : option str) : sx := sx_opt SS o.
Definition get_ostr (s : sx) : option (option str) := get_opt get_s s.

Definition get_dec (s : sx) : option dec :=
  match s with
  | SL [SZ m; SZ sc] => if sc <? 0 then None else Some (mkDec m (Z.to_N sc))
  | _ => None
  end.
Definition sx_dec (d : dec) : sx := let d' := dec_norm d in SL [SZ (d_mant d'); SZ (Z.of_N (d_scale d'))].

Definition get_parg (s : sx) : option parg :=
  match s with
  | SL [SS t; SZ v] =>
      if str_eqb t (s2l "int") then Some (PInt v)
      else if str_eqb t (s2l "fd") then Some (PFd v) else None
  | SL [SS t; SL [SZ m; SZ sc]] =>
      if str_eqb t (s2l "float") && (0 <=? sc) then Some (PFloat (mkDec m (Z.to_N sc))) else None
  | SL [SS t; SS v] =>
      if str_eqb t (s2l "str") then Some (PStr v)
      else if str_eqb t (s2l "unknown") then Some (PUnknown (Some v)) else None
  | SL [SS t] =>
      if str_eqb t (s2l "unknown") then Some (PUnknown None)
      else if str_eqb t (s2l "array") then Some (PArray None) else None
  | SL [SS t; SL l] =>
      if str_eqb t (s2l "null") then
        match get_ostr (SL l) with Some ty => Some (PNull ty) | None => None end
      else if str_eqb t (s2l "array") then
        match get_list get_z l with Some vs => Some (PArray (Some vs)) | None => None end
      else None
  | SL [SS t; SZ id; ty; SZ isnew] =>
      if str_eqb t (s2l "obj") then
        match get_ostr ty with Some ty' => Some (PObj id ty' (negb (isnew =? 0))) | None => None end
      else None
  | _ => None
  end.

Definition sx_parg (a : parg) : sx :=
  match a with
  | PInt v => SL [SS (s2l "int"); SZ v]
  | PFd v => SL [SS (s2l "fd"); SZ v]
  | PFloat d => SL [SS (s2l "float"); sx_dec d]
  | PStr s => SL [SS (s2l "str"); SS s]
  | PUnknown (Some s) => SL [SS (s2l "unknown"); SS s]
  | PUnknown None => SL [SS (s2l "unknown")]
  | PArray None => SL [SS (s2l "array")]
  | PArray (Some vs) => SL [SS (s2l "array"); SL (map SZ vs)]
  | PNull ty => SL [SS (s2l "null"); sx_ostr ty]
  | PObj id ty n => SL [SS (s2l "obj"); SZ id; sx_ostr ty; sx_bool n]
  end.

(* (time type id sent name (args)) *)
Definition get_pmsg (s : sx) : option pmsg :=
  match s with
  | SL [SZ t; ty; SZ id; SZ sent; SS name; SL args] =>
      match get_ostr ty, get_list get_parg args with
      | Some ty', Some args' => Some (mkPmsg t ty' id (negb (sent =? 0)) name args')
      | _, _ => None
      end
  | _ => None
  end.

Definition sx_pmsg (m : pmsg) : sx :=
  SL [SZ (p_time m); sx_ostr (p_type m); SZ (p_id m); sx_bool (p_sent m); SS (p_name m);
      SL (map sx_parg (p_args m))].

Definition sx_oref (o : oref) : sx :=
  match o with
  | Resolved id g => SL [SS (s2l "r"); SZ id; SZ (Z.of_N g)]
  | Unresolved id ty => SL [SS (s2l "u"); SZ id; sx_ostr ty]
  end.

Definition sx_labels (l : option (list str)) : sx := sx_opt (fun x => SL (map SS x)) l.

Definition sx_rval (v : rval) : sx :=
  match v with
  | RInt z l => SL [SS (s2l "int"); SZ z; sx_labels l]
  | RFloat d => SL [SS (s2l "float"); sx_dec d]
  | RStr s => SL [SS (s2l "str"); SS s]
  | RNull ty => SL [SS (s2l "null"); sx_ostr ty]
  | RObj o n => SL [SS (s2l "obj"); sx_oref o; sx_bool n]
  | RFd z => SL [SS (s2l "fd"); SZ z]
  | RArray None => SL [SS (s2l "array")]
  | RArray (Some vs) => SL [SS (s2l "array"); SL (map (fun p => SL [SZ (fst p); sx_labels (snd p)]) vs)]
  | RUnknown s => SL [SS (s2l "unknown"); sx_ostr s]
  end.

Definition sx_rarg (a : rarg) : sx := SL [sx_ostr (a_name a); sx_rval (a_val a)].

Definition sx_rmsg (m : rmsg) : sx :=
  SL [SZ (m_time m); sx_oref (m_obj m); sx_bool (m_sent m); SS (m_name m);
      SL (map sx_rarg (m_args m)); sx_opt sx_oref (m_destroyed m)].

Definition sx_obj (o : obj) : sx :=
  SL [SZ (o_id o); SZ (Z.of_N (o_gen o)); sx_ostr (o_type o); sx_bool (o_alive o);
      SZ (o_create o); sx_opt SZ (o_destroy o)].
