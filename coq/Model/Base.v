(* Base.v — executable basics shared by every model file.
   chars are Unicode code points (N), strings are lists of chars.
   No proofs here (Model/ stays runnable when a proof breaks). *)
From Coq Require Export List NArith ZArith Bool Ascii String.
Export ListNotations.
Open Scope N_scope.

Definition char := N.
Definition str := list char.

(* ---- literals -------------------------------------------------------- *)
Fixpoint s2l (s : string) : str :=
  match s with
  | EmptyString => []
  | String a r => N_of_ascii a :: s2l r
  end.

(* ---- generic list helpers -------------------------------------------- *)
Fixpoint list_eqb {A} (eqb : A -> A -> bool) (a b : list A) : bool :=
  match a, b with
  | [], [] => true
  | x :: a', y :: b' => eqb x y && list_eqb eqb a' b'
  | _, _ => false
  end.

Definition str_eqb (a b : str) : bool := list_eqb N.eqb a b.

Definition opt_eqb {A} (eqb : A -> A -> bool) (a b : option A) : bool :=
  match a, b with
  | None, None => true
  | Some x, Some y => eqb x y
  | _, _ => false
  end.

Fixpoint starts_with (p s : str) : bool :=
  match p, s with
  | [], _ => true
  | c :: p', d :: s' => N.eqb c d && starts_with p' s'
  | _ :: _, [] => false
  end.

Definition ends_with (p s : str) : bool := starts_with (rev p) (rev s).

Fixpoint mem_char (c : char) (s : str) : bool :=
  match s with
  | [] => false
  | d :: s' => N.eqb c d || mem_char c s'
  end.

Fixpoint drop_while {A} (f : A -> bool) (l : list A) : list A :=
  match l with
  | [] => []
  | x :: l' => if f x then drop_while f l' else l
  end.

Fixpoint take_while {A} (f : A -> bool) (l : list A) : list A :=
  match l with
  | [] => []
  | x :: l' => if f x then x :: take_while f l' else []
  end.

Fixpoint intercalate {A} (sep : list A) (ls : list (list A)) : list A :=
  match ls with
  | [] => []
  | [x] => x
  | x :: rest => x ++ sep ++ intercalate sep rest
  end.

Definition remove_last {A} (l : list A) : list A := removelast l.

(* s[1:-1] *)
Definition strip_ends {A} (l : list A) : list A := removelast (tl l).

(* ---- character classes (exact on ASCII) ------------------------------ *)
Definition in_range (c lo hi : N) : bool := (lo <=? c) && (c <=? hi).

(* Python str.isspace(): the 25 Unicode white-space code points plus the
   four information separators U+001C..U+001F *)
Definition is_space (c : char) : bool :=
  in_range c 9 13 || in_range c 28 32 || N.eqb c 133 || N.eqb c 160
  || N.eqb c 5760 || in_range c 8192 8202 || N.eqb c 8232 || N.eqb c 8233
  || N.eqb c 8239 || N.eqb c 8287 || N.eqb c 12288.

Definition is_digit (c : char) : bool := in_range c 48 57.
Definition is_lower (c : char) : bool := in_range c 97 122.
Definition is_upper (c : char) : bool := in_range c 65 90.
Definition is_letter (c : char) : bool := is_lower c || is_upper c.
(* ASCII \w *)
Definition is_word (c : char) : bool :=
  is_digit c || is_letter c || N.eqb c 95.
Definition is_ascii (c : char) : bool := c <? 128.
Definition all_ascii (s : str) : bool := forallb is_ascii s.

Definition lower_char (c : char) : char := if is_upper c then c + 32 else c.
Definition lower (s : str) : str := map lower_char s.

Definition lstrip (s : str) : str := drop_while is_space s.
Definition rstrip (s : str) : str := rev (drop_while is_space (rev s)).
Definition strip (s : str) : str := rstrip (lstrip s).

(* ---- results with Python exception classes ---------------------------- *)
Inductive exn :=
| RuntimeError | AssertionError | ValueError | OverflowError | KeyError
| IndexError | UnicodeError | RecursionError | EOFError | OutOfFuel | OutOfModel.

Definition exn_code (e : exn) : Z :=
  match e with
  | RuntimeError => 1 | AssertionError => 2 | ValueError => 3
  | OverflowError => 4 | KeyError => 5 | IndexError => 6 | UnicodeError => 7
  | RecursionError => 8 | EOFError => 9 | OutOfFuel => 98 | OutOfModel => 99
  end%Z.

Inductive res (A : Type) :=
| Ok (a : A)
| Raise (e : exn) (msg : str).
Arguments Ok {A} a.
Arguments Raise {A} e msg.

Definition bind {A B} (r : res A) (f : A -> res B) : res B :=
  match r with
  | Ok a => f a
  | Raise e m => Raise e m
  end.
Notation "'do' x <- r ; k" := (bind r (fun x => k))
  (at level 200, x pattern, r at level 100, k at level 200).

Fixpoint mapM {A B} (f : A -> res B) (l : list A) : res (list B) :=
  match l with
  | [] => Ok []
  | x :: l' => do y <- f x; do ys <- mapM f l'; Ok (y :: ys)
  end.

Definition is_ok {A} (r : res A) : bool :=
  match r with Ok _ => true | _ => false end.
Definition is_runtime_error {A} (r : res A) : bool :=
  match r with Raise RuntimeError _ => true | _ => false end.

(* ---- decimal printing / parsing --------------------------------------- *)
Definition digit_char (d : N) : char := 48 + d.

(* digits of a positive number, least significant first, structural on the
   binary representation via fuel = number of bits + 1 *)
Fixpoint n_digits_rev (fuel : nat) (n : N) : str :=
  match fuel with
  | O => []
  | S f => if n <? 10 then [digit_char n]
           else digit_char (n mod 10) :: n_digits_rev f (n / 10)
  end.

Definition n_to_dec (n : N) : str :=
  rev (n_digits_rev (S (N.to_nat (N.log2 n))) n).

Definition z_to_dec (z : Z) : str :=
  match z with
  | Z0 => [48]
  | Zpos p => n_to_dec (Npos p)
  | Zneg p => 45 :: n_to_dec (Npos p)
  end.

Fixpoint dec_value_acc (acc : N) (s : str) : N :=
  match s with
  | [] => acc
  | c :: s' => dec_value_acc (acc * 10 + (c - 48)) s'
  end.
Definition dec_value (s : str) : N := dec_value_acc 0 s.

(* Python int(text) on ASCII text: surrounding white space, optional sign,
   digits with single underscores between digits.  Non-ASCII -> OutOfModel. *)
Fixpoint int_body_ok (prev_digit : bool) (s : str) : bool :=
  match s with
  | [] => prev_digit
  | c :: s' =>
      if is_digit c then int_body_ok true s'
      else if N.eqb c 95 then prev_digit && int_body_ok false s'
      else false
  end.

Definition py_int (text : str) : res Z :=
  if negb (all_ascii text) then Raise OutOfModel [] else
  let t := strip text in
  let '(neg, body) :=
    match t with
    | 45 :: r => (true, r)
    | 43 :: r => (false, r)
    | _ => (false, t)
    end in
  match body with
  | [] => Raise ValueError []
  | c :: _ =>
      if is_digit c && int_body_ok false body then
        let n := dec_value (filter is_digit body) in
        Ok (if neg then (- Z.of_N n)%Z else Z.of_N n)
      else Raise ValueError []
  end.

(* ---- S-expressions: the wire format between harness and model ---------- *)
Inductive sx :=
| SZ (z : Z)
| SS (s : str)
| SL (l : list sx).

Definition sx_bool (b : bool) : sx := SZ (if b then 1 else 0)%Z.
Definition sx_opt {A} (f : A -> sx) (o : option A) : sx :=
  match o with None => SL [] | Some a => SL [f a] end.
Definition sx_list {A} (f : A -> sx) (l : list A) : sx := SL (map f l).
Definition sx_err : sx := SL [SS (s2l "bad-case")].

Definition sx_res {A} (f : A -> sx) (r : res A) : sx :=
  match r with
  | Ok a => SL [SS (s2l "ok"); f a]
  | Raise e m => SL [SS (s2l "raise"); SZ (exn_code e)]
  end.

Fixpoint sx_eqb (a b : sx) : bool :=
  match a, b with
  | SZ x, SZ y => Z.eqb x y
  | SS x, SS y => str_eqb x y
  | SL x, SL y =>
      (fix go (x y : list sx) : bool :=
         match x, y with
         | [], [] => true
         | a :: x', b :: y' => sx_eqb a b && go x' y'
         | _, _ => false
         end) x y
  | _, _ => false
  end.

Definition get_z (s : sx) : option Z := match s with SZ z => Some z | _ => None end.
Definition get_s (s : sx) : option str := match s with SS z => Some z | _ => None end.
Definition get_l (s : sx) : option (list sx) := match s with SL z => Some z | _ => None end.
Definition get_b (s : sx) : option bool :=
  match s with SZ z => Some (negb (Z.eqb z 0)) | _ => None end.
Definition get_n (s : sx) : option N :=
  match s with SZ z => if (z <? 0)%Z then None else Some (Z.to_N z) | _ => None end.

Fixpoint get_list {A} (f : sx -> option A) (l : list sx) : option (list A) :=
  match l with
  | [] => Some []
  | x :: l' =>
      match f x, get_list f l' with
      | Some a, Some r => Some (a :: r)
      | _, _ => None
      end
  end.

Definition get_opt {A} (f : sx -> option A) (s : sx) : option (option A) :=
  match s with
  | SL [] => Some None
  | SL [x] => match f x with Some a => Some (Some a) | None => None end
  | _ => None
  end.

(* used by the OCaml driver to build arbitrarily large integers from text *)
Definition z_of_dec (neg : bool) (digits : str) : Z :=
  let n := Z.of_N (dec_value digits) in if neg then (- n)%Z else n.
