(* Newlines.v - universal newlines: how the text decoded from a file, a pipe or standard input becomes
   the text whose lines the viewer shows.  All three inputs are Python text files with newline=None
   (open(path), os.fdopen(fd, 'r', errors='replace'), sys.stdin.reconfigure(newline=None)); in that
   mode TextIOWrapper pipes the decoded text through io.IncrementalNewlineDecoder(decoder,
   translate=True):

     translate       = the effect on a whole text: every CR LF pair and every other CR becomes one LF
     nscan/nfeed     = IncrementalNewlineDecoder.decode(piece): a CR at the very end of what has been
                       seen so far is held back (pendingcr) until the next piece shows whether an LF
                       follows; a piece that is empty leaves a held CR held
     nfinish         = the held CR comes out as LF when the input ends (final=True)
     read_text_chunks= TextIOWrapper over a byte stream arriving in pieces: every piece goes through the
                       incremental UTF-8 decoder (Utf8.feed), the text decoded goes through nfeed; at
                       the end of the input the decoder's last output (Utf8.finish) goes through the
                       newline translator FIRST, then the held CR is flushed
                       (IncrementalNewlineDecoder.decode(b'', final=True): output = decoder.decode(b'',
                       True); if pendingcr: output = CR + output; translate output)
   Characters are code points (Base.str): CR = 13, LF = 10.
   Executable definitions only; the proofs are in Proofs/NewlinesProofs.v.
   harness/newline_corr.py compares all of these with CPython on random inputs. *)
From WD Require Import Base Utf8.
Open Scope N_scope.

(* ---- the whole text at once ----------------------------------------------------------------------- *)
Fixpoint translate (s : str) : str :=
  match s with
  | [] => []
  | c :: r =>
    if c =? 13 then
      match r with
      | [] => [10]                                            (* a last lone CR *)
      | d :: r' => if d =? 10 then 10 :: translate r'         (* CR LF: one line end *)
                   else 10 :: translate r                     (* a bare CR *)
      end
    else c :: translate r
  end.

(* ---- the incremental translator -------------------------------------------------------------------
   nscan translates as far as the characters seen so far decide the result and tells whether a CR at
   the end is held back. *)
Definition nemit (c : N) (p : str * bool) : str * bool := (c :: fst p, snd p).

Fixpoint nscan (s : str) : str * bool :=
  match s with
  | [] => ([], false)
  | c :: r =>
    if c =? 13 then
      match r with
      | [] => ([], true)                                      (* held back *)
      | d :: r' => if d =? 10 then nemit 10 (nscan r') else nemit 10 (nscan r)
      end
    else nemit c (nscan r)
  end.

(* the translator's state: pendingcr *)
Definition nstate := bool.
Definition nstate0 : nstate := false.

(* the characters a state stands for *)
Definition pend (st : nstate) : str := if st then [13] else [].

(* IncrementalNewlineDecoder.decode(piece): new state and the text produced now *)
Definition nfeed (st : nstate) (piece : str) : nstate * str :=
  let r := nscan (pend st ++ piece) in (snd r, fst r).

(* what the end of the input adds *)
Definition nfinish (st : nstate) : str := if st then [10] else [].

Fixpoint nfeed_all (st : nstate) (chunks : list str) : str :=
  match chunks with
  | [] => nfinish st
  | c :: cs => let r := nfeed st c in snd r ++ nfeed_all (fst r) cs
  end.

(* the text obtained from a text arriving in these pieces *)
Definition translate_chunks (chunks : list str) : str := nfeed_all nstate0 chunks.

(* ---- bytes -> UTF-8 decoder -> newline translator, as TextIOWrapper does it ----------------------- *)
(* the last call, decode(b'', final=True) *)
Definition read_last (d : dstate) (n : nstate) : str :=
  let q := nfeed n (finish d) in snd q ++ nfinish (fst q).

Fixpoint read_all (d : dstate) (n : nstate) (bchunks : list (list N)) : str :=
  match bchunks with
  | [] => read_last d n
  | c :: cs =>
      let r := feed d c in
      let q := nfeed n (snd r) in
      snd q ++ read_all (fst r) (fst q) cs
  end.

(* the text read from a stream whose bytes arrive in these pieces *)
Definition read_text_chunks (bchunks : list (list N)) : str := read_all dstate0 nstate0 bchunks.

(* for the correspondence test: the text produced by every single decode() call with pendingcr after
   it, and the text produced by the final call *)
Fixpoint read_trace (d : dstate) (n : nstate) (bchunks : list (list N))
  : list (str * nstate) * str :=
  match bchunks with
  | [] => ([], read_last d n)
  | c :: cs =>
      let r := feed d c in
      let q := nfeed n (snd r) in
      let t := read_trace (fst r) (fst q) cs in
      ((snd q, fst q) :: fst t, snd t)
  end.

Fixpoint nfeed_trace (st : nstate) (chunks : list str) : list (str * nstate) * str :=
  match chunks with
  | [] => ([], nfinish st)
  | c :: cs =>
      let r := nfeed st c in
      let t := nfeed_trace (fst r) cs in
      ((snd r, fst r) :: fst t, snd t)
  end.
