(* EntryShipped.v — entry points over the regenerated shipped database (in-kernel replays) *)
From WD Require Import Base Protocol Entry Shipped.
Definition run_shipped (name : str) (a : sx) : sx := run_entry shipped_db name a.
