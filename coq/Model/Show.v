(* Show.v — every __str__ / show() of objects, arguments and messages.
   An output line is a list of segments; numeric time fields stay numbers so that the
   comparison can grant the last-digit rounding latitude of binary64. *)
From WD Require Import Base Wire Conn Color LetterId.
Open Scope N_scope.

Inductive seg :=
| Txt (s : str)
| Time7 (us : Z)      (* '{:7.4f}'.format(seconds) *)
| Time0 (us : Z)      (* '{:0.4f}'.format(seconds) *)
| AnyText.            (* text the model does not predict (tracebacks, matcher help) *)
Definition line := list seg.

Definition oom_marker : char := 1114111.

(* ---- repr(str) ---------------------------------------------------------------------- *)
Definition hex_digit (n : N) : char := if n <? 10 then 48 + n else 87 + n.
Definition repr_char (q : char) (c : char) : str :=
  if N.eqb c q then [92; c]
  else if N.eqb c 92 then [92; 92]
  else if N.eqb c 10 then [92; 110]
  else if N.eqb c 13 then [92; 114]
  else if N.eqb c 9 then [92; 116]
  else if (c <? 32) || N.eqb c 127 then [92; 120; hex_digit (c / 16); hex_digit (c mod 16)]
  else if c <? 127 then [c]
  else [oom_marker].
Definition py_repr (s : str) : str :=
  let q := if mem_char 39 s && negb (mem_char 34 s) then 34 else 39 in
  q :: flat_map (repr_char q) s ++ [q].

(* ---- objects ---------------------------------------------------------------------------- *)
Definition show_obj_parts (on : bool) (id : Z) (gen : option N) (ty : option str) : str :=
  color on (match ty with Some (_ :: _) => object_type_color | _ => bad_color end)
        (match ty with Some ((_ :: _) as t) => t | _ => color on bad_color (s2l "???") end)
  ++ match gen with
     | None => color on object_id_color (64 :: z_to_dec id) ++ color on bad_color [63]
     | Some g => color on object_id_color (64 :: z_to_dec id ++ n2l false g)
     end.

Definition show_ref (on : bool) (d : db) (r : oref) : str :=
  match r with
  | Resolved id g => show_obj_parts on id (Some g) (ref_type d r)
  | Unresolved id ty => color on bad_color (s2l "unresolved ") ++ show_obj_parts on id None ty
  end.

(* ---- arguments ---------------------------------------------------------------------------- *)
Definition show_int (on : bool) (v : Z) (labels : option (list str)) : str :=
  match labels with
  | None => color on int_color (z_to_dec v)
  | Some ls =>
      color on int_color (z_to_dec v) ++ color on int_symbol_color [58]
      ++ intercalate (color on int_symbol_color [38]) (map (color on int_color) ls)
  end.

Definition show_val (on : bool) (d : db) (v : rval) : str :=
  match v with
  | RInt z l => show_int on z l
  | RFloat x => color on float_color (dec_to_str x)
  | RStr s => color on string_color (py_repr s)
  | RNull ty => color on null_color (s2l "null " ++ match ty with Some ((_ :: _) as t) => t | _ => s2l "??" end)
  | RObj o is_new => (if is_new then color on good_color (s2l "new ") else []) ++ show_ref on d o
  | RFd z => color on fd_color (s2l "fd " ++ z_to_dec z)
  | RArray None => color on array_color (s2l "[...]")
  | RArray (Some vs) =>
      color on array_color [91]
      ++ intercalate (color on array_color (s2l ", ")) (map (fun p => show_int on (fst p) (snd p)) vs)
      ++ color on array_color [93]
  | RUnknown None => color on bad_color [63]
  | RUnknown (Some s) => color on bad_color (s2l "Unknown: " ++ py_repr s)
  end.

Definition show_arg (on : bool) (d : db) (a : rarg) : str :=
  match a_name a with
  | Some n => color on symbol_color (n ++ [61]) ++ show_val on d (a_val a)
  | None => show_val on d (a_val a)
  end.

(* ---- messages ---------------------------------------------------------------------------- *)
Definition arrow_out : str := [8594; 32].       (* '→ ' *)
Definition arrow_in : str := [32; 8626].        (* ' ↲' *)

Definition lifespan (d : db) (r : oref) : option Z :=
  match r with
  | Resolved id g =>
      match lookup_obj d id g with
      | Some o => match o_destroy o with Some t => Some (t - o_create o)%Z | None => None end
      | None => None
      end
  | Unresolved _ _ => None
  end.

(* str(message) *)
Definition show_msg_body (on : bool) (d : db) (m : rmsg) : line :=
  [Txt ((if m_sent m then color on symbol_color arrow_out else [])
        ++ show_ref on d (m_obj m)
        ++ color on message_color (46 :: m_name m) ++ color on symbol_color [40]
        ++ intercalate (color on symbol_color (s2l ", ")) (map (show_arg on d) (m_args m))
        ++ color on symbol_color [41])]
  ++ match m_destroyed m with
     | None => []
     | Some r =>
         [Txt (color on symbol_color (s2l " -- ") ++ show_ref on d r ++ color on bad_color (s2l ".destroyed"))]
         ++ match lifespan d r with
            | Some l =>
                (* color(timestamp_color, ' after {:0.4f}s') *)
                [Txt (if on then csi (s2l "2;37") else []); Txt (s2l " after "); Time0 l; Txt [115];
                 Txt (if on then reset else [])]
            | None => []
            end
     end
  ++ [Txt (if m_sent m then [] else color on symbol_color arrow_in)].

(* message.show(out): time, connection name, body *)
Definition show_msg (on : bool) (d : db) (conn_name : str) (m : rmsg) : line :=
  [Txt (if on then csi (s2l "2;37") else []); Time7 (m_time m); Txt (if on then reset else []);
   Txt (32 :: (match m_obj m with Resolved _ _ => conn_name | Unresolved _ _ => [] end) ++ s2l ": ")]
  ++ show_msg_body on d m.

(* ---- sx ------------------------------------------------------------------------------------ *)
Definition sx_seg (s : seg) : sx :=
  match s with
  | Txt t => SS t
  | Time7 z => SL [SZ 7; SZ z]
  | Time0 z => SL [SZ 0; SZ z]
  | AnyText => SL []
  end.
Definition sx_line (l : line) : sx := SL (map sx_seg l).
