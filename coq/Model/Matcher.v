(* Matcher.v — core/matcher.py: the matcher classes as one inductive, with
   matches / always / simplify / join / __str__ transcribed rule for rule. *)
From WD Require Import Base Wire Conn Color.
Open Scope Z_scope.

(* ---- what matchers look at --------------------------------------------------------- *)
Record vobj := mkVobj { vo_id : Z; vo_gen : option N; vo_type : option str }.

Inductive varg_val :=
| VAInt (z : Z) (labels : option (list str))
| VAFloat (d : dec)
| VAStr (s : str)
| VANull (ty : option str)
| VAObj (o : vobj) (is_new : bool)
| VAFd (z : Z)
| VAOther.
Record varg := mkVarg { va_name : option str; va_val : varg_val }.

Record vmsg := mkVmsg {
  vm_conn : option str;        (* name of the target's connection (None: unresolved target) *)
  vm_obj : vobj;
  vm_name : str;
  vm_args : list varg;
  vm_destroyed : option vobj }.

Inductive val :=
| VS (s : str) | VZ (z : Z) | VF (d : dec)
| VP (a b : val)
| VA (a : varg) | VAs (l : list varg)
| VO (o : vobj) | VC (c : option str) | VM (m : vmsg).

(* ---- matcher classes ------------------------------------------------------------------ *)
Inductive wrapkind :=
| WInt | WLabel | WFloat | WString | WObjArg | WArg | WObjId | WObjName | WConn.

Inductive mt :=
| MAlways (b : bool)
| MWild (pat : str)
| MEqS (s : str)
| MEqZ (z : Z) (text : str)
| MEqF (d : dec)
| MPair (a : mt) (delim : str) (b : mt)
| MList (pos neg : list mt)
| MArgsList (pos neg : list mt)
| MWrap (k : wrapkind) (w : mt)
| MPattern (c o n a : mt) (match_new match_destroyed : bool).

Definition null_obj (ty : option str) : vobj := mkVobj 0 (Some 0%N) ty.

Fixpoint matches (m : mt) (v : val) {struct m} : bool :=
  match m with
  | MAlways b => b
  | MWild p => match v with VS s => glob p s | _ => false end
  | MEqS e => match v with VS s => str_eqb e s | _ => false end
  | MEqZ z _ => match v with VZ x => z =? x | _ => false end
  | MEqF d => match v with VF x => dec_eqb d x | _ => false end
  | MPair a _ b => match v with VP x y => matches a x && matches b y | _ => false end
  | MList pos neg =>
      existsb (fun p => matches p v) pos && negb (existsb (fun n => matches n v) neg)
  | MArgsList pos neg =>
      match v with
      | VAs args =>
          forallb (fun p => existsb (fun a => matches p (VA a)) args) pos
          && negb (existsb (fun n => existsb (fun a => matches n (VA a)) args) neg)
      | _ => false
      end
  | MWrap k w =>
      match k, v with
      | WInt, VA a =>
          match va_val a with
          | VAInt z _ => matches w (VZ z)
          | VAFd z => matches w (VZ z)
          | VAFloat d => dec_is_int d && matches w (VZ (dec_to_int d))
          | VAObj o _ => matches w (VZ (vo_id o))
          | _ => false
          end
      | WLabel, VA a =>
          match va_val a with
          | VAInt _ (Some ls) => existsb (fun l => matches w (VS l)) ls
          | VAObj o _ => match vo_type o with Some t => matches w (VS t) | None => false end
          | VANull (Some t) => matches w (VS t)
          | _ => false
          end
      | WFloat, VA a => match va_val a with VAFloat d => matches w (VF d) | _ => false end
      | WString, VA a => match va_val a with VAStr s => matches w (VS s) | _ => false end
      | WObjArg, VA a =>
          match va_val a with
          | VAObj o _ => matches w (VO o)
          | VANull ty => matches w (VO (null_obj ty))
          | _ => false
          end
      | WArg, VA a =>
          matches w (VP (VS (match va_name a with Some n => n | None => [] end)) (VA a))
      | WObjId, VO o =>
          matches w (VP (VZ (vo_id o)) (VZ (Z.of_N (match vo_gen o with Some g => g | None => 0%N end))))
      | WObjName, VO o => match vo_type o with Some t => matches w (VS t) | None => false end
      | WConn, VC c => matches w (VS (match c with Some n => n | None => s2l "unknown" end))
      | _, _ => false
      end
  | MPattern c o n a mn md =>
      match v with
      | VM msg =>
          if negb (matches c (VC (vm_conn msg))) then false
          else if mn && existsb (fun x => match va_val x with
                                         | VAObj ob true => matches o (VO ob)
                                         | _ => false end) (vm_args msg) then true
          else if md && match vm_destroyed msg with Some ob => matches o (VO ob) | None => false end then true
          else matches o (VO (vm_obj msg)) && matches n (VS (vm_name msg)) && matches a (VAs (vm_args msg))
      | _ => false
      end
  end.

Definition always (m : mt) : option bool :=
  match m with MAlways b => Some b | _ => None end.
Definition is_always (b : bool) (m : mt) : bool :=
  match m with MAlways x => Bool.eqb x b | _ => false end.

(* the last element satisfying f, if any *)
Definition last_such {A} (f : A -> bool) (l : list A) : option A :=
  fold_left (fun acc x => if f x then Some x else acc) l None.

Fixpoint simplify (m : mt) : mt :=
  match m with
  | MWrap k w =>
      let w' := simplify w in
      match always w' with Some b => MAlways b | None => MWrap k w' end
  | MPair a d b =>
      let a' := simplify a in let b' := simplify b in
      match always a', always b' with
      | Some x, Some y => if Bool.eqb x y then MAlways x else MPair a' d b'
      | _, _ => MPair a' d b'
      end
  | MList pos neg =>
      match pos with
      | [] => MAlways false
      | _ =>
          let pos1 := map simplify pos in
          let neg1 := map simplify neg in
          if existsb (is_always true) neg1 then MAlways false else
          let pos2 := match last_such (is_always true) pos1 with Some p => [p] | None => pos1 end in
          let pos3 := filter (fun p => negb (is_always false p)) pos2 in
          let neg3 := filter (fun p => negb (is_always false p)) neg1 in
          match pos3, neg3 with
          | [], _ => MAlways false
          | [p], [] => p
          | _, _ => MList pos3 neg3
          end
      end
  | MArgsList pos neg =>
      let pos1 := map simplify pos in
      let neg1 := map simplify neg in
      if existsb (is_always true) neg1 then MAlways false
      else if existsb (is_always false) pos1 then MAlways false
      else
        let neg3 := filter (fun p => negb (is_always false p)) neg1 in
        if forallb (is_always true) pos1 && match neg3 with [] => true | _ => false end
        then MAlways true
        else MArgsList pos1 neg3
  | MPattern c o n a mn md =>
      let c' := simplify c in let o' := simplify o in
      let n' := simplify n in let a' := simplify a in
      if is_always false c' || is_always false o' || is_always false n' || is_always false a'
      then MAlways false
      else if is_always true c' && is_always true o' && is_always true n' && is_always true a'
      then MAlways true
      else MPattern c' o' n' a' mn md
  | _ => m
  end.

(* join(new, old) *)
Definition as_list (m : mt) : list mt * list mt :=
  match m with MList p n => (p, n) | _ => ([m], []) end.

Definition join (new old : mt) : mt :=
  match old, new with
  | MAlways _, _ => new
  | _, MAlways _ => new
  | _, _ =>
      let '(op, on) := as_list old in
      let '(np, nn) := as_list new in
      let pos := filter (fun p => negb (is_always true p)) (np ++ op) in
      MList (match pos with [] => [MAlways true] | _ => pos end) (nn ++ on)
  end.

(* MessagePattern.__init__: match_new / match_destroyed are computed at construction *)
Definition mk_pattern (c o n a : mt) : mt :=
  MPattern c o n a
    (matches n (VS (s2l "new")) && matches a (VAs []))
    (matches n (VS (s2l "destroyed")) && matches a (VAs [])).

(* ---- __str__ ----------------------------------------------------------------------------- *)
Definition comma_join (l : list str) : str := intercalate (s2l ", ") l.

Fixpoint mshow (on : bool) (m : mt) : str :=
  match m with
  | MAlways true => color on good_color [42%N]
  | MAlways false => color on bad_color [33%N]
  | MWild p => p
  | MEqS s => s
  | MEqZ _ t => t
  | MEqF d => dec_to_str d
  | MWrap _ w => mshow on w
  | MPair a d b => mshow on a ++ d ++ mshow on b
  | MList pos neg =>
      match neg with
      | [] => [91%N] ++ comma_join (map (mshow on) pos) ++ [93%N]
      | _ =>
          match pos with
          | [MAlways true] =>
              [91%N] ++ color on bad_color (s2l " ! ") ++ comma_join (map (mshow on) neg) ++ [93%N]
          | _ =>
              [91%N] ++ comma_join (map (mshow on) pos) ++ color on bad_color (s2l " ! ")
                     ++ comma_join (map (mshow on) neg) ++ [93%N]
          end
      end
  | MArgsList pos neg =>
      match neg with
      | [] => comma_join (map (mshow on) pos)
      | _ =>
          match pos with
          | [MAlways true] => color on bad_color (s2l " ! ") ++ comma_join (map (mshow on) neg)
          | _ => comma_join (map (mshow on) pos) ++ color on bad_color (s2l " ! ")
                            ++ comma_join (map (mshow on) neg)
          end
      end
  | MPattern c o n a _ _ =>
      (if is_always true c then [] else mshow on c)
      ++ mshow on o ++ [46%N] ++ mshow on n ++ [40%N] ++ mshow on a ++ [41%N]
  end.

(* ---- views of resolved messages ---------------------------------------------------------- *)
Definition view_ref (d : db) (r : oref) : vobj :=
  match r with
  | Resolved id g => mkVobj id (Some g) (ref_type d r)
  | Unresolved id ty => mkVobj id None ty
  end.

Definition view_arg (d : db) (a : rarg) : varg :=
  mkVarg (a_name a)
    match a_val a with
    | RInt z l => VAInt z l
    | RFloat x => VAFloat x
    | RStr s => VAStr s
    | RNull ty => VANull ty
    | RObj o n => VAObj (view_ref d o) n
    | RFd z => VAFd z
    | RArray _ => VAOther
    | RUnknown _ => VAOther
    end.

(* conn_name: the connection's name; an unresolved target has no connection *)
Definition view_msg (d : db) (conn_name : str) (m : rmsg) : vmsg :=
  mkVmsg (match m_obj m with Resolved _ _ => Some conn_name | Unresolved _ _ => None end)
         (view_ref d (m_obj m)) (m_name m) (map (view_arg d) (m_args m))
         (option_map (view_ref d) (m_destroyed m)).
