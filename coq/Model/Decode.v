(* Decode.v — backends/libwayland_debug_output/parse.py: message(), argument_list_strs(),
   end_of_str(), argument().  The five regular expressions are modelled by hand-written scanners
   that follow Python re's leftmost / greedy / alternation-order semantics for these patterns. *)
From WD Require Import Base Wire.
Open Scope N_scope.

(* span p s = (longest prefix satisfying p, rest) — a greedy  p*  *)
Definition span (p : char -> bool) (s : str) : str * str := (take_while p s, drop_while p s).

(* ---- argument_list_strs / end_of_str ---------------------------------------------------------- *)
(* [cur] = current argument reversed, [acc] = finished arguments reversed.
   mode: 0 = outside a string, 1 = inside a string, 2 = inside a string just after a backslash *)
Fixpoint split_args_go (s : str) (mode : nat) (cur : str) (acc : list str) : list str :=
  match s with
  | [] => rev (match cur with [] => acc | _ => rev cur :: acc end)
  | c :: r =>
      match mode with
      | O =>
          match N.eqb c 44, r with
          | true, 32 :: r' => split_args_go r' O [] (rev cur :: acc)
          | _, _ =>
              if N.eqb c 34 then split_args_go r 1%nat (c :: cur) acc
              else split_args_go r O (c :: cur) acc
          end
      | S O =>
          if N.eqb c 34 then split_args_go r O (c :: cur) acc
          else if N.eqb c 92 then split_args_go r 2%nat (c :: cur) acc
          else split_args_go r 1%nat (c :: cur) acc
      | _ => split_args_go r 1%nat (c :: cur) acc
      end
  end.
Definition split_args (s : str) : list str := split_args_go s O [] [].

(* ---- argument() ----------------------------------------------------------------------------------- *)
(* -?\d+ over the whole text *)
Definition is_int_text (s : str) : bool :=
  let b := match s with 45 :: r => r | _ => s end in
  match b with [] => false | _ => forallb is_digit b end.

(* \w+[@#]\d+ over the whole text: returns (type, id digits).  \w+ is greedy and [@#] is not a
   word character, so the split point is the first non-word character *)
Definition obj_text (s : str) : option (str * str) :=
  let '(w, r) := span is_word s in
  match w, r with
  | _ :: _, c :: ds =>
      if (N.eqb c 64 || N.eqb c 35) && match ds with [] => false | _ => forallb is_digit ds end
      then Some (w, ds) else None
  | _, _ => None
  end.

(* new id (\w+|\[unknown\])[@#]\d+ *)
Definition new_id_text (s : str) : option (option str * str) :=
  if starts_with (s2l "new id ") s then
    let r := skipn 7 s in
    if starts_with (s2l "[unknown]") r then
      match skipn 9 r with
      | c :: ds => if (N.eqb c 64 || N.eqb c 35) && match ds with [] => false | _ => forallb is_digit ds end
                   then Some (None, ds) else None
      | [] => None
      end
    else match obj_text r with Some (w, ds) => Some (Some w, ds) | None => None end
  else None.

(* -?\d+(?:[.,]\d+)?(?:[eE][+-]?\d+)? over the whole text: (neg, int digits, frac digits, exponent?) *)
Definition float_text (s : str) : option (bool * str * str * option (bool * str)) :=
  let '(neg, b) := match s with 45 :: r => (true, r) | _ => (false, s) end in
  let '(ip, r1) := span is_digit b in
  match ip with
  | [] => None
  | _ =>
      let '(fp, r2) :=
        match r1 with
        | c :: r => if N.eqb c 46 || N.eqb c 44 then
                      let '(f, r') := span is_digit r in
                      match f with [] => ([], r1) | _ => (f, r') end
                    else ([], r1)
        | [] => ([], r1)
        end in
      match r2 with
      | [] => Some (neg, ip, fp, None)
      | e :: r =>
          if N.eqb e 101 || N.eqb e 69 then
            let '(eneg, r') := match r with 43 :: x => (false, x) | 45 :: x => (true, x) | _ => (false, r) end in
            match r' with
            | [] => None
            | _ => if forallb is_digit r' then Some (neg, ip, fp, Some (eneg, r')) else None
            end
          else None
      end
  end.

(* array(\[\d+\])? — the [N] suffix is accepted since the fix of D1 *)
Definition is_array_text (s : str) : bool :=
  if starts_with (s2l "array") s then
    match skipn 5 s with
    | [] => true
    | 91 :: r => match rev r with
                 | 93 :: ds => match ds with [] => false | _ => forallb is_digit ds end
                 | _ => false
                 end
    | _ => false
    end
  else false.

(* fd \d+ *)
Definition fd_text (s : str) : option str :=
  if starts_with (s2l "fd ") s then
    match skipn 3 s with
    | [] => None
    | ds => if forallb is_digit ds then Some ds else None
    end
  else None.

Definition dec_digits_z (neg : bool) (ds : str) : Z :=
  let n := Z.of_N (dec_value ds) in if neg then (- n)%Z else n.

(* the alternatives in the order of all_args_re; anchored, so the first alternative matching the
   whole text decides *)
Definition argument (v : str) : res parg :=
  if negb (all_ascii v) && negb (starts_with [34] v && ends_with [34] v && Nat.leb 2 (List.length v))
  then Raise OutOfModel [] else
  if is_int_text v then
    Ok (PInt (match v with 45 :: r => dec_digits_z true r | _ => dec_digits_z false v end))
  else match obj_text v with
  | Some (ty, ds) =>
      let id := Z.of_N (dec_value ds) in
      if (id =? 0)%Z then Raise AssertionError [] else Ok (PObj id (Some ty) false)
  | None =>
  match new_id_text v with
  | Some (ty, ds) =>
      let id := Z.of_N (dec_value ds) in
      if (id =? 0)%Z then Raise AssertionError [] else Ok (PObj id ty true)
  | None =>
  if str_eqb v (s2l "nil") then Ok (PNull None)
  else if starts_with [34] v && ends_with [34] v && Nat.leb 2 (List.length v) then Ok (PStr (strip_ends v))
  else match float_text v with
  | Some (neg, ip, fp, None) =>
      (* exact decimal; more than 15 significant digits would be rounded by float() *)
      if Nat.ltb 15 (List.length (drop_while (N.eqb 48) (ip ++ fp))) then Raise OutOfModel []
      else Ok (PFloat (mkDec (dec_digits_z neg (ip ++ fp)) (N.of_nat (List.length fp))))
  | Some (_, _, _, Some _) => Raise OutOfModel []
  | None =>
  if is_array_text v then Ok (PArray None)
  else match fd_text v with
  | Some ds => Ok (PFd (Z.of_N (dec_value ds)))
  | None => Ok (PUnknown (Some v))
  end end end end.

(* ---- message() ------------------------------------------------------------------------------------- *)
Record header := mkHeader {
  h_ts_int : str; h_ts_frac : str; h_conn : option str; h_type : str; h_id : str; h_name : str; h_args : str }.

(* what follows the optional queue/connection groups: the direction marker, then
   type, separator, id, dot, message name, open parenthesis, arguments, closing parenthesis at the end *)
Definition match_tail (out : bool) (s : str) : option (str * str * str * str) :=
  let marker := if out then s2l "  -> " else [32] in
  if starts_with marker s then
    let s1 := skipn (List.length marker) s in
    let '(ty, r1) := span is_word s1 in
    match ty, r1 with
    | _ :: _, c :: r2 =>
        if N.eqb c 64 || N.eqb c 35 then
          let '(id, r3) := span is_digit r2 in
          match id, r3 with
          | _ :: _, 46 :: r4 =>
              let '(nm, r5) := span is_word r4 in
              match nm, r5 with
              | _ :: _, 40 :: r6 =>
                  match rev r6 with
                  | 41 :: a => Some (ty, id, nm, rev a)
                  | _ => None
                  end
              | _, _ => None
              end
          | _, _ => None
          end
        else None
    | _, _ => None
    end
  else None.

(* the optional connection group (blank, less-than, word, greater-than) followed by the tail *)
Definition match_conn_tail (out : bool) (s : str) : option (option str * (str * str * str * str)) :=
  let with_conn :=
    if starts_with [32; 60] s then
      let '(w, r) := span is_word (skipn 2 s) in
      match w, r with
      | _ :: _, 62 :: r' => match match_tail out r' with Some t => Some (Some w, t) | None => None end
      | _, _ => None
      end
    else None in
  match with_conn with
  | Some x => Some x
  | None => match match_tail out s with Some t => Some (None, t) | None => None end
  end.

(* the optional queue group (blank, open brace, anything but a closing brace, closing brace) followed
   by the rest; the queue name stops at the first closing brace since the fix of D3 *)
Definition match_queue_conn_tail (out : bool) (s : str) : option (option str * (str * str * str * str)) :=
  let with_queue :=
    if starts_with [32; 123] s then
      match drop_while (fun c => negb (N.eqb c 125)) (skipn 2 s) with
      | 125 :: r => match_conn_tail out r
      | _ => None
      end
    else None in
  match with_queue with
  | Some x => Some x
  | None => match_conn_tail out s
  end.

(* a match attempt at the start of s: the bracketed time stamp, then the rest *)
Definition match_at (out : bool) (s : str) : option header :=
  match s with
  | 91 :: r0 =>
      let r1 := drop_while is_space r0 in
      let '(ip, r2) := span is_digit r1 in
      match ip, r2 with
      | _ :: _, c :: r3 =>
          if N.eqb c 46 || N.eqb c 44 then
            let '(fp, r4) := span is_digit r3 in
            match fp with
            | [] => None
            | _ =>
                match drop_while is_space r4 with
                | 93 :: r5 =>
                    match match_queue_conn_tail out r5 with
                    | Some (conn, (ty, id, nm, a)) => Some (mkHeader ip fp conn ty id nm a)
                    | None => None
                    end
                | _ => None
                end
            end
          else None
      | _, _ => None
      end
  | _ => None
  end.

(* re.search: the first start offset at which a match attempt succeeds *)
Fixpoint search (out : bool) (s : str) (pos : nat) : option (nat * header) :=
  match match_at out s with
  | Some h => Some (pos, h)
  | None => match s with
            | [] => None
            | _ :: r => search out r (S pos)
            end
  end.

(* float(ts.replace(',', '.')) / 1000.0 in microseconds: exact for at most 3 fractional digits *)
Definition ts_micros (ip fp : str) : res Z :=
  match Nat.leb (List.length fp) 3 with
  | true =>
      let pad := List.repeat 48 (3 - List.length fp) in
      if Nat.ltb 15 (List.length (drop_while (N.eqb 48) (ip ++ fp))) then Raise OutOfModel []
      else Ok (Z.of_N (dec_value (ip ++ fp ++ pad)))
  | false => Raise OutOfModel []
  end.

(* message(raw): the earlier of the outgoing / incoming match (since the fix of D3) *)
Definition message (raw : str) : res (str * pmsg) :=
  let o := search true raw O in
  let i := search false raw O in
  let pick : option (bool * nat * header) :=
    match o, i with
    | Some (po, ho), Some (pi, hi) => if Nat.leb po pi then Some (true, po, ho) else Some (false, pi, hi)
    | Some (po, ho), None => Some (true, po, ho)
    | None, Some (pi, hi) => Some (false, pi, hi)
    | None, None => None
    end in
  match pick with
  | None => if all_ascii raw then Raise RuntimeError raw else Raise OutOfModel []
  | Some (sent, pos, h) =>
      (* \w, \d, \s are Unicode-aware in Python: anything non-ASCII outside the argument text is out of model *)
      if negb (all_ascii (firstn (List.length raw - List.length (h_args h) - 1) raw)) then Raise OutOfModel [] else
      do t <- ts_micros (h_ts_int h) (h_ts_frac h);
      let id := Z.of_N (dec_value (h_id h)) in
      if (id =? 0)%Z then Raise AssertionError [] else
      do args <- mapM argument (split_args (h_args h));
      Ok (match h_conn h with Some c => c | None => s2l "PARSED" end,
          mkPmsg t (Some (h_type h)) id sent (h_name h) args)
  end.
