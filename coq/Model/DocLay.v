(* DocLay.v — the documented matcher language written with ANY whitespace placement: where Doc.render
   puts the same number of blanks at every strippable position, the relations below let every such
   position carry its own run of white space (any characters with str.isspace(), so blanks, TABs, ...).
   [Renders e s]: the text s is a way of writing the expression e.  [render_l] is an executable
   instance driven by a stream of numbers (one per strippable position).  Specification side of C05. *)
From WD Require Import Base Wire Conn Color LetterId Matcher MatcherParse Doc.
Open Scope N_scope.

Definition blank_str (p : str) : Prop := forallb is_space p = true.

(* comma-separated elements, each with its own white space on both sides; no element: only white space *)
Inductive PJ : list str -> str -> Prop :=
| PJ_nil p : blank_str p -> PJ [] p
| PJ_one p1 x p2 : blank_str p1 -> blank_str p2 -> PJ [x] (p1 ++ x ++ p2)
| PJ_cons p1 x p2 y r s : blank_str p1 -> blank_str p2 -> PJ (y :: r) s ->
    PJ (x :: y :: r) (p1 ++ x ++ p2 ++ 44 :: s).

(* alternatives, and exclusions after `!` *)
Inductive PB : list str -> list str -> str -> Prop :=
| PB_pos ps s : PJ ps s -> PB ps [] s
| PB_neg ps n ns a b : PJ ps a -> PJ (n :: ns) b -> PB ps (n :: ns) (a ++ 33 :: b).

Definition sq (b : str) : str := 91 :: b ++ [93].

Inductive Rtext : dtext -> str -> Prop :=
| Rt_word w : Rtext (TWord w) w
| Rt_list pos neg ps ns b : Forall2 Rtext pos ps -> Forall2 Rtext neg ns -> PB ps ns b ->
    Rtext (TList pos neg) (sq b).

Inductive Robj : dobj -> str -> Prop :=
| Ro_any : Robj OAny []
| Ro_type w : Robj (OType w) w
| Ro_id a id l : Robj (OId a id l) (r_id a id l)
| Ro_nil : Robj ONil (s2l "nil")
| Ro_list pos neg ps ns b : Forall2 Robj pos ps -> Forall2 Robj neg ns -> PB ps ns b ->
    Robj (OList pos neg) (sq b).

Inductive Rval : dval -> str -> Prop :=
| Rv_any : Rval VAny [42]
| Rv_int z : Rval (VInt z) (z_to_dec z)
| Rv_float n ip fp : Rval (VFloat n ip fp) (r_float n ip fp)
| Rv_str s : Rval (VStr s) (34 :: s ++ [34])
| Rv_word w : Rval (VWord w) w
| Rv_obj c id l : Rval (VObj c id l) (r_id (Some c) id l)
| Rv_nil : Rval VNil (s2l "nil")
| Rv_list pos neg ps ns b : Forall2 Rval pos ps -> Forall2 Rval neg ns -> PB ps ns b ->
    Rval (VList pos neg) (sq b).

Definition Rvopt (v : option dval) (s : str) : Prop :=
  match v with Some d => Rval d s | None => s = [] end.

Inductive Ritem : ditem -> str -> Prop :=
| Ri_named w v p1 p2 sv : blank_str p1 -> blank_str p2 -> Rvopt v sv ->
    Ritem (IItem (Some w) v) (w ++ p1 ++ 61 :: p2 ++ sv)
| Ri_unnamed v sv : Rvopt v sv -> Ritem (IItem None v) sv
| Ri_list pos neg ps ns b : Forall2 Ritem pos ps -> Forall2 Ritem neg ns -> PB ps ns b ->
    Ritem (IList pos neg) (sq b).

(* the text between the parentheses *)
Inductive Rargs : dargs -> str -> Prop :=
| Ra_none p : blank_str p -> Rargs ANone p
| Ra_never p1 p2 : blank_str p1 -> blank_str p2 -> Rargs ANever (p1 ++ 33 :: p2)
| Ra_items pos neg ps ns b : Forall2 Ritem pos ps -> Forall2 Ritem neg ns -> PB ps ns b ->
    Rargs (AItems pos neg) b.

Inductive Rconn : option dtext -> str -> Prop :=
| Rc_none : Rconn None []
| Rc_some t st p1 p2 : Rtext t st -> blank_str p1 -> blank_str p2 -> Rconn (Some t) (st ++ p1 ++ 58 :: p2).

Inductive Rname : option dtext -> str -> Prop :=
| Rn_none : Rname None []
| Rn_some t st p1 p2 : Rtext t st -> blank_str p1 -> blank_str p2 -> Rname (Some t) (p1 ++ 46 :: p2 ++ st).

Inductive Rparen : option dargs -> str -> Prop :=
| Rp_none : Rparen None []
| Rp_some d sd p : Rargs d sd -> blank_str p -> Rparen (Some d) (p ++ 40 :: sd ++ [41]).

Inductive Rbody : dbody -> str -> Prop :=
| Rb_bare o so : Robj o so -> Rbody (BBare o) so
| Rb_full o n a so sn sa : Robj o so -> Rname n sn -> Rparen a sa -> Rbody (BFull o n a) (so ++ sn ++ sa).

Inductive Rpat : dpat -> str -> Prop :=
| Rpat_intro p sc sb : Rconn (dp_conn p) sc -> Rbody (dp_body p) sb -> Rpat p (sc ++ sb).

Inductive Renders : dtop -> str -> Prop :=
| R_star p1 p2 : blank_str p1 -> blank_str p2 -> Renders TStar (p1 ++ 42 :: p2)
| R_bang p1 p2 : blank_str p1 -> blank_str p2 -> Renders TBang (p1 ++ 33 :: p2)
| R_pats pos neg ps ns b : Forall2 Rpat pos ps -> Forall2 Rpat neg ns -> PB ps ns b ->
    Renders (TPats pos neg) b.

(* ---- an executable instance: one number per strippable position, n mod 4 blanks ---------------------- *)
Definition stream := list nat.
Definition sp4 (l : stream) : str * stream :=
  match l with [] => ([], []) | n :: r => (List.repeat 32 (Nat.modulo n 4), r) end.

Section RL.
  Context {A : Type} (f : A -> stream -> str * stream).
  Definition rl_pad (x : A) (l : stream) : str * stream :=
    let '(p1, l1) := sp4 l in let '(s, l2) := f x l1 in let '(p2, l3) := sp4 l2 in (p1 ++ s ++ p2, l3).
  Fixpoint rl_seq (xs : list A) (l : stream) : str * stream :=
    match xs with
    | [] => sp4 l
    | x :: r =>
        match r with
        | [] => rl_pad x l
        | _ :: _ => let '(s1, l1) := rl_pad x l in let '(s2, l2) := rl_seq r l1 in (s1 ++ 44 :: s2, l2)
        end
    end.
  Definition rl_body (pos neg : list A) (l : stream) : str * stream :=
    let '(a, l1) := rl_seq pos l in
    match neg with
    | [] => (a, l1)
    | _ :: _ => let '(b, l2) := rl_seq neg l1 in (a ++ 33 :: b, l2)
    end.
End RL.

Fixpoint rl_text (t : dtext) (l : stream) : str * stream :=
  match t with
  | TWord w => (w, l)
  | TList pos neg => let '(b, l') := rl_body rl_text pos neg l in (sq b, l')
  end.

Fixpoint rl_obj (o : dobj) (l : stream) : str * stream :=
  match o with
  | OList pos neg => let '(b, l') := rl_body rl_obj pos neg l in (sq b, l')
  | _ => (r_obj [] o, l)
  end.

Fixpoint rl_val (v : dval) (l : stream) : str * stream :=
  match v with
  | VList pos neg => let '(b, l') := rl_body rl_val pos neg l in (sq b, l')
  | _ => (r_val [] v, l)
  end.

Definition rl_vopt (v : option dval) (l : stream) : str * stream :=
  match v with Some d => rl_val d l | None => ([], l) end.

Fixpoint rl_item (i : ditem) (l : stream) : str * stream :=
  match i with
  | IItem (Some w) v =>
      let '(p1, l1) := sp4 l in let '(p2, l2) := sp4 l1 in let '(sv, l3) := rl_vopt v l2 in
      (w ++ p1 ++ 61 :: p2 ++ sv, l3)
  | IItem None v => rl_vopt v l
  | IList pos neg => let '(b, l') := rl_body rl_item pos neg l in (sq b, l')
  end.

Definition rl_args (d : dargs) (l : stream) : str * stream :=
  match d with
  | ANone => sp4 l
  | ANever => let '(p1, l1) := sp4 l in let '(p2, l2) := sp4 l1 in (p1 ++ 33 :: p2, l2)
  | AItems pos neg => rl_body rl_item pos neg l
  end.

Definition rl_pat (p : dpat) (l : stream) : str * stream :=
  let '(sc, l1) :=
    match dp_conn p with
    | None => ([], l)
    | Some t => let '(st, l1) := rl_text t l in let '(p1, l2) := sp4 l1 in let '(p2, l3) := sp4 l2 in
                (st ++ p1 ++ 58 :: p2, l3)
    end in
  let '(sb, l2) :=
    match dp_body p with
    | BBare o => rl_obj o l1
    | BFull o n a =>
        let '(so, k1) := rl_obj o l1 in
        let '(sn, k2) :=
          match n with
          | None => ([], k1)
          | Some t => let '(p1, j1) := sp4 k1 in let '(p2, j2) := sp4 j1 in let '(st, j3) := rl_text t j2 in
                      (p1 ++ 46 :: p2 ++ st, j3)
          end in
        let '(sa, k3) :=
          match a with
          | None => ([], k2)
          | Some d => let '(p, j1) := sp4 k2 in let '(sd, j2) := rl_args d j1 in (p ++ 40 :: sd ++ [41], j2)
          end in
        (so ++ sn ++ sa, k3)
    end in
  (sc ++ sb, l2).

Definition render_l (l : stream) (e : dtop) : str :=
  match e with
  | TStar => let '(p1, l1) := sp4 l in let '(p2, _) := sp4 l1 in p1 ++ 42 :: p2
  | TBang => let '(p1, l1) := sp4 l in let '(p2, _) := sp4 l1 in p1 ++ 33 :: p2
  | TPats pos neg => fst (rl_body rl_pat pos neg l)
  end.
