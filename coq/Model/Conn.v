(* Conn.v — core/connection_impl.py (object table, create/retrieve), core/wl/message.py
   (Message.resolve) and core/wl/arg.py (Arg.*.resolve). *)
From WD Require Import Base Wire Protocol.
Open Scope Z_scope.

(* ---- str_matcher / WildcardMatcher semantics on text -------------------------- *)
(* regex ^ escaped-pattern-with-.* $ : '*' = any run of non-newline chars; '$' also matches
   before one trailing newline *)
Fixpoint glob (p t : str) : bool :=
  match p with
  | [] => match t with [] => true | [10%N] => true | _ => false end
  | 42%N :: p' =>
      (fix star (t : str) : bool :=
         glob p' t || match t with
                      | [] => false
                      | c :: t' => if N.eqb c 10 then false else star t'
                      end) t
  | c :: p' => match t with
               | d :: t' => N.eqb c d && glob p' t'
               | [] => false
               end
  end.

(* str_matcher(pattern).matches(text) *)
Definition str_match (pattern text : str) : bool :=
  if str_eqb pattern [42%N] then true
  else if mem_char 42%N pattern then glob pattern text
  else str_eqb pattern text.

(* ---- object table ---------------------------------------------------------------- *)
Definition db := list (Z * list obj).

Fixpoint db_get (d : db) (id : Z) : option (list obj) :=
  match d with
  | [] => None
  | (k, l) :: d' => if k =? id then Some l else db_get d' id
  end.

Fixpoint db_set (d : db) (id : Z) (l : list obj) : db :=
  match d with
  | [] => [(id, l)]
  | (k, l0) :: d' => if k =? id then (k, l) :: d' else (k, l0) :: db_set d' id l
  end.

Definition display_obj : obj := mkObj 1 0 (Some (s2l "wl_display")) true 0 None.
Definition db_init : db := [(1, [display_obj])].

Definition kill (time : Z) (o : obj) : obj :=
  mkObj (o_id o) (o_gen o) (o_type o) false (o_create o) (Some time).

(* replace the last element *)
Fixpoint map_last {A} (f : A -> A) (l : list A) : list A :=
  match l with
  | [] => []
  | [x] => [f x]
  | x :: l' => x :: map_last f l'
  end.

Definition owned_by_server (id : Z) : bool := 4278190080 <=? id.   (* 0xff000000 *)

(* ConnectionImpl.create_object; Raise RuntimeError leaves the table unchanged *)
Definition create_object (d : db) (time : Z) (id : Z) (ty : str) : res db :=
  if id <=? 1 then Raise RuntimeError [] else
  let fresh (l : list obj) :=
    Ok (db_set d id (l ++ [mkObj id (N.of_nat (List.length l)) (Some ty) true time None])) in
  match db_get d id with
  | None => fresh []
  | Some l =>
      match last l display_obj with
      | lo =>
          if o_alive lo then
            if str_eqb ty (s2l "wl_registry") && (id =? 2) then Raise RuntimeError []
            else if owned_by_server id then
              (* implicit destruction of the live server-owned object, then create *)
              let l' := map_last (kill time) l in
              Ok (db_set d id (l' ++ [mkObj id (N.of_nat (List.length l')) (Some ty) true time None]))
            else Raise RuntimeError []
          else fresh l
      end
  end.

(* retrieve_object(id, -1, type_name): the latest incarnation, with the type check *)
Definition retrieve_latest (d : db) (id : Z) (ty : option str) : res obj :=
  match db_get d id with
  | None => Raise RuntimeError (s2l "Id " ++ z_to_dec id ++ s2l " not in object database")
  | Some l =>
      match rev l with
      | [] => Raise RuntimeError []
      | o :: _ =>
          match ty, o_type o with
          | Some t, Some ot => if str_match t ot then Ok o else Raise RuntimeError []
          | _, _ => Ok o
          end
      end
  end.

(* UnresolvedObject.resolve: RuntimeError -> stays unresolved *)
Definition resolve_ref (d : db) (id : Z) (ty : option str) : oref :=
  match retrieve_latest d id ty with
  | Ok o => Resolved (o_id o) (o_gen o)
  | Raise _ _ => Unresolved id ty
  end.

Definition lookup_obj (d : db) (id : Z) (gen : N) : option obj :=
  match db_get d id with
  | None => None
  | Some l => nth_error l (N.to_nat gen)
  end.

(* the type a reference shows: the incarnation's, or the printed one *)
Definition ref_type (d : db) (r : oref) : option str :=
  match r with
  | Resolved id g => match lookup_obj d id g with Some o => o_type o | None => None end
  | Unresolved _ ty => ty
  end.

(* ---- Arg.*.resolve ------------------------------------------------------------------ *)
Section Resolve.
Variable P : pdb.

(* Arg.Base.resolve: name lookup when the target's type is known *)
Definition base_name (tty : option str) (mname : str) (idx : nat) : res (option str) :=
  match tty with
  | None => Ok None
  | Some t => get_arg_name P t mname idx
  end.

Definition enum_labels (tty : option str) (mname : str) (idx : nat) (v : Z) : res (option (list str)) :=
  match tty with
  | None => Ok None
  | Some t => do l <- look_up_enum P t mname idx v;
              Ok (match l with [] => None | _ => Some l end)
  end.

(* one argument; returns the table (creation may change it) and the resolved argument *)
Definition resolve_arg (d : db) (time : Z) (tty : option str) (mname : str) (idx : nat) (a : parg)
  : res (db * rarg) :=
  do nm <- base_name tty mname idx;
  match a with
  | PInt v => do l <- enum_labels tty mname idx v; Ok (d, mkRarg nm (RInt v l))
  | PFloat x => Ok (d, mkRarg nm (RFloat x))
  | PStr s => Ok (d, mkRarg nm (RStr s))
  | PFd v => Ok (d, mkRarg nm (RFd v))
  | PUnknown s => Ok (d, mkRarg nm (RUnknown s))
  | PNull ty =>
      match ty, tty with
      | None, Some t => do i <- look_up_interface P t mname idx; Ok (d, mkRarg nm (RNull i))
      | _, _ => Ok (d, mkRarg nm (RNull ty))
      end
  | PObj id ty is_new =>
      let d' :=
        if is_new then
          match ty with
          | None => d
          | Some t => match create_object d time id t with Ok d2 => d2 | Raise _ _ => d end
          end
        else d in
      Ok (d', mkRarg nm (RObj (resolve_ref d' id ty) is_new))
  | PArray None => Ok (d, mkRarg nm (RArray None))
  | PArray (Some vs) =>
      do ls <- mapM (fun v => do l <- enum_labels tty mname idx v; Ok (v, l)) vs;
      Ok (d, mkRarg nm (RArray (Some ls)))
  end.

(* an argument nobody resolved (Python keeps the original Arg object) *)
Definition unresolved_arg (a : parg) : rarg :=
  mkRarg None
    match a with
    | PInt v => RInt v None
    | PFloat x => RFloat x
    | PStr s => RStr s
    | PFd v => RFd v
    | PUnknown s => RUnknown s
    | PNull ty => RNull ty
    | PObj id ty is_new => RObj (Unresolved id ty) is_new
    | PArray None => RArray None
    | PArray (Some vs) => RArray (Some (map (fun v => (v, None)) vs))
    end.

(* arguments left to right; on an exception the table changes made so far are kept *)
Fixpoint resolve_args (d : db) (time : Z) (tty : option str) (mname : str) (idx : nat)
         (args : list parg) : db * list rarg * option (exn * str) :=
  match args with
  | [] => (d, [], None)
  | a :: rest =>
      match resolve_arg d time tty mname idx a with
      | Raise e msg => (d, map unresolved_arg args, Some (e, msg))
      | Ok (d1, ra) =>
          let '(d2, ras, err) := resolve_args d1 time tty mname (S idx) rest in
          (d2, ra :: ras, err)
      end
  end.

(* wl_registry.bind: type the 4th argument from the 2nd; assertion failures abort *)
Definition bind_typing (args : list parg) : res (list parg) :=
  match args with
  | [a0; PStr s; a2; PObj id ty is_new] =>
      match ty with
      | None => Ok [a0; PStr s; a2; PObj id (Some s) is_new]
      | Some t => if str_eqb s t then Ok args else Raise AssertionError []
      end
  | _ => Raise AssertionError []
  end.

(* Message.resolve(conn).  time = relative timestamp of the message.
   Returns the new table, the (possibly partially) resolved message and the exception that
   escaped, if any. *)
Definition resolve_msg (d : db) (time : Z) (m : pmsg) : db * rmsg * option (exn * str) :=
  let target := resolve_ref d (p_id m) (p_type m) in
  let tty := ref_type d target in
  let base := mkRmsg time target (p_sent m) (p_name m) (map unresolved_arg (p_args m)) None in
  let is_bind := match tty with Some t => str_eqb t (s2l "wl_registry") && str_eqb (p_name m) (s2l "bind") | None => false end in
  match (if is_bind then bind_typing (p_args m) else Ok (p_args m)) with
  | Raise e msg => (d, base, Some (e, msg))
  | Ok args =>
      let is_delete :=
        match target with
        | Resolved 1 0%N => str_eqb (p_name m) (s2l "delete_id") && negb (match args with [] => true | _ => false end)
        | _ => false
        end in
      let after_delete : res (db * option oref) :=
        if is_delete then
          match args with
          | PInt v :: _ =>
              match retrieve_latest d v None with
              | Raise e s => Raise RuntimeError s
              | Ok o =>
                  match db_get d v with
                  | Some l => Ok (db_set d v (map_last (kill time) l), Some (Resolved (o_id o) (o_gen o)))
                  | None => Raise RuntimeError []
                  end
              end
          | _ => Raise AssertionError []
          end
        else Ok (d, None) in
      match after_delete with
      | Raise e msg => (d, base, Some (e, msg))
      | Ok (d1, destroyed) =>
          let '(d2, rargs, err) := resolve_args d1 time tty (p_name m) 0 args in
          (d2, mkRmsg time target (p_sent m) (p_name m) rargs destroyed, err)
      end
  end.

End Resolve.
