(* Extract.v — backends/gdb_plugin/extract.py: extract_message / received_message / sent_message
   over an abstract libwayland closure. *)
From WD Require Import Base Wire Render.
Open Scope Z_scope.

(* what the wl_argument union slot holds *)
Inductive cval :=
| CInt (v : Z)                    (* i, u, h *)
| CFixed (k : Z)                  (* f: raw 24.8 *)
| CStr (s : option str)           (* s: NULL or text *)
| CObj (o : option (str * Z))     (* o: NULL or object (actual interface name, id) *)
| CNewId (id : Z) (as_obj : option str)   (* n: the uint32 id; on the client side the slot holds the proxy (its interface) *)
| CArr (elems : list Z).          (* a: wl_array of ints *)

Record closure := mkClosure {
  cl_name : str;
  cl_sig : str;                        (* e.g. "2uufo?i" *)
  cl_types : list (option str);        (* message->types[i]: declared interface or NULL *)
  cl_args : list cval;
  cl_sender : Z }.

Definition is_type_code (c : char) : bool :=
  (N.eqb c 105 || N.eqb c 117 || N.eqb c 102 || N.eqb c 115 || N.eqb c 111 || N.eqb c 110 || N.eqb c 97 || N.eqb c 104)%N.

Definition fixed_dec (k : Z) : dec := mkDec (k * 390625) 8.    (* wl_fixed_to_double: k/256 exactly *)

(* one argument: type code c, index i *)
Definition extract_arg (new_is_obj : bool) (cl : closure) (c : char) (i : nat) : res parg :=
  match nth_error (cl_args cl) i with
  | None => Raise OutOfModel []
  | Some v =>
      let ty := match nth_error (cl_types cl) i with Some t => t | None => None end in
      if (N.eqb c 105 || N.eqb c 117)%N then match v with CInt z => Ok (PInt z) | _ => Raise OutOfModel [] end
      else if N.eqb c 102 then match v with CFixed k => Ok (PFloat (fixed_dec k)) | _ => Raise OutOfModel [] end
      else if N.eqb c 115 then
        match v with
        | CStr None => Ok (PNull None)               (* since the fix of D5: a NULL string is a null argument, as in log mode *)
        | CStr (Some s) => Ok (PStr s)
        | _ => Raise OutOfModel []
        end
      else if N.eqb c 97 then match v with CArr l => Ok (PArray (Some l)) | _ => Raise OutOfModel [] end
      else if N.eqb c 104 then match v with CInt z => Ok (PFd z) | _ => Raise OutOfModel [] end
      else if N.eqb c 111 then
        match v with
        | CObj None => Ok (PNull ty)
        | CObj (Some (_, id)) => if id <=? 0 then Raise AssertionError [] else Ok (PObj id ty false)
        | _ => Raise OutOfModel []
        end
      else if N.eqb c 110 then
        match v with
        | CNewId id _ => if id <=? 0 then Raise AssertionError [] else Ok (PObj id ty true)
        | _ => Raise OutOfModel []
        end
      else Raise RuntimeError []
  end.

(* for c in signature: if c in type_codes: ...; i += 1 *)
Fixpoint extract_args (new_is_obj : bool) (cl : closure) (sig : str) (i : nat) : res (list parg) :=
  match sig with
  | [] => Ok []
  | c :: rest =>
      if is_type_code c then
        do a <- extract_arg new_is_obj cl c i;
        do r <- extract_args new_is_obj cl rest (S i);
        Ok (a :: r)
      else extract_args new_is_obj cl rest i
  end.

Inductive frame_kind := RecvClient | RecvServer | Sent.

(* received_message() / sent_message(): (target interface, closure, time) -> decoded message *)
Definition extract_message (k : frame_kind) (target_iface : str) (cl : closure) (time : Z) : res pmsg :=
  do args <- extract_args (match k with RecvClient => true | _ => false end) cl (cl_sig cl) O;
  if cl_sender cl <=? 0 then Raise AssertionError [] else
  Ok (mkPmsg time (match k with Sent => None | _ => Some target_iface end) (cl_sender cl)
             (match k with Sent => true | _ => false end) (cl_name cl) args).

(* 'gdb_conn:' + hex(address) *)
Fixpoint hex_digits (fuel : nat) (n : N) (acc : str) : str :=
  match fuel with
  | O => acc
  | S f => let d := (n mod 16)%N in
           let c := (if (d <? 10)%N then 48 + d else 87 + d)%N in
           if (n <? 16)%N then c :: acc else hex_digits f (n / 16)%N (c :: acc)
  end.
Definition conn_id_of (addr : N) : str := s2l "gdb_conn:0x" ++ hex_digits (S (N.to_nat (N.log2 addr))) addr [].

(* ---- the specification side --------------------------------------------------------------------- *)
(* one argument per type code of the signature, in order; version digits and `?` are skipped *)
Definition codes (sig : str) : str := filter is_type_code sig.

Definition denote_carg (ty : option str) (c : char) (v : cval) : option parg :=
  match v with
  | CInt z => if (N.eqb c 105 || N.eqb c 117)%N then Some (PInt z) else if N.eqb c 104 then Some (PFd z) else None
  | CFixed k => if N.eqb c 102 then Some (PFloat (fixed_dec k)) else None
  | CStr None => if N.eqb c 115 then Some (PNull None) else None
  | CStr (Some s) => if N.eqb c 115 then Some (PStr s) else None
  | CObj None => if N.eqb c 111 then Some (PNull ty) else None
  | CObj (Some (_, id)) => if N.eqb c 111 then Some (PObj id ty false) else None
  | CNewId id _ => if N.eqb c 110 then Some (PObj id ty true) else None
  | CArr l => if N.eqb c 97 then Some (PArray (Some l)) else None
  end.

Fixpoint denote_args (cs : str) (tys : list (option str)) (vs : list cval) : option (list parg) :=
  match cs, vs with
  | [], [] => Some []
  | c :: cs', v :: vs' =>
      let ty := match tys with t :: _ => t | [] => None end in
      match denote_carg ty c v, denote_args cs' (tl tys) vs' with
      | Some a, Some r => Some (a :: r)
      | _, _ => None
      end
  | _, _ => None
  end.

(* well-formed closure: as many slots as type codes, each slot holding what its code says,
   positive object / new ids and sender id *)
Definition cval_ok (c : char) (v : cval) : bool :=
  match v with
  | CInt _ => (N.eqb c 105 || N.eqb c 117 || N.eqb c 104)%N
  | CFixed _ => N.eqb c 102
  | CStr _ => N.eqb c 115
  | CObj None => N.eqb c 111
  | CObj (Some (_, id)) => N.eqb c 111 && (0 <? id)
  | CNewId id _ => N.eqb c 110 && (0 <? id)
  | CArr _ => N.eqb c 97
  end.
Fixpoint cvals_ok (cs : str) (vs : list cval) : bool :=
  match cs, vs with
  | [], [] => true
  | c :: cs', v :: vs' => cval_ok c v && cvals_ok cs' vs'
  | _, _ => false
  end.
Definition wf_closure (cl : closure) : bool :=
  cvals_ok (codes (cl_sig cl)) (cl_args cl) && (0 <? cl_sender cl)
  && Nat.eqb (List.length (cl_types cl)) (List.length (cl_args cl)).

(* libwayland's print-out of the closure (current dialect), for comparison with log mode *)
Definition wire_arg (ty : option str) (c : char) (v : cval) : option warg :=
  match v with
  | CInt z => if N.eqb c 104 then Some (WFd z) else Some (WInt z)
  | CFixed k => Some (WFixed k)
  | CStr None => Some WNil
  | CStr (Some s) => Some (WStr s)
  | CObj None => Some WNil
  | CObj (Some (iface, id)) => Some (WObj iface id)
  | CNewId id _ => Some (WNew ty id)
  | CArr l => Some (WArray (4 * N.of_nat (List.length l)))
  end.

(* ---- sx ------------------------------------------------------------------------------------------ *)
Definition get_cval (s : sx) : option cval :=
  match s with
  | SL [SS t; SZ v] =>
      if str_eqb t (s2l "int") then Some (CInt v)
      else if str_eqb t (s2l "fixed") then Some (CFixed v) else None
  | SL [SS t; SL o] =>
      if str_eqb t (s2l "str") then match get_opt get_s (SL o) with Some x => Some (CStr x) | None => None end
      else if str_eqb t (s2l "arr") then match get_list get_z o with Some l => Some (CArr l) | None => None end
      else if str_eqb t (s2l "obj") then
        match o with
        | [] => Some (CObj None)
        | [SS i; SZ id] => Some (CObj (Some (i, id)))
        | _ => None
        end
      else None
  | SL [SS t; SZ id; SL o] =>
      if str_eqb t (s2l "new") then match get_opt get_s (SL o) with Some x => Some (CNewId id x) | None => None end else None
  | _ => None
  end.

Definition get_closure (s : sx) : option closure :=
  match s with
  | SL [SS name; SS sig; SL tys; SL args; SZ sender] =>
      match get_list (get_opt get_s) tys, get_list get_cval args with
      | Some tys', Some args' => Some (mkClosure name sig tys' args' sender)
      | _, _ => None
      end
  | _ => None
  end.
