(* Runner.v — backends/libwayland_debug_output/runner.py and main.py: how the program is started
   in run mode, how a byte stream becomes lines whatever the write chunks are, and the exit status. *)
From WD Require Import Base.
Open Scope N_scope.

Definition env := list (str * str).

Fixpoint env_get (e : env) (k : str) : option str :=
  match e with
  | [] => None
  | (k', v) :: e' => if str_eqb k' k then Some v else env_get e' k
  end.
Fixpoint env_set (e : env) (k v : str) : env :=
  match e with
  | [] => [(k, v)]
  | (k', v') :: e' => if str_eqb k' k then (k, v) :: e' else (k', v') :: env_set e' k v
  end.

(* ':'.join(filter(None, [wayland_lib_dir, env.get('LD_LIBRARY_PATH', '')])) *)
Definition ld_path (lib_dir : option str) (e : env) : str :=
  let old := match env_get e (s2l "LD_LIBRARY_PATH") with Some v => v | None => [] end in
  match lib_dir, old with
  | Some ((_ :: _) as d), _ :: _ => d ++ [58] ++ old
  | Some ((_ :: _) as d), [] => d
  | _, _ => old
  end.

(* _Subprocess.run: argv verbatim, environment with WAYLAND_DEBUG=1 *)
Record spawn := mkSpawn { sp_argv : list str; sp_env : env; sp_stdout_inherited : bool }.
Definition spawn_spec (command_args : list str) (lib_dir : option str) (e : env) : spawn :=
  mkSpawn command_args
          (env_set (env_set e (s2l "LD_LIBRARY_PATH") (ld_path lib_dir e)) (s2l "WAYLAND_DEBUG") [49])
          true.

(* text-mode line reassembly: the reader sees the concatenation of the writes, cut at newlines;
   a final piece without newline is a (last) line *)
Fixpoint lines_go (s : str) (cur : str) : list str :=
  match s with
  | [] => match cur with [] => [] | _ => [rev cur] end
  | c :: r => if N.eqb c 10 then rev (c :: cur) :: lines_go r [] else lines_go r (c :: cur)
  end.
Definition lines_of (s : str) : list str := lines_go s [].
Definition lines_of_chunks (chunks : list str) : list str := lines_of (List.concat chunks).

(* exit status of run mode: the child's, once the prompt loop has ended (by resume, quit, or -
   since the fix of D12 - end of standard input) *)
Definition run_exit_status (child_status : N) (prompt_eof : bool) : N := child_status.
