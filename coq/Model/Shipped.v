(* Shipped.v — the protocol database the tool loads, computed by the model's load_all from the
   regenerated raw data. *)
From WD Require Import Base Protocol.
From WD Require Import ShippedDB.
Definition shipped_db : pdb := load_all shipped_files shipped_tag_steps.
