(* Utf8.v - how the bytes a program writes to its stderr become the characters the viewer works on.
   The pipe is opened as a Python text file, os.fdopen(fd, 'r', errors='replace'), UTF-8 locale:
   every chunk returned by read() is handed to an incremental UTF-8 decoder with errors='replace',
   and the end of the stream is signalled with final=True.

   decode_utf8     = CPython's  bytes.decode('utf-8', 'replace')  on a whole byte string
   scan/feed/finish= CPython's  codecs.getincrementaldecoder('utf-8')('replace'):
                     buffer ++ input is decoded as far as it can be decided, the undecidable tail is
                     kept as the new buffer (codecs.BufferedIncrementalDecoder)
   Bytes are N values (< 256) in a list, characters are code points (Base.str).
   Executable definitions only; the proofs are in Proofs/Utf8ProofsA.v.
   harness/utf8_corr.py compares all of these with CPython on random and hand-picked inputs. *)
From WD Require Import Base.
Open Scope N_scope.

Definition replacement : N := 65533.    (* U+FFFD *)

(* 80..BF *)
Definition is_cont (b : N) : bool := (128 <=? b) && (b <=? 191).

(* a byte that can never start a character: a continuation byte 80..BF, C0/C1 (would only encode
   over-long forms of ASCII), F5..FF (would only encode values above U+10FFFF) *)
Definition bad_lead (b : N) : bool := (b <? 194) || (244 <? b).

(* the second byte allowed after a lead byte (Unicode Table 3-7):
   E0 A0..BF (below: over-long), ED 80..9F (above: surrogates D800..DFFF),
   F0 90..BF (below: over-long), F4 80..8F (above: beyond U+10FFFF), otherwise 80..BF *)
Definition second_ok (b0 b1 : N) : bool :=
  if b0 =? 224 then (160 <=? b1) && (b1 <=? 191)
  else if b0 =? 237 then (128 <=? b1) && (b1 <=? 159)
  else if b0 =? 240 then (144 <=? b1) && (b1 <=? 191)
  else if b0 =? 244 then (128 <=? b1) && (b1 <=? 143)
  else is_cont b1.

Definition cp2 (b0 b1 : N) : N := (b0 - 192) * 64 + (b1 - 128).
Definition cp3 (b0 b1 b2 : N) : N := (b0 - 224) * 4096 + (b1 - 128) * 64 + (b2 - 128).
Definition cp4 (b0 b1 b2 b3 : N) : N :=
  (b0 - 240) * 262144 + (b1 - 128) * 4096 + (b2 - 128) * 64 + (b3 - 128).

(* ---- the whole byte string at once ------------------------------------------------------------
   Well-formed sequences give their code point.  Of an ill-formed sequence the longest piece that is
   a prefix of some well-formed sequence ("maximal subpart"; a single byte if there is no such
   prefix) is replaced by ONE U+FFFD and decoding resumes right behind that piece.  *)
Fixpoint decode_utf8 (bs : list N) : list N :=
  match bs with
  | [] => []
  | b0 :: r0 =>
    if b0 <? 128 then b0 :: decode_utf8 r0
    else if bad_lead b0 then replacement :: decode_utf8 r0
    else
      match r0 with
      | [] => [replacement]                                   (* unexpected end of data *)
      | b1 :: r1 =>
        if negb (second_ok b0 b1) then replacement :: decode_utf8 r0
        else if b0 <? 224 then cp2 b0 b1 :: decode_utf8 r1
        else
          match r1 with
          | [] => [replacement]
          | b2 :: r2 =>
            if negb (is_cont b2) then replacement :: decode_utf8 r1
            else if b0 <? 240 then cp3 b0 b1 b2 :: decode_utf8 r2
            else
              match r2 with
              | [] => [replacement]
              | b3 :: r3 =>
                if negb (is_cont b3) then replacement :: decode_utf8 r2
                else cp4 b0 b1 b2 b3 :: decode_utf8 r3
              end
          end
      end
  end.

(* ---- the incremental decoder --------------------------------------------------------------------
   scan decodes as far as the bytes seen so far decide the result and returns (decoded, undecided
   tail).  The tail is a lead byte with some, but not all, of its continuation bytes - and, exactly
   as in CPython (stringlib utf8 decoder, "Truncated surrogate code in range D800-DFFF"), also the
   two bytes ED A0..BF when nothing follows them yet. *)
Definition emit (c : N) (p : list N * list N) : list N * list N := (c :: fst p, snd p).

Definition surrogate_wait (b0 b1 : N) (r1 : list N) : bool :=
  (b0 =? 237) && (160 <=? b1) && (b1 <=? 191) && match r1 with [] => true | _ => false end.

Fixpoint scan (bs : list N) : list N * list N :=
  match bs with
  | [] => ([], [])
  | b0 :: r0 =>
    if b0 <? 128 then emit b0 (scan r0)
    else if bad_lead b0 then emit replacement (scan r0)
    else
      match r0 with
      | [] => ([], bs)
      | b1 :: r1 =>
        if negb (second_ok b0 b1) then
          if surrogate_wait b0 b1 r1 then ([], bs) else emit replacement (scan r0)
        else if b0 <? 224 then emit (cp2 b0 b1) (scan r1)
        else
          match r1 with
          | [] => ([], bs)
          | b2 :: r2 =>
            if negb (is_cont b2) then emit replacement (scan r1)
            else if b0 <? 240 then emit (cp3 b0 b1 b2) (scan r2)
            else
              match r2 with
              | [] => ([], bs)
              | b3 :: r3 =>
                if negb (is_cont b3) then emit replacement (scan r2)
                else emit (cp4 b0 b1 b2 b3) (scan r3)
              end
          end
      end
  end.

(* the decoder's state: the bytes received but not yet decoded (at most 3, see the proofs) *)
Definition dstate := list N.
Definition dstate0 : dstate := [].

(* decoder.decode(chunk): new state and the text produced now *)
Definition feed (st : dstate) (chunk : list N) : dstate * list N :=
  let r := scan (st ++ chunk) in (snd r, fst r).

(* decoder.decode(b'', final=True): what is still pending is decoded as a complete byte string *)
Definition finish (st : dstate) : list N := decode_utf8 st.

Fixpoint feed_all (st : dstate) (chunks : list (list N)) : list N :=
  match chunks with
  | [] => finish st
  | c :: cs => let r := feed st c in snd r ++ feed_all (fst r) cs
  end.

(* the text read from a stream whose bytes arrive in these pieces *)
Definition decode_chunks (chunks : list (list N)) : list N := feed_all dstate0 chunks.

(* for the correspondence test: the text produced by every single decode() call, the text produced
   by the final call, and the pending bytes after every call *)
Fixpoint feed_trace (st : dstate) (chunks : list (list N)) : list (list N * dstate) * list N :=
  match chunks with
  | [] => ([], finish st)
  | c :: cs =>
      let r := feed st c in
      let t := feed_trace (fst r) cs in
      ((snd r, fst r) :: fst t, snd t)
  end.

(* ---- encoding (str.encode('utf-8')) of scalar values -------------------------------------------- *)
Definition is_scalar (c : N) : bool := (c <? 55296) || ((57344 <=? c) && (c <=? 1114111)).

Definition encode_cp (c : N) : list N :=
  if c <? 128 then [c]
  else if c <? 2048 then [192 + c / 64; 128 + c mod 64]
  else if c <? 65536 then [224 + c / 4096; 128 + (c / 64) mod 64; 128 + c mod 64]
  else [240 + c / 262144; 128 + (c / 4096) mod 64; 128 + (c / 64) mod 64; 128 + c mod 64].

Definition encode_utf8 (s : str) : list N := flat_map encode_cp s.
