(* Doc.v — the documented matcher language (matchers.md) as an abstract syntax, its meaning written
   directly from the documentation and the property text (denote), the text it is written as
   (render, with a layout saying where blanks and redundant brackets go) and the matcher object
   the parser is expected to build from it (elab).  Specification side of C05. *)
From WD Require Import Base Wire Conn Color LetterId Matcher MatcherParse.
Open Scope Z_scope.

(* ---- syntax -------------------------------------------------------------------------------------- *)
(* a word with `*` wildcards over [A-Za-z0-9_-]; the word `*` alone means "anything" *)
Inductive dtext :=
| TWord (w : str)
| TList (pos neg : list dtext).              (* [a, b ! c] *)

Inductive dobj :=
| OAny                                         (* `*` or nothing *)
| OType (w : str)                              (* by interface, glob word (not `*`) *)
| OId (at_sign : option char) (id : Z) (letters : str)   (* 5, 5b, @5b, #5 *)
| ONil
| OList (pos neg : list dobj).

Inductive dval :=
| VAny                                         (* `*` *)
| VInt (z : Z)
| VFloat (neg : bool) (ip fp : str)            (* digits . digits *)
| VStr (s : str)                               (* "chars" *)
| VWord (w : str)                              (* enum label or interface, glob word *)
| VObj (at_sign : char) (id : Z) (letters : str)   (* @5b, #5 *)
| VNil
| VList (pos neg : list dval).

Inductive ditem :=
| IItem (name : option str) (v : option dval)  (* x=5, x=, 5 ; name is a glob word *)
| IList (pos neg : list ditem).

Inductive dargs :=
| ANone                                        (* no parentheses, or () *)
| ANever                                       (* (!) *)
| AItems (pos neg : list ditem).

Inductive dbody :=
| BBare (o : dobj)                             (* wl_surface ; 5b *)
| BFull (o : dobj) (name : option dtext) (args : option dargs).   (* o.name(args), o.name, o(args) *)

Record dpat := mkDpat { dp_conn : option dtext; dp_body : dbody }.

Inductive dtop :=
| TStar | TBang
| TPats (pos neg : list dpat).

(* ---- meaning --------------------------------------------------------------------------------------- *)
Definition word_matches (w s : str) : bool :=
  if str_eqb w [42%N] then true else if mem_char 42%N w then glob w s else str_eqb w s.

(* a list: some alternative (an exclusion-only list has `*` as its positive part) and no exclusion *)
Definition den_list {A} (hits : A -> bool) (pos neg : list A) : bool :=
  (match pos with [] => true | _ => existsb hits pos end) && negb (existsb hits neg).

Fixpoint den_text (t : dtext) (s : str) : bool :=
  match t with
  | TWord w => word_matches w s
  | TList pos neg => den_list (fun p => den_text p s) pos neg
  end.

Definition gen_of (o : vobj) : Z := Z.of_N (match vo_gen o with Some g => g | None => 0%N end).
Definition letters_value (l : str) : Z := match letter_id_to_number l with Ok k => k | Raise _ _ => -1 end.

Fixpoint den_obj (d : dobj) (o : vobj) : bool :=
  match d with
  | OAny => true
  | OType w => match vo_type o with Some t => word_matches w t | None => false end
  | OId _ id letters =>
      (vo_id o =? id) && match letters with [] => true | _ => gen_of o =? letters_value letters end
  | ONil => vo_id o =? 0
  | OList pos neg => den_list (fun p => den_obj p o) pos neg
  end.

Definition float_of (neg : bool) (ip fp : str) : dec :=
  let m := Z.of_N (dec_value (ip ++ fp)) in mkDec (if neg then - m else m) (N.of_nat (List.length fp)).

(* an argument seen as an object: a null argument is the object with id 0 and the declared interface *)
Definition arg_as_obj (a : varg) : option vobj :=
  match va_val a with
  | VAObj o _ => Some o
  | VANull ty => Some (null_obj ty)
  | _ => None
  end.

Fixpoint den_val (d : dval) (a : varg) : bool :=
  match d with
  | VAny => true
  | VInt z =>
      match va_val a with
      | VAInt v _ => v =? z
      | VAFd v => v =? z
      | VAFloat x => dec_is_int x && (dec_to_int x =? z)
      | VAObj o _ => vo_id o =? z
      | _ => false
      end
  | VFloat neg ip fp => match va_val a with VAFloat x => dec_eqb (float_of neg ip fp) x | _ => false end
  | VStr s => match va_val a with VAStr x => str_eqb s x | _ => false end
  | VWord w =>
      match va_val a with
      | VAInt _ (Some ls) => existsb (word_matches w) ls
      | VAObj o _ => match vo_type o with Some t => word_matches w t | None => false end
      | VANull (Some t) => word_matches w t
      | _ => false
      end
  | VObj c id letters => match arg_as_obj a with Some o => den_obj (OId (Some c) id letters) o | None => false end
  | VNil => match arg_as_obj a with Some o => vo_id o =? 0 | None => false end
  | VList pos neg => den_list (fun p => den_val p a) pos neg
  end.

Fixpoint den_item (i : ditem) (a : varg) : bool :=
  match i with
  | IItem name v =>
      (match name with Some w => word_matches w (match va_name a with Some n => n | None => [] end) | None => true end)
      && (match v with Some d => den_val d a | None => true end)
  | IList pos neg => den_list (fun p => den_item p a) pos neg
  end.

(* every item must be satisfied by some argument; no argument may satisfy an exclusion *)
Definition den_args (d : dargs) (args : list varg) : bool :=
  match d with
  | ANone => true
  | ANever => false
  | AItems pos neg =>
      forallb (fun p => existsb (den_item p) args) pos && negb (existsb (fun n => existsb (den_item n) args) neg)
  end.

Definition den_conn (c : option dtext) (m : vmsg) : bool :=
  match c with
  | None => true
  | Some t => den_text t (match vm_conn m with Some n => n | None => s2l "unknown" end)
  end.

Definition creates (o : dobj) (m : vmsg) : bool :=
  existsb (fun a => match va_val a with VAObj ob true => den_obj o ob | _ => false end) (vm_args m).
Definition destroys (o : dobj) (m : vmsg) : bool :=
  match vm_destroyed m with Some ob => den_obj o ob | None => false end.
Definition mentions (o : dobj) (m : vmsg) : bool :=
  existsb (fun a => match arg_as_obj a with Some ob => den_obj o ob | None => false end) (vm_args m).

Definition den_name (n : option dtext) (s : str) : bool := match n with Some t => den_text t s | None => true end.
Definition den_oargs (a : option dargs) (args : list varg) : bool := match a with Some d => den_args d args | None => true end.

Definition den_pat (p : dpat) (m : vmsg) : bool :=
  den_conn (dp_conn p) m &&
  match dp_body p with
  | BBare o =>
      (* on it, creating it, destroying it, or mentioning it *)
      den_obj o (vm_obj m) || creates o m || destroys o m || mentions o m
  | BFull o n a =>
      (den_name n (s2l "new") && den_oargs a [] && creates o m)
      || (den_name n (s2l "destroyed") && den_oargs a [] && destroys o m)
      || (den_obj o (vm_obj m) && den_name n (vm_name m) && den_oargs a (vm_args m))
  end.

Definition denote (t : dtop) (m : vmsg) : bool :=
  match t with
  | TStar => true
  | TBang => false
  | TPats pos neg => den_list (fun p => den_pat p m) pos neg
  end.

(* ---- the text -------------------------------------------------------------------------------------- *)
(* a layout decides, at every place the parser strips blanks, how many to put, and whether a
   single element gets redundant brackets; it is consumed as a stream of numbers *)
Definition layout := list nat.
Definition blanks (n : nat) : str := List.repeat 32%N (Nat.modulo n 3).
Definition take_l (l : layout) : nat * layout := match l with [] => (O, []) | x :: r => (x, r) end.

Definition sp (l : layout) : str * layout := let '(n, r) := take_l l in (blanks n, r).

(* join rendered elements with ` , ` and ` ! ` *)
Fixpoint join_with (sep : str) (xs : list str) : str :=
  match xs with
  | [] => []
  | [x] => x
  | x :: r => x ++ sep ++ join_with sep r
  end.

Definition rlist (pos neg : list str) (pad : str) : str :=
  join_with (pad ++ [44%N] ++ pad) pos
  ++ match neg with [] => [] | _ => pad ++ [33%N] ++ pad ++ join_with (pad ++ [44%N] ++ pad) neg end.

Definition bracket (s : str) (pad : str) : str := [91%N] ++ pad ++ s ++ pad ++ [93%N].

Fixpoint r_text (pad : str) (t : dtext) : str :=
  match t with
  | TWord w => w
  | TList pos neg => bracket (rlist (map (r_text pad) pos) (map (r_text pad) neg) pad) pad
  end.

Definition r_id (at_sign : option char) (id : Z) (letters : str) : str :=
  (match at_sign with Some c => [c] | None => [] end) ++ z_to_dec id ++ letters.

Fixpoint r_obj (pad : str) (o : dobj) : str :=
  match o with
  | OAny => []
  | OType w => w
  | OId a id l => r_id a id l
  | ONil => s2l "nil"
  | OList pos neg => bracket (rlist (map (r_obj pad) pos) (map (r_obj pad) neg) pad) pad
  end.

Definition r_float (neg : bool) (ip fp : str) : str := (if neg then [45%N] else []) ++ ip ++ [46%N] ++ fp.

Fixpoint r_val (pad : str) (v : dval) : str :=
  match v with
  | VAny => [42%N]
  | VInt z => z_to_dec z
  | VFloat n ip fp => r_float n ip fp
  | VStr s => [34%N] ++ s ++ [34%N]
  | VWord w => w
  | VObj c id l => r_id (Some c) id l
  | VNil => s2l "nil"
  | VList pos neg => bracket (rlist (map (r_val pad) pos) (map (r_val pad) neg) pad) pad
  end.

Fixpoint r_item (pad : str) (i : ditem) : str :=
  match i with
  | IItem name v =>
      match name with
      | Some w => w ++ pad ++ [61%N] ++ pad ++ (match v with Some d => r_val pad d | None => [] end)
      | None => match v with Some d => r_val pad d | None => [] end
      end
  | IList pos neg => bracket (rlist (map (r_item pad) pos) (map (r_item pad) neg) pad) pad
  end.

Definition r_args (pad : str) (a : dargs) : str :=
  match a with
  | ANone => pad
  | ANever => pad ++ [33%N] ++ pad
  | AItems pos neg => pad ++ rlist (map (r_item pad) pos) (map (r_item pad) neg) pad ++ pad
  end.

Definition r_pat (pad : str) (p : dpat) : str :=
  (match dp_conn p with Some t => r_text pad t ++ pad ++ [58%N] ++ pad | None => [] end)
  ++ match dp_body p with
     | BBare o => r_obj pad o
     | BFull o n a =>
         r_obj pad o
         ++ (match n with Some t => pad ++ [46%N] ++ pad ++ r_text pad t | None => [] end)
         ++ (match a with Some d => pad ++ [40%N] ++ r_args pad d ++ [41%N] | None => [] end)
     end.

(* one blank-width per rendering (0, 1 or 2 blanks at every strippable place) and optional outer brackets *)
Definition render (lay : nat) (t : dtop) : str :=
  let pad := blanks lay in
  match t with
  | TStar => pad ++ [42%N] ++ pad
  | TBang => pad ++ [33%N] ++ pad
  | TPats pos neg =>
      let body := rlist (map (r_pat pad) pos) (map (r_pat pad) neg) pad in
      pad ++ body ++ pad
  end.

(* ---- well-formed documented expressions ---------------------------------------------------------------- *)
Definition ident_char (c : char) : bool := is_letter c || is_digit c || N.eqb c 95 || N.eqb c 45 || N.eqb c 42.
(* a glob word that is not `*` alone, starts with a letter or underscore (so it is neither a number,
   nor an id, nor `nil`, nor one of the float spellings inf / nan / infinity) *)
Definition wf_word (w : str) : bool :=
  match w with
  | c :: _ => (is_letter c || N.eqb c 95) && forallb ident_char w
              && negb (str_eqb w (s2l "nil"))
              && negb (str_eqb (lower w) (s2l "inf")) && negb (str_eqb (lower w) (s2l "nan"))
              && negb (str_eqb (lower w) (s2l "infinity"))
  | [] => false
  end.
Definition wf_tword (w : str) : bool := str_eqb w [42%N] || wf_word w.

Fixpoint wf_text (t : dtext) : bool :=
  match t with
  | TWord w => wf_tword w
  | TList pos neg => forallb wf_text pos && forallb wf_text neg && match pos, neg with [], [] => false | _, _ => true end
  end.

Definition wf_letters (l : str) : bool := forallb is_letter l.
Fixpoint wf_obj (o : dobj) : bool :=
  match o with
  | OAny | ONil => true
  | OType w => wf_word w
  | OId a id l => (0 <=? id) && wf_letters l && match a with Some c => N.eqb c 64 || N.eqb c 35 | None => true end
  | OList pos neg => forallb wf_obj pos && forallb wf_obj neg && match pos, neg with [], [] => false | _, _ => true end
  end.

Definition str_char_ok (c : char) : bool :=
  negb (N.eqb c 34) && negb (N.eqb c 40) && negb (N.eqb c 41) && negb (N.eqb c 91) && negb (N.eqb c 93) && negb (N.eqb c 27).
Fixpoint wf_val (v : dval) : bool :=
  match v with
  | VAny | VNil => true
  | VInt _ => true
  | VFloat n ip fp => match ip, fp with
                       | _ :: _, _ :: _ => forallb is_digit ip && forallb is_digit fp
                                           && match py_float (r_float n ip fp) with Ok _ => true | Raise _ _ => false end
                       | _, _ => false end
  | VStr s => forallb str_char_ok s
  | VWord w => wf_word w
  | VObj c id l => (0 <=? id) && wf_letters l && (N.eqb c 64 || N.eqb c 35)
  | VList pos neg => forallb wf_val pos && forallb wf_val neg && match pos, neg with [], [] => false | _, _ => true end
  end.

Fixpoint wf_item (i : ditem) : bool :=
  match i with
  | IItem name v => (match name with Some w => wf_tword w | None => true end)
                    && (match v with Some d => wf_val d | None => true end)
                    && (match name, v with None, None => false | None, Some (VList _ _) => false | _, _ => true end)
  | IList pos neg => forallb wf_item pos && forallb wf_item neg && match pos, neg with [], [] => false | _, _ => true end
  end.

Definition wf_args (a : dargs) : bool :=
  match a with
  | ANone | ANever => true
  | AItems pos neg => forallb wf_item pos && forallb wf_item neg && match pos, neg with [], [] => false | _, _ => true end
  end.

Definition wf_pat (p : dpat) : bool :=
  (match dp_conn p with Some t => wf_text t | None => true end)
  && match dp_body p with
     | BBare o => wf_obj o && match o, dp_conn p with OAny, None => false | _, _ => true end
     | BFull o n a => wf_obj o && (match n with Some t => wf_text t | None => true end)
                      && (match a with Some d => wf_args d | None => true end)
                      && (match n, a with None, None => false | _, _ => true end)
     end.

Definition wf_top (t : dtop) : bool :=
  match t with
  | TStar | TBang => true
  | TPats pos neg => forallb wf_pat pos && forallb wf_pat neg && match pos, neg with [], [] => false | _, _ => true end
  end.

(* ---- what the parser is expected to build (up to simplification) ------------------------------------ *)
Definition list_or_single (pos neg : list mt) : mt :=
  match neg with
  | _ :: _ => MList (match pos with [] => [MAlways true] | _ => pos end) neg
  | [] => match pos with [x] => x | _ => MList pos [] end
  end.

Fixpoint elab_text (t : dtext) : mt :=
  match t with
  | TWord w => str_matcher w
  | TList pos neg => list_or_single (map elab_text pos) (map elab_text neg)
  end.

Definition elab_id (id : Z) (letters : str) : mt :=
  MWrap WObjId (MPair (MEqZ id (z_to_dec id)) []
                      (match letters with [] => MAlways true | _ => MEqZ (letters_value letters) letters end)).

Fixpoint elab_obj (o : dobj) : mt :=
  match o with
  | OAny => MAlways true
  | OType w => MWrap WObjName (str_matcher w)
  | OId _ id l => elab_id id l
  | ONil => MWrap WObjId (MPair (MEqZ 0 [48%N]) [] (MAlways true))
  | OList pos neg => list_or_single (map elab_obj pos) (map elab_obj neg)
  end.

Fixpoint elab_val (v : dval) : mt :=
  match v with
  | VAny => MWrap WInt (MAlways true)
  | VInt z => MWrap WInt (MEqZ z (z_to_dec z))
  | VFloat n ip fp => MWrap WFloat (MEqF (float_of n ip fp))
  | VStr s => MWrap WString (MEqS s)
  | VWord w => MWrap WLabel (str_matcher w)
  | VObj _ id l => MWrap WObjArg (elab_id id l)
  | VNil => MWrap WObjArg (MWrap WObjId (MPair (MEqZ 0 [48%N]) [] (MAlways true)))
  | VList pos neg => list_or_single (map elab_val pos) (map elab_val neg)
  end.

Fixpoint elab_item (i : ditem) : mt :=
  match i with
  | IItem name v =>
      arg_matcher (match name with Some w => str_matcher w | None => MAlways true end)
                  (match v with Some d => elab_val d | None => MWrap WInt (MAlways true) end)
  | IList pos neg => list_or_single (map elab_item pos) (map elab_item neg)
  end.

Definition elab_args (a : dargs) : mt :=
  match a with
  | ANone => MAlways true
  | ANever => MAlways false
  | AItems pos neg => MArgsList (map elab_item pos) (map elab_item neg)
  end.

Definition elab_pat (p : dpat) : mt :=
  let cm := MWrap WConn (match dp_conn p with Some t => elab_text t | None => MAlways true end) in
  match dp_body p with
  | BBare o =>
      let om := elab_obj o in
      MList [mk_pattern cm om (MAlways true) (MAlways true);
             mk_pattern cm (MAlways true) (MAlways true) (MArgsList [arg_matcher (MAlways true) (MWrap WObjArg om)] [])] []
  | BFull o n a =>
      mk_pattern cm (elab_obj o) (match n with Some t => elab_text t | None => MAlways true end)
                 (match a with Some d => elab_args d | None => MAlways true end)
  end.

Definition elab (t : dtop) : mt :=
  match t with
  | TStar => MAlways true
  | TBang => MAlways false
  | TPats pos neg => list_or_single (map elab_pat pos) (map elab_pat neg)
  end.

(* ---- sx ------------------------------------------------------------------------------------------------ *)
Fixpoint get_dtext (fuel : nat) (s : sx) : option dtext :=
  match fuel with O => None | S f =>
  match s with
  | SS w => Some (TWord w)
  | SL [SL p; SL n] => match get_list (get_dtext f) p, get_list (get_dtext f) n with Some a, Some b => Some (TList a b) | _, _ => None end
  | _ => None
  end end.

Definition get_at (s : sx) : option (option char) :=
  match s with SZ 0 => Some None | SZ z => Some (Some (Z.to_N z)) | _ => None end.

Fixpoint get_dobj (fuel : nat) (s : sx) : option dobj :=
  match fuel with O => None | S f =>
  match s with
  | SL [SS t] => if str_eqb t (s2l "any") then Some OAny else if str_eqb t (s2l "nil") then Some ONil else None
  | SL [SS t; SS w] => if str_eqb t (s2l "type") then Some (OType w) else None
  | SL [SS t; a; SZ id; SS l] =>
      if str_eqb t (s2l "id") then match get_at a with Some a' => Some (OId a' id l) | None => None end else None
  | SL [SS t; SL p; SL n] =>
      if str_eqb t (s2l "list") then
        match get_list (get_dobj f) p, get_list (get_dobj f) n with Some a, Some b => Some (OList a b) | _, _ => None end
      else None
  | _ => None
  end end.

Fixpoint get_dval (fuel : nat) (s : sx) : option dval :=
  match fuel with O => None | S f =>
  match s with
  | SL [SS t] => if str_eqb t (s2l "any") then Some VAny else if str_eqb t (s2l "nil") then Some VNil else None
  | SL [SS t; SZ z] => if str_eqb t (s2l "int") then Some (VInt z) else None
  | SL [SS t; SZ n; SS ip; SS fp] => if str_eqb t (s2l "float") then Some (VFloat (negb (n =? 0)) ip fp) else None
  | SL [SS t; SS w] =>
      if str_eqb t (s2l "str") then Some (VStr w) else if str_eqb t (s2l "word") then Some (VWord w) else None
  | SL [SS t; SZ c; SZ id; SS l] => if str_eqb t (s2l "obj") then Some (VObj (Z.to_N c) id l) else None
  | SL [SS t; SL p; SL n] =>
      if str_eqb t (s2l "list") then
        match get_list (get_dval f) p, get_list (get_dval f) n with Some a, Some b => Some (VList a b) | _, _ => None end
      else None
  | _ => None
  end end.

Fixpoint get_ditem (fuel : nat) (s : sx) : option ditem :=
  match fuel with O => None | S f =>
  match s with
  | SL [SS t; nm; v] =>
      if str_eqb t (s2l "item") then
        match get_opt get_s nm, get_opt (get_dval 50) v with Some a, Some b => Some (IItem a b) | _, _ => None end
      else if str_eqb t (s2l "list") then
        match nm, v with
        | SL p, SL n => match get_list (get_ditem f) p, get_list (get_ditem f) n with Some a, Some b => Some (IList a b) | _, _ => None end
        | _, _ => None
        end
      else None
  | _ => None
  end end.

Definition get_dargs (s : sx) : option dargs :=
  match s with
  | SL [SS t] => if str_eqb t (s2l "none") then Some ANone else if str_eqb t (s2l "never") then Some ANever else None
  | SL [SS t; SL p; SL n] =>
      if str_eqb t (s2l "items") then
        match get_list (get_ditem 50) p, get_list (get_ditem 50) n with Some a, Some b => Some (AItems a b) | _, _ => None end
      else None
  | _ => None
  end.

Definition get_dpat (s : sx) : option dpat :=
  match s with
  | SL [c; SL [SS t; o]] =>
      if str_eqb t (s2l "bare") then
        match get_opt (get_dtext 50) c, get_dobj 50 o with Some c', Some o' => Some (mkDpat c' (BBare o')) | _, _ => None end
      else None
  | SL [c; SL [SS t; o; n; a]] =>
      if str_eqb t (s2l "full") then
        match get_opt (get_dtext 50) c, get_dobj 50 o, get_opt (get_dtext 50) n, get_opt get_dargs a with
        | Some c', Some o', Some n', Some a' => Some (mkDpat c' (BFull o' n' a'))
        | _, _, _, _ => None
        end
      else None
  | _ => None
  end.

Definition get_dtop (s : sx) : option dtop :=
  match s with
  | SL [SS t] => if str_eqb t (s2l "star") then Some TStar else if str_eqb t (s2l "bang") then Some TBang else None
  | SL [SS t; SL p; SL n] =>
      if str_eqb t (s2l "pats") then
        match get_list get_dpat p, get_list get_dpat n with Some a, Some b => Some (TPats a b) | _, _ => None end
      else None
  | _ => None
  end.

(* ==== where the tool and the documentation are known to part (used by Proofs/DocSemTop and by the harness) ==== *)
Definition nonempty {A} (l : list A) : bool := match l with [] => false | _ => true end.
(* ---- the side condition ------------------------------------------------------------------------------ *)
(* an item that simplification folds to a constant *)
Definition triv_true (i : ditem) : bool := is_always true (simplify (elab_item i)).
Definition triv_false (i : ditem) : bool := is_always false (simplify (elab_item i)).

(* the argument list that simplification folds to `*` although it asks for an argument:
   at least one item, every item trivially true, every exclusion trivially false *)
Definition star_folded (d : dargs) : bool :=
  match d with
  | AItems pos neg => nonempty pos && forallb triv_true pos && forallb triv_false neg
  | _ => false
  end.

(* a trivially-true exclusion is harmless when there is also a positive item
   (the list then never matches, with or without arguments) *)
Definition excl_ok (d : dargs) : bool :=
  match d with
  | AItems pos neg => negb (existsb triv_true neg) || nonempty pos
  | _ => true
  end.

Definition args_ok (d : dargs) (l : list varg) : bool :=
  excl_ok d && (nonempty l || negb (star_folded d)).

Definition pat_ok (p : dpat) (m : vmsg) : bool :=
  match dp_body p with
  | BFull _ _ (Some d) => args_ok d (vm_args m)
  | _ => true
  end.

Definition side_ok (e : dtop) (m : vmsg) : bool :=
  match e with
  | TPats pos neg => forallb (fun p => pat_ok p m) pos && forallb (fun p => pat_ok p m) neg
  | _ => true
  end.


(* which corner a pattern falls into on a message: 0 none, 1 all-star list on a message without
   arguments, 2 exclusion-only list with an exclusion that accepts everything, 3 both *)
Definition args_shape (d : dargs) (l : list varg) : Z :=
  (if excl_ok d then 0 else 2) + (if nonempty l || negb (star_folded d) then 0 else 1).
Definition pat_shape (p : dpat) (m : vmsg) : Z :=
  match dp_body p with
  | BFull _ _ (Some d) => args_shape d (vm_args m)
  | _ => 0
  end.
Definition side_shapes (e : dtop) (m : vmsg) : list Z :=
  match e with
  | TPats pos neg => List.filter (fun z => negb (z =? 0)) (map (fun p => pat_shape p m) (pos ++ neg))
  | _ => []
  end.
