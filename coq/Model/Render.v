(* Render.v — libwayland's wl_closure_print, transcribed (specification side of C01).
   Old dialect: libwayland <= 1.21 (`@`, %f fixed, `array`, [%10.3f]); current: >= 1.22/1.23
   (`#`, %d.%08d fixed, array[N], [%7u.%03u], {queue}); <conn> with the repo's patches. *)
From WD Require Import Base Wire.
Open Scope Z_scope.

Record dialect := mkDialect {
  d_hash : bool;        (* object separator '#' (else '@') *)
  d_fixed8 : bool;      (* %d.%08d (else %f) *)
  d_array_n : bool;     (* array[N] (else array) *)
  d_ts_u : bool;        (* [%7u.%03u] (else [%10.3f]) *)
  d_comma : bool }.     (* decimal mark ',' under some locales (affects %f only) *)

Inductive warg :=
| WInt (v : Z)                      (* i / u *)
| WFixed (k : Z)                    (* 24.8 fixed, raw integer *)
| WStr (s : str)
| WNil                              (* null string / object *)
| WObj (iface : str) (id : Z)
| WNew (iface : option str) (id : Z)
| WFd (v : Z)
| WArray (size : N).

Record wmsg := mkWmsg {
  w_time : N;                       (* microseconds (libwayland prints milliseconds, 3 decimals) *)
  w_queue : option str;
  w_conn : option str;
  w_sent : bool;
  w_iface : str; w_id : Z; w_name : str;
  w_args : list warg }.

Definition sep_char (d : dialect) : char := if d_hash d then 35%N else 64%N.
Definition mark_char (d : dialect) : char := if d_comma d then 44%N else 46%N.

Definition pad_left (width : nat) (c : char) (s : str) : str :=
  List.repeat c (width - List.length s) ++ s.

(* n with at least w digits *)
Definition dec_pad (w : nat) (n : N) : str := pad_left w 48%N (n_to_dec n).

(* [%10.3f] of milliseconds  /  [%7u.%03u] *)
Definition render_ts (d : dialect) (us : N) : str :=
  let ms := (us / 1000)%N in let fr := (us mod 1000)%N in
  if d_ts_u d then [91%N] ++ pad_left 7 32%N (n_to_dec ms) ++ [46%N] ++ dec_pad 3 fr ++ [93%N]
  else [91%N] ++ pad_left 10 32%N (n_to_dec ms ++ [mark_char d] ++ dec_pad 3 fr) ++ [93%N].

(* k/256 with 8 exact decimals: mantissa k * 390625 *)
Definition fixed8_mant (k : Z) : Z := k * 390625.
(* %f: six decimals, round-half-even of the exact value *)
Definition fixed6_mant (k : Z) : Z :=
  let a := Z.abs (fixed8_mant k) in
  let q := a / 100 in let r := a mod 100 in
  let q' := if r <? 50 then q else if 50 <? r then q + 1 else if Z.even q then q else q + 1 in
  if k <? 0 then - q' else q'.

Definition render_fixed (d : dialect) (k : Z) : str :=
  if d_fixed8 d then
    (if k <? 0 then [45%N] else []) ++ z_to_dec (Z.abs k / 256) ++ [46%N] ++ dec_pad 8 (Z.to_N (390625 * (Z.abs k mod 256)))
  else
    let m := fixed6_mant k in
    (if m <? 0 then [45%N] else []) ++ z_to_dec (Z.abs m / 1000000) ++ [mark_char d]
    ++ dec_pad 6 (Z.to_N (Z.abs m mod 1000000)).

Definition render_arg (d : dialect) (a : warg) : str :=
  match a with
  | WInt v => z_to_dec v
  | WFixed k => render_fixed d k
  | WStr s => [34%N] ++ s ++ [34%N]
  | WNil => s2l "nil"
  | WObj i id => i ++ [sep_char d] ++ z_to_dec id
  | WNew i id => s2l "new id " ++ (match i with Some t => t | None => s2l "[unknown]" end) ++ [sep_char d] ++ z_to_dec id
  | WFd v => s2l "fd " ++ z_to_dec v
  | WArray n => if d_array_n d then s2l "array[" ++ n_to_dec n ++ [93%N] else s2l "array"
  end.

Definition render (d : dialect) (m : wmsg) : str :=
  render_ts d (w_time m)
  ++ (match w_queue m with Some q => s2l " {" ++ q ++ [125%N] | None => [] end)
  ++ (match w_conn m with Some c => s2l " <" ++ c ++ [62%N] | None => [] end)
  ++ (if w_sent m then s2l "  -> " else [32%N])
  ++ w_iface m ++ [sep_char d] ++ z_to_dec (w_id m) ++ [46%N] ++ w_name m ++ [40%N]
  ++ intercalate (s2l ", ") (map (render_arg d) (w_args m)) ++ [41%N].

(* ---- what the line denotes ------------------------------------------------------------------------ *)
Definition denote_arg (d : dialect) (a : warg) : parg :=
  match a with
  | WInt v => PInt v
  | WFixed k => if d_fixed8 d then PFloat (mkDec (fixed8_mant k) 8) else PFloat (mkDec (fixed6_mant k) 6)
  | WStr s => PStr s
  | WNil => PNull None
  | WObj i id => PObj id (Some i) false
  | WNew i id => PObj id i true
  | WFd v => PFd v
  | WArray _ => PArray None
  end.

Definition denote (d : dialect) (m : wmsg) : str * pmsg :=
  (match w_conn m with Some c => c | None => s2l "PARSED" end,
   mkPmsg (Z.of_N (w_time m)) (Some (w_iface m)) (w_id m) (w_sent m) (w_name m) (map (denote_arg d) (w_args m))).

(* ---- the quantifier domain of C01 as a boolean ------------------------------------------------------ *)
Definition is_word_str (s : str) : bool := match s with [] => false | _ => forallb is_word s end.
Definition str_ok (s : str) : bool :=            (* printable text without double quote and backslash *)
  forallb (fun c => negb (N.eqb c 34) && negb (N.eqb c 92) && negb (N.eqb c 10)) s.
Definition wf_warg (a : warg) : bool :=
  match a with
  | WInt v => (- 2147483648 <=? v) && (v <=? 4294967295)
  | WFixed k => (- 2147483648 <=? k) && (k <=? 2147483647)
  | WStr s => str_ok s
  | WNil => true
  | WObj i id => is_word_str i && (0 <? id) && (id <=? 4294967295)
  | WNew (Some i) id => is_word_str i && (0 <? id) && (id <=? 4294967295)
  | WNew None id => (0 <? id) && (id <=? 4294967295)
  | WFd v => (0 <=? v) && (v <=? 2147483647)
  | WArray n => (n <=? 4294967295)%N
  end.
Definition wf_wmsg (m : wmsg) : bool :=
  is_word_str (w_iface m) && is_word_str (w_name m) && (0 <? w_id m) && (w_id m <=? 4294967295)
  && (w_time m <? 1000000000000000)%N
  && match w_queue m with Some q => forallb (fun c => negb (N.eqb c 125) && negb (N.eqb c 10) && is_ascii c) q | None => true end
  && match w_conn m with Some c => is_word_str c | None => true end
  && forallb wf_warg (w_args m)
  && Nat.leb (List.length (w_args m)) 20.

(* ---- sx ---------------------------------------------------------------------------------------------- *)
Definition get_dialect (s : sx) : option dialect :=
  match s with
  | SL [SZ a; SZ b; SZ c; SZ d; SZ e] =>
      Some (mkDialect (negb (a =? 0)) (negb (b =? 0)) (negb (c =? 0)) (negb (d =? 0)) (negb (e =? 0)))
  | _ => None
  end.
Definition get_warg (s : sx) : option warg :=
  match s with
  | SL [SS t; SZ v] =>
      if str_eqb t (s2l "int") then Some (WInt v)
      else if str_eqb t (s2l "fixed") then Some (WFixed v)
      else if str_eqb t (s2l "fd") then Some (WFd v)
      else if str_eqb t (s2l "array") then (if v <? 0 then None else Some (WArray (Z.to_N v)))
      else None
  | SL [SS t; SS v] => if str_eqb t (s2l "str") then Some (WStr v) else None
  | SL [SS t] => if str_eqb t (s2l "nil") then Some WNil else None
  | SL [SS t; SS i; SZ id] => if str_eqb t (s2l "obj") then Some (WObj i id) else None
  | SL [SS t; SL i; SZ id] =>
      if str_eqb t (s2l "new") then
        match get_opt get_s (SL i) with Some i' => Some (WNew i' id) | None => None end
      else None
  | _ => None
  end.
Definition get_wmsg (s : sx) : option wmsg :=
  match s with
  | SL [SZ t; q; c; SZ sent; SS iface; SZ id; SS name; SL args] =>
      match get_opt get_s q, get_opt get_s c, get_list get_warg args with
      | Some q', Some c', Some args' =>
          if t <? 0 then None else Some (mkWmsg (Z.to_N t) q' c' (negb (sent =? 0)) iface id name args')
      | _, _, _ => None
      end
  | _ => None
  end.
