(* Entry.v — named entry points: sx case -> sx result.  Used by the extracted
   driver and by the in-kernel replays (vm_compute). *)
From WD Require Import Base LetterId Wire Protocol Conn Color Matcher MatcherParse Show Session Decode Render Extract Args Doc DocLay.

Definition e_n2l (a : sx) : sx :=
  match a with
  | SL [SZ v; SZ caps] => sx_res SS (number_to_letter_id v (negb (Z.eqb caps 0)))
  | _ => sx_err
  end.

Definition e_l2n (a : sx) : sx :=
  match a with
  | SS t => sx_res SZ (letter_id_to_number t)
  | _ => sx_err
  end.

(* ---- session ------------------------------------------------------------------------ *)
Definition sx_oline (o : oline) : sx :=
  match o with
  | OOut l => SL [SS (s2l "out"); sx_line l]
  | OMsg _ _ l => SL [SS (s2l "out"); sx_line l]
  | OErr l => SL [SS (s2l "err"); sx_line l]
  | OMaybe l => SL [SS (s2l "maybe"); sx_line l]
  | OAnyLines => SL [SS (s2l "anylines")]
  | OExec c => SL [SS (s2l "exec"); SS c]
  | OStop b => SL [SS (s2l "stop"); sx_bool b]
  | ORaise e => SL [SS (s2l "raise"); SZ (exn_code e)]
  | OOM => SL [SS (s2l "oom")]
  end.

Definition get_event (s : sx) : option event :=
  match s with
  | SL [SS t; SS id; m] =>
      if str_eqb t (s2l "msg") then option_map (EMsg id) (get_pmsg m)
      else if str_eqb t (s2l "smsg") then option_map (ESinkMsg id) (get_pmsg m)
      else if str_eqb t (s2l "open") then option_map (EOpen id) (get_opt get_b m)
      else None
  | SL [SS t; SS x] =>
      if str_eqb t (s2l "text") then Some (EText x)
      else if str_eqb t (s2l "cmd") then Some (ECmd x)
      else if str_eqb t (s2l "gdestroy") then Some (EGdbDestroy x)
      else if str_eqb t (s2l "close") then Some (EClose x)
      else if str_eqb t (s2l "gcmd") then Some (EGdbCmd x)
      else None
  | SL [SS t] => if str_eqb t (s2l "eof") then Some EEof else None
  | SL [SS t; SS id; SZ th; m] =>
      if str_eqb t (s2l "gmsg") then option_map (EGdbMsg id th) (get_pmsg m) else None
  | _ => None
  end.

Definition sx_conn (c : connst) : sx :=
  SL [SS (c_name c); SS (c_id c); sx_opt sx_bool (c_server c); sx_bool (c_open c);
      sx_ostr (c_title c); sx_ostr (c_app_id c);
      SL (map sx_rmsg (c_msgs c));
      SL (map (fun p => SL [SZ (fst p); SL (map sx_obj (snd p))]) (c_db c))].

Definition sx_sess (s : sess) : sx :=
  let k := s_ctrl s in
  SL [SL (map sx_conn (s_conns s));
      SS (mshow false (k_display k)); SS (mshow false (k_stop k));
      sx_opt (fun n => SZ (Z.of_nat n)) (k_current k);
      SL (map (fun p => SL [SZ (Z.of_nat (fst p)); sx_rmsg (snd p)]) (k_all k));
      sx_bool (s_paused s); sx_bool (s_quit s); sx_bool (s_parse s)].

(* (display? stop? color unprocessed in_gdb) events *)
Definition e_session (P : pdb) (a : sx) : sx :=
  match a with
  | SL [SL [disp; stop; SZ col; SZ unp; SZ ing]; SL evs] =>
      match get_ostr disp, get_ostr stop, get_list get_event evs with
      | Some d, Some st, Some es =>
          let pm (o : option str) (dflt : mt) : res mt :=
            match o with None => Ok dflt | Some t => parse_simplify t end in
          match pm d (MAlways true), pm st (MAlways false) with
          | Ok dm, Ok sm =>
              let s0 := init_sess dm sm (negb (Z.eqb col 0)) (negb (Z.eqb unp 0)) (negb (Z.eqb ing 0)) in
              let '(T1, outs) := run P (mkTop None s0) es in
              SL [SS (s2l "ok"); SL (map (fun l => SL (map sx_oline l)) outs); sx_sess (t_sess T1)]
          | Raise e _, _ => SL [SS (s2l "raise"); SZ (exn_code e)]
          | _, Raise e _ => SL [SS (s2l "raise"); SZ (exn_code e)]
          end
      | _, _, _ => sx_err
      end
  | _ => sx_err
  end.

(* ---- matchers --------------------------------------------------------------------------- *)
Definition get_vobj (s : sx) : option vobj :=
  match s with
  | SL [SZ id; g; ty] =>
      match get_opt get_n g, get_ostr ty with
      | Some g', Some ty' => Some (mkVobj id g' ty')
      | _, _ => None
      end
  | _ => None
  end.

Definition get_varg (s : sx) : option varg :=
  match s with
  | SL [nm; SL (SS k :: payload)] =>
      match get_ostr nm with
      | None => None
      | Some nm' =>
          let mk v := Some (mkVarg nm' v) in
          match payload with
          | [SZ z; SL []] => if str_eqb k (s2l "int") then mk (VAInt z None) else None
          | [SZ z; SL [SL ls]] =>
              if str_eqb k (s2l "int") then
                match get_list get_s ls with Some l => mk (VAInt z (Some l)) | None => None end
              else None
          | [SL [SZ m; SZ sc]] =>
              if str_eqb k (s2l "float") then mk (VAFloat (mkDec m (Z.to_N sc))) else None
          | [SS t] => if str_eqb k (s2l "str") then mk (VAStr t) else None
          | [SL ty] =>
              if str_eqb k (s2l "null") then
                match get_ostr (SL ty) with Some ty' => mk (VANull ty') | None => None end
              else None
          | [o; SZ n] =>
              if str_eqb k (s2l "obj") then
                match get_vobj o with Some o' => mk (VAObj o' (negb (Z.eqb n 0))) | None => None end
              else None
          | [SZ z] => if str_eqb k (s2l "fd") then mk (VAFd z) else None
          | [] => if str_eqb k (s2l "other") then mk VAOther else None
          | _ => None
          end
      end
  | _ => None
  end.

Definition get_vmsg (s : sx) : option vmsg :=
  match s with
  | SL [c; o; SS name; SL args; d] =>
      match get_ostr c, get_vobj o, get_list get_varg args, get_opt get_vobj d with
      | Some c', Some o', Some args', Some d' => Some (mkVmsg c' o' name args' d')
      | _, _, _, _ => None
      end
  | _ => None
  end.

(* text -> str(parsed), str(simplified) *)
Definition e_mparse (a : sx) : sx :=
  match a with
  | SS t => sx_res (fun m => SL [SS (mshow false m); SS (mshow false (simplify m))]) (parse t)
  | _ => sx_err
  end.

(* (text, messages) -> simplified matches, unsimplified matches *)
Definition e_meval (a : sx) : sx :=
  match a with
  | SL [SS t; SL msgs] =>
      match get_list get_vmsg msgs with
      | Some ms =>
          sx_res (fun m => SL [SL (map (fun v => sx_bool (matches (simplify m) (VM v))) ms);
                               SL (map (fun v => sx_bool (matches m (VM v))) ms)]) (parse t)
      | None => sx_err
      end
  | _ => sx_err
  end.

(* ---- protocol lookups ---------------------------------------------------------------------- *)
Definition sx_piface (i : p_iface) : sx :=
  SL [SS (pi_name i); SZ (pi_version i);
      SL (map (fun m => SL [SS (pm_name m);
                            SL (map (fun a => SL [SS (pa_name a); SS (pa_type a); sx_ostr (pa_iface a); sx_ostr (pa_enum a)]) (pm_args m))])
              (pi_msgs i));
      SL (map (fun e => SL [SS (pn_name e); sx_bool (pn_bitfield e);
                            SL (map (fun x => SL [SS (pe_name x); SZ (pe_value x)]) (pn_entries e))]) (pi_enums i))].

Definition e_proto (P : pdb) (a : sx) : sx :=
  match a with
  | SL [SS op] => if str_eqb op (s2l "dump") then SL (map sx_piface P) else sx_err
  | SL [SS op; SS iface; SS msg; SZ idx; SZ v] =>
      let i := Z.to_nat idx in
      if str_eqb op (s2l "name") then sx_res (sx_opt SS) (get_arg_name P iface msg i)
      else if str_eqb op (s2l "iface") then sx_res (sx_opt SS) (look_up_interface P iface msg i)
      else if str_eqb op (s2l "enum") then sx_res (fun l => SL (map SS l)) (look_up_enum P iface msg i v)
      else sx_err
  | _ => sx_err
  end.

(* ((files) (names)) -> what protocol.load leaves under each name *)
Definition e_load (a : sx) : sx :=
  match a with
  | SL [SL files; SL names] =>
      match get_list (fun f => match f with SL l => get_list get_piface l | _ => None end) files,
            get_list get_s names with
      | Some fs, Some ns =>
          let db := load_files fs in
          SL (map (fun n => sx_opt sx_piface (od_get pi_name db n)) ns)
      | _, _ => sx_err
      end
  | SL [SL files; SL names; SL lookups] =>
      (* the same, followed by lookups (e_proto's shapes) on the database those files give *)
      match get_list (fun f => match f with SL l => get_list get_piface l | _ => None end) files,
            get_list get_s names with
      | Some fs, Some ns =>
          let db := load_files fs in
          SL [SL (map (fun n => sx_opt sx_piface (od_get pi_name db n)) ns); SL (map (e_proto db) lookups)]
      | _, _ => sx_err
      end
  | _ => sx_err
  end.

Definition e_enumval (a : sx) : sx :=
  match a with
  | SS t => sx_res SZ (parse_enum_value t)
  | _ => sx_err
  end.

(* ---- decode / render ----------------------------------------------------------------------- *)
Definition sx_decoded (r : str * pmsg) : sx := SL [SS (fst r); sx_pmsg (snd r)].

Definition e_decode (a : sx) : sx :=
  match a with
  | SS raw => sx_res sx_decoded (message raw)
  | _ => sx_err
  end.

(* (dialect wmsg) -> (text, in-domain?, denoted message) *)
Definition e_render (a : sx) : sx :=
  match a with
  | SL [d; m] =>
      match get_dialect d, get_wmsg m with
      | Some d', Some m' => SL [SS (Render.render d' m'); sx_bool (wf_wmsg m'); sx_decoded (Render.denote d' m')]
      | _, _ => sx_err
      end
  | _ => sx_err
  end.

Definition e_splitargs (a : sx) : sx :=
  match a with
  | SS t => SL (map SS (split_args t))
  | _ => sx_err
  end.

(* TerminalUI.run_until_stopped on a fresh controller: (prompts, input exhausted) *)
Definition e_uiloop (a : sx) : sx :=
  match a with
  | SL cmds =>
      match get_list get_s cmds with
      | Some cs =>
          let s0 := init_sess (MAlways true) (MAlways false) false true false in
          let '(_, o, n, e) := run_until_stopped s0 cs in
          if existsb (fun x => match x with OOM => true | _ => false end) o then SL [SS (s2l "oom")]
          else SL [SZ (Z.of_nat n); sx_bool e]
      | None => sx_err
      end
  | _ => sx_err
  end.

(* (kind addr target_iface closure time) -> (conn id, message); kind 0 = received on client,
   1 = received on server, 2 = sent *)
Definition e_extract (a : sx) : sx :=
  match a with
  | SL [SZ k; SZ addr; SS target; cl; SZ time] =>
      match get_closure cl with
      | Some c =>
          let kind := if Z.eqb k 0 then RecvClient else if Z.eqb k 1 then RecvServer else Sent in
          SL [SS (conn_id_of (Z.to_N addr)); sx_res sx_pmsg (extract_message kind target c time);
              sx_bool (wf_closure c)]
      | None => sx_err
      end
  | _ => sx_err
  end.

(* argv -> what parse_args makes of it *)
Definition sx_mode (m : mode) : sx :=
  SS (match m with MRun => s2l "run" | MGdbRunner => s2l "gdb-runner" | MLoad => s2l "load-from-file" | MPipe => s2l "pipe" end).
Definition e_argv (a : sx) : sx :=
  match a with
  | SL ws =>
      match get_list get_s ws with
      | Some argv =>
          if usage_error argv then SL [SS (s2l "ok"); SL [SS (s2l "exit2")]] else   (* argparse error: SystemExit(2) *)
          sx_res (fun r => match r with
                           | PAUsage => SL [SS (s2l "usage")]
                           | PABadMatcher => SL [SS (s2l "bad-matcher")]
                           | PASplitError => SL [SS (s2l "split-error")]
                           | PAOk m lp f b unp ours fwd =>
                               SL [SS (s2l "ok"); sx_mode m; SS lp; SS (mshow false f); SS (mshow false b); sx_bool unp;
                                   SL (map SS ours); SL (map SS fwd);
                                   SL (map SS (match m with MGdbRunner => gdb_argv ours fwd | _ => [] end))]
                           end) (parse_args argv)
      | None => sx_err
      end
  | _ => sx_err
  end.
Definition e_splitcmd (a : sx) : sx :=
  match a with
  | SL ws =>
      match get_list get_s ws with
      | Some argv => sx_res (fun r => let '(p, id, q) := r in SL [SL (map SS p); SS id; SL (map SS q)]) (split_command argv)
      | None => sx_err
      end
  | _ => sx_err
  end.

(* (documented expression, messages) -> wf, texts for 0/1/2 blanks, denotation, what the parsed
   and simplified text selects (per layout), what simplify (elab e) selects *)
Definition e_doc_body (t : dtop) (ms : list vmsg) (lay : list nat) : sx :=
  let texts := map (fun k => Doc.render k t) [0; 1; 2]%nat ++ [render_l lay t] in
  SL [sx_bool (wf_top t);
      SL (map SS texts);
      SL (map (fun v => sx_bool (Doc.denote t v)) ms);
      SL (map (fun tx => sx_res (fun m => SL (map (fun v => sx_bool (matches m (VM v))) ms)) (parse_simplify tx)) texts);
      SL (map (fun v => sx_bool (matches (simplify (elab t)) (VM v))) ms);
      SL (map (fun tx => sx_res (fun m => SL [SS (mshow false (simplify m)); SS (mshow false (simplify (elab t)))]) (parse tx)) texts);
      SL (map (fun v => SL [sx_bool (side_ok t v); SL (map SZ (side_shapes t v))]) ms)].

(* the last text is written with an independent amount of white space at every strippable position
   (DocLay.render_l driven by the numbers given) *)
Definition e_doc (a : sx) : sx :=
  match a with
  | SL [e; SL msgs] =>
      match get_dtop e, get_list get_vmsg msgs with
      | Some t, Some ms => e_doc_body t ms []
      | _, _ => sx_err
      end
  | SL [e; SL msgs; SL lay] =>
      match get_dtop e, get_list get_vmsg msgs, get_list get_z lay with
      | Some t, Some ms, Some l => e_doc_body t ms (map Z.to_nat l)
      | _, _, _ => sx_err
      end
  | _ => sx_err
  end.

Definition entries (P : pdb) : list (str * (sx -> sx)) :=
  [ (s2l "n2l", e_n2l);
    (s2l "l2n", e_l2n);
    (s2l "mparse", e_mparse);
    (s2l "doc", e_doc);
    (s2l "argv", e_argv);
    (s2l "splitcmd", e_splitcmd);
    (s2l "extract", e_extract);
    (s2l "uiloop", e_uiloop);
    (s2l "decode", e_decode);
    (s2l "render", e_render);
    (s2l "splitargs", e_splitargs);
    (s2l "proto", e_proto P);
    (s2l "load", e_load);
    (s2l "enumval", e_enumval);
    (s2l "meval", e_meval);
    (s2l "session", e_session P) ].

Fixpoint lookup_entry (name : str) (l : list (str * (sx -> sx))) : option (sx -> sx) :=
  match l with
  | [] => None
  | (n, f) :: l' => if str_eqb n name then Some f else lookup_entry name l'
  end.

Definition run_entry (P : pdb) (name : str) (a : sx) : sx :=
  match lookup_entry name (entries P) with
  | Some f => f a
  | None => SL [SS (s2l "no-such-entry")]
  end.

Definition db_or_empty (s : sx) : pdb := match db_of_sx s with Some d => d | None => [] end.
