(* Entry.v — named entry points: sx case -> sx result.  Used by the extracted
   driver and by the in-kernel replays (vm_compute). *)
From WD Require Import Base LetterId.

Definition e_n2l (a : sx) : sx :=
  match a with
  | SL [SZ v; SZ caps] => sx_res SS (number_to_letter_id v (negb (Z.eqb caps 0)))
  | _ => sx_err
  end.

Definition e_l2n (a : sx) : sx :=
  match a with
  | SS t => sx_res SZ (letter_id_to_number t)
  | _ => sx_err
  end.

Definition entries : list (str * (sx -> sx)) :=
  [ (s2l "n2l", e_n2l);
    (s2l "l2n", e_l2n) ].

Fixpoint lookup_entry (name : str) (l : list (str * (sx -> sx))) : option (sx -> sx) :=
  match l with
  | [] => None
  | (n, f) :: l' => if str_eqb n name then Some f else lookup_entry name l'
  end.

Definition run_entry (name : str) (a : sx) : sx :=
  match lookup_entry name entries with
  | Some f => f a
  | None => SL [SS (s2l "no-such-entry")]
  end.
