(* Color.v — core/util.py color()/no_color() and the palette *)
From WD Require Import Base.
Open Scope N_scope.

Definition ESC : char := 27.
Definition csi (code : str) : str := ESC :: 91 :: code ++ [109].   (* ESC [ code m *)
Definition reset : str := csi [48].

(* color(code, string) under the global switch [on] *)
Definition color (on : bool) (code : option str) (s : str) : str :=
  match s with
  | [] => []
  | _ =>
      (if on then match code with Some c => csi c | None => reset end else [])
      ++ s ++
      (if on then match code with Some (_ :: _) => reset | _ => [] end else [])
  end.

(* re.sub(r'\x1b\[[\d;]*m', '', s) *)
Definition is_sgr_body (c : char) : bool := is_digit c || N.eqb c 59.
Fixpoint skip_sgr_body (s : str) : str :=
  match s with
  | c :: s' => if is_sgr_body c then skip_sgr_body s' else s
  | [] => []
  end.
(* if s (after ESC [) continues with [\d;]*m return what follows the m *)
Definition match_sgr (s : str) : option str :=
  match skip_sgr_body s with
  | 109 :: r => Some r
  | _ => None
  end.

Fixpoint no_color_fuel (fuel : nat) (s : str) : str :=
  match fuel with
  | O => s
  | S f =>
      match s with
      | [] => []
      | 27 :: 91 :: r =>
          match match_sgr r with
          | Some rest => no_color_fuel f rest
          | None => 27 :: no_color_fuel f (91 :: r)
          end
      | c :: r => c :: no_color_fuel f r
      end
  end.
Definition no_color (s : str) : str := no_color_fuel (S (List.length s)) s.

Definition timestamp_color := Some (s2l "2;37").
Definition object_type_color := Some (s2l "1;96").
Definition object_id_color := Some (s2l "36").
Definition message_color := Some (s2l "1;94").
Definition symbol_color : option str := None.
Definition int_color := Some (s2l "95").
Definition int_symbol_color := Some (s2l "2;35").
Definition float_color := Some (s2l "93").
Definition string_color := Some (s2l "1;33").
Definition fd_color := Some (s2l "35").
Definition array_color := Some (s2l "1;37").
Definition null_color := Some (s2l "1;37").
Definition good_color := Some (s2l "1;92").
Definition bad_color := Some (s2l "1;91").
Definition alert_color := Some (s2l "93").
Definition white_color := Some (s2l "1;37").
