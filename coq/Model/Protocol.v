(* Protocol.v — core/wl/protocol.py: load (highest version wins), positional argument lookup,
   enum decoding, enum value literals.  Generic over the database; the shipped data is in
   Gen/ShippedDB.v (regenerated from resources/protocols on every run). *)
From WD Require Import Base.
Open Scope Z_scope.

Record p_arg := mkPArg { pa_name : str; pa_type : str; pa_iface : option str; pa_enum : option str }.
Record p_msg := mkPMsg { pm_name : str; pm_args : list p_arg }.
Record p_entry := mkPEntry { pe_name : str; pe_value : Z }.
Record p_enum := mkPEnum { pn_name : str; pn_bitfield : bool; pn_entries : list p_entry }.
Record p_iface := mkPIface { pi_name : str; pi_version : Z; pi_msgs : list p_msg; pi_enums : list p_enum }.
Definition pdb := list p_iface.

(* OrderedDict: d[k] = v keeps the position of an existing key and replaces its value *)
Fixpoint od_set {A} (key : A -> str) (d : list A) (v : A) : list A :=
  match d with
  | [] => [v]
  | x :: d' => if str_eqb (key x) (key v) then v :: d' else x :: od_set key d' v
  end.
Fixpoint od_get {A} (key : A -> str) (d : list A) (k : str) : option A :=
  match d with
  | [] => None
  | x :: d' => if str_eqb (key x) k then Some x else od_get key d' k
  end.
Definition od_of_list {A} (key : A -> str) (l : list A) : list A := fold_left (od_set key) l [].

(* raw XML content -> what parse_interface builds (dicts keyed by name) *)
Definition norm_msg (m : p_msg) : p_msg := mkPMsg (pm_name m) (od_of_list pa_name (pm_args m)).
Definition norm_enum (e : p_enum) : p_enum := mkPEnum (pn_name e) (pn_bitfield e) (od_of_list pe_name (pn_entries e)).
Definition norm_iface (i : p_iface) : p_iface :=
  mkPIface (pi_name i) (pi_version i)
           (od_of_list pm_name (map norm_msg (pi_msgs i)))
           (od_of_list pn_name (map norm_enum (pi_enums i))).
(* parse_protocol: interfaces of one file, keyed by name *)
Definition norm_file (f : list p_iface) : list p_iface := od_of_list pi_name (map norm_iface f).

(* load(): keep the description with the greater version *)
Definition load_iface (db : pdb) (i : p_iface) : pdb :=
  match od_get pi_name db (pi_name i) with
  | None => od_set pi_name db i
  | Some ex => if pi_version ex <? pi_version i then od_set pi_name db i else db
  end.
Definition load_file (db : pdb) (f : list p_iface) : pdb := fold_left load_iface (norm_file f) db.
Definition load_files (fs : list (list p_iface)) : pdb := fold_left load_file fs [].

(* the hand-applied enum tags of load_all(): (interface, message, argument, enum path) *)
Definition tag := (str * str * str * str)%type.
Definition set_enum_arg (an en : str) (a : p_arg) : p_arg :=
  if str_eqb (pa_name a) an then mkPArg (pa_name a) (pa_type a) (pa_iface a) (Some en) else a.
Definition set_enum_msg (mn an en : str) (m : p_msg) : p_msg :=
  if str_eqb (pm_name m) mn then mkPMsg (pm_name m) (map (set_enum_arg an en) (pm_args m)) else m.
Definition apply_tag (db : pdb) (t : tag) : pdb :=
  let '(i, mn, an, en) := t in
  map (fun x => if str_eqb (pi_name x) i
                then mkPIface (pi_name x) (pi_version x) (map (set_enum_msg mn an en) (pi_msgs x)) (pi_enums x)
                else x) db.
(* does a tag name an existing argument (otherwise load_all's try block raises KeyError) *)
Definition tag_resolves (db : pdb) (t : tag) : bool :=
  let '(i, mn, an, _) := t in
  match od_get pi_name db i with
  | Some x => match od_get pm_name (pi_msgs x) mn with
              | Some m => match od_get pa_name (pm_args m) an with Some _ => true | None => false end
              | None => false
              end
  | None => false
  end.

(* the try block of load_all(): statements run in order; a KeyError skips the rest *)
Inductive tag_step := TagEnum (t : tag) | AddIface (i : p_iface).
Fixpoint apply_steps (db : pdb) (steps : list tag_step) : pdb :=
  match steps with
  | [] => db
  | TagEnum t :: rest => if tag_resolves db t then apply_steps (apply_tag db t) rest else db
  | AddIface i :: rest => apply_steps (od_set pi_name db i) rest
  end.
Definition load_all (files : list (list p_iface)) (steps : list tag_step) : pdb :=
  apply_steps (load_files files) steps.

(* ---- lookups ------------------------------------------------------------------ *)
Definition get_arg (db : pdb) (iface mname : str) (idx : nat) : res (option p_arg) :=
  if str_eqb iface (s2l "wl_registry") && str_eqb mname (s2l "bind") then Ok None else
  match od_get pi_name db iface with
  | None => Ok None
  | Some i =>
      match od_get pm_name (pi_msgs i) mname with
      | None => Raise RuntimeError (mname ++ s2l " is not a message in " ++ iface)
      | Some m =>
          match nth_error (pm_args m) idx with
          | None => Raise RuntimeError
                      (s2l "Tried to access arg " ++ z_to_dec (Z.of_nat idx) ++ s2l " in " ++ iface ++ [46%N] ++ mname
                       ++ s2l " (which only has " ++ z_to_dec (Z.of_nat (List.length (pm_args m))) ++ s2l " args)")
          | Some a => Ok (Some a)
          end
      end
  end.

Definition get_arg_name (db : pdb) (iface mname : str) (idx : nat) : res (option str) :=
  do a <- get_arg db iface mname idx; Ok (option_map pa_name a).

Definition look_up_interface (db : pdb) (iface mname : str) (idx : nat) : res (option str) :=
  do a <- get_arg db iface mname idx;
  Ok (match a with Some a' => pa_iface a' | None => None end).

Fixpoint split_char_acc (c : char) (s : str) (cur : str) : list str :=
  match s with
  | [] => [rev cur]
  | d :: s' => if N.eqb c d then rev cur :: split_char_acc c s' [] else split_char_acc c s' (d :: cur)
  end.
(* text.split(c) *)
Definition split_char (c : char) (s : str) : list str := split_char_acc c s [].

(* last two elements of interface_name :: path.split('.') *)
Definition enum_path_parts (iface path : str) : str * str :=
  let parts := rev (iface :: split_char 46%N path) in
  match parts with
  | e :: i :: _ => (i, e)
  | _ => (iface, path)
  end.

Definition get_enum (db : pdb) (iface path : str) : option p_enum :=
  let '(i, e) := enum_path_parts iface path in
  match od_get pi_name db i with
  | None => None
  | Some x => od_get pn_name (pi_enums x) e
  end.

Definition enum_entry_hits (bitfield : bool) (v : Z) (e : p_entry) : bool :=
  if bitfield then negb (Z.land (pe_value e) v =? 0) else (pe_value e =? v).

Definition look_up_enum (db : pdb) (iface mname : str) (idx : nat) (v : Z) : res (list str) :=
  do a <- get_arg db iface mname idx;
  match a with
  | None => Ok []
  | Some a' =>
      match pa_enum a' with
      | None => Ok []
      | Some path =>
          match get_enum db iface path with
          | None => Ok []
          | Some en =>
              let hits := map pe_name (filter (enum_entry_hits (pn_bitfield en) v) (pn_entries en)) in
              match hits with
              | _ :: _ => Ok hits
              | [] => Ok [if pn_bitfield en then s2l "(none)" else s2l "INVALID ENUM VALUE"]
              end
          end
      end
  end.

(* ---- parse_enum_value: decimal, 0x.., 0o.., 0b.. literals and `a << b` ------------ *)
Definition hex_val (c : char) : option N :=
  if is_digit c then Some (c - 48)%N
  else if in_range c 97 102 then Some (c - 87)%N
  else if in_range c 65 70 then Some (c - 55)%N else None.

Fixpoint base_value (base : N) (acc : N) (s : str) : option N :=
  match s with
  | [] => Some acc
  | c :: s' => match hex_val c with
               | Some d => if (d <? base)%N then base_value base (acc * base + d)%N s' else None
               | None => None
               end
  end.

(* int(text, 0) on \w+ text without underscores and sign: decimal without leading zeros
   (except all zeros), 0x / 0o / 0b prefixes *)
Definition int_base0 (s : str) : option Z :=
  match s with
  | 48%N :: x :: r =>
      if (N.eqb x 120 || N.eqb x 88) then match r with [] => None | _ => option_map Z.of_N (base_value 16 0 r) end
      else if (N.eqb x 111 || N.eqb x 79) then match r with [] => None | _ => option_map Z.of_N (base_value 8 0 r) end
      else if (N.eqb x 98 || N.eqb x 66) then match r with [] => None | _ => option_map Z.of_N (base_value 2 0 r) end
      else if forallb (N.eqb 48%N) (x :: r) then Some 0 else None
  | [] => None
  | _ => if forallb is_digit s then Some (Z.of_N (dec_value s)) else None
  end.

(* ---- reading the raw protocol data from the wire format (used by the extracted driver, which
   loads the data at start-up instead of carrying it as a literal) ------------------------------ *)
Definition get_ostr' (s : sx) : option (option str) := get_opt get_s s.
Definition get_parg_desc (s : sx) : option p_arg :=
  match s with
  | SL [SS n; SS t; i; e] =>
      match get_ostr' i, get_ostr' e with
      | Some i', Some e' => Some (mkPArg n t i' e')
      | _, _ => None
      end
  | _ => None
  end.
Definition get_pmsg_desc (s : sx) : option p_msg :=
  match s with
  | SL [SS n; SL args] => option_map (mkPMsg n) (get_list get_parg_desc args)
  | _ => None
  end.
Definition get_pentry (s : sx) : option p_entry :=
  match s with SL [SS n; SZ v] => Some (mkPEntry n v) | _ => None end.
Definition get_penum (s : sx) : option p_enum :=
  match s with
  | SL [SS n; SZ b; SL es] => option_map (mkPEnum n (negb (b =? 0))) (get_list get_pentry es)
  | _ => None
  end.
Definition get_piface (s : sx) : option p_iface :=
  match s with
  | SL [SS n; SZ v; SL ms; SL es] =>
      match get_list get_pmsg_desc ms, get_list get_penum es with
      | Some ms', Some es' => Some (mkPIface n v ms' es')
      | _, _ => None
      end
  | _ => None
  end.
Definition get_step (s : sx) : option tag_step :=
  match s with
  | SL [SS a; SS b; SS c; SS d] => Some (TagEnum (a, b, c, d))
  | SL [i] => option_map AddIface (get_piface i)
  | _ => None
  end.
(* ((file ...) (step ...)) -> database *)
Definition db_of_sx (s : sx) : option pdb :=
  match s with
  | SL [SL files; SL steps] =>
      match get_list (fun f => match f with SL l => get_list get_piface l | _ => None end) files,
            get_list get_step steps with
      | Some fs, Some st => Some (load_all fs st)
      | _, _ => None
      end
  | _ => None
  end.

(* ---- parse_enum_value ------------------------------------------------------------------------- *)
(* number_re ^\w+$ -> int(value, 0); bitshift_re ^(\w+)\s*<<\s*(\w+)$ -> int(a,0) << int(b,0);
   underscores inside numerals are out of model *)
Definition parse_enum_value (v : str) : res Z :=
  if negb (all_ascii v) then Raise OutOfModel [] else
  if mem_char 95%N v then Raise OutOfModel [] else
  match v with
  | [] => Raise RuntimeError []
  | _ =>
      if forallb is_word v then
        match int_base0 v with Some z => Ok z | None => Raise ValueError [] end
      else
        let a := take_while is_word v in
        let r1 := drop_while is_space (drop_while is_word v) in
        match a, r1 with
        | _ :: _, 60%N :: 60%N :: r2 =>
            let b := drop_while is_space r2 in
            match b with
            | _ :: _ =>
                if forallb is_word b then
                  match int_base0 a, int_base0 b with
                  | Some x, Some y => Ok (Z.shiftl x y)
                  | _, _ => Raise ValueError []
                  end
                else Raise RuntimeError []
            | [] => Raise RuntimeError []
            end
        | _, _ => Raise RuntimeError []
        end
  end.
