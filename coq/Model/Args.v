(* Args.v — frontends/tui/arguments.py (_split_command, _select_mode, the option table as far as it
   is modelled) and backends/gdb_plugin/runner.py (how sys.argv is re-created inside GDB). *)
From WD Require Import Base Wire Conn Color Matcher MatcherParse Show.
Open Scope N_scope.

(* ---- _split_command --------------------------------------------------------------------------- *)
Inductive mark :=
| NotMarker
| Exact (id : str)                    (* -g --gdb -r --run on its own *)
| ClusterEnd (id : str) (rest : str)  (* -Cr: the cluster without its last letter stays with us *)
| ClusterError.                       (* -rC: the marker letter is not last *)

Definition starts_with_single_dash (s : str) : bool :=
  match s with
  | 45 :: c :: _ => negb (N.eqb c 45)
  | _ => false
  end.

(* one command (letter x, long spelling), in the order the aliases are tried *)
Definition classify_one (letter : char) (long : str) (a : str) : mark :=
  if str_eqb a [45; letter] then Exact [letter]
  else
    let cluster := Nat.ltb 2 (List.length a) && starts_with_single_dash a in
    if cluster && mem_char letter (removelast a) then ClusterError
    else if cluster && ends_with [letter] a then ClusterEnd [letter] (removelast a)
    else if str_eqb a long then Exact [letter]
    else NotMarker.

(* commands are tried in the order g, r *)
Definition classify (a : str) : mark :=
  match classify_one 103 (s2l "--gdb") a with
  | NotMarker => classify_one 114 (s2l "--run") a
  | m => m
  end.

Fixpoint split_command (args : list str) : res (list str * str * list str) :=
  match args with
  | [] => Ok ([], [], [])
  | a :: rest =>
      match classify a with
      | Exact id => Ok ([], id, rest)
      | ClusterEnd id a' => Ok ([a'], id, rest)
      | ClusterError => Raise RuntimeError []
      | NotMarker => do r <- split_command rest; let '(p, id, q) := r in Ok (a :: p, id, q)
      end
  end.

(* ---- the option table (argparse itself is not modelled: only exact spellings with separate
   values; anything else is out of model) --------------------------------------------------------- *)
Record opts := mkOpts {
  o_load : option str; o_pipe : bool; o_filter : option str; o_break : option str;
  o_no_color : bool; o_color : bool; o_supress : bool; o_verbose : bool; o_libwayland : option str;
  o_matcher_help : bool; o_run : bool; o_gdb : bool }.
Definition opts0 : opts := mkOpts None false None None false false false false None false false false.

Fixpoint parse_opts (fuel : nat) (ws : list str) (o : opts) : res opts :=
  match fuel with
  | O => Raise OutOfFuel []
  | S f =>
      match ws with
      | [] => Ok o
      | w :: rest =>
          let flag (o' : opts) := parse_opts f rest o' in
          let valued (set : str -> opts) :=
            match rest with
            | v :: rest' => if starts_with [45] v then Raise OutOfModel [] else parse_opts f rest' (set v)
            | [] => Raise OutOfModel []
            end in
          if str_eqb w (s2l "-p") || str_eqb w (s2l "--pipe") then
            flag (mkOpts (o_load o) true (o_filter o) (o_break o) (o_no_color o) (o_color o) (o_supress o) (o_verbose o) (o_libwayland o) (o_matcher_help o) (o_run o) (o_gdb o))
          else if str_eqb w (s2l "-C") || str_eqb w (s2l "--no-color") then
            flag (mkOpts (o_load o) (o_pipe o) (o_filter o) (o_break o) true (o_color o) (o_supress o) (o_verbose o) (o_libwayland o) (o_matcher_help o) (o_run o) (o_gdb o))
          else if str_eqb w (s2l "--color") then
            flag (mkOpts (o_load o) (o_pipe o) (o_filter o) (o_break o) (o_no_color o) true (o_supress o) (o_verbose o) (o_libwayland o) (o_matcher_help o) (o_run o) (o_gdb o))
          else if str_eqb w (s2l "--supress") then
            flag (mkOpts (o_load o) (o_pipe o) (o_filter o) (o_break o) (o_no_color o) (o_color o) true (o_verbose o) (o_libwayland o) (o_matcher_help o) (o_run o) (o_gdb o))
          else if str_eqb w (s2l "--verbose") then
            flag (mkOpts (o_load o) (o_pipe o) (o_filter o) (o_break o) (o_no_color o) (o_color o) (o_supress o) true (o_libwayland o) (o_matcher_help o) (o_run o) (o_gdb o))
          else if str_eqb w (s2l "-l") || str_eqb w (s2l "--load") then
            valued (fun v => mkOpts (Some v) (o_pipe o) (o_filter o) (o_break o) (o_no_color o) (o_color o) (o_supress o) (o_verbose o) (o_libwayland o) (o_matcher_help o) (o_run o) (o_gdb o))
          else if str_eqb w (s2l "-f") || str_eqb w (s2l "--filter") then
            valued (fun v => mkOpts (o_load o) (o_pipe o) (Some v) (o_break o) (o_no_color o) (o_color o) (o_supress o) (o_verbose o) (o_libwayland o) (o_matcher_help o) (o_run o) (o_gdb o))
          else if str_eqb w (s2l "-b") || str_eqb w (s2l "--break") then
            valued (fun v => mkOpts (o_load o) (o_pipe o) (o_filter o) (Some v) (o_no_color o) (o_color o) (o_supress o) (o_verbose o) (o_libwayland o) (o_matcher_help o) (o_run o) (o_gdb o))
          else Raise OutOfModel []
      end
  end.

Inductive mode := MRun | MGdbRunner | MLoad | MPipe.

(* _select_mode with check_gdb() = false: exactly one of run / gdb / load / pipe *)
Definition select_mode (id : str) (o : opts) : option mode :=
  let ms := (if str_eqb id [103] then [MGdbRunner] else if str_eqb id [114] then [MRun] else [])
            ++ (match o_load o with Some _ => [MLoad] | None => [] end)
            ++ (if o_pipe o then [MPipe] else []) in
  match ms with
  | [m] => Some m
  | _ => None
  end.

Inductive parsed_args :=
| PAUsage                       (* usage printed, exit status 0, nothing runs *)
| PABadMatcher                  (* RuntimeError('invalid filter/break matcher ...') -> error, exit status 1 *)
| PASplitError                  (* RuntimeError: marker letter not last in a cluster *)
| PAOk (m : mode) (load_path : str) (filter stop : mt) (unprocessed : bool)
       (ours : list str) (forwarded : list str).

Definition parse_args (argv : list str) : res parsed_args :=
  match split_command argv with
  | Raise RuntimeError _ => Ok PASplitError
  | Raise e m => Raise e m
  | Ok (ours, id, forwarded) =>
      do o <- parse_opts (S (List.length ours)) (tl ours) opts0;
      match select_mode id o with
      | None => Ok PAUsage
      | Some m =>
          let pm (t : option str) (dflt : mt) : res (option mt) :=
            match t with
            | None | Some [] => Ok (Some dflt)
            | Some x => match parse_simplify x with
                        | Ok p => Ok (Some p)
                        | Raise RuntimeError _ => Ok None
                        | Raise e s => Raise e s
                        end
            end in
          do f <- pm (o_filter o) (MAlways true);
          match f with
          | None => Ok PABadMatcher
          | Some fm =>
              do b <- pm (o_break o) (MAlways false);
              match b with
              | None => Ok PABadMatcher
              | Some bm =>
                  Ok (PAOk m (match o_load o with Some p => p | None => [] end) fm bm (negb (o_supress o)) ours forwarded)
              end
          end
      end
  end.

(* ---- run_gdb: re-creating sys.argv inside GDB --------------------------------------------------- *)
(* each word is written as a Python string literal (repr, since the fix of D10) into a
   `python import sys; sys.argv = [...]` command, which GDB's Python then evaluates *)
Definition quote_word (w : str) : str := py_repr w.

(* evaluation of a Python string literal as produced above: '...' or "..." with the escapes
   backslash, quotes, n, r, t and xNN *)
Definition unhex (c : char) : option N :=
  if is_digit c then Some (c - 48) else if in_range c 97 102 then Some (c - 87) else None.
Fixpoint unescape (s : str) (q : char) : option str :=
  match s with
  | [] => None
  | c :: r =>
      if N.eqb c q then (match r with [] => Some [] | _ => None end)
      else if N.eqb c 92 then
        match r with
        | 92 :: r' => option_map (cons 92) (unescape r' q)
        | 39 :: r' => option_map (cons 39) (unescape r' q)
        | 34 :: r' => option_map (cons 34) (unescape r' q)
        | 110 :: r' => option_map (cons 10) (unescape r' q)
        | 114 :: r' => option_map (cons 13) (unescape r' q)
        | 116 :: r' => option_map (cons 9) (unescape r' q)
        | 120 :: a :: b :: r' =>
            match unhex a, unhex b with
            | Some x, Some y => option_map (cons (x * 16 + y)) (unescape r' q)
            | _, _ => None
            end
        | _ => None
        end
      else option_map (cons c) (unescape r q)
  end.
Definition py_eval_literal (lit : str) : option str :=
  match lit with
  | q :: r => if N.eqb q 39 || N.eqb q 34 then unescape r q else None
  | [] => None
  end.

(* the gdb command line: gdb -ex <python command> forwarded... *)
Definition gdb_python_command (ours : list str) : str :=
  s2l "python import sys; sys.argv = [" ++ intercalate (s2l ", ") (map quote_word ours) ++ s2l "]; exec(open("
  ++ quote_word (match ours with p :: _ => p | [] => [] end) ++ s2l ").read())".
Definition gdb_argv (ours forwarded : list str) : list str :=
  [s2l "gdb"; s2l "-ex"; gdb_python_command ours] ++ forwarded.
