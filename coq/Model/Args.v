(* Args.v — frontends/tui/arguments.py (_split_command, _select_mode, the option table as argparse
   reads it) and backends/gdb_plugin/runner.py (how sys.argv is re-created inside GDB). *)
From WD Require Import Base Wire Conn Color Matcher MatcherParse Show.
Open Scope N_scope.

(* ---- _split_command --------------------------------------------------------------------------- *)
Inductive mark :=
| NotMarker
| Exact (id : str)                    (* -g --gdb -r --run on its own *)
| ClusterEnd (id : str) (rest : str)  (* -Cr: the cluster without its last letter stays with us *)
| ClusterError.                       (* -rC: the marker letter is not last *)

Definition starts_with_single_dash (s : str) : bool :=
  match s with
  | 45 :: c :: _ => negb (N.eqb c 45)
  | _ => false
  end.

(* one command (letter x, long spelling), in the order the aliases are tried *)
Definition classify_one (letter : char) (long : str) (a : str) : mark :=
  if str_eqb a [45; letter] then Exact [letter]
  else
    let cluster := Nat.ltb 2 (List.length a) && starts_with_single_dash a in
    if cluster && mem_char letter (removelast a) then ClusterError
    else if cluster && ends_with [letter] a then ClusterEnd [letter] (removelast a)
    else if str_eqb a long then Exact [letter]
    else NotMarker.

(* commands are tried in the order g, r *)
Definition classify (a : str) : mark :=
  match classify_one 103 (s2l "--gdb") a with
  | NotMarker => classify_one 114 (s2l "--run") a
  | m => m
  end.

Fixpoint split_command (args : list str) : res (list str * str * list str) :=
  match args with
  | [] => Ok ([], [], [])
  | a :: rest =>
      match classify a with
      | Exact id => Ok ([], id, rest)
      | ClusterEnd id a' => Ok ([a'], id, rest)
      | ClusterError => Raise RuntimeError []
      | NotMarker => do r <- split_command rest; let '(p, id, q) := r in Ok (a :: p, id, q)
      end
  end.

(* ---- the option table and argparse (Python 3.12: ArgumentParser with allow_abbrev, prefix_chars
   "-", no positionals, no mutually exclusive groups), as far as parse_args observes it ------------- *)
Record opts := mkOpts {
  o_load : option str; o_pipe : bool; o_filter : option str; o_break : option str;
  o_no_color : bool; o_color : bool; o_supress : bool; o_verbose : bool; o_libwayland : option str;
  o_matcher_help : bool; o_run : bool; o_gdb : bool }.
Definition opts0 : opts := mkOpts None false None None false false false false None false false false.

Inductive action :=
| AHelp | AMatcherHelp | ARun | AGdb | ALoad | APipe | AFilter | ABreak | ANoColor | AColor | ASupress | AVerbose | ALibwayland.

(* parser._option_string_actions, in insertion order (-h/--help are added by ArgumentParser itself) *)
Definition option_table : list (str * action) :=
  [(s2l "-h", AHelp); (s2l "--help", AHelp); (s2l "--matcher-help", AMatcherHelp);
   (s2l "-r", ARun); (s2l "--run", ARun); (s2l "-g", AGdb); (s2l "--gdb", AGdb);
   (s2l "-l", ALoad); (s2l "--load", ALoad); (s2l "-p", APipe); (s2l "--pipe", APipe);
   (s2l "-f", AFilter); (s2l "--filter", AFilter); (s2l "-b", ABreak); (s2l "--break", ABreak);
   (s2l "-C", ANoColor); (s2l "--no-color", ANoColor); (s2l "--color", AColor); (s2l "--supress", ASupress);
   (s2l "--verbose", AVerbose); (s2l "--libwayland", ALibwayland)].

(* nargs: None (one value) for the type=str options, 0 for store_true and help *)
Definition takes_value (a : action) : bool :=
  match a with ALoad | AFilter | ABreak | ALibwayland => true | _ => false end.

Fixpoint assoc (t : list (str * action)) (s : str) : option action :=
  match t with
  | [] => None
  | (k, a) :: t' => if str_eqb k s then Some a else assoc t' s
  end.
Definition lookup (s : str) : option action := assoc option_table s.

(* option strings that start with the given text (abbreviations of long options) *)
Definition long_matches (prefix : str) : list (str * action) :=
  filter (fun e => starts_with prefix (fst e)) option_table.

(* s.split("=", 1) when "=" occurs *)
Fixpoint split_eq (s : str) : option (str * str) :=
  match s with
  | [] => None
  | c :: r => if N.eqb c 61 then Some ([], r)
              else match split_eq r with Some (a, b) => Some (c :: a, b) | None => None end
  end.

(* option_string[1] not in prefix_chars *)
Definition is_short (s : str) : bool :=
  match s with _ :: c :: _ => negb (N.eqb c 45) | _ => false end.

(* _negative_number_matcher: ^-\d+$|^-\d*\.\d+$ (ASCII text; $ also matches before one final newline) *)
Definition negnum_body (s : str) : bool :=
  match drop_while is_digit s with
  | [] => match s with [] => false | _ => true end
  | 46 :: r => match r with [] => false | _ => forallb is_digit r end
  | _ => false
  end.
Definition looks_negative (w : str) : bool :=
  match w with
  | 45 :: s => negnum_body s || (ends_with [10] s && negnum_body (removelast s))
  | _ => false
  end.

(* _parse_optional: how one word (other than the first "--") enters the pattern *)
Inductive cls :=
| CArg                                                    (* "A": can be the value of an option *)
| CSep                                                    (* "-": the first "--" *)
| COpt (a : action) (short : bool) (explicit : option str) (* "O" *)
| CUnknown                                                (* "O" without an action: an extra *)
| CAmbiguous                                              (* parser.error: ambiguous option *)
| CUnmodelled.                                            (* non-ASCII option-like word *)

(* no option string matched *)
Definition classify_rest (w : str) : cls :=
  if looks_negative w then CArg else if mem_char 32 w then CArg else CUnknown.

Definition classify_word (w : str) : cls :=
  match w with
  | [] => CArg
  | c :: w1 =>
      if negb (N.eqb c 45) then CArg
      else if negb (all_ascii w) then CUnmodelled
      else
        match lookup w with
        | Some a => COpt a (is_short w) None
        | None =>
            match w1 with
            | [] => CArg
            | c1 :: w2 =>
                (* _get_option_tuples *)
                let by_prefix :=
                  if N.eqb c1 45 then
                    let pe := match split_eq w with Some (p, e) => (p, Some e) | None => (w, None) end in
                    match long_matches (fst pe) with
                    | [] => classify_rest w
                    | [(_, a)] => COpt a false (snd pe)
                    | _ => CAmbiguous
                    end
                  else
                    (* only the two-character prefix can match: every longer option string starts with
                       two dashes (ArgsProofsB.long_options_have_two_dashes) *)
                    match lookup [45; c1] with
                    | Some a => COpt a true (Some w2)
                    | None => classify_rest w
                    end in
                match split_eq w with
                | Some (p, e) => match lookup p with Some a => COpt a (is_short p) (Some e) | None => by_prefix end
                | None => by_prefix
                end
            end
        end
  end.

(* the pattern, each class with its word *)
Fixpoint classify_all (ws : list str) : list (cls * str) :=
  match ws with
  | [] => []
  | w :: rest =>
      if str_eqb w (s2l "--") then (CSep, w) :: map (fun x => (CArg, x)) rest
      else (classify_word w, w) :: classify_all rest
  end.

(* consume_optional: the actions one option word stands for *)
Inductive tail :=
| TDone                         (* flags only *)
| TVal (a : action) (v : str)   (* a valued option with its value attached *)
| TNext (a : action).           (* a valued option that takes the next word *)

(* the letters after a flag in a single-dash word *)
Fixpoint cluster_rest (e : str) : option (list action * tail) :=
  match e with
  | [] => Some ([], TDone)
  | c :: e' =>
      match lookup [45; c] with
      | None => None                                     (* ignored explicit argument *)
      | Some a =>
          if takes_value a then Some ([], match e' with [] => TNext a | _ => TVal a e' end)
          else match cluster_rest e' with Some (l, t) => Some (a :: l, t) | None => None end
      end
  end.

Definition resolve (a : action) (short : bool) (explicit : option str) : option (list action * tail) :=
  match explicit with
  | None => if takes_value a then Some ([], TNext a) else Some ([a], TDone)
  | Some e =>
      if takes_value a then Some ([], TVal a e)
      else if short && match e with [] => false | _ => true end
           then match cluster_rest e with Some (l, t) => Some (a :: l, t) | None => None end
           else None                                     (* ignored explicit argument *)
  end.

(* store_true; None = the help action (prints the help text and exits 0: not modelled) *)
Definition set_flag (a : action) (o : opts) : option opts :=
  match a with
  | AHelp => None
  | AMatcherHelp => Some (mkOpts (o_load o) (o_pipe o) (o_filter o) (o_break o) (o_no_color o) (o_color o) (o_supress o) (o_verbose o) (o_libwayland o) true (o_run o) (o_gdb o))
  | ARun => Some (mkOpts (o_load o) (o_pipe o) (o_filter o) (o_break o) (o_no_color o) (o_color o) (o_supress o) (o_verbose o) (o_libwayland o) (o_matcher_help o) true (o_gdb o))
  | AGdb => Some (mkOpts (o_load o) (o_pipe o) (o_filter o) (o_break o) (o_no_color o) (o_color o) (o_supress o) (o_verbose o) (o_libwayland o) (o_matcher_help o) (o_run o) true)
  | APipe => Some (mkOpts (o_load o) true (o_filter o) (o_break o) (o_no_color o) (o_color o) (o_supress o) (o_verbose o) (o_libwayland o) (o_matcher_help o) (o_run o) (o_gdb o))
  | ANoColor => Some (mkOpts (o_load o) (o_pipe o) (o_filter o) (o_break o) true (o_color o) (o_supress o) (o_verbose o) (o_libwayland o) (o_matcher_help o) (o_run o) (o_gdb o))
  | AColor => Some (mkOpts (o_load o) (o_pipe o) (o_filter o) (o_break o) (o_no_color o) true (o_supress o) (o_verbose o) (o_libwayland o) (o_matcher_help o) (o_run o) (o_gdb o))
  | ASupress => Some (mkOpts (o_load o) (o_pipe o) (o_filter o) (o_break o) (o_no_color o) (o_color o) true (o_verbose o) (o_libwayland o) (o_matcher_help o) (o_run o) (o_gdb o))
  | AVerbose => Some (mkOpts (o_load o) (o_pipe o) (o_filter o) (o_break o) (o_no_color o) (o_color o) (o_supress o) true (o_libwayland o) (o_matcher_help o) (o_run o) (o_gdb o))
  | ALoad | AFilter | ABreak | ALibwayland => Some o
  end.
Fixpoint apply_flags (l : list action) (o : opts) : option opts :=
  match l with
  | [] => Some o
  | a :: l' => match set_flag a o with Some o' => apply_flags l' o' | None => None end
  end.

(* store *)
Definition set_value (a : action) (v : str) (o : opts) : opts :=
  match a with
  | ALoad => mkOpts (Some v) (o_pipe o) (o_filter o) (o_break o) (o_no_color o) (o_color o) (o_supress o) (o_verbose o) (o_libwayland o) (o_matcher_help o) (o_run o) (o_gdb o)
  | AFilter => mkOpts (o_load o) (o_pipe o) (Some v) (o_break o) (o_no_color o) (o_color o) (o_supress o) (o_verbose o) (o_libwayland o) (o_matcher_help o) (o_run o) (o_gdb o)
  | ABreak => mkOpts (o_load o) (o_pipe o) (o_filter o) (Some v) (o_no_color o) (o_color o) (o_supress o) (o_verbose o) (o_libwayland o) (o_matcher_help o) (o_run o) (o_gdb o)
  | ALibwayland => mkOpts (o_load o) (o_pipe o) (o_filter o) (o_break o) (o_no_color o) (o_color o) (o_supress o) (o_verbose o) (Some v) (o_matcher_help o) (o_run o) (o_gdb o)
  | _ => o
  end.
(* _get_values strips a "--" out of the value list: an attached value "--" (--load=--) is stored as
   the empty list, which parse_args cannot tell from the empty string *)
Definition norm_value (v : str) : str := if str_eqb v (s2l "--") then [] else v.

Inductive ap_result :=
| APOk (o : opts)     (* the namespace *)
| APError             (* parser.error: usage and message on stderr, SystemExit(2) *)
| APOut.              (* not modelled: the help action was taken, or a non-ASCII option-like word *)

(* the consume loop; extras: some word so far was left over (reported after the loop) *)
Fixpoint run_opts (items : list (cls * str)) (o : opts) (extras : bool) : ap_result :=
  match items with
  | [] => if extras then APError else APOk o
  | (c, _) :: rest =>
      match c with
      | CArg | CSep | CUnknown => run_opts rest o true
      | CAmbiguous => APError
      | CUnmodelled => APOut
      | COpt a short explicit =>
          match resolve a short explicit with
          | None => APError
          | Some (flags, TDone) =>
              match apply_flags flags o with Some o' => run_opts rest o' extras | None => APOut end
          | Some (flags, TVal a' v) =>
              match apply_flags flags o with
              | Some o' => run_opts rest (set_value a' (norm_value v) o') extras
              | None => APOut
              end
          | Some (flags, TNext a') =>
              match rest with
              | (CArg, v) :: rest' =>
                  match apply_flags flags o with
                  | Some o' => run_opts rest' (set_value a' (norm_value v) o') extras
                  | None => APOut
                  end
              | _ => APError                             (* expected one argument *)
              end
          end
      end
  end.

Definition is_unmodelled (i : cls * str) : bool := match fst i with CUnmodelled => true | _ => false end.
Definition is_ambiguous (i : cls * str) : bool := match fst i with CAmbiguous => true | _ => false end.

(* parser.parse_args(ws) starting from the namespace o; the pattern is built (and ambiguity reported)
   before anything is consumed *)
Definition argparse (ws : list str) (o : opts) : ap_result :=
  let items := classify_all ws in
  if existsb is_unmodelled items then APOut
  else if existsb is_ambiguous items then APError
  else run_opts items o false.

(* The result type of parse_args has no constructor for SystemExit(2), so a usage error is answered
   like everything else that cannot be compared: Raise OutOfModel, here with a tag; usage_error below
   says which vectors these are. *)
Definition usage_error_tag : str := s2l "argparse: usage error, exit status 2".
Definition parse_opts (ws : list str) (o : opts) : res opts :=
  match argparse ws o with
  | APOk o' => Ok o'
  | APError => Raise OutOfModel usage_error_tag
  | APOut => Raise OutOfModel []
  end.

Inductive mode := MRun | MGdbRunner | MLoad | MPipe.

(* _select_mode with check_gdb() = false: exactly one of run / gdb / load / pipe *)
Definition select_mode (id : str) (o : opts) : option mode :=
  let ms := (if str_eqb id [103] then [MGdbRunner] else if str_eqb id [114] then [MRun] else [])
            ++ (match o_load o with Some _ => [MLoad] | None => [] end)
            ++ (if o_pipe o then [MPipe] else []) in
  match ms with
  | [m] => Some m
  | _ => None
  end.

Inductive parsed_args :=
| PAUsage                       (* usage printed, exit status 0, nothing runs *)
| PABadMatcher                  (* RuntimeError('invalid filter/break matcher ...') -> error, exit status 1 *)
| PASplitError                  (* RuntimeError: marker letter not last in a cluster *)
| PAOk (m : mode) (load_path : str) (filter stop : mt) (unprocessed : bool)
       (ours : list str) (forwarded : list str).

Definition parse_args (argv : list str) : res parsed_args :=
  match split_command argv with
  | Raise RuntimeError _ => Ok PASplitError
  | Raise e m => Raise e m
  | Ok (ours, id, forwarded) =>
      do o <- parse_opts (tl ours) opts0;
      if o_matcher_help o then Raise OutOfModel [] else   (* prints matcher.help_text(), exit(0) *)
      match select_mode id o with
      | None => Ok PAUsage
      | Some m =>
          let pm (t : option str) (dflt : mt) : res (option mt) :=
            match t with
            | None | Some [] => Ok (Some dflt)
            | Some x => match parse_simplify x with
                        | Ok p => Ok (Some p)
                        | Raise RuntimeError _ => Ok None
                        | Raise e s => Raise e s
                        end
            end in
          do f <- pm (o_filter o) (MAlways true);
          match f with
          | None => Ok PABadMatcher
          | Some fm =>
              do b <- pm (o_break o) (MAlways false);
              match b with
              | None => Ok PABadMatcher
              | Some bm =>
                  Ok (PAOk m (match o_load o with Some p => p | None => [] end) fm bm (negb (o_supress o)) ours forwarded)
              end
          end
      end
  end.

(* parse_args ends in argparse's error exit (status 2): nothing else of it is observable *)
Definition usage_error (argv : list str) : bool :=
  match split_command argv with
  | Ok (ours, _, _) => match argparse (tl ours) opts0 with APError => true | _ => false end
  | Raise _ _ => false
  end.

(* ---- run_gdb: re-creating sys.argv inside GDB --------------------------------------------------- *)
(* each word is written as a Python string literal (repr, since the fix of D10) into a
   `python import sys; sys.argv = [...]` command, which GDB's Python then evaluates *)
Definition quote_word (w : str) : str := py_repr w.

(* evaluation of a Python string literal as produced above: '...' or "..." with the escapes
   backslash, quotes, n, r, t and xNN *)
Definition unhex (c : char) : option N :=
  if is_digit c then Some (c - 48) else if in_range c 97 102 then Some (c - 87) else None.
Fixpoint unescape (s : str) (q : char) : option str :=
  match s with
  | [] => None
  | c :: r =>
      if N.eqb c q then (match r with [] => Some [] | _ => None end)
      else if N.eqb c 92 then
        match r with
        | 92 :: r' => option_map (cons 92) (unescape r' q)
        | 39 :: r' => option_map (cons 39) (unescape r' q)
        | 34 :: r' => option_map (cons 34) (unescape r' q)
        | 110 :: r' => option_map (cons 10) (unescape r' q)
        | 114 :: r' => option_map (cons 13) (unescape r' q)
        | 116 :: r' => option_map (cons 9) (unescape r' q)
        | 120 :: a :: b :: r' =>
            match unhex a, unhex b with
            | Some x, Some y => option_map (cons (x * 16 + y)) (unescape r' q)
            | _, _ => None
            end
        | _ => None
        end
      else option_map (cons c) (unescape r q)
  end.
Definition py_eval_literal (lit : str) : option str :=
  match lit with
  | q :: r => if N.eqb q 39 || N.eqb q 34 then unescape r q else None
  | [] => None
  end.

(* the gdb command line: gdb -ex <python command> forwarded... *)
Definition gdb_python_command (ours : list str) : str :=
  s2l "python import sys; sys.argv = [" ++ intercalate (s2l ", ") (map quote_word ours) ++ s2l "]; exec(open("
  ++ quote_word (match ours with p :: _ => p | [] => [] end) ++ s2l ").read())".
Definition gdb_argv (ours forwarded : list str) : list str :=
  [s2l "gdb"; s2l "-ex"; gdb_python_command ours] ++ forwarded.
