(* MatcherParse.v — core/matcher.py parse() and its helpers. *)
From WD Require Import Base Wire Conn Color LetterId Matcher.
Open Scope N_scope.

Definition is_brace (c : char) : bool := N.eqb c 40 || N.eqb c 91 || N.eqb c 34.
Definition closing_of (c : char) : char :=
  if N.eqb c 40 then 41 else if N.eqb c 91 then 93 else 34.

(* _find_closing_brace on the text after the opener; returns the offset of the closer (>= 1) *)
Fixpoint find_close (op cl : char) (s : str) (level : nat) : option nat :=
  match s with
  | [] => None
  | c :: s' =>
      let level' := if N.eqb c cl then Nat.pred level
                    else if N.eqb c op then S level else level in
      match level' with
      | O => Some 1%nat
      | _ => option_map S (find_close op cl s' level')
      end
  end.

(* _split_on: [skip] = characters still covered by a bracket jump, [cur] = current section
   reversed, [acc] = finished sections reversed *)
Fixpoint split_on_go (delim : char) (s : str) (skip : nat) (cur : str) (acc : list str)
  : res (list str) :=
  match s with
  | [] => Ok (rev (strip (rev cur) :: acc))
  | c :: s' =>
      match skip with
      | S k => split_on_go delim s' k (c :: cur) acc
      | O =>
          let cur' := if N.eqb c delim then [] else c :: cur in
          let acc' := if N.eqb c delim then strip (rev cur) :: acc else acc in
          if is_brace c then
            match find_close c (closing_of c) s' 1 with
            | None => Raise RuntimeError []
            | Some off => split_on_go delim s' off cur' acc'
            end
          else split_on_go delim s' 0 cur' acc'
      end
  end.

Definition split_on (text : str) (delim : char) (allow_empty : bool) : res (list str) :=
  match strip text, allow_empty with
  | [], true => Ok []
  | _, _ => split_on_go delim text 0 [] []
  end.

Definition split_pair (text : str) (delim : char) : res (option (str * str)) :=
  do r <- split_on text delim false;
  match r with
  | [a; b] => Ok (Some (a, b))
  | [] | [_] => Ok None
  | _ => Raise RuntimeError []
  end.

Definition split_peren_at_end (text : str) : res (option (str * str)) :=
  do p <- split_pair text 40;
  match p with
  | Some (a, b) => if ends_with [41] b then Ok (Some (a, removelast b)) else Raise RuntimeError []
  | None => Ok None
  end.

Definition bracketed (text : str) : bool := starts_with [91] text && ends_with [93] text.

(* str_matcher / identifier_matcher *)
Definition str_matcher (p : str) : mt :=
  if str_eqb p [42] then MAlways true
  else if mem_char 42 p then MWild p else MEqS p.
Definition is_ident_char (c : char) : bool :=
  N.eqb c 42 || N.eqb c 45 || N.eqb c 95 || is_letter c || is_digit c.
Definition identifier_matcher (p : str) : res mt :=
  if forallb is_ident_char p then Ok (str_matcher p) else Raise RuntimeError [].

Definition parse_int_matcher (text : str) : res mt :=
  if str_eqb text [42] || str_eqb text [] then Ok (MAlways true)
  else match py_int text with
       | Ok z => Ok (MEqZ z (z_to_dec z))
       | Raise ValueError _ => Raise RuntimeError []
       | Raise e m => Raise e m
       end.

(* float(text) on plain decimals; anything that might be another valid spelling -> OutOfModel *)
Definition float_charset (c : char) : bool :=
  is_digit c || N.eqb c 101 || N.eqb c 69 || N.eqb c 43 || N.eqb c 45 || N.eqb c 46 || N.eqb c 95.
Definition py_float (text : str) : res dec :=
  if negb (all_ascii text) then Raise OutOfModel [] else
  let t := strip text in
  let '(neg, body) := match t with
                      | 45 :: r => (true, r)
                      | 43 :: r => (false, r)
                      | _ => (false, t) end in
  let lw := lower body in
  if str_eqb lw (s2l "inf") || str_eqb lw (s2l "infinity") || str_eqb lw (s2l "nan") then Raise OutOfModel []
  else if negb (forallb float_charset t) then Raise ValueError []
  else
    let ip := take_while is_digit body in
    let rest := drop_while is_digit body in
    let '(fp, tail) := match rest with
                       | 46 :: r => (take_while is_digit r, drop_while is_digit r)
                       | _ => ([], rest) end in
    match tail, ip ++ fp with
    | [], _ :: _ =>
        let digits := ip ++ fp in
        let sig := drop_while (N.eqb 48) digits in
        if Nat.ltb 15 (List.length sig) then Raise OutOfModel []
        else
          let m := Z.of_N (dec_value digits) in
          let d := mkDec (if neg then (- m)%Z else m) (N.of_nat (List.length fp)) in
          (* repr must be positional: 1e-4 <= |x| < 1e16 or zero *)
          if (m =? 0)%Z then Ok d
          else if Nat.ltb 16 (List.length (drop_while (N.eqb 48) ip)) then Raise OutOfModel []
          else match ip with
               | _ => if (Z.of_N (dec_value ip) =? 0)%Z &&
                         Nat.leb 4 (List.length (take_while (N.eqb 48) fp))
                      then Raise OutOfModel [] else Ok d
               end
    | [], [] => if forallb float_charset t then
                  (match t with [] => Raise ValueError [] | _ =>
                   if forallb (fun c => N.eqb c 46 || N.eqb c 43 || N.eqb c 45) t then Raise ValueError []
                   else Raise OutOfModel [] end)
                else Raise ValueError []
    | _, _ => Raise OutOfModel []
    end.

Definition parse_float_matcher (text : str) : res mt :=
  match py_float text with
  | Ok d => Ok (MEqF d)
  | Raise ValueError _ => Raise RuntimeError []
  | Raise e m => Raise e m
  end.

Definition parse_string_matcher (text : str) : res mt :=
  if starts_with [34] text && ends_with [34] text && Nat.ltb 1 (List.length text)
  then Ok (MEqS (strip_ends text)) else Raise RuntimeError [].

(* try: ... except RuntimeError: pass *)
Definition or_else (r : res mt) (k : unit -> res mt) : res mt :=
  match r with
  | Raise RuntimeError _ => k tt
  | _ => r
  end.

Inductive pkind := KPattern | KArg | KArgValue | KText | KObj.

Section WithRec.
(* rec k text = _parse_matcher_list(text, sub-parser of kind k) on a strictly shorter text *)
Variable rec : pkind -> str -> res mt.

Definition parse_text_matcher (text : str) : res mt :=
  if bracketed text then rec KText (strip_ends text)
  else match text with
       | [] => Ok (MAlways true)
       | _ => identifier_matcher text
       end.

Definition trailing_letters (text : str) : str * str :=
  let r := rev text in
  (rev (drop_while is_letter r), rev (take_while is_letter r)).

Definition parse_obj_id_matcher (text : str) : res mt :=
  if str_eqb text (s2l "nil") then Ok (MPair (MEqZ 0 [48]) [] (MAlways true)) else
  let '(num, letters) := trailing_letters text in
  match letters with
  | [] => do a <- parse_int_matcher text; Ok (MPair a [] (MAlways true))
  | _ =>
      do a <- parse_int_matcher num;
      match letter_id_to_number letters with
      | Ok g => Ok (MPair a [] (MEqZ g letters))
      | Raise e m => Raise e m
      end
  end.

Definition parse_obj_matcher (text : str) : res mt :=
  if bracketed text then rec KObj (strip_ends text) else
  do h <- split_pair text 35;
  do at_split <- match h with Some p => Ok (Some p) | None => split_pair text 64 end;
  let '(name_text, id_text) :=
    match at_split with
    | Some (n, i) => (n, i)
    | None =>
        if str_eqb text (s2l "nil") then ([], text)
        else match text with
             | c :: _ => if is_digit c then ([], text) else (text, [])
             | [] => (text, [])
             end
    end in
  match name_text, id_text with
  | _ :: _, _ :: _ => Raise RuntimeError []
  | _ :: _, [] => do t <- parse_text_matcher name_text; Ok (MWrap WObjName t)
  | [], _ :: _ => do i <- parse_obj_id_matcher id_text; Ok (MWrap WObjId i)
  | [], [] => Ok (MAlways true)
  end.

Definition parse_arg_value_matcher (text : str) : res mt :=
  if bracketed text then rec KArgValue (strip_ends text) else
  or_else (do m <- parse_int_matcher text; Ok (MWrap WInt m)) (fun _ =>
  or_else (do m <- parse_float_matcher text; Ok (MWrap WFloat m)) (fun _ =>
  or_else (do m <- parse_string_matcher text; Ok (MWrap WString m)) (fun _ =>
  or_else (if str_eqb text (s2l "nil") then Raise RuntimeError []
           else do m <- parse_text_matcher text; Ok (MWrap WLabel m)) (fun _ =>
  or_else (do m <- parse_obj_matcher text; Ok (MWrap WObjArg m)) (fun _ =>
  Raise RuntimeError []))))).

Definition arg_matcher (name value : mt) : mt := MWrap WArg (MPair name [61] value).

Definition parse_arg_matcher (text : str) : res mt :=
  if bracketed text then rec KArg (strip_ends text) else
  do eq <- split_pair text 61;
  match eq with
  | Some (n, v) =>
      do nm <- parse_text_matcher n;
      do vm <- parse_arg_value_matcher v;
      Ok (arg_matcher nm vm)
  | None =>
      do vm <- parse_arg_value_matcher text;
      Ok (arg_matcher (MAlways true) vm)
  end.

Definition parse_args_list (text : str) : res mt :=
  match text with
  | [] => Ok (MAlways true)
  | _ =>
      do bang <- split_pair text 33;
      match bang with
      | None =>
          do pt <- split_on text 44 true;
          do p <- mapM parse_arg_matcher pt;
          Ok (MArgsList p [])
      | Some (a, b) =>
          match strip a, strip b with
          | [], [] => Ok (MAlways false)
          | _, _ =>
              do pt <- split_on a 44 true;
              do nt <- split_on b 44 true;
              do p <- mapM parse_arg_matcher pt;
              do n <- mapM parse_arg_matcher nt;
              Ok (MArgsList p n)
          end
      end
  end.

Definition parse_message_pattern (text : str) : res mt :=
  match text with
  | [] => Ok (MAlways true)
  | _ =>
      do colon <- split_pair text 58;
      let '(conn_text, message_text) :=
        match colon with Some (c, m) => (c, m) | None => ([42], text) end in
      do dot <- split_pair message_text 46;
      let full (obj_text name_text arg_text : str) : res mt :=
        do c <- parse_text_matcher conn_text;
        do o <- parse_obj_matcher obj_text;
        do n <- parse_text_matcher name_text;
        do a <- parse_args_list arg_text;
        Ok (mk_pattern (MWrap WConn c) o n a) in
      match dot with
      | Some (obj_text, name_and_arg) =>
          do per <- split_peren_at_end name_and_arg;
          match per with
          | Some (name_text, arg_text) => full obj_text name_text arg_text
          | None => full obj_text name_and_arg []
          end
      | None =>
          do per <- split_peren_at_end message_text;
          match per with
          | Some (obj_text, arg_text) => full obj_text [] arg_text
          | None =>
              do c <- parse_text_matcher conn_text;
              do o <- parse_obj_matcher message_text;
              let cm := MWrap WConn c in
              let self_m := mk_pattern cm o (MAlways true) (MAlways true) in
              let args := MArgsList [arg_matcher (MAlways true) (MWrap WObjArg o)] [] in
              let arg_m := mk_pattern cm (MAlways true) (MAlways true) args in
              Ok (MList [self_m; arg_m] [])
          end
      end
  end.

Definition parse_item (k : pkind) (text : str) : res mt :=
  match k with
  | KPattern => parse_message_pattern text
  | KArg => parse_arg_matcher text
  | KArgValue => parse_arg_value_matcher text
  | KText => parse_text_matcher text
  | KObj => parse_obj_matcher text
  end.

(* _parse_matcher_list(text, sub_parser) given the sub-parser *)
Definition parse_matcher_list_with (k : pkind) (text : str) : res mt :=
  do bang <- split_pair text 33;
  match bang with
  | Some (a, b) =>
      do pt <- split_on a 44 false;
      do p <- mapM (parse_item k) pt;
      do nt <- split_on b 44 false;
      do n <- mapM (parse_item k) nt;
      Ok (MList p n)
  | None =>
      do pt <- split_on text 44 false;
      do p <- mapM (parse_item k) pt;
      match p with
      | [x] => Ok x
      | _ => Ok (MList p [])
      end
  end.
End WithRec.

Fixpoint parse_list (fuel : nat) (k : pkind) (text : str) : res mt :=
  match fuel with
  | O => Raise OutOfFuel []
  | S f => parse_matcher_list_with (parse_list f) k text
  end.

(* nesting deeper than this is out of model (CPython's recursion limit is the real bound) *)
Definition max_depth : nat := 60.
Fixpoint bracket_depth (s : str) (cur best : nat) : nat :=
  match s with
  | [] => best
  | c :: s' =>
      if N.eqb c 91 then bracket_depth s' (S cur) (Nat.max best (S cur))
      else if N.eqb c 93 then bracket_depth s' (Nat.pred cur) best
      else bracket_depth s' cur best
  end.

(* matcher.parse(text) *)
Definition parse (text : str) : res mt :=
  let t := strip (no_color text) in
  match t with
  | [] => Raise RuntimeError []
  | _ =>
      if Nat.ltb max_depth (bracket_depth t 0 0) then Raise OutOfModel []
      else parse_list (S (List.length t)) KPattern t
  end.

(* the matcher the user gets *)
Definition parse_simplify (text : str) : res mt := do m <- parse text; Ok (simplify m).
