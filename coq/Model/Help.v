(* Help.v -- core/matcher.py help_text(): the text of matchers.md turned into the help screen.
   The model takes the *file text* and does what the six regular-expression calls of help_text do
   (the patterns are quoted in DESIGN.md, section C17; they cannot be quoted in a Coq comment):
   three re.sub calls remove the title, the table header and the table rule; findall collects the
   rows (bar, blanks, back-tick, text, back-tick, blanks, bar, text, bar, end of line); split cuts
   the text at the table lines (lines that start and end with a bar); the assertion compares the
   two counts; each row is rendered as the coloured first cell, padded to 32 columns with the width
   of the *plain* cell, and the coloured second cell.

   The dot does not match a newline and with MULTILINE the anchors sit only next to a newline, so both
   line patterns work line by line; a table line starts and ends with a bar (two different
   characters); every row match is a table line, so the assertion fails exactly when some table
   line is not a row. *)
From WD Require Import Base Color.
Open Scope N_scope.

Definition NL : char := 10.
Definition BAR : char := 124.
Definition BT : char := 96.

(* ---- re.sub(pattern, empty, text) for a pattern given by its matcher-at-a-position -------- *)
Fixpoint strip_prefix (p s : str) : option str :=
  match p, s with
  | [], _ => Some s
  | a :: p', b :: s' => if N.eqb a b then strip_prefix p' s' else None
  | _ :: _, [] => None
  end.

Fixpoint remove_all_fuel (fuel : nat) (m : str -> option str) (s : str) : str :=
  match fuel with
  | O => s
  | S f =>
      match s with
      | [] => []
      | c :: s' =>
          match m s with
          | Some rest => remove_all_fuel f m rest
          | None => c :: remove_all_fuel f m s'
          end
      end
  end.
Definition remove_all (m : str -> option str) (s : str) : str := remove_all_fuel (S (List.length s)) m s.

(* lit1, blanks, lit2 at the start of s (the blanks never need to give anything back: lit2 starts
   with a bar, which is no white space) *)
Definition m_lit_ws_lit (l1 l2 : str) (s : str) : option str :=
  match strip_prefix l1 s with
  | Some r => strip_prefix l2 (drop_while is_space r)
  | None => None
  end.

Definition m_title := strip_prefix (s2l "# Matchers" ++ [NL; NL]).
Definition m_header := m_lit_ws_lit (s2l "| Matcher") (s2l "| Description |" ++ [NL]).
Definition m_rule := m_lit_ws_lit (s2l "| ---") (s2l "| --- |" ++ [NL]).

Definition strip_headers (text : str) : str :=
  remove_all m_rule (remove_all m_header (remove_all m_title text)).

(* ---- lines ------------------------------------------------------------------------------ *)
Fixpoint lines_acc (s cur : str) : list str :=
  match s with
  | [] => [rev cur]
  | c :: s' => if N.eqb c NL then rev cur :: lines_acc s' [] else lines_acc s' (c :: cur)
  end.
Definition lines (s : str) : list str := lines_acc s [].

(* a table line: bar, anything, bar *)
Definition is_table_line (l : str) : bool :=
  match l with
  | 124 :: r => match rev r with 124 :: _ => true | _ => false end
  | _ => false
  end.

(* after the closing back-tick: blanks, bar, text, bar, end of line *)
Definition row_tail (r : str) : option str :=
  match drop_while is_space r with
  | 124 :: g => match rev g with 124 :: g2r => Some (rev g2r) | _ => None end
  | _ => None
  end.

(* the first cell is greedy; s is what follows the opening back-tick: the LAST back-tick after which
   the tail matches ends it *)
Fixpoint row_mid (s : str) : option (str * str) :=
  match s with
  | [] => None
  | c :: s' =>
      match row_mid s' with
      | Some (g1, g2) => Some (c :: g1, g2)
      | None => if N.eqb c BT then match row_tail s' with Some g2 => Some ([], g2) | None => None end else None
      end
  end.

(* the row pattern on one line *)
Definition row_of_line (l : str) : option (str * str) :=
  match l with
  | 124 :: r => match drop_while is_space r with 96 :: s => row_mid s | _ => None end
  | _ => None
  end.

(* ---- rendering --------------------------------------------------------------------------- *)
Definition help_row (on : bool) (m0 m1 : str) : str :=
  color on object_type_color m0 ++ repeat 32 (32 - List.length m0)%nat ++ color on object_id_color m1.

(* one line of the file -> one line of the screen; None = the assertion fails *)
Definition help_line (on : bool) (l : str) : option str :=
  if is_table_line l then
    match row_of_line l with
    | Some (m0, m1) => Some (help_row on m0 m1)
    | None => None
    end
  else Some l.

Fixpoint help_lines (on : bool) (ls : list str) : option (list str) :=
  match ls with
  | [] => Some []
  | l :: ls' =>
      match help_line on l, help_lines on ls' with
      | Some x, Some xs => Some (x :: xs)
      | _, _ => None
      end
  end.

(* white space in a pattern also matches newlines, so the row pattern can straddle lines when a line
   that starts with a bar has nothing but white space after it, or ends (white space apart) in a back-tick.  matchers.md has
   no such line; the model says so instead of guessing (checked on the shipped file on every run). *)
Definition dangling (l : str) : bool :=
  match l with
  | 124 :: r => match drop_while is_space (rev r) with [] => true | 96 :: _ => true | _ => false end
  | _ => false
  end.

Definition help_text (on : bool) (text : str) : res str :=
  let ls := lines (strip_headers text) in
  if existsb dangling ls then Raise OutOfModel []
  else match help_lines on ls with
       | Some out => Ok (intercalate [NL] out)
       | None => Raise AssertionError []
       end.
