(* Session.v — the pipeline behind parse.into_sink / the gdb plugin:
   ConnectionManager + ConnectionImpl + Parser + Controller + PersistentUIState,
   as  step : sess -> event -> sess * list oline. *)
From WD Require Import Base Wire Protocol Conn Color LetterId Matcher MatcherParse Show.
Open Scope Z_scope.

(* ---- output ---------------------------------------------------------------------------- *)
Inductive oline :=
| OOut (l : line)            (* a line on the out stream *)
| OMsg (ci : nat) (m : rmsg) (l : line)   (* a message line on the out stream (message.show) *)
| OErr (l : line)            (* a line on the err stream *)
| OMaybe (l : line)          (* a separator whose presence depends on binary64 rounding at exactly 1 s *)
| OAnyLines                  (* zero or more out lines the model does not predict (help text) *)
| OExec (cmd : str)          (* gdb.execute(cmd) *)
| OStop (b : bool)           (* value returned by the breakpoint's stop() *)
| ORaise (e : exn)           (* an exception escapes the breakpoint's stop() *)
| OOM.                       (* this step left the modelled fragment *)

Definition txt (s : str) : line := [Txt s].

(* ---- state ------------------------------------------------------------------------------ *)
Record connst := mkConn {
  c_id : str; c_name : str; c_server : option bool; c_open : bool;
  c_title : option str; c_app_id : option str;
  c_db : db; c_msgs : list rmsg }.

Record ctrl := mkCtrl {
  k_display : mt; k_stop : mt;
  k_current : option nat;            (* index of the selected connection *)
  k_all : list (nat * rmsg);         (* all_messages, oldest first *)
  k_last_shown : option Z }.

Record sess := mkSess {
  s_conns : list connst;             (* connection_list: every connection, creation order *)
  s_next : N;                        (* LetterIdGenerator.index *)
  s_ctrl : ctrl;
  s_known : list str;                (* Parser.known_connections, order of first appearance *)
  s_last_time : Z;                   (* Parser.last_time *)
  s_parse : bool;                    (* Parser's `parse` flag *)
  s_paused : bool; s_quit : bool;    (* PersistentUIState *)
  s_gdb : list (str * Z);            (* Plugin.connections: id -> thread *)
  s_color : bool;
  s_unprocessed : bool;              (* Output.show_unprocessed *)
  s_in_gdb : bool }.                 (* check_gdb(): affects command_format only *)

Definition init_sess (display stop : mt) (color unprocessed in_gdb : bool) : sess :=
  mkSess [] 0 (mkCtrl display stop None [] None) [] 0 true false false [] color unprocessed in_gdb.

Definition set_ctrl (s : sess) (k : ctrl) : sess :=
  mkSess (s_conns s) (s_next s) k (s_known s) (s_last_time s) (s_parse s) (s_paused s) (s_quit s) (s_gdb s) (s_color s) (s_unprocessed s) (s_in_gdb s).
Definition set_conns (s : sess) (cs : list connst) : sess :=
  mkSess cs (s_next s) (s_ctrl s) (s_known s) (s_last_time s) (s_parse s) (s_paused s) (s_quit s) (s_gdb s) (s_color s) (s_unprocessed s) (s_in_gdb s).
Definition set_pause (s : sess) (p q : bool) : sess :=
  mkSess (s_conns s) (s_next s) (s_ctrl s) (s_known s) (s_last_time s) (s_parse s) p q (s_gdb s) (s_color s) (s_unprocessed s) (s_in_gdb s).

Fixpoint update_nth {A} (n : nat) (f : A -> A) (l : list A) : list A :=
  match l, n with
  | [], _ => []
  | x :: l', O => f x :: l'
  | x :: l', S k => x :: update_nth k f l'
  end.

(* index of the open connection with this id (open_connections[id]) *)
Fixpoint find_open_from (i : nat) (cs : list connst) (id : str) : option nat :=
  match cs with
  | [] => None
  | c :: cs' =>
      match find_open_from (S i) cs' id with
      | Some j => Some j
      | None => if c_open c && str_eqb (c_id c) id then Some i else None
      end
  end.
Definition find_open (s : sess) (id : str) : option nat := find_open_from 0 (s_conns s) id.

(* ---- notices ------------------------------------------------------------------------------ *)
Definition conn_type_str (on : bool) (sv : option bool) : str :=
  match sv with
  | None => color on bad_color (s2l "unknown type")
  | Some true => s2l "server"
  | Some false => s2l "client"
  end.

Definition new_conn_line (on : bool) (sv : option bool) (name : str) : oline :=
  OOut (txt (color on good_color (s2l "New " ++ conn_type_str on sv ++ s2l " connection " ++ name))).
Definition closed_conn_line (on : bool) (sv : option bool) (name : str) : oline :=
  OOut (txt (color on bad_color (s2l "Closed " ++ conn_type_str on sv ++ s2l " connection " ++ name))).

(* ---- ConnectionManager ------------------------------------------------------------------ *)
Definition close_conn (s : sess) (id : str) : sess * list oline :=
  match find_open s id with
  | None => (s, [])
  | Some i =>
      match nth_error (s_conns s) i with
      | None => (s, [])
      | Some c =>
          (set_conns s (update_nth i (fun c => mkConn (c_id c) (c_name c) (c_server c) false (c_title c)
                                                      (c_app_id c) (c_db c) (c_msgs c)) (s_conns s)),
           [closed_conn_line (s_color s) (c_server c) (c_name c)])
      end
  end.

Definition open_conn (s : sess) (id : str) (sv : option bool) : sess * list oline :=
  let '(s1, o1) := close_conn s id in
  let name := conn_name (s_next s1) in
  let c := mkConn id name sv true None None db_init [] in
  (mkSess (s_conns s1 ++ [c]) (s_next s1 + 1)%N (s_ctrl s1) (s_known s1) (s_last_time s1) (s_parse s1)
          (s_paused s1) (s_quit s1) (s_gdb s1) (s_color s1) (s_unprocessed s1) (s_in_gdb s1),
   o1 ++ [new_conn_line (s_color s1) sv name]).

(* ---- Controller: live view ----------------------------------------------------------------- *)
Definition sep_line (on : bool) (delta : Z) : line :=
  [Txt (if on then csi (s2l "2;37") else []);
   Txt ([32; 32; 32; 32; 9472; 9472; 9472; 9508; 32]%N); Time0 delta; Txt ([115; 32; 9500; 9472; 9472; 9472]%N);
   Txt (if on then reset else [])].

(* _show_message *)
Definition show_message (on : bool) (ci : nat) (d : db) (cname : str) (last : option Z) (m : rmsg)
  : list oline * option Z :=
  let delta := match last with Some t => m_time m - t | None => 0 end in
  ((if 1000000 <? delta then [OOut (sep_line on delta)]
    else if delta =? 1000000 then [OMaybe (sep_line on delta)] else [])
   ++ [OMsg ci m (show_msg on d cname m)],
   Some (m_time m)).

(* connection_got_new_message *)
Definition ctrl_on_message (on : bool) (k : ctrl) (ci : nat) (d : db) (cname : str) (m : rmsg)
  : ctrl * list oline * bool :=
  let all' := k_all k ++ [(ci, m)] in
  let selected := match k_current k with None => true | Some j => Nat.eqb j ci end in
  if selected then
    let v := VM (view_msg d cname m) in
    let '(o1, last1) := if matches (k_display k) v then show_message on ci d cname (k_last_shown k) m
                        else ([], k_last_shown k) in
    let stop := matches (k_stop k) v in
    let o2 := if stop then [OOut (Txt (color on alert_color (s2l "    Stopped at ")) :: show_msg_body on d m)] else [] in
    (mkCtrl (k_display k) (k_stop k) (k_current k) all' last1, o1 ++ o2, stop)
  else (mkCtrl (k_display k) (k_stop k) (k_current k) all' (k_last_shown k), [], false).

(* ---- ConnectionImpl.message ------------------------------------------------------------------ *)
(* text after the last '.' : app_id.rsplit('.', 1)[-1] *)
Definition after_last_dot (s : str) : str := rev (take_while (fun c => negb (N.eqb c 46)) (rev s)).

Definition title_update (c : connst) (m : rmsg) : connst :=
  let set (t : option str) (a : option str) :=
    mkConn (c_id c) (c_name c) (c_server c) (c_open c) t a (c_db c) (c_msgs c) in
  let arg_str (n : nat) : option str :=
    match nth_error (m_args m) n with
    | Some a => match a_val a with RStr s => Some s | _ => None end
    | None => None
    end in
  if str_eqb (m_name m) (s2l "set_app_id") then
    match arg_str 0%nat with
    | Some ((_ :: _) as app) =>
        match after_last_dot app with
        | [] => set (c_title c) (Some app)
        | t => set (Some t) (Some app)
        end
    | _ => c
    end
  else if str_eqb (m_name m) (s2l "set_title") &&
          match c_title c with Some (_ :: _) => false | _ => true end then
    match arg_str 0%nat with Some ((_ :: _) as t) => set (Some t) (c_app_id c) | _ => c end
  else if str_eqb (m_name m) (s2l "get_layer_surface") then
    match arg_str 4%nat with Some ((_ :: _) as t) => set (Some t) (c_app_id c) | _ => c end
  else c.

Section WithProtocol.
Variable P : pdb.

(* ConnectionManager.message -> ConnectionImpl.message; returns the exception that escaped *)
Definition conn_message (s : sess) (id : str) (rel : Z) (m : pmsg)
  : sess * list oline * option (exn * str) * bool :=
  match find_open s id with
  | None => (s, [], Some (AssertionError, []), false)
  | Some i =>
      match nth_error (s_conns s) i with
      | None => (s, [], Some (AssertionError, []), false)
      | Some c =>
          let '(d', rm, err) := resolve_msg P (c_db c) rel m in
          let c1 := mkConn (c_id c) (c_name c) (c_server c) (c_open c) (c_title c) (c_app_id c)
                           d' (c_msgs c ++ [rm]) in
          match err with
          | Some e => (set_conns s (update_nth i (fun _ => c1) (s_conns s)), [], Some e, false)
          | None =>
              let '(k', outs, stop) := ctrl_on_message (s_color s) (s_ctrl s) i d' (c_name c) rm in
              let c2 := title_update c1 rm in
              let s1 := set_ctrl (set_conns s (update_nth i (fun _ => c2) (s_conns s))) k' in
              (if stop then set_pause s1 true (s_quit s1) else s1, outs, None, stop)
          end
      end
  end.

Definition is_get_registry (m : pmsg) : option bool :=
  if str_eqb (p_name m) (s2l "get_registry") then Some (negb (p_sent m)) else None.

(* Message.__init__: the first message constructed fixes base_time *)
Definition rel_time (base : option Z) (t : Z) : option Z * Z :=
  match base with
  | Some b => (base, t - b)
  | None => (Some t, 0)
  end.

Definition unprocessed_line (s : sess) (text : str) : list oline :=
  if s_unprocessed s
  then [OOut (txt (color (s_color s) symbol_color (s2l "       |  " ++ text)))]
  else [].

Definition error_line (on : bool) (l : line) : oline := OErr (Txt (color on bad_color (s2l "Error: ")) :: l).
Definition warn_line (on : bool) (l : line) : oline := OErr (Txt (color on alert_color (s2l "Warning: ")) :: l).

(* Parser: one decoded line *)
Definition log_message (s0 : sess) (id : str) (rel : Z) (m : pmsg) : sess * list oline :=
  if negb (s_parse s0) then (s0, []) else
  let s1 := mkSess (s_conns s0) (s_next s0) (s_ctrl s0) (s_known s0) rel (s_parse s0) (s_paused s0) (s_quit s0) (s_gdb s0) (s_color s0) (s_unprocessed s0) (s_in_gdb s0) in
  let '(s2, o1) :=
    if existsb (str_eqb id) (s_known s1) then (s1, [])
    else
      let '(sa, oa) := open_conn s1 id (is_get_registry m) in
      (mkSess (s_conns sa) (s_next sa) (s_ctrl sa) (s_known sa ++ [id]) (s_last_time sa) (s_parse sa) (s_paused sa) (s_quit sa) (s_gdb sa) (s_color sa) (s_unprocessed sa) (s_in_gdb sa), oa) in
  let '(s3, o2, err, _) := conn_message s2 id rel m in
  match err with
  | None => (s3, o1 ++ o2)
  | Some (RuntimeError, msg) => (s3, o1 ++ o2 ++ unprocessed_line s3 msg)
  | Some (_, _) =>
      (mkSess (s_conns s3) (s_next s3) (s_ctrl s3) (s_known s3) (s_last_time s3) false (s_paused s3) (s_quit s3) (s_gdb s3) (s_color s3) (s_unprocessed s3) (s_in_gdb s3),
       o1 ++ o2 ++ [OOut [AnyText]; error_line (s_color s3) [AnyText]])
  end.

(* Parser.cleanup: close every known connection (set iteration order: compared as a multiset) *)
Definition log_eof (s : sess) : sess * list oline :=
  fold_left (fun acc id => let '(s1, o1) := close_conn (fst acc) id in (s1, snd acc ++ o1))
            (s_known s) (s, []).

(* ---- commands ------------------------------------------------------------------------------ *)
Definition command_names : list str :=
  [s2l "help"; s2l "list"; s2l "filter"; s2l "breakpoint"; s2l "matcher"; s2l "connection";
   s2l "resume"; s2l "quit"].

Definition command_format (s : sess) (cmd : str) : str :=
  if s_in_gdb s then s2l "(gdb) " ++ color (s_color s) alert_color (s2l "wl" ++ cmd)
  else s2l "$ " ++ color (s_color s) alert_color cmd.

(* _get_command: unique prefix *)
Definition get_command' (on : bool) (c : str) : option str * list oline :=
  match filter (starts_with c) command_names with
  | [x] => (Some x, [])
  | [] => (None, [error_line on (txt (s2l "Unknown command '" ++ c ++ [39%N]))])
  | found => (None, [error_line on
                       (txt (39%N :: c ++ s2l "' could refer to multiple commands: " ++ comma_join found))])
  end.

(* parse_and_join *)
Definition parse_and_join (s : sess) (text : str) (old : option mt) : res (mt * list oline) :=
  match parse text with
  | Ok p => Ok (match old with Some o => simplify (join p o) | None => simplify p end, [])
  | Raise RuntimeError _ =>
      Ok (match old with Some o => o | None => MAlways false end,
          [error_line (s_color s) [Txt (s2l "Failed to parse """ ++ text ++ [34; 58; 10; 32; 32; 32; 32]%N); AnyText]])
  | Raise e m => Raise e m
  end.

Definition conn_messages_of (s : sess) (sel : option nat) : list (nat * rmsg) :=
  match sel with
  | None => k_all (s_ctrl s)
  | Some i => match nth_error (s_conns s) i with
              | Some c => map (fun m => (i, m)) (c_msgs c)
              | None => []
              end
  end.

Definition msg_view (s : sess) (p : nat * rmsg) : val :=
  match nth_error (s_conns s) (fst p) with
  | Some c => VM (view_msg (c_db c) (c_name c) (snd p))
  | None => VM (view_msg [] [] (snd p))
  end.

(* _get_matching: scan newest to oldest, stop at cap; returns (matching oldest first, didnt, not_searched) *)
Fixpoint scan_matching (s : sess) (m : mt) (cap : option nat) (rev_msgs : list (nat * rmsg))
         (acc : list (nat * rmsg)) (didnt : nat) : list (nat * rmsg) * nat * nat :=
  match rev_msgs with
  | [] => (acc, didnt, O)
  | x :: rest =>
      if matches m (msg_view s x) then
        let acc' := x :: acc in
        match cap with
        | Some c => if Nat.leb c (List.length acc') then (acc', didnt, List.length rest)
                    else scan_matching s m cap rest acc' didnt
        | None => scan_matching s m cap rest acc' didnt
        end
      else scan_matching s m cap rest acc (S didnt)
  end.

Definition count_color (on : bool) (good : bool) (n : nat) : str :=
  color on (if Nat.ltb 0 n then (if good then good_color else bad_color) else symbol_color)
        (z_to_dec (Z.of_nat n)).

(* show_messages(self.current_connection, matcher, cap) *)
Definition show_messages (s : sess) (m : mt) (cap : option Z) : sess * list oline :=
  let on := s_color s in
  let k := s_ctrl s in
  let header := OOut (txt (s2l "Messages that match " ++ mshow on m ++ [58%N])) in
  let capn := match cap with
              | None => None
              | Some 0 => None
              | Some c => Some (if c <? 0 then 1%nat else Z.to_nat c)
              end in
  let msgs := conn_messages_of s (k_current k) in
  let '(matching, didnt, notsearched) := scan_matching s m capn (rev msgs) [] O in
  match matching with
  | [] =>
      (s, [header;
           match s_conns s with
           | [] => OOut (txt ([32; 9584; 9588]%N ++ s2l " No messages yet"))
           | _ => OOut (txt ([32; 9584; 9588]%N ++ s2l " None of the " ++ color on bad_color (z_to_dec (Z.of_nat didnt))
                              ++ s2l " messages so far"))
           end])
  | _ =>
      let '(outs, _) :=
        fold_left (fun (acc : list oline * option Z) (p : nat * rmsg) =>
                     match nth_error (s_conns s) (fst p) with
                     | Some c =>
                         let '(o, l) := show_message on (fst p) (c_db c) (c_name c) (snd acc) (snd p) in
                         (fst acc ++ o, l)
                     | None => acc
                     end) matching ([], None) in
      let matched := List.length matching in
      let counts := OOut (txt ([40%N] ++ count_color on true matched ++ s2l " matched, "
                               ++ count_color on false didnt ++ s2l " didn't"
                               ++ (if Nat.eqb notsearched 0 then []
                                   else s2l ", " ++ color on symbol_color (z_to_dec (Z.of_nat notsearched)) ++ s2l " not checked")
                               ++ [41%N])) in
      (set_ctrl s (mkCtrl (k_display k) (k_stop k) (k_current k) (k_all k) None),
       [header] ++ outs ++ [counts])
  end.

(* str(connection) *)
Definition show_conn (on : bool) (c : connst) : str :=
  color on white_color (c_name c) ++ s2l " ("
  ++ match c_server c with
     | Some true => s2l "server"
     | Some false => s2l "client"
     | None => color on (Some (s2l "1;31")) (s2l "unknown type")
     end
  ++ match c_title c with
     | Some ((_ :: _) as t) => (match c_server c with Some true => s2l " to" | _ => [] end) ++ [32%N] ++ t
     | _ => []
     end
  ++ (if c_open c then [] else s2l ", " ++ color on (Some (s2l "1;31")) (s2l "closed"))
  ++ [41%N].

Fixpoint find_conn_by (f : connst -> bool) (i : nat) (cs : list connst) : option nat :=
  match cs with
  | [] => None
  | c :: cs' => if f c then Some i else find_conn_by f (S i) cs'
  end.

Definition list_connections (s : sess) : list oline :=
  let on := s_color s in
  let fix go (i : nat) (cs : list connst) : list oline :=
    match cs with
    | [] => []
    | c :: cs' =>
        let cur := match k_current (s_ctrl s) with Some j => Nat.eqb i j | None => false end in
        OOut (txt (color on (if cur then alert_color else symbol_color)
                         ((if cur then s2l " => " else s2l "    ") ++ show_conn on c ++ s2l ": ")
                   ++ (if c_open c then color on good_color (s2l "open") else color on bad_color (s2l "closed"))
                   ++ s2l ", " ++ color on int_color (z_to_dec (Z.of_nat (List.length (c_msgs c)))) ++ s2l " messages"))
        :: go (S i) cs'
    end in
  go O (s_conns s).

(* int(text) for the cap *)
Definition split_tilde (arg : str) : list str := split_char 126%N arg.

Definition cmd_help (s : sess) (arg : str) : sess * list oline :=
  (* help text is not modelled beyond the errors _get_command may print *)
  match arg with
  | [] => (s, [OAnyLines])
  | _ =>
      let a := if starts_with (s2l "wl") arg then strip (skipn 2 arg) else arg in
      if str_eqb a (s2l "matcher") then (s, [OAnyLines])
      else let '(_, errs) := get_command' (s_color s) a in (s, errs ++ [OAnyLines])
  end.

Definition cmd_list (s : sess) (arg : str) : sess * list oline :=
  let on := s_color s in
  let k := s_ctrl s in
  let parts := split_tilde arg in
  let cap : res (option Z) :=
    match parts with
    | [_; c] => match py_int c with
                | Ok z => Ok (Some z)
                | Raise ValueError _ => Raise ValueError c
                | Raise e m => Raise e m
                end
    | _ => Ok None
    end in
  match cap with
  | Raise ValueError c =>
      (s, [error_line on (txt (s2l "Expected number after '~', got '" ++ c ++ [39%N]))])
  | Raise _ _ => (s, [OOM])
  | Ok cap' =>
      let a := match parts with x :: _ => x | [] => [] end in
      match a with
      | [] => show_messages s (k_display k) cap'
      | _ =>
          match parse_and_join s a None with
          | Ok (m, errs) => let '(s1, o) := show_messages s m cap' in (s1, errs ++ o)
          | Raise _ _ => (s, [OOM])
          end
      end
  end.

Definition cmd_filter (s : sess) (arg : str) : sess * list oline :=
  let on := s_color s in
  let k := s_ctrl s in
  match arg with
  | [] => (s, [OOut (txt (s2l "Output filter: " ++ mshow on (k_display k)))])
  | _ =>
      match parse_and_join s arg (Some (k_display k)) with
      | Ok (m, errs) =>
          (set_ctrl s (mkCtrl m (k_stop k) (k_current k) (k_all k) (k_last_shown k)),
           errs ++ [OOut (txt (s2l "Only showing messages that match " ++ mshow on m))])
      | Raise _ _ => (s, [OOM])
      end
  end.

Definition cmd_break (s : sess) (arg : str) : sess * list oline :=
  let on := s_color s in
  let k := s_ctrl s in
  match arg with
  | [] => (s, [OOut (txt (s2l "Breakpoint matcher: " ++ mshow on (k_stop k)))])
  | _ =>
      match parse_and_join s arg (Some (k_stop k)) with
      | Ok (m, errs) =>
          (set_ctrl s (mkCtrl (k_display k) m (k_current k) (k_all k) (k_last_shown k)),
           errs ++ [OOut (txt (s2l "Breaking on messages that match: " ++ mshow on m))])
      | Raise _ _ => (s, [OOM])
      end
  end.

Definition cmd_matcher (s : sess) (arg : str) : sess * list oline :=
  let on := s_color s in
  match arg with
  | [] => (s, [OOut (txt (s2l "No matcher to parse"))])
  | _ =>
      let fail := error_line on [Txt (s2l "Failed to parse """ ++ arg ++ [34; 58; 10; 32; 32; 32; 32]%N); AnyText] in
      match parse arg with
      | Raise RuntimeError _ => (s, [fail])
      | Raise _ _ => (s, [OOM])
      | Ok p =>
          let un := mshow on p in
          let l1 := [OOut (txt (s2l "Unsimplified: " ++ un)); OOut (txt (s2l "  Simplified: " ++ mshow on (simplify p)))] in
          match parse un with
          | Ok p2 => (s, l1 ++ [OOut (txt (s2l "    Reparsed: " ++ mshow on (simplify p2)))])
          | Raise RuntimeError _ => (s, l1 ++ [fail])
          | Raise _ _ => (s, [OOM])
          end
      end
  end.

Definition cmd_connection (s : sess) (arg : str) : sess * list oline :=
  let on := s_color s in
  let k := s_ctrl s in
  match arg with
  | [] => (s, list_connections s)
  | _ =>
      if str_eqb arg (s2l "all") then
        (set_ctrl s (mkCtrl (k_display k) (k_stop k) None (k_all k) (k_last_shown k)),
         [OOut (txt (s2l "Showing messages from all connections"))])
      else if negb (all_ascii arg) then (s, [OOM])
      else
        let n := lower arg in
        let found :=
          match find_conn_by (fun c => str_eqb n (lower (c_name c))) O (s_conns s) with
          | Some i => Some i
          | None => find_conn_by (fun c => match c_app_id c with
                                           | Some a => all_ascii a && str_eqb n (lower a)
                                           | None => false end) O (s_conns s)
          end in
        match found with
        | Some i =>
            match nth_error (s_conns s) i with
            | Some c =>
                (set_ctrl s (mkCtrl (k_display k) (k_stop k) (Some i) (k_all k) (k_last_shown k)),
                 [OOut (txt (s2l "Switched to connection " ++ color on white_color (c_name c)))])
            | None => (s, [])
            end
        | None =>
            (s, error_line on (txt ([34%N] ++ arg ++ s2l """ does not name a connection")) :: list_connections s)
        end
  end.

Definition run_command (s : sess) (name arg : str) : sess * list oline :=
  if str_eqb name (s2l "help") then cmd_help s arg
  else if str_eqb name (s2l "list") then cmd_list s arg
  else if str_eqb name (s2l "filter") then cmd_filter s arg
  else if str_eqb name (s2l "breakpoint") then cmd_break s arg
  else if str_eqb name (s2l "matcher") then cmd_matcher s arg
  else if str_eqb name (s2l "connection") then cmd_connection s arg
  else if str_eqb name (s2l "resume") then (set_pause s false (s_quit s), [])
  else if str_eqb name (s2l "quit") then (set_pause s (s_paused s) true, [])
  else (s, []).

(* re.split(r'\s', line, maxsplit=1) *)
Definition split_first_space (l : str) : str * option str :=
  let a := take_while (fun c => negb (is_space c)) l in
  match drop_while (fun c => negb (is_space c)) l with
  | [] => (a, None)
  | _ :: r => (a, Some r)
  end.

(* Controller.process_command, first half: from the typed line to (command name, argument).
   Pure text processing; [on] only colours the error lines. *)
Fixpoint resolve_cmd (fuel : nat) (on : bool) (input : str) : list oline * option (str * str) :=
  match fuel with
  | O => ([OOM], None)
  | S f =>
      let l := strip input in
      let '(a0, a1) := split_first_space l in
      let first := strip (no_color a0) in
      let second := match a1 with Some r => strip (no_color r) | None => [] end in
      match first, second with
      | [], _ :: _ => resolve_cmd f on second   (* since the fix of D13: a first word made only of colour sequences is ignored *)
      | _, _ =>
          let '(first1, pre) :=
            match first with
            | [] => (s2l "help", [error_line on (txt (s2l "No command specified"))])
            | _ => (first, [])
            end in
          if str_eqb first1 [119%N] || str_eqb first1 (s2l "wl") then
            let '(o, r) := resolve_cmd f on second in (pre ++ o, r)
          else
            let first2 := if starts_with (s2l "wl") first1 then skipn 2 first1 else first1 in
            let '(cmd, errs) := get_command' on first2 in
            match cmd with
            | Some name => (pre ++ errs, Some (name, second))
            | None => (pre ++ errs, None)
            end
      end
  end.

(* second half: run the command *)
Definition process_command (fuel : nat) (s : sess) (input : str) : sess * list oline :=
  let '(pre, r) := resolve_cmd fuel (s_color s) input in
  match r with
  | Some (name, arg) => let '(s1, o) := run_command s name arg in (s1, pre ++ o)
  | None => (s, pre)
  end.

Definition command_fuel : nat := 200.

(* ---- gdb plugin ------------------------------------------------------------------------------ *)
Fixpoint gdb_get (l : list (str * Z)) (id : str) : option Z :=
  match l with
  | [] => None
  | (k, t) :: l' => if str_eqb k id then Some t else gdb_get l' id
  end.
Definition gdb_del (l : list (str * Z)) (id : str) : list (str * Z) :=
  filter (fun p => negb (str_eqb (fst p) id)) l.
Definition set_gdb (s : sess) (g : list (str * Z)) : sess :=
  mkSess (s_conns s) (s_next s) (s_ctrl s) (s_known s) (s_last_time s) (s_parse s) (s_paused s) (s_quit s) g (s_color s) (s_unprocessed s) (s_in_gdb s).

(* WlClosureCallBreakpoint.stop(): Plugin.process_message then return paused() *)
Definition gdb_message (s0 : sess) (id : str) (thread : Z) (rel : Z) (m : pmsg) : sess * list oline :=
  let s1 := set_pause s0 false (s_quit s0) in
  let '(s2, o1) :=
    match gdb_get (s_gdb s1) id with
    | Some _ => (s1, [])
    | None => let '(sa, oa) := open_conn s1 id (is_get_registry m) in
              (set_gdb sa (s_gdb sa ++ [(id, thread)]), oa)
    end in
  let warn :=
    match gdb_get (s_gdb s2) id, find_open s2 id with
    | Some t, Some i =>
        match nth_error (s_conns s2) i with
        | Some c => match c_server c with
                    | Some false => []
                    | _ => if t =? thread then [] else [warn_line (s_color s2) [AnyText]]
                    end
        | None => []
        end
    | _, _ => []
    end in
  let '(s3, o2, err, _) := conn_message s2 id rel m in
  match err with
  | None => (s3, o1 ++ warn ++ o2 ++ [OStop (s_paused s3)])
  | Some (e, _) => (s3, o1 ++ warn ++ o2 ++ [ORaise e])
  end.

(* WlConnectionDestroyBreakpoint.stop() *)
Definition gdb_destroy (s : sess) (id : str) : sess * list oline :=
  let '(s1, o) := close_conn (set_gdb s (gdb_del (s_gdb s) id)) id in
  (s1, o ++ [OStop false]).

(* Plugin.invoke_command *)
Definition gdb_command (s : sess) (cmd : str) : sess * list oline :=
  let s0 := set_pause s true (s_quit s) in
  let '(s1, o) := process_command command_fuel s0 cmd in
  (s1, o ++ (if s_quit s1 then [OExec (s2l "quit")]
             else if negb (s_paused s1) then [OExec (s2l "continue")] else [])).

(* ---- events ---------------------------------------------------------------------------------- *)
Inductive event :=
| EMsg (conn_id : str) (m : pmsg)
| EText (s : str)
| ECmd (s : str)
| EEof
| EGdbMsg (conn_id : str) (thread : Z) (m : pmsg)
| EGdbDestroy (conn_id : str)
| EGdbCmd (s : str)
(* the connection-id interface (ConnectionIDSink) driven directly *)
| EOpen (conn_id : str) (is_server : option bool)
| EClose (conn_id : str)
| ESinkMsg (conn_id : str) (m : pmsg).

(* the whole tool state: Message.base_time (absolute) + everything else (relative times only) *)
Record top := mkTop { t_base : option Z; t_sess : sess }.

Definition step (T : top) (e : event) : top * list oline :=
  let s := t_sess T in
  let keep (r : sess * list oline) := (mkTop (t_base T) (fst r), snd r) in
  match e with
  | EMsg id m =>
      let '(b, rel) := rel_time (t_base T) (p_time m) in
      let '(s1, o) := log_message s id rel m in (mkTop b s1, o)
  | EText t => keep (s, unprocessed_line s t)
  | ECmd c => keep (process_command command_fuel s c)
  | EEof => keep (log_eof s)
  | EGdbMsg id t m =>
      let '(b, rel) := rel_time (t_base T) (p_time m) in
      let '(s1, o) := gdb_message s id t rel m in (mkTop b s1, o)
  | EGdbDestroy id => keep (gdb_destroy s id)
  | EGdbCmd c => keep (gdb_command s c)
  | EOpen id sv =>
      match id with
      | [] => (T, [ORaise AssertionError])
      | _ => keep (open_conn s id sv)
      end
  | EClose id => keep (close_conn s id)
  | ESinkMsg id m =>
      let '(b, rel) := rel_time (t_base T) (p_time m) in
      let '(s1, o, err, _) := conn_message s id rel m in
      (mkTop b s1, o ++ match err with Some (e, _) => [ORaise e] | None => [] end)
  end.

Fixpoint run (T : top) (es : list event) : top * list (list oline) :=
  match es with
  | [] => (T, [])
  | e :: es' =>
      let '(T1, o) := step T e in
      let '(T2, os) := run T1 es' in
      (T2, o :: os)
  end.

End WithProtocol.

(* ---- TerminalUI.run_until_stopped (file and run mode) ---------------------------------------------- *)
(* inputs = the lines the user types; returns state, output, number of prompts issued, and whether
   input ran out while still prompting (input() raises EOFError) *)
Fixpoint ui_loop (s : sess) (inputs : list str) : sess * list oline * nat * bool :=
  if s_paused s && negb (s_quit s) then
    match inputs with
    | [] => (s, [], 1%nat, true)
    | c :: rest =>
        let '(s1, o) := process_command command_fuel s c in
        let '(s2, o2, n, e) := ui_loop s1 rest in
        (s2, o ++ o2, S n, e)
    end
  else (s, [], O, false).
Definition run_until_stopped (s : sess) (inputs : list str) : sess * list oline * nat * bool :=
  ui_loop (set_pause s true (s_quit s)) inputs.
