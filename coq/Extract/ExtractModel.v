From WD Require Import Base Entry.
Require Extraction.
Require Import ExtrOcamlBasic.
Extraction "wdmodel.ml" run_entry db_or_empty z_to_dec z_of_dec.
