(* HistorySpecA.v — C02 / C03 lifted to WHOLE HISTORIES of one connection.

   A history-level specification that never looks at the object table: the history is read as a
   TRACE of creation / deletion events, and everything the table stores (generation numbers,
   the alive flag, the type of the latest incarnation) is recomputed by COUNTING over the trace:

     ncre tr id   = number of creation events of [id] in [tr]
     alive tr id  = the last event about [id] is a creation
     ltype tr id  = interface named by the last creation of [id]

   What counts as an event, and in which order (read off Conn.resolve_msg):
     0. wl_display@1 exists before the first message (trace [tr0]); nothing ever creates id <= 1.
     1. the TARGET is attributed first, against the events of all earlier messages only.
     2. if the target is the display (id 1, printed interface compatible with wl_display), the
        message is named delete_id and has a first argument [PInt v]: a DELETE event for v —
        before any argument is looked at, whether the line was sent or received, whether or not
        v is still alive (a second delete_id is again an event and is again annotated) — provided
        v has been created at least once; otherwise the whole message is abandoned (no event,
        every argument unresolved, RuntimeError; a non-integer first argument: AssertionError).
     3. the arguments, left to right.  A creation event is a new-id argument WITH an interface
        [PObj id (Some ty) true], where for wl_registry.bind (the target's recorded — not printed —
        interface is wl_registry, message name bind) the untyped new id in 4th position takes the
        string in 2nd position as its interface (a malformed bind abandons the message:
        AssertionError, no event).  An UNTYPED new id elsewhere is not a creation.
        The creation is ACCEPTED only if 1 < id and (id is not alive at that point, or id is in
        the server range >= 0xff000000, in which case the live incarnation dies implicitly).  A
        rejected creation is silently skipped (no exception): the new-id mention is then
        attributed like any other mention, i.e. to the still-live OLD incarnation.
        The argument itself is attributed after its own creation event.
     4. the walk over the arguments stops at the first argument whose protocol-database lookup
        (argument name / enum / interface: [lookups_ok]) raises; that argument and all later ones
        stay unresolved and create nothing; events of earlier arguments are kept.

   A mention (id, printed interface ty) at a point with trace tr is attributed to
        Resolved id (ncre tr id - 1)     if ncre tr id > 0 and ty is compatible with ltype tr id
        Unresolved id ty                 otherwise (never created, or interface mismatch).

   Theorems ([P] = any protocol database, [h] = ANY history, no well-formedness hypothesis):
     refines_all, attrib_refines   the recorded message k agrees with the specification on the
                                    target, every argument and the destroyed-annotation
     table_counts                   the table after h has exactly ncre (trace h) id incarnations
   (alive_interval, annotation_exact and the examples are in HistorySpecB.v) *)
From WD Require Import Base Wire Protocol Conn ConnProofs.
From Coq Require Import Lia ZifyBool ZifyNat ZifyN.
Open Scope Z_scope.

(* ---- traces ------------------------------------------------------------------------------ *)
Inductive ev :=
| ECre (id : Z) (ty : str)      (* an accepted creation of id with interface ty *)
| EDel (id : Z).                (* an effective wl_display.delete_id(id) *)

Definition is_cre (id : Z) (e : ev) : bool :=
  match e with ECre i _ => i =? id | EDel _ => false end.
Definition about (id : Z) (e : ev) : bool :=
  match e with ECre i _ => i =? id | EDel i => i =? id end.

Definition ncre (tr : list ev) (id : Z) : nat := List.length (filter (is_cre id) tr).
Definition alive (tr : list ev) (id : Z) : bool :=
  match find (about id) (rev tr) with Some (ECre _ _) => true | _ => false end.
Definition ltype (tr : list ev) (id : Z) : option str :=
  match find (is_cre id) (rev tr) with Some (ECre _ t) => Some t | _ => None end.

Definition tr0 : list ev := [ECre 1 (s2l "wl_display")].

Definition accepts (tr : list ev) (id : Z) : bool :=
  (1 <? id) && (negb (alive tr id) || owned_by_server id).

Definition type_ok (ty lt : option str) : bool :=
  match ty, lt with Some t, Some ot => str_match t ot | _, _ => true end.

(* the incarnation a mention of (id, ty) denotes after the events tr *)
Definition spec_ref (tr : list ev) (id : Z) (ty : option str) : oref :=
  if (ncre tr id =? 0)%nat then Unresolved id ty
  else if type_ok ty (ltype tr id) then Resolved id (N.of_nat (ncre tr id - 1))
  else Unresolved id ty.

Definition arg_oref (ra : rarg) : option oref :=
  match a_val ra with RObj r _ => Some r | _ => None end.

Record mspec := mkMspec {
  ms_events : list ev;               (* events of this message, in order *)
  ms_target : oref;                  (* attribution of the target *)
  ms_args : list (option oref);      (* attribution of each argument (None: not an object) *)
  ms_destroyed : option oref }.      (* the destroyed-annotation *)

Section Spec.
Variable P : pdb.

(* the interface the target is taken to have: the one recorded at its latest creation, or the
   printed one when the mention is unresolved *)
Definition spec_tty (tr : list ev) (m : pmsg) : option str :=
  match spec_ref tr (p_id m) (p_type m) with
  | Resolved id _ => ltype tr id
  | Unresolved _ ty => ty
  end.

Definition spec_eff_args (tr : list ev) (m : pmsg) : res (list parg) :=
  match spec_tty tr m with
  | Some t => if str_eqb t (s2l "wl_registry") && str_eqb (p_name m) (s2l "bind")
              then bind_typing (p_args m) else Ok (p_args m)
  | None => Ok (p_args m)
  end.

(* the protocol-database lookups made for one argument do not raise (table-free) *)
Definition lookups_ok (tty : option str) (mn : str) (idx : nat) (a : parg) : bool :=
  is_ok (base_name P tty mn idx) &&
  match a with
  | PInt v => is_ok (enum_labels P tty mn idx v)
  | PNull None => match tty with Some t => is_ok (look_up_interface P t mn idx) | None => true end
  | PArray (Some vs) => is_ok (mapM (fun v => do l <- enum_labels P tty mn idx v; Ok (v, l)) vs)
  | _ => true
  end.

Definition arg_events (tr : list ev) (a : parg) : list ev :=
  match a with
  | PObj id (Some t) true => if accepts tr id then [ECre id t] else []
  | _ => []
  end.
Definition arg_ref (tr : list ev) (a : parg) : option oref :=
  match a with PObj id ty _ => Some (spec_ref tr id ty) | _ => None end.
Definition unres_ref (a : parg) : option oref :=
  match a with PObj id ty _ => Some (Unresolved id ty) | _ => None end.

Fixpoint spec_args (tr : list ev) (tty : option str) (mn : str) (idx : nat) (args : list parg)
  : list ev * list (option oref) :=
  match args with
  | [] => ([], [])
  | a :: rest =>
      if lookups_ok tty mn idx a then
        let evs := arg_events tr a in
        let '(evs2, refs) := spec_args (tr ++ evs) tty mn (S idx) rest in
        (evs ++ evs2, arg_ref (tr ++ evs) a :: refs)
      else ([], map unres_ref args)
  end.

Definition on_display (tr : list ev) (m : pmsg) : bool :=
  match spec_ref tr (p_id m) (p_type m) with Resolved 1 0%N => true | _ => false end.

Definition spec_msg (tr : list ev) (m : pmsg) : mspec :=
  let target := spec_ref tr (p_id m) (p_type m) in
  let aborted := mkMspec [] target (map unres_ref (p_args m)) None in
  match spec_eff_args tr m with
  | Raise _ _ => aborted
  | Ok args =>
      if on_display tr m && (str_eqb (p_name m) (s2l "delete_id")
                             && negb (match args with [] => true | _ => false end)) then
        match args with
        | PInt v :: _ =>
            if (ncre tr v =? 0)%nat then aborted
            else
              let '(evs, refs) := spec_args (tr ++ [EDel v]) (spec_tty tr m) (p_name m) 0 args in
              mkMspec (EDel v :: evs) target refs (Some (Resolved v (N.of_nat (ncre tr v - 1))))
        | _ => aborted
        end
      else
        let '(evs, refs) := spec_args tr (spec_tty tr m) (p_name m) 0 args in
        mkMspec evs target refs None
  end.

(* the trace of a history; the specification of each of its messages *)
Fixpoint trace_from (tr : list ev) (h : list (Z * pmsg)) : list ev :=
  match h with
  | [] => tr
  | (_, m) :: h' => trace_from (tr ++ ms_events (spec_msg tr m)) h'
  end.
Definition trace (h : list (Z * pmsg)) : list ev := trace_from tr0 h.

Fixpoint spec_run (tr : list ev) (h : list (Z * pmsg)) : list mspec :=
  match h with
  | [] => []
  | (_, m) :: h' => let s := spec_msg tr m in s :: spec_run (tr ++ ms_events s) h'
  end.

(* ---- counting lemmas ---------------------------------------------------------------------- *)
Lemma ncre_snoc tr e id :
  ncre (tr ++ [e]) id = (ncre tr id + (if is_cre id e then 1 else 0))%nat.
Proof.
  unfold ncre. rewrite filter_app, app_length. cbn [filter].
  destruct (is_cre id e); reflexivity.
Qed.

Lemma alive_snoc tr e id :
  alive (tr ++ [e]) id =
  if about id e then match e with ECre _ _ => true | EDel _ => false end else alive tr id.
Proof.
  unfold alive. rewrite rev_app_distr. cbn [rev app find].
  destruct (about id e); [destruct e|]; reflexivity.
Qed.

Lemma ltype_snoc tr e id :
  ltype (tr ++ [e]) id =
  if is_cre id e then match e with ECre _ t => Some t | EDel _ => None end else ltype tr id.
Proof.
  unfold ltype. rewrite rev_app_distr. cbn [rev app find].
  destruct (is_cre id e); [destruct e|]; reflexivity.
Qed.

Lemma last_map_last {A} (f : A -> A) (l : list A) (dflt : A) :
  l <> [] -> last (map_last f l) dflt = f (last l dflt).
Proof.
  induction l as [|x l IH]; intros Hne; [contradiction|].
  destruct l as [|y l]; [reflexivity|].
  assert (Hne' : y :: l <> []) by discriminate. specialize (IH Hne').
  change (map_last f (x :: y :: l)) with (x :: map_last f (y :: l)).
  change (last (x :: y :: l) dflt) with (last (y :: l) dflt).
  destruct (map_last f (y :: l)) as [|z r] eqn:E.
  - apply (f_equal (@List.length A)) in E. rewrite map_last_length in E. discriminate.
  - change (last (x :: z :: r) dflt) with (last (z :: r) dflt). exact IH.
Qed.

(* ---- the simulation relation: what the table stores is what counting gives ---------------- *)
Definition Rel (tr : list ev) (d : db) : Prop :=
  Inv d /\
  forall id,
    match db_get d id with
    | None => ncre tr id = 0%nat /\ alive tr id = false
    | Some l => List.length l = ncre tr id /\
                o_alive (last l display_obj) = alive tr id /\
                o_type (last l display_obj) = ltype tr id
    end.

Lemma Rel_init : Rel tr0 db_init.
Proof.
  split; [apply Inv_init|]. intros id. unfold db_init. cbn [db_get].
  unfold ncre, alive, ltype, tr0. cbn [filter rev app find is_cre about].
  destruct (1 =? id); cbn; repeat split.
Qed.

Lemma sim_ref tr d id ty : Rel tr d -> resolve_ref d id ty = spec_ref tr id ty.
Proof.
  intros [HI HR]. specialize (HR id). unfold resolve_ref, retrieve_latest, spec_ref.
  destruct (db_get d id) as [l|] eqn:Eg.
  - destruct HR as (Hlen & Hal & Hty). destruct (HI _ _ Eg) as [Hne Hw].
    destruct (rev l) as [|o r] eqn:Er.
    { apply (f_equal (@rev obj)) in Er. rewrite rev_involutive in Er. contradiction. }
    destruct (rev_head_last l o r display_obj Er) as [Hlast _].
    pose proof (last_nth l display_obj Hne) as Hn. rewrite Hlast in Hn.
    destruct (Hw _ _ Hn) as (Hid & Hgen & _).
    rewrite Hlast in Hty.
    assert (Hpos : (ncre tr id =? 0)%nat = false).
    { rewrite <- Hlen. destruct l; [contradiction|reflexivity]. }
    rewrite Hpos, <- Hty, <- Hlen, <- Hgen, <- Hid. unfold type_ok.
    destruct ty as [t0|]; [destruct (o_type o) as [ot|]; [destruct (str_match t0 ot)|]|];
      rewrite ?Hid; reflexivity.
  - destruct HR as [Hz _]. rewrite Hz. reflexivity.
Qed.

Lemma sim_tty tr d m : Rel tr d ->
  ref_type d (resolve_ref d (p_id m) (p_type m)) = spec_tty tr m.
Proof.
  intros HR. unfold spec_tty. rewrite <- (sim_ref tr d _ _ HR).
  destruct (resolve_ref d (p_id m) (p_type m)) as [id g|id ty] eqn:E; [|reflexivity].
  destruct HR as [HI HR].
  destruct (resolve_ref_latest _ _ _ _ _ HI E) as (-> & l & Hg & _ & Hl).
  cbn [ref_type]. rewrite Hl. specialize (HR (p_id m)). rewrite Hg in HR. apply HR.
Qed.

Lemma sim_create tr d t id ty : Rel tr d ->
  match create_object d t id ty with
  | Ok d2 => accepts tr id = true /\ Rel (tr ++ [ECre id ty]) d2
  | Raise _ _ => accepts tr id = false
  end.
Proof.
  intros [HI HR]. destruct (create_object d t id ty) as [d2|e s] eqn:EC.
  - split.
    + unfold create_object in EC. specialize (HR id). unfold accepts.
      destruct (id <=? 1) eqn:E1; [discriminate|].
      assert (H1 : (1 <? id) = true) by lia. rewrite H1. cbn [andb].
      destruct (db_get d id) as [l|].
      * destruct HR as (_ & Hal & _). rewrite <- Hal.
        destruct (o_alive (last l display_obj)); [|reflexivity].
        destruct (str_eqb ty (s2l "wl_registry") && (id =? 2)); [discriminate|].
        destruct (owned_by_server id); [reflexivity|discriminate].
      * destruct HR as [_ Hal]. rewrite Hal. reflexivity.
    + split; [eapply create_object_inv; eassumption|].
      apply create_object_spec in EC. destruct EC as [_ (old & old' & Hold & Hnew & Hrel & Hoth)].
      intros id'. rewrite ncre_snoc, alive_snoc, ltype_snoc. cbn [is_cre about].
      destruct (Z.eq_dec id' id) as [->|Hne].
      * rewrite Hnew, Z.eqb_refl, app_length, last_last. cbn [o_alive o_type List.length].
        split; [|split; reflexivity].
        assert (Hl' : List.length old' = List.length old).
        { destruct Hrel as [->|[_ ->]]; [reflexivity|apply map_last_length]. }
        rewrite Hl'. specialize (HR id).
        destruct Hold as [[Hn ->]|Hs].
        -- rewrite Hn in HR. destruct HR as [Hz _]. rewrite Hz. reflexivity.
        -- rewrite Hs in HR. destruct HR as [Hlen _]. rewrite Hlen. reflexivity.
      * rewrite (Hoth _ Hne). assert (E : (id =? id') = false) by lia. rewrite E.
        rewrite Nat.add_0_r. apply HR.
  - unfold create_object in EC. specialize (HR id). unfold accepts.
    destruct (id <=? 1) eqn:E1.
    { assert (H1 : (1 <? id) = false) by lia. rewrite H1. reflexivity. }
    destruct (db_get d id) as [l|]; [|discriminate].
    destruct HR as (_ & Hal & _). rewrite <- Hal.
    destruct (o_alive (last l display_obj)); [|discriminate].
    destruct (str_eqb ty (s2l "wl_registry") && (id =? 2)) eqn:E2.
    + apply andb_true_iff in E2. destruct E2 as [_ E2].
      assert (id = 2) by lia. subst id. reflexivity.
    + destruct (owned_by_server id); [discriminate|].
      cbn [negb orb]. apply andb_false_r.
Qed.

Lemma sim_delete tr d t v l : Rel tr d -> db_get d v = Some l ->
  Rel (tr ++ [EDel v]) (db_set d v (map_last (kill t) l)).
Proof.
  intros [HI HR] Hg. split; [apply kill_last_inv; assumption|].
  intros id'. rewrite db_get_set, ncre_snoc, alive_snoc, ltype_snoc. cbn [is_cre about].
  rewrite Nat.add_0_r. destruct (v =? id') eqn:E.
  - assert (id' = v) by lia. subst id'. specialize (HR v). rewrite Hg in HR.
    destruct HR as (Hlen & _ & Hty). destruct (HI _ _ Hg) as [Hne _].
    rewrite map_last_length, (last_map_last _ _ _ Hne). cbn [kill o_alive o_type].
    repeat split; assumption.
  - apply HR.
Qed.

(* ---- arguments ------------------------------------------------------------------------------ *)
Lemma sim_arg tr d t tty mn idx a : Rel tr d ->
  match resolve_arg P d t tty mn idx a with
  | Ok (d1, ra) => lookups_ok tty mn idx a = true /\
                   Rel (tr ++ arg_events tr a) d1 /\
                   arg_oref ra = arg_ref (tr ++ arg_events tr a) a
  | Raise _ _ => lookups_ok tty mn idx a = false
  end.
Proof.
  intros HR. unfold resolve_arg, lookups_ok.
  destruct (base_name P tty mn idx) as [nm|e s]; cbn [bind is_ok andb]; [|reflexivity].
  destruct a as [v|x|s|ty|id ty is_new|v|[vs|]|s];
    try (split; [reflexivity|split; [cbn [arg_events]; rewrite app_nil_r; exact HR|reflexivity]]).
  - destruct (enum_labels P tty mn idx v); cbn [bind is_ok]; [|reflexivity].
    split; [reflexivity|split; [cbn [arg_events]; rewrite app_nil_r; exact HR|reflexivity]].
  - destruct ty; [split; [reflexivity|split; [cbn [arg_events]; rewrite app_nil_r; exact HR|reflexivity]]|].
    destruct tty; [|split; [reflexivity|split; [cbn [arg_events]; rewrite app_nil_r; exact HR|reflexivity]]].
    destruct (look_up_interface P s mn idx); cbn [bind is_ok]; [|reflexivity].
    split; [reflexivity|split; [cbn [arg_events]; rewrite app_nil_r; exact HR|reflexivity]].
  - split; [reflexivity|]. cbn [arg_oref a_val arg_ref].
    destruct is_new.
    + destruct ty as [ty|].
      * pose proof (sim_create tr d t id ty HR) as HC. cbn [arg_events].
        destruct (create_object d t id ty) as [d2|e s].
        -- destruct HC as [Ha HR2]. rewrite Ha. split; [exact HR2|].
           rewrite (sim_ref _ _ _ _ HR2). reflexivity.
        -- rewrite HC, app_nil_r. split; [exact HR|]. rewrite (sim_ref _ _ _ _ HR). reflexivity.
      * cbn [arg_events]. rewrite app_nil_r. split; [exact HR|].
        rewrite (sim_ref _ _ _ _ HR). reflexivity.
    + assert (E : arg_events tr (PObj id ty false) = []) by (destruct ty; reflexivity).
      rewrite E, app_nil_r. split; [exact HR|]. rewrite (sim_ref _ _ _ _ HR). reflexivity.
  - destruct (mapM _ vs); cbn [bind is_ok]; [|reflexivity].
    split; [reflexivity|split; [cbn [arg_events]; rewrite app_nil_r; exact HR|reflexivity]].
Qed.

Lemma unresolved_refs args : map arg_oref (map unresolved_arg args) = map unres_ref args.
Proof.
  rewrite map_map. apply map_ext. intros a.
  destruct a as [v|x|s|ty|id ty is_new|v|[vs|]|s]; reflexivity.
Qed.

Lemma sim_args args : forall tr d t tty mn idx d' ras err,
  Rel tr d -> resolve_args P d t tty mn idx args = (d', ras, err) ->
  Rel (tr ++ fst (spec_args tr tty mn idx args)) d' /\
  map arg_oref ras = snd (spec_args tr tty mn idx args).
Proof.
  induction args as [|a rest IH]; intros tr d t tty mn idx d' ras err HR H;
    cbn [resolve_args spec_args] in *.
  - injection H as <- <- _. cbn [fst snd map]. rewrite app_nil_r. split; [exact HR|reflexivity].
  - pose proof (sim_arg tr d t tty mn idx a HR) as HA.
    destruct (resolve_arg P d t tty mn idx a) as [[d1 ra]|e msg].
    + destruct HA as (Hok & HR1 & Href). rewrite Hok.
      destruct (resolve_args P d1 t tty mn (S idx) rest) as [[d2 ras2] err2] eqn:ER.
      injection H as <- <- _.
      destruct (IH _ _ _ _ _ _ _ _ _ HR1 ER) as [HR2 Hrefs].
      destruct (spec_args (tr ++ arg_events tr a) tty mn (S idx) rest) as [evs2 refs].
      cbn [fst snd map] in *. rewrite app_assoc. split; [exact HR2|]. rewrite Href, Hrefs. reflexivity.
    + rewrite HA. injection H as <- <- _. cbn [fst snd]. rewrite app_nil_r.
      split; [exact HR|]. apply (unresolved_refs (a :: rest)).
Qed.

(* ---- one message ------------------------------------------------------------------------------ *)
Theorem sim_msg tr d t m d' rm err :
  Rel tr d -> resolve_msg P d t m = (d', rm, err) ->
  Rel (tr ++ ms_events (spec_msg tr m)) d' /\
  m_obj rm = ms_target (spec_msg tr m) /\
  map arg_oref (m_args rm) = ms_args (spec_msg tr m) /\
  m_destroyed rm = ms_destroyed (spec_msg tr m).
Proof.
  intros HR H. unfold resolve_msg in H. unfold spec_msg, spec_eff_args, on_display.
  rewrite (sim_tty tr d m HR) in H. rewrite (sim_ref tr d _ _ HR) in H.
  set (target := spec_ref tr (p_id m) (p_type m)) in *.
  set (tty := spec_tty tr m) in *.
  assert (EB : (if match tty with Some t0 => str_eqb t0 (s2l "wl_registry") && str_eqb (p_name m) (s2l "bind") | None => false end
                then bind_typing (p_args m) else Ok (p_args m)) =
               match tty with
               | Some t0 => if str_eqb t0 (s2l "wl_registry") && str_eqb (p_name m) (s2l "bind")
                            then bind_typing (p_args m) else Ok (p_args m)
               | None => Ok (p_args m)
               end) by (destruct tty; reflexivity).
  rewrite EB in H. clear EB.
  destruct (match tty with
            | Some t0 => if str_eqb t0 (s2l "wl_registry") && str_eqb (p_name m) (s2l "bind")
                         then bind_typing (p_args m) else Ok (p_args m)
            | None => Ok (p_args m)
            end) as [args|e msg].
  2:{ injection H as <- <- _. cbn [ms_events ms_target ms_args ms_destroyed m_obj m_args m_destroyed].
      rewrite app_nil_r, unresolved_refs. split; [exact HR|repeat split]. }
  assert (ED : match target with
               | Resolved 1 0%N => str_eqb (p_name m) (s2l "delete_id") && negb match args with [] => true | _ => false end
               | _ => false
               end =
               match target with Resolved 1 0%N => true | _ => false end &&
               (str_eqb (p_name m) (s2l "delete_id") && negb match args with [] => true | _ => false end)).
  { destruct target as [i g|]; [|reflexivity].
    destruct i as [|[| |]|]; try reflexivity. destruct g; reflexivity. }
  rewrite ED in H. clear ED.
  destruct (match target with Resolved 1 0%N => true | _ => false end &&
            (str_eqb (p_name m) (s2l "delete_id") && negb match args with [] => true | _ => false end)) eqn:Edel.
  - destruct args as [|a0 rest].
    { rewrite !andb_false_r in Edel. discriminate. }
    destruct a0 as [v|x|s|ty|id ty is_new|v|vs|s];
      try (injection H as <- <- _; cbn [ms_events ms_target ms_args ms_destroyed m_obj m_args m_destroyed];
           rewrite app_nil_r, unresolved_refs; split; [exact HR|repeat split]).
    pose proof (sim_ref tr d v None HR) as Hv. unfold resolve_ref in Hv.
    destruct (retrieve_latest d v None) as [o|e s] eqn:ERl.
    + unfold spec_ref in Hv.
      destruct (ncre tr v =? 0)%nat eqn:Ez; [discriminate|].
      cbn [type_ok] in Hv.
      destruct (db_get d v) as [l|] eqn:Eg.
      2:{ unfold retrieve_latest in ERl. rewrite Eg in ERl. discriminate. }
      pose proof (sim_delete tr d t v l HR Eg) as HR1.
      destruct (resolve_args P (db_set d v (map_last (kill t) l)) t tty (p_name m) 0 (PInt v :: rest))
        as [[d2 rargs] err2] eqn:ER.
      injection H as <- <- _.
      destruct (sim_args _ _ _ _ _ _ _ _ _ _ HR1 ER) as [HR2 Hrefs].
      destruct (spec_args (tr ++ [EDel v]) tty (p_name m) 0 (PInt v :: rest)) as [evs refs].
      cbn [fst snd ms_events ms_target ms_args ms_destroyed m_obj m_args m_destroyed] in *.
      rewrite <- app_assoc in HR2. cbn [app] in HR2.
      split; [exact HR2|split; [reflexivity|split; [exact Hrefs|rewrite Hv; reflexivity]]].
    + unfold spec_ref in Hv.
      destruct (ncre tr v =? 0)%nat eqn:Ez.
      * injection H as <- <- _. cbn [ms_events ms_target ms_args ms_destroyed m_obj m_args m_destroyed].
        rewrite app_nil_r, unresolved_refs. split; [exact HR|repeat split].
      * cbn [type_ok] in Hv. discriminate.
  - destruct (resolve_args P d t tty (p_name m) 0 args) as [[d2 rargs] err2] eqn:ER.
    injection H as <- <- _.
    destruct (sim_args _ _ _ _ _ _ _ _ _ _ HR ER) as [HR2 Hrefs].
    destruct (spec_args tr tty (p_name m) 0 args) as [evs refs].
    cbn [fst snd ms_events ms_target ms_args ms_destroyed m_obj m_args m_destroyed] in *.
    split; [exact HR2|split; [reflexivity|split; [exact Hrefs|reflexivity]]].
Qed.

(* ---- whole histories ------------------------------------------------------------------------ *)
Definition view (rm : rmsg) : oref * list (option oref) * option oref :=
  (m_obj rm, map arg_oref (m_args rm), m_destroyed rm).
Definition sview (s : mspec) : oref * list (option oref) * option oref :=
  (ms_target s, ms_args s, ms_destroyed s).

Theorem sim_run h : forall tr d, Rel tr d ->
  Rel (trace_from tr h) (fst (conn_run P d h)) /\
  map view (snd (conn_run P d h)) = map sview (spec_run tr h).
Proof.
  induction h as [|[t m] h IH]; intros tr d HR; cbn [conn_run trace_from spec_run].
  - split; [exact HR|reflexivity].
  - destruct (resolve_msg P d t m) as [[d1 rm] err] eqn:ER.
    destruct (sim_msg _ _ _ _ _ _ _ HR ER) as (HR1 & Ht & Ha & Hd).
    destruct (IH _ _ HR1) as [HR2 Hv].
    destruct (conn_run P d1 h) as [d2 rms]. cbn [fst snd map] in *.
    split; [exact HR2|]. rewrite Hv. f_equal. unfold view, sview. rewrite Ht, Ha, Hd. reflexivity.
Qed.

(* EVERY message of EVERY history: target, arguments and annotation are attributed as specified *)
Theorem refines_all h :
  map view (snd (conn_run P db_init h)) = map sview (spec_run tr0 h).
Proof. apply sim_run. apply Rel_init. Qed.

Theorem reachable_rel h : Rel (trace h) (fst (conn_run P db_init h)).
Proof. apply sim_run. apply Rel_init. Qed.

(* the specification of message k only depends on the trace of the first k messages *)
Lemma spec_run_nth h : forall tr k t m, nth_error h k = Some (t, m) ->
  nth_error (spec_run tr h) k = Some (spec_msg (trace_from tr (firstn k h)) m).
Proof.
  induction h as [|[t0 m0] h IH]; intros tr k t m Hn.
  - destruct k; discriminate.
  - destruct k as [|k].
    + injection Hn as <- <-. reflexivity.
    + cbn [nth_error] in Hn. cbn [spec_run nth_error firstn trace_from]. apply IH with (t := t). exact Hn.
Qed.

Lemma trace_from_app h1 : forall tr h2, trace_from tr (h1 ++ h2) = trace_from (trace_from tr h1) h2.
Proof.
  induction h1 as [|[t m] h1 IH]; intros tr h2; [reflexivity|].
  cbn [app trace_from]. apply IH.
Qed.

Lemma trace_snoc h t m : trace (h ++ [(t, m)]) = trace h ++ ms_events (spec_msg (trace h) m).
Proof. unfold trace. rewrite trace_from_app. reflexivity. Qed.

(* C02, whole histories.  Message k of h, recorded as rm: with tr = the trace of the first k
   messages,
     - the target is attributed to incarnation (number of creations of its id in tr) - 1,
       provided there is one and the printed interface is compatible; else it is unresolved
     - every argument and the annotation are as the specification says (spec_msg) *)
Theorem attrib_refines h k t m rm :
  nth_error h k = Some (t, m) ->
  nth_error (snd (conn_run P db_init h)) k = Some rm ->
  let tr := trace (firstn k h) in
  m_obj rm = spec_ref tr (p_id m) (p_type m) /\
  map arg_oref (m_args rm) = ms_args (spec_msg tr m) /\
  m_destroyed rm = ms_destroyed (spec_msg tr m).
Proof.
  intros Hh Hr tr.
  pose proof (refines_all h) as HA.
  apply (f_equal (fun l => nth_error l k)) in HA.
  rewrite !nth_error_map, Hr, (spec_run_nth _ _ _ _ _ Hh) in HA. cbn [option_map] in HA.
  injection HA as H1 H2 H3. fold (trace (firstn k h)) in H1, H2, H3. fold tr in H1, H2, H3.
  split; [|split; assumption].
  rewrite H1. unfold spec_msg.
  destruct (spec_eff_args tr m) as [args|]; [|reflexivity].
  destruct (on_display tr m && _); [|destruct (spec_args tr _ _ _ _); reflexivity].
  destruct args as [|[v| | | | | | |] rest]; try reflexivity.
  destruct (ncre tr v =? 0)%nat; [reflexivity|].
  destruct (spec_args _ _ _ _ _); reflexivity.
Qed.

(* explicit reading of the target's attribution *)
Corollary attrib_target_created h k t m rm :
  nth_error h k = Some (t, m) ->
  nth_error (snd (conn_run P db_init h)) k = Some rm ->
  let tr := trace (firstn k h) in
  (ncre tr (p_id m) = 0%nat -> m_obj rm = Unresolved (p_id m) (p_type m)) /\
  ((0 < ncre tr (p_id m))%nat -> type_ok (p_type m) (ltype tr (p_id m)) = true ->
   m_obj rm = Resolved (p_id m) (N.of_nat (ncre tr (p_id m) - 1))) /\
  ((0 < ncre tr (p_id m))%nat -> type_ok (p_type m) (ltype tr (p_id m)) = false ->
   m_obj rm = Unresolved (p_id m) (p_type m)).
Proof.
  intros Hh Hr tr. destruct (attrib_refines h k t m rm Hh Hr) as [H _]. fold tr in H.
  rewrite H. unfold spec_ref. repeat split.
  - intros ->. reflexivity.
  - intros Hp Ht. rewrite Ht. destruct (ncre tr (p_id m)); [lia|reflexivity].
  - intros Hp Ht. rewrite Ht. destruct (ncre tr (p_id m)); reflexivity.
Qed.

(* the table has exactly as many incarnations of id as the trace has creations of id *)
Theorem table_counts h id :
  match db_get (fst (conn_run P db_init h)) id with
  | None => ncre (trace h) id = 0%nat
  | Some l => List.length l = ncre (trace h) id
  end.
Proof.
  destruct (reachable_rel h) as [_ HR]. specialize (HR id).
  destruct (db_get (fst (conn_run P db_init h)) id); apply HR.
Qed.

End Spec.

Print Assumptions refines_all.
Print Assumptions attrib_refines.
Print Assumptions table_counts.
