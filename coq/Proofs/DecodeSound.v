(* DecodeSound.v — C01, soundness direction of the log-line decoder.
   [decode_render] (DecodeRoundTrip.v) says that a rendered line is decoded to what it denotes.
   This file proves the converse shape statement: whenever [message raw] reports a message, the line
   really contains text of the documented shape

       pre "[" ws ip mark fp ws "]" [" {" queue "}"] [" <" conn ">"] (" " | "  -> ")
           type sep id "." name "(" args ")"

   and every reported field is exactly the corresponding piece of that text.  As a corollary, a line
   containing no text of that shape is never reported as a message. *)
From WD Require Import Base Wire Decode DecodeBasics DecodeHeader DecodeProofs.
From Coq Require Import Lia.
Open Scope N_scope.

(* ---- generic scanner facts ------------------------------------------------------------------------ *)
Lemma take_drop_app {A} (p : A -> bool) l : take_while p l ++ drop_while p l = l.
Proof.
  induction l as [|x l IH]; [reflexivity|]. cbn [take_while drop_while].
  destruct (p x); [|reflexivity]. cbn [app]. rewrite IH. reflexivity.
Qed.

Lemma take_while_forall {A} (p : A -> bool) l : forallb p (take_while p l) = true.
Proof.
  induction l as [|x l IH]; [reflexivity|]. cbn [take_while].
  destruct (p x) eqn:Ex; [|reflexivity]. cbn [forallb]. rewrite Ex, IH. reflexivity.
Qed.

Lemma starts_with_split p : forall s, starts_with p s = true -> s = p ++ skipn (List.length p) s.
Proof.
  induction p as [|c p IH]; intros s Hs; [reflexivity|].
  destruct s as [|d s]; [discriminate|]. cbn [starts_with] in Hs.
  apply andb_true_iff in Hs. destruct Hs as [Hc Hp]. apply N.eqb_eq in Hc. subst d.
  cbn [List.length skipn app]. rewrite <- (IH s Hp). reflexivity.
Qed.

Lemma rev_cons_eq {A} (l : list A) x a : rev l = x :: a -> l = rev a ++ [x].
Proof. intros H. rewrite <- (rev_involutive l), H. reflexivity. Qed.

Lemma sep_cases c : N.eqb c 64 || N.eqb c 35 = true -> c = 64 \/ c = 35.
Proof. intros H. apply orb_true_iff in H. destruct H as [H|H]; apply N.eqb_eq in H; [left|right]; exact H. Qed.

Lemma mark_cases c : N.eqb c 46 || N.eqb c 44 = true -> c = 46 \/ c = 44.
Proof. intros H. apply orb_true_iff in H. destruct H as [H|H]; apply N.eqb_eq in H; [left|right]; exact H. Qed.

(* [H] is an equation [match c with <literal n> => _ | _ => None end = Some _]: conclude c = n *)
Ltac char_eq c n H :=
  let E := fresh "Ec" in
  assert (E : c = n) by
    (clear - H; destruct c as [|c]; [discriminate H|];
     repeat (first [reflexivity | discriminate H | destruct c as [c|c|]]));
  subst c.

(* ---- the pieces of a line and the text they spell ---------------------------------------------------- *)
(* chars: 91 '[' 93 ']' 32 ' ' 123 '{' 125 '}' 60 '<' 62 '>' 46 '.' 44 ',' 64 '@' 35 '#' 40 '(' 41 ')' *)
Record pieces := mkPieces {
  pc_pre : str;            (* anything before the match *)
  pc_ws1 : str; pc_ip : str; pc_mark : N; pc_fp : str; pc_ws2 : str;   (* "[" ws1 ip mark fp ws2 "]" *)
  pc_queue : option str;   (* " {" q "}" *)
  pc_conn : option str;    (* " <" c ">" *)
  pc_sent : bool;          (* "  -> " if true, " " if false *)
  pc_type : str; pc_sep : N; pc_id : str; pc_name : str; pc_args : str }.

Definition text_of (p : pieces) : str :=
  pc_pre p ++ [91] ++ pc_ws1 p ++ pc_ip p ++ [pc_mark p] ++ pc_fp p ++ pc_ws2 p ++ [93]
  ++ (match pc_queue p with Some q => [32;123] ++ q ++ [125] | None => [] end)
  ++ (match pc_conn p with Some c => [32;60] ++ c ++ [62] | None => [] end)
  ++ (if pc_sent p then s2l "  -> " else [32])
  ++ pc_type p ++ [pc_sep p] ++ pc_id p ++ [46] ++ pc_name p ++ [40] ++ pc_args p ++ [41].

Definition pieces_ok (p : pieces) : Prop :=
  forallb is_space (pc_ws1 p) = true /\ forallb is_space (pc_ws2 p) = true /\
  pc_ip p <> [] /\ forallb is_digit (pc_ip p) = true /\ pc_fp p <> [] /\ forallb is_digit (pc_fp p) = true /\
  (pc_mark p = 46 \/ pc_mark p = 44) /\
  (forall q, pc_queue p = Some q -> forallb (fun c => negb (N.eqb c 125)) q = true) /\
  (forall c, pc_conn p = Some c -> c <> [] /\ forallb is_word c = true) /\
  pc_type p <> [] /\ forallb is_word (pc_type p) = true /\ (pc_sep p = 64 \/ pc_sep p = 35) /\
  pc_id p <> [] /\ forallb is_digit (pc_id p) = true /\
  pc_name p <> [] /\ forallb is_word (pc_name p) = true.

(* ---- search: a hit is a match attempt that succeeds on some suffix ------------------------------------- *)
Lemma search_some out s : forall pos k h, search out s pos = Some (k, h) ->
  exists pre rest, s = pre ++ rest /\ match_at out rest = Some h.
Proof.
  induction s as [|c s IH]; intros pos k h H; cbn [search] in H.
  - destruct (match_at out []) as [h'|] eqn:Em; [|discriminate].
    injection H as _ <-. exists [], []. split; [reflexivity|exact Em].
  - destruct (match_at out (c :: s)) as [h'|] eqn:Em.
    + injection H as _ <-. exists [], (c :: s). split; [reflexivity|exact Em].
    + apply IH in H. destruct H as (pre & rest & E & M).
      exists (c :: pre), rest. split; [rewrite E; reflexivity|exact M].
Qed.

(* ---- the tail: marker type sep id "." name "(" args ")" --------------------------------------------------- *)
Lemma match_tail_shape out s ty id nm a : match_tail out s = Some (ty, id, nm, a) ->
  exists sep, s = marker out ++ ty ++ [sep] ++ id ++ [46] ++ nm ++ [40] ++ a ++ [41] /\
    ty <> [] /\ forallb is_word ty = true /\ (sep = 64 \/ sep = 35) /\
    id <> [] /\ forallb is_digit id = true /\ nm <> [] /\ forallb is_word nm = true.
Proof.
  intros H. unfold match_tail in H. cbv zeta in H.
  change (if out then s2l "  -> " else [32]) with (marker out) in H.
  destruct (starts_with (marker out) s) eqn:Es; [|discriminate H].
  apply starts_with_split in Es.
  remember (skipn (List.length (marker out)) s) as s1 eqn:Es1. clear Es1.
  unfold span in H.
  pose proof (take_drop_app is_word s1) as E1. pose proof (take_while_forall is_word s1) as F1.
  destruct (take_while is_word s1) as [|t0 ty'] eqn:Ety; [discriminate H|].
  destruct (drop_while is_word s1) as [|c r2] eqn:Er1; [discriminate H|].
  destruct (N.eqb c 64 || N.eqb c 35) eqn:Ec; [|discriminate H].
  pose proof (take_drop_app is_digit r2) as E2. pose proof (take_while_forall is_digit r2) as F2.
  destruct (take_while is_digit r2) as [|i0 id'] eqn:Eid; [discriminate H|].
  destruct (drop_while is_digit r2) as [|d r4] eqn:Er3; [discriminate H|].
  char_eq d 46 H. cbv beta iota in H.
  pose proof (take_drop_app is_word r4) as E3. pose proof (take_while_forall is_word r4) as F3.
  destruct (take_while is_word r4) as [|n0 nm'] eqn:Enm; [discriminate H|].
  destruct (drop_while is_word r4) as [|e r6] eqn:Er5; [discriminate H|].
  char_eq e 40 H. cbv beta iota in H.
  destruct (rev r6) as [|f a'] eqn:Er6; [discriminate H|].
  char_eq f 41 H. cbv beta iota in H.
  apply rev_cons_eq in Er6.
  injection H as <- <- <- <-.
  exists c. split.
  - rewrite Es, <- E1, <- E2, <- E3, Er6. rewrite <- ?app_assoc. reflexivity.
  - repeat split; try assumption; try discriminate. apply sep_cases; exact Ec.
Qed.

(* ---- the optional connection group ------------------------------------------------------------------------- *)
Definition conn_text (c : option str) : str :=
  match c with Some c => [32;60] ++ c ++ [62] | None => [] end.

Lemma match_conn_tail_shape out s conn t : match_conn_tail out s = Some (conn, t) ->
  exists rest, s = conn_text conn ++ rest /\ match_tail out rest = Some t /\
    (forall c, conn = Some c -> c <> [] /\ forallb is_word c = true).
Proof.
  intros H. unfold match_conn_tail in H. cbv zeta in H.
  assert (Fallback : match match_tail out s with Some t0 => Some (@None str, t0) | None => None end = Some (conn, t) ->
    exists rest, s = conn_text conn ++ rest /\ match_tail out rest = Some t /\
      (forall c, conn = Some c -> c <> [] /\ forallb is_word c = true)).
  { intros G. destruct (match_tail out s) as [t0|] eqn:Et; [|discriminate G].
    injection G as <- <-. exists s. split; [reflexivity|]. split; [exact Et|]. intros c Hc; discriminate Hc. }
  destruct (starts_with [32; 60] s) eqn:Es; [|exact (Fallback H)].
  apply starts_with_split in Es. cbn [List.length] in Es.
  remember (skipn 2 s) as s1 eqn:Es1. clear Es1.
  unfold span in H.
  pose proof (take_drop_app is_word s1) as E1. pose proof (take_while_forall is_word s1) as F1.
  destruct (take_while is_word s1) as [|w0 w'] eqn:Ew; [exact (Fallback H)|].
  destruct (drop_while is_word s1) as [|g r'] eqn:Er; [exact (Fallback H)|].
  destruct (N.eq_dec g 62) as [Eg|Ng].
  - subst g. cbv beta iota in H.
    destruct (match_tail out r') as [t0|] eqn:Et; [|exact (Fallback H)].
    injection H as <- <-. exists r'. split; [|split].
    + rewrite Es, <- E1. unfold conn_text. rewrite <- ?app_assoc. reflexivity.
    + exact Et.
    + intros c Hc. injection Hc as <-. split; [discriminate|exact F1].
  - apply Fallback. rewrite <- H. clear - Ng.
    destruct g as [|g]; [reflexivity|].
    repeat (first [reflexivity | congruence | destruct g as [g|g|]]).
Qed.

(* ---- the optional queue group ----------------------------------------------------------------------------- *)
Definition queue_text (q : option str) : str :=
  match q with Some q => [32;123] ++ q ++ [125] | None => [] end.

Lemma match_queue_conn_tail_shape out s r : match_queue_conn_tail out s = Some r ->
  exists q rest, s = queue_text q ++ rest /\ match_conn_tail out rest = Some r /\
    (forall q', q = Some q' -> forallb (fun c => negb (N.eqb c 125)) q' = true).
Proof.
  intros H. unfold match_queue_conn_tail in H. cbv zeta in H.
  assert (Fallback : match_conn_tail out s = Some r ->
    exists q rest, s = queue_text q ++ rest /\ match_conn_tail out rest = Some r /\
      (forall q', q = Some q' -> forallb (fun c => negb (N.eqb c 125)) q' = true)).
  { intros G. exists None, s. split; [reflexivity|]. split; [exact G|]. intros q' Hq; discriminate Hq. }
  destruct (starts_with [32; 123] s) eqn:Es; [|exact (Fallback H)].
  apply starts_with_split in Es. cbn [List.length] in Es.
  remember (skipn 2 s) as s1 eqn:Es1. clear Es1.
  pose proof (take_drop_app (fun c => negb (N.eqb c 125)) s1) as E1.
  pose proof (take_while_forall (fun c => negb (N.eqb c 125)) s1) as F1.
  destruct (drop_while (fun c => negb (N.eqb c 125)) s1) as [|g r'] eqn:Er; [exact (Fallback H)|].
  destruct (N.eq_dec g 125) as [Eg|Ng].
  - subst g. cbv beta iota in H.
    destruct (match_conn_tail out r') as [x|] eqn:Et; [|exact (Fallback H)].
    injection H as <-. exists (Some (take_while (fun c => negb (N.eqb c 125)) s1)), r'. split; [|split].
    + rewrite Es at 1. rewrite <- E1 at 1. unfold queue_text. rewrite <- ?app_assoc. reflexivity.
    + exact Et.
    + intros q' Hq. injection Hq as <-. exact F1.
  - apply Fallback. rewrite <- H. clear - Ng.
    destruct g as [|g]; [reflexivity|].
    repeat (first [reflexivity | congruence | destruct g as [g|g|]]).
Qed.

(* ---- the bracketed time stamp ------------------------------------------------------------------------------ *)
Lemma match_at_shape out s h : match_at out s = Some h ->
  exists ws1 mark ws2 rest,
    s = [91] ++ ws1 ++ h_ts_int h ++ [mark] ++ h_ts_frac h ++ ws2 ++ [93] ++ rest /\
    forallb is_space ws1 = true /\ forallb is_space ws2 = true /\
    h_ts_int h <> [] /\ forallb is_digit (h_ts_int h) = true /\
    h_ts_frac h <> [] /\ forallb is_digit (h_ts_frac h) = true /\
    (mark = 46 \/ mark = 44) /\
    match_queue_conn_tail out rest = Some (h_conn h, (h_type h, h_id h, h_name h, h_args h)).
Proof.
  intros H. unfold match_at in H.
  destruct s as [|b r0]; [discriminate H|].
  char_eq b 91 H. cbv beta iota zeta in H.
  pose proof (take_drop_app is_space r0) as E0. pose proof (take_while_forall is_space r0) as F0.
  remember (drop_while is_space r0) as r1 eqn:Er1. clear Er1.
  unfold span in H.
  pose proof (take_drop_app is_digit r1) as E1. pose proof (take_while_forall is_digit r1) as F1.
  destruct (take_while is_digit r1) as [|i0 ip'] eqn:Eip; [discriminate H|].
  destruct (drop_while is_digit r1) as [|c r3] eqn:Er2; [discriminate H|].
  destruct (N.eqb c 46 || N.eqb c 44) eqn:Ec; [|discriminate H].
  pose proof (take_drop_app is_digit r3) as E2. pose proof (take_while_forall is_digit r3) as F2.
  destruct (take_while is_digit r3) as [|f0 fp'] eqn:Efp; [discriminate H|].
  remember (drop_while is_digit r3) as r4 eqn:Er4. clear Er4.
  pose proof (take_drop_app is_space r4) as E3. pose proof (take_while_forall is_space r4) as F3.
  destruct (drop_while is_space r4) as [|d r5] eqn:Er5; [discriminate H|].
  char_eq d 93 H. cbv beta iota in H.
  destruct (match_queue_conn_tail out r5) as [[conn [[[ty id] nm] a]]|] eqn:Eq; [|discriminate H].
  injection H as <-. cbn [h_ts_int h_ts_frac h_conn h_type h_id h_name h_args].
  exists (take_while is_space r0), c, (take_while is_space r4), r5.
  split; [|repeat split; try assumption; try discriminate; apply mark_cases; exact Ec].
  rewrite <- E0 at 1. rewrite <- E1 at 1. rewrite <- E2 at 1. rewrite <- E3 at 1.
  rewrite <- ?app_assoc. reflexivity.
Qed.

(* ---- a successful match attempt, all groups together --------------------------------------------------------- *)
Lemma match_at_pieces out pre s h : match_at out s = Some h ->
  exists p, pre ++ s = text_of p /\ pieces_ok p /\ pc_pre p = pre /\
    pc_ip p = h_ts_int h /\ pc_fp p = h_ts_frac h /\ pc_conn p = h_conn h /\ pc_sent p = out /\
    pc_type p = h_type h /\ pc_id p = h_id h /\ pc_name p = h_name h /\ pc_args p = h_args h.
Proof.
  intros H. apply match_at_shape in H.
  destruct H as (ws1 & mark & ws2 & r5 & Es & Hw1 & Hw2 & Hip0 & Hip & Hfp0 & Hfp & Hmark & Hq).
  apply match_queue_conn_tail_shape in Hq. destruct Hq as (q & r6 & Er5 & Hc & Hqok).
  apply match_conn_tail_shape in Hc. destruct Hc as (r7 & Er6 & Ht & Hcok).
  apply match_tail_shape in Ht. destruct Ht as (sep & Er7 & Hty0 & Hty & Hsep & Hid0 & Hid & Hnm0 & Hnm).
  exists (mkPieces pre ws1 (h_ts_int h) mark (h_ts_frac h) ws2 q (h_conn h) out
                   (h_type h) sep (h_id h) (h_name h) (h_args h)).
  split; [|split].
  - unfold text_of. cbn [pc_pre pc_ws1 pc_ip pc_mark pc_fp pc_ws2 pc_queue pc_conn pc_sent pc_type pc_sep pc_id pc_name pc_args].
    rewrite Es, Er5, Er6, Er7. unfold queue_text, conn_text, marker.
    rewrite <- ?app_assoc. reflexivity.
  - unfold pieces_ok. cbn [pc_pre pc_ws1 pc_ip pc_mark pc_fp pc_ws2 pc_queue pc_conn pc_sent pc_type pc_sep pc_id pc_name pc_args].
    exact (conj Hw1 (conj Hw2 (conj Hip0 (conj Hip (conj Hfp0 (conj Hfp (conj Hmark (conj Hqok (conj Hcok
           (conj Hty0 (conj Hty (conj Hsep (conj Hid0 (conj Hid (conj Hnm0 Hnm))))))))))))))).
  - cbn [pc_pre pc_ws1 pc_ip pc_mark pc_fp pc_ws2 pc_queue pc_conn pc_sent pc_type pc_sep pc_id pc_name pc_args].
    repeat split; reflexivity.
Qed.

(* ---- message(), once the header is chosen ---------------------------------------------------------------------- *)
Definition body_of (raw : str) (sent : bool) (h : header) : res (str * pmsg) :=
  if negb (all_ascii (firstn (List.length raw - List.length (h_args h) - 1) raw)) then Raise OutOfModel [] else
  do t <- ts_micros (h_ts_int h) (h_ts_frac h);
  let id := Z.of_N (dec_value (h_id h)) in
  if (id =? 0)%Z then Raise AssertionError [] else
  do args <- mapM argument (split_args (h_args h));
  Ok (match h_conn h with Some c => c | None => s2l "PARSED" end,
      mkPmsg t (Some (h_type h)) id sent (h_name h) args).

Definition sound_for (raw cid : str) (pm : pmsg) : Prop :=
  exists p, raw = text_of p /\ pieces_ok p /\
    cid = (match pc_conn p with Some c => c | None => s2l "PARSED" end) /\
    p_sent pm = pc_sent p /\ p_type pm = Some (pc_type p) /\ p_id pm = Z.of_N (dec_value (pc_id p)) /\
    p_name pm = pc_name p /\ ts_micros (pc_ip p) (pc_fp p) = Ok (p_time pm) /\
    mapM argument (split_args (pc_args p)) = Ok (p_args pm) /\
    (p_id pm <> 0)%Z.

Lemma body_sound raw sent pos k h cid pm :
  search sent raw pos = Some (k, h) -> body_of raw sent h = Ok (cid, pm) -> sound_for raw cid pm.
Proof.
  intros Hs Hb. apply search_some in Hs. destruct Hs as (pre & rest & Eraw & Hm).
  apply (match_at_pieces sent pre) in Hm.
  destruct Hm as (p & Et & Hok & _ & Eip & Efp & Econn & Esent & Ety & Eid & Enm & Ea).
  unfold body_of in Hb.
  destruct (negb (all_ascii (firstn (List.length raw - List.length (h_args h) - 1) raw))); [discriminate Hb|].
  destruct (ts_micros (h_ts_int h) (h_ts_frac h)) as [t|e m] eqn:Ets; cbn [bind] in Hb; [|discriminate Hb].
  cbv zeta in Hb.
  destruct (Z.of_N (dec_value (h_id h)) =? 0)%Z eqn:Ez; [discriminate Hb|].
  destruct (mapM argument (split_args (h_args h))) as [args|e m] eqn:Em; cbn [bind] in Hb; [|discriminate Hb].
  injection Hb as <- <-.
  exists p. cbn [p_time p_type p_id p_sent p_name p_args].
  rewrite Eip, Efp, Econn, Esent, Ety, Eid, Enm, Ea.
  split; [rewrite Eraw; exact Et|]. split; [exact Hok|].
  repeat (split; [first [reflexivity | assumption]|]).
  apply Z.eqb_neq. exact Ez.
Qed.

(* ---- the soundness theorem ------------------------------------------------------------------------------------- *)
Theorem message_sound : forall raw cid pm, message raw = Ok (cid, pm) ->
  exists p, raw = text_of p /\ pieces_ok p /\
    cid = (match pc_conn p with Some c => c | None => s2l "PARSED" end) /\
    p_sent pm = pc_sent p /\ p_type pm = Some (pc_type p) /\ p_id pm = Z.of_N (dec_value (pc_id p)) /\
    p_name pm = pc_name p /\ ts_micros (pc_ip p) (pc_fp p) = Ok (p_time pm) /\
    mapM argument (split_args (pc_args p)) = Ok (p_args pm) /\
    (p_id pm <> 0)%Z.
Proof.
  intros raw cid pm H. change (sound_for raw cid pm).
  unfold message in H. cbv zeta in H.
  destruct (search true raw 0) as [[po ho]|] eqn:So; destruct (search false raw 0) as [[pi hi]|] eqn:Si.
  - destruct (Nat.leb po pi).
    + exact (body_sound _ _ _ _ _ _ _ So H).
    + exact (body_sound _ _ _ _ _ _ _ Si H).
  - exact (body_sound _ _ _ _ _ _ _ So H).
  - exact (body_sound _ _ _ _ _ _ _ Si H).
  - destruct (all_ascii raw); discriminate H.
Qed.

(* a line that contains no such message is never reported as one *)
Corollary no_shape_no_message : forall raw, (forall p, pieces_ok p -> raw <> text_of p) -> forall r, message raw <> Ok r.
Proof.
  intros raw Hno [cid pm] H. apply message_sound in H.
  destruct H as (p & Et & Hok & _). exact (Hno p Hok Et).
Qed.

(* ---- non-vacuity ------------------------------------------------------------------------------------------------- *)
Example message_reports_a_message :
  message (s2l "[1234.567] {Default Queue} <a> wl_surface#3.attach(wl_buffer#7, 0, 0)")
  = Ok (s2l "a", mkPmsg 1234567 (Some (s2l "wl_surface")) 3 false (s2l "attach")
                        [PObj 7 (Some (s2l "wl_buffer")) false; PInt 0; PInt 0]).
Proof. vm_compute. reflexivity. Qed.

Example message_rejects_other_text :
  message (s2l "[1234.567] hello world") = Raise RuntimeError (s2l "[1234.567] hello world").
Proof. vm_compute. reflexivity. Qed.

(* the hypothesis of [no_shape_no_message] is about [pieces_ok] pieces only: the accepted line above is such a text *)
Example accepted_line_has_the_shape :
  s2l "[1234.567] {Default Queue} <a> wl_surface#3.attach(wl_buffer#7, 0, 0)"
  = text_of (mkPieces [] [] (s2l "1234") 46 (s2l "567") [] (Some (s2l "Default Queue")) (Some (s2l "a")) false
                      (s2l "wl_surface") 35 (s2l "3") (s2l "attach") (s2l "wl_buffer#7, 0, 0")).
Proof. vm_compute. reflexivity. Qed.

Print Assumptions message_sound.
Print Assumptions no_shape_no_message.
