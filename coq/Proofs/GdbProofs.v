(* Proofs about pausing, resuming and the GDB plugin (C10, C15). *)
From WD Require Import Base Wire Protocol Conn Color LetterId Matcher MatcherParse Show Session.
From WD Require Import ProtocolProofs ControllerProofs SessionProofs ConnMgrProofs.
From Coq Require Import Lia.
Open Scope Z_scope.

Definition pause_of (s : sess) : bool * bool := (s_paused s, s_quit s).

Lemma show_messages_pause s m cap : pause_of (fst (show_messages s m cap)) = pause_of s.
Proof.
  unfold show_messages. destruct (scan_matching _ _ _ _ _ _) as [[matching d] ns]. destruct matching; [reflexivity|].
  destruct (fold_left _ _ _). reflexivity.
Qed.

Ltac crunchp :=
  repeat match goal with
         | |- context [show_messages ?a ?b ?c] =>
             let H := fresh in pose proof (show_messages_pause a b c) as H;
             destruct (show_messages a b c); cbn [fst] in H
         | |- context [if ?b then _ else _] => destruct b
         | |- context [match ?x with _ => _ end] => destruct x
         end; cbn [fst]; try reflexivity; try assumption.

Lemma cmd_help_pause s a : pause_of (fst (cmd_help s a)) = pause_of s.
Proof. unfold cmd_help. crunchp. Qed.
Lemma cmd_list_pause s a : pause_of (fst (cmd_list s a)) = pause_of s.
Proof. unfold cmd_list. crunchp. Qed.
Lemma cmd_filter_pause s a : pause_of (fst (cmd_filter s a)) = pause_of s.
Proof. unfold cmd_filter. crunchp. Qed.
Lemma cmd_break_pause s a : pause_of (fst (cmd_break s a)) = pause_of s.
Proof. unfold cmd_break. crunchp. Qed.
Lemma cmd_matcher_pause s a : pause_of (fst (cmd_matcher s a)) = pause_of s.
Proof. unfold cmd_matcher. crunchp. Qed.
Lemma cmd_connection_pause s a : pause_of (fst (cmd_connection s a)) = pause_of s.
Proof. unfold cmd_connection. crunchp. Qed.

(* `resume` clears the pause, `quit` sets quit, every other command leaves both as they were *)
Theorem run_command_pause s name arg :
  pause_of (fst (run_command s name arg)) =
  if str_eqb name (s2l "resume") then (false, s_quit s)
  else if str_eqb name (s2l "quit") then (s_paused s, true)
  else pause_of s.
Proof.
  destruct (str_eqb name (s2l "resume")) eqn:Er.
  { apply str_eqb_eq in Er. subst name. reflexivity. }
  destruct (str_eqb name (s2l "quit")) eqn:Eq.
  { apply str_eqb_eq in Eq. subst name. reflexivity. }
  unfold run_command. rewrite Er, Eq.
  destruct (str_eqb name (s2l "help")); [apply cmd_help_pause|].
  destruct (str_eqb name (s2l "list")); [apply cmd_list_pause|].
  destruct (str_eqb name (s2l "filter")); [apply cmd_filter_pause|].
  destruct (str_eqb name (s2l "breakpoint")); [apply cmd_break_pause|].
  destruct (str_eqb name (s2l "matcher")); [apply cmd_matcher_pause|].
  destruct (str_eqb name (s2l "connection")); [apply cmd_connection_pause|].
  reflexivity.
Qed.

(* which command a typed line resolves to (abbreviations, w / wl prefixes, colour stripped) *)
Definition resolves_to (on : bool) (input : str) : option str :=
  option_map fst (snd (resolve_cmd command_fuel on input)).
Definition ends_pause (on : bool) (input : str) : bool :=
  match resolves_to on input with
  | Some n => str_eqb n (s2l "resume") || str_eqb n (s2l "quit")
  | None => false
  end.

Theorem process_command_pause s input :
  pause_of (fst (process_command command_fuel s input)) =
  match resolves_to (s_color s) input with
  | Some n => if str_eqb n (s2l "resume") then (false, s_quit s)
              else if str_eqb n (s2l "quit") then (s_paused s, true) else pause_of s
  | None => pause_of s
  end.
Proof.
  unfold process_command, resolves_to.
  destruct (resolve_cmd command_fuel (s_color s) input) as [pre [[name arg]|]]; cbn [snd option_map fst]; [|reflexivity].
  pose proof (run_command_pause s name arg) as H. destruct (run_command s name arg). exact H.
Qed.

Lemma process_command_color s input : s_color (fst (process_command command_fuel s input)) = s_color s.
Proof.
  pose proof (process_command_record command_fuel s input) as H.
  (* colour is not part of record_of; prove it directly *)
  unfold process_command. destruct (resolve_cmd command_fuel (s_color s) input) as [pre [[name arg]|]]; [|reflexivity].
  assert (G : forall s n a, s_color (fst (run_command s n a)) = s_color s).
  { clear. intros s n a. unfold run_command.
    assert (SM : forall s m c, s_color (fst (show_messages s m c)) = s_color s).
    { intros. unfold show_messages. destruct (scan_matching _ _ _ _ _ _) as [[mm d] ns]. destruct mm; [reflexivity|]. destruct (fold_left _ _ _). reflexivity. }
    destruct (str_eqb n (s2l "help")).
    { unfold cmd_help. repeat match goal with |- context [if ?b then _ else _] => destruct b | |- context [match ?x with _ => _ end] => destruct x end; reflexivity. }
    destruct (str_eqb n (s2l "list")).
    { unfold cmd_list. repeat match goal with
        | |- context [show_messages ?a ?b ?c] => let H := fresh in pose proof (SM a b c) as H; destruct (show_messages a b c); cbn [fst] in H
        | |- context [if ?b then _ else _] => destruct b | |- context [match ?x with _ => _ end] => destruct x end; cbn [fst]; try reflexivity; assumption. }
    destruct (str_eqb n (s2l "filter")).
    { unfold cmd_filter. repeat match goal with |- context [if ?b then _ else _] => destruct b | |- context [match ?x with _ => _ end] => destruct x end; reflexivity. }
    destruct (str_eqb n (s2l "breakpoint")).
    { unfold cmd_break. repeat match goal with |- context [if ?b then _ else _] => destruct b | |- context [match ?x with _ => _ end] => destruct x end; reflexivity. }
    destruct (str_eqb n (s2l "matcher")).
    { unfold cmd_matcher. repeat match goal with |- context [if ?b then _ else _] => destruct b | |- context [match ?x with _ => _ end] => destruct x end; reflexivity. }
    destruct (str_eqb n (s2l "connection")).
    { unfold cmd_connection. repeat match goal with |- context [if ?b then _ else _] => destruct b | |- context [match ?x with _ => _ end] => destruct x end; reflexivity. }
    destruct (str_eqb n (s2l "resume")); [reflexivity|]. destruct (str_eqb n (s2l "quit")); reflexivity. }
  specialize (G s name arg). destruct (run_command s name arg). exact G.
Qed.

(* C10: once halted, `resume` lets the program continue, `quit` quits, any other command (or an
   unknown / ambiguous one) leaves it halted: what Plugin.invoke_command executes after the command *)
Definition after_command (quit_before : bool) (resolved : option str) : list oline :=
  match resolved with
  | Some n =>
      if str_eqb n (s2l "resume") then (if quit_before then [OExec (s2l "quit")] else [OExec (s2l "continue")])
      else if str_eqb n (s2l "quit") then [OExec (s2l "quit")]
      else (if quit_before then [OExec (s2l "quit")] else [])
  | None => if quit_before then [OExec (s2l "quit")] else []
  end.

Theorem gdb_command_spec s cmd :
  let s0 := set_pause s true (s_quit s) in
  gdb_command s cmd =
  (fst (process_command command_fuel s0 cmd),
   snd (process_command command_fuel s0 cmd) ++ after_command (s_quit s) (resolves_to (s_color s) cmd)).
Proof.
  cbn zeta. unfold gdb_command.
  pose proof (process_command_pause (set_pause s true (s_quit s)) cmd) as HP.
  destruct (process_command command_fuel (set_pause s true (s_quit s)) cmd) as [s1 o]. cbn [fst snd] in *.
  change (s_color (set_pause s true (s_quit s))) with (s_color s) in HP.
  unfold pause_of in HP. cbn [set_pause s_paused s_quit] in HP.
  unfold after_command. f_equal. f_equal.
  destruct (resolves_to (s_color s) cmd) as [n|].
  - destruct (str_eqb n (s2l "resume")).
    + injection HP as Hp Hq. rewrite Hp, Hq. destruct (s_quit s); reflexivity.
    + destruct (str_eqb n (s2l "quit")).
      * injection HP as Hp Hq. rewrite Hq. reflexivity.
      * injection HP as Hp Hq. rewrite Hp, Hq. destruct (s_quit s); reflexivity.
  - injection HP as Hp Hq. rewrite Hp, Hq. destruct (s_quit s); reflexivity.
Qed.

(* the prompt of file / run mode keeps prompting until a line resolves to resume or quit *)
Fixpoint prompts_needed (on : bool) (inputs : list str) : nat * bool :=
  match inputs with
  | [] => (1%nat, true)                              (* input exhausted while prompting *)
  | c :: rest => if ends_pause on c then (1%nat, false)
                 else let '(n, e) := prompts_needed on rest in (S n, e)
  end.

Theorem prompt_loop s inputs :
  s_quit s = false ->
  let '(_, _, n, e) := run_until_stopped s inputs in (n, e) = prompts_needed (s_color s) inputs.
Proof.
  intros Hq. unfold run_until_stopped.
  assert (G : forall inputs s, s_paused s = true -> s_quit s = false ->
              let '(_, _, n, e) := ui_loop s inputs in (n, e) = prompts_needed (s_color s) inputs).
  { clear. induction inputs as [|c rest IH]; intros s Hp Hq; cbn [ui_loop prompts_needed]; rewrite Hp, Hq; cbn [andb negb].
    - reflexivity.
    - pose proof (process_command_pause s c) as HP. pose proof (process_command_color s c) as HC.
      destruct (process_command command_fuel s c) as [s1 o]. cbn [fst] in *.
      unfold ends_pause. unfold pause_of in HP. rewrite Hp, Hq in HP.
      destruct (resolves_to (s_color s) c) as [n|].
      + destruct (str_eqb n (s2l "resume")) eqn:Er.
        * injection HP as Hp1 Hq1. cbn [orb].
          destruct rest; cbn [ui_loop]; rewrite Hp1; reflexivity.
        * destruct (str_eqb n (s2l "quit")) eqn:Eqq.
          -- injection HP as Hp1 Hq1. cbn [orb].
             destruct rest; cbn [ui_loop]; rewrite Hp1, Hq1; reflexivity.
          -- injection HP as Hp1 Hq1. cbn [orb].
             specialize (IH s1 Hp1 Hq1). rewrite HC in IH.
             destruct (ui_loop s1 rest) as [[[s2 o2] n2] e2]. destruct (prompts_needed (s_color s) rest) as [n3 e3].
             injection IH as -> ->. reflexivity.
      + injection HP as Hp1 Hq1.
        specialize (IH s1 Hp1 Hq1). rewrite HC in IH.
        destruct (ui_loop s1 rest) as [[[s2 o2] n2] e2]. destruct (prompts_needed (s_color s) rest) as [n3 e3].
        injection IH as -> ->. reflexivity. }
  apply (G inputs (set_pause s true (s_quit s))); [reflexivity|exact Hq].
Qed.

Section WithP.
Variable P : pdb.

(* the stop flag of a delivered message: selected connection and breakpoint matcher *)
Lemma conn_message_stop s id rel m s' o stop :
  conn_message P s id rel m = (s', o, None, stop) ->
  exists i c d' rm,
    find_open s id = Some i /\ nth_error (s_conns s) i = Some c /\
    resolve_msg P (c_db c) rel m = (d', rm, None) /\
    stop = selected (k_current (s_ctrl s)) i && matches (k_stop (s_ctrl s)) (VM (view_msg d' (c_name c) rm)) /\
    s_paused s' = (stop || s_paused s) /\ s_quit s' = s_quit s.
Proof.
  unfold conn_message. destruct (find_open s id) as [i|] eqn:Ef; [|discriminate].
  destruct (nth_error (s_conns s) i) as [c|] eqn:En; [|discriminate].
  destruct (resolve_msg P (c_db c) rel m) as [[d' rm] err] eqn:ER. destruct err as [e|]; [discriminate|].
  destruct (ctrl_on_message (s_color s) (s_ctrl s) i d' (c_name c) rm) as [[k' outs] st] eqn:EC.
  intros H. injection H as <- <- <-.
  destruct (ctrl_on_message_spec _ _ _ _ _ _ _ _ _ EC) as (_ & _ & _ & _ & _ & Hst).
  exists i, c, d', rm.
  split; [first [reflexivity|exact Ef]|]. split; [first [reflexivity|exact En]|]. split; [first [reflexivity|exact ER]|].
  split; [exact Hst|]. split; destruct st; reflexivity.
Qed.

(* C10: the value returned to GDB by the breakpoint's stop() is true exactly when the message
   belongs to the selected connection (or none is selected) and matches the breakpoint matcher *)
Theorem gdb_stop_iff s id th rel m s' o :
  gdb_message P s id th rel m = (s', o) ->
  (exists e pre, o = pre ++ [ORaise e]) \/
  (exists pre b, o = pre ++ [OStop b] /\ s_paused s' = b /\
     exists s2 i c d' rm,
       find_open s2 id = Some i /\ nth_error (s_conns s2) i = Some c /\ resolve_msg P (c_db c) rel m = (d', rm, None) /\
       k_current (s_ctrl s2) = k_current (s_ctrl s) /\ k_stop (s_ctrl s2) = k_stop (s_ctrl s) /\
       b = selected (k_current (s_ctrl s)) i && matches (k_stop (s_ctrl s)) (VM (view_msg d' (c_name c) rm))).
Proof.
  unfold gdb_message. set (s1 := set_pause s false (s_quit s)).
  destruct (match gdb_get (s_gdb s1) id with Some _ => (s1, []) | None => _ end) as [s2 o1] eqn:E2.
  assert (H2 : s_paused s2 = false /\ k_current (s_ctrl s2) = k_current (s_ctrl s) /\ k_stop (s_ctrl s2) = k_stop (s_ctrl s)).
  { destruct (gdb_get (s_gdb s1) id).
    - injection E2 as <- _. repeat split.
    - destruct (open_conn s1 id (is_get_registry m)) as [sa oa] eqn:EO. injection E2 as <- _.
      unfold open_conn in EO. destruct (close_conn s1 id) as [sc oc] eqn:ECl. injection EO as <- _.
      unfold close_conn in ECl. destruct (find_open s1 id); [destruct (nth_error (s_conns s1) n)|]; injection ECl as <- _; repeat split. }
  destruct H2 as (Hp2 & Hc2 & Hs2).
  destruct (conn_message P s2 id rel m) as [[[s3 o2] err] stop] eqn:EC.
  destruct err as [[e msg]|].
  - intros H. injection H as <- <-. left. eexists e, _. rewrite !app_assoc. reflexivity.
  - intros H. injection H as <- <-. right.
    destruct (conn_message_stop _ _ _ _ _ _ _ EC) as (i & c & d' & rm & Hf & Hn & Hr & Hst & Hps & _).
    rewrite Hp2, orb_false_r in Hps.
    eexists _, (s_paused s3). split; [rewrite !app_assoc; reflexivity|]. split; [reflexivity|].
    exists s2, i, c, d', rm. repeat split; try assumption. rewrite Hps, Hst, Hc2, Hs2. reflexivity.
Qed.

Lemma gdb_get_del l id : gdb_get (gdb_del l id) id = None.
Proof.
  unfold gdb_del. induction l as [|[k t] l IH]; [reflexivity|]. cbn [filter fst].
  destruct (str_eqb k id) eqn:Ek; cbn [negb]; [exact IH|]. cbn [gdb_get]. rewrite Ek. exact IH.
Qed.

(* ---- C15 ------------------------------------------------------------------------------------------- *)
(* destruction of any connection - known, already closed or never seen - returns False to GDB
   without an exception, forgets the address, closes at most that connection *)
Theorem gdb_destroy_spec s id :
  let r := gdb_destroy s id in
  (exists pre, snd r = pre ++ [OStop false] /\ Forall is_closed_notice pre) /\
  gdb_get (s_gdb (fst r)) id = None /\
  others_untouched id s (fst r).
Proof.
  cbn zeta. unfold gdb_destroy.
  set (s0 := set_gdb s (gdb_del (s_gdb s) id)).
  pose proof (close_conn_out s0 id) as HO. pose proof (close_conn_others s0 id) as HU.
  assert (HG : forall sX oX, close_conn s0 id = (sX, oX) -> s_gdb sX = s_gdb s0).
  { intros sX oX E. unfold close_conn in E. destruct (find_open s0 id); [destruct (nth_error (s_conns s0) n)|]; injection E as <- _; reflexivity. }
  destruct (close_conn s0 id) as [s1 o] eqn:E. cbn [fst snd] in *.
  split; [exists o; split; [reflexivity|eapply HO; reflexivity]|]. split.
  - rewrite (HG _ _ eq_refl). unfold s0. cbn [set_gdb s_gdb]. apply gdb_get_del.
  - exact HU.
Qed.

Lemma others_set_gdb id s g : others_untouched id s (set_gdb s g).
Proof. intros j c H _. exact H. Qed.

(* a message on one libwayland connection never disturbs a connection with another address *)
Theorem gdb_message_isolation s id th rel m : others_untouched id s (fst (gdb_message P s id th rel m)).
Proof.
  unfold gdb_message. set (s1 := set_pause s false (s_quit s)).
  assert (H1 : others_untouched id s s1) by (intros j c H _; exact H).
  destruct (gdb_get (s_gdb s1) id).
  - pose proof (conn_message_others P s1 id rel m) as G.
    destruct (conn_message P s1 id rel m) as [[[s3 o2] err] st]. cbn [fst] in G.
    destruct err as [[e msg]|]; cbn [fst]; (eapply others_trans; [exact H1|exact G]).
  - pose proof (open_conn_others s1 id (is_get_registry m)) as G0.
    destruct (open_conn s1 id (is_get_registry m)) as [sa oa]. cbn [fst] in G0.
    set (s2 := set_gdb sa _).
    assert (H2 : others_untouched id s1 s2) by exact G0.
    pose proof (conn_message_others P s2 id rel m) as G.
    destruct (conn_message P s2 id rel m) as [[[s3 o2] err] st]. cbn [fst] in G.
    destruct err as [[e msg]|]; cbn [fst]; (eapply others_trans; [exact H1|]; eapply others_trans; [exact H2|exact G]).
Qed.

End WithP.
