(* C17 lifted to the session, part D: the commands. *)
From WD Require Import Base Wire Protocol Conn Color LetterId Matcher MatcherParse Show Session.
From WD Require Import LetterIdProofs ColorProofs ShowProofs MatcherProofs SessionProofs ConnMgrProofs.
From WD Require Import SessionColorA SessionColorB SessionColorC.
From Coq Require Import Lia.
Open Scope Z_scope.

Ltac sr' H s1 :=
  let Hc := fresh "Hc" in let col := fresh "col" in
  let cs := fresh "cs" in let nx := fresh "nx" in let k := fresh "k" in let kn := fresh "kn" in let lt := fresh "lt" in
  let pf := fresh "pf" in let pa := fresh "pa" in let qt := fresh "qt" in let gd := fresh "gd" in
  let un := fresh "un" in let ig := fresh "ig" in
  destruct H as [Hc ->];
  destruct s1 as [cs nx k kn lt pf pa qt gd col un ig];
  cbn [s_color] in Hc; subst col; unfold recolor;
  cbn [s_conns s_next s_ctrl s_known s_last_time s_parse s_paused s_quit s_gdb s_color s_unprocessed s_in_gdb].

Lemma SR_color s1 s0 : SR s1 s0 -> s_color s1 = true /\ s_color s0 = false.
Proof. intros [H ->]. split; [exact H|reflexivity]. Qed.
Lemma SR_fields s1 s0 : SR s1 s0 ->
  s_conns s0 = s_conns s1 /\ s_ctrl s0 = s_ctrl s1 /\ s_paused s0 = s_paused s1 /\ s_quit s0 = s_quit s1 /\ s_gdb s0 = s_gdb s1.
Proof. intros [_ ->]. repeat split. Qed.
Lemma SR_set_ctrl s1 s0 k : SR s1 s0 -> SR (set_ctrl s1 k) (set_ctrl s0 k).
Proof. intros H. sr' H s1. split; reflexivity. Qed.
Lemma SR_set_pause s1 s0 p q : SR s1 s0 -> SR (set_pause s1 p q) (set_pause s0 p q).
Proof. intros H. sr' H s1. split; reflexivity. Qed.

(* ---- _get_command ------------------------------------------------------------------------------------------- *)
Lemma get_command_sim c :
  fst (get_command' true c) = fst (get_command' false c) /\ Forall2 LineStrips (snd (get_command' true c)) (snd (get_command' false c)).
Proof.
  unfold get_command'. destruct (filter (starts_with c) command_names) as [|x [|y l]]; cbn [fst snd]; split; try reflexivity; F2;
    apply error_line_sim, TextEq_refl.
Qed.

(* ---- parse_and_join ------------------------------------------------------------------------------------------ *)
Lemma parse_and_join_sim s1 s0 text old : SR s1 s0 ->
  match parse_and_join s1 text old, parse_and_join s0 text old with
  | Ok (m1, e1), Ok (m0, e0) => m1 = m0 /\ Forall2 LineStrips e1 e0
  | Raise _ _, Raise _ _ => True
  | _, _ => False
  end.
Proof.
  intros H. destruct (SR_color _ _ H) as [C1 C0]. unfold parse_and_join. rewrite C1, C0.
  destruct (parse text) as [p|e msg]; [split; [reflexivity|constructor]|].
  destruct e; try exact I. split; [reflexivity|]. F2. apply error_line_sim, TextEq_refl.
Qed.

(* ---- show_messages ------------------------------------------------------------------------------------------- *)
Definition cap_of (cap : option Z) : option nat :=
  match cap with
  | None => None
  | Some 0 => None
  | Some c => Some (if c <? 0 then 1%nat else Z.to_nat c)
  end.
Definition header_line (on : bool) (m : mt) : oline := OOut (txt (s2l "Messages that match " ++ mshow on m ++ [58%N])).
Definition none_line (on : bool) (cs : list connst) (didnt : nat) : oline :=
  match cs with
  | [] => OOut (txt ([32; 9584; 9588]%N ++ s2l " No messages yet"))
  | _ => OOut (txt ([32; 9584; 9588]%N ++ s2l " None of the " ++ color on bad_color (z_to_dec (Z.of_nat didnt))
                     ++ s2l " messages so far"))
  end.
Definition counts_line (on : bool) (matched didnt notsearched : nat) : oline :=
  OOut (txt ([40%N] ++ count_color on true matched ++ s2l " matched, "
             ++ count_color on false didnt ++ s2l " didn't"
             ++ (if Nat.eqb notsearched 0 then []
                 else s2l ", " ++ color on symbol_color (z_to_dec (Z.of_nat notsearched)) ++ s2l " not checked")
             ++ [41%N])).
Definition show_fold (on : bool) (cs : list connst) (acc : list oline * option Z) (p : nat * rmsg) : list oline * option Z :=
  match nth_error cs (fst p) with
  | Some c =>
      let '(o, l) := show_message on (fst p) (c_db c) (c_name c) (snd acc) (snd p) in
      (fst acc ++ o, l)
  | None => acc
  end.

Lemma show_messages_eq s m cap : show_messages s m cap =
  let k := s_ctrl s in
  let '(matching, didnt, notsearched) := scan_matching s m (cap_of cap) (rev (conn_messages_of s (k_current k))) [] O in
  match matching with
  | [] => (s, [header_line (s_color s) m; none_line (s_color s) (s_conns s) didnt])
  | _ =>
      let '(outs, _) := fold_left (show_fold (s_color s) (s_conns s)) matching ([], None) in
      (set_ctrl s (mkCtrl (k_display k) (k_stop k) (k_current k) (k_all k) None),
       [header_line (s_color s) m] ++ outs ++ [counts_line (s_color s) (List.length matching) didnt notsearched])
  end.
Proof. reflexivity. Qed.

Lemma scan_matching_conns s s' m cap l : s_conns s = s_conns s' -> forall acc d,
  scan_matching s m cap l acc d = scan_matching s' m cap l acc d.
Proof.
  intros E. induction l as [|x l IH]; intros acc d; cbn [scan_matching]; [reflexivity|].
  unfold msg_view. rewrite E. destruct (matches m _); [|apply IH].
  destruct cap as [c|]; [|apply IH]. destruct (Nat.leb c _); [reflexivity|apply IH].
Qed.

Lemma scan_matching_Forall (Q : nat * rmsg -> Prop) s m cap l : forall acc d,
  Forall Q l -> Forall Q acc -> Forall Q (fst (fst (scan_matching s m cap l acc d))).
Proof.
  induction l as [|x l IH]; intros acc d Hl Ha; cbn [scan_matching]; [exact Ha|].
  inversion Hl as [|? ? Hx Hl']; subst.
  destruct (matches m _); [|apply IH; assumption].
  destruct cap as [c|]; [|apply IH; [assumption|constructor; assumption]].
  destruct (Nat.leb c _); [cbn [fst]; constructor; assumption|apply IH; [assumption|constructor; assumption]].
Qed.

Lemma conn_messages_ok s sel : Inv s -> Forall (fun p => rmsg_ok (snd p)) (conn_messages_of s sel).
Proof.
  intros HI. unfold conn_messages_of. destruct sel as [i|]; [|apply HI].
  destruct (nth_error (s_conns s) i) as [c|] eqn:E; [|constructor].
  destruct (Inv_conn s i c HI E) as (_ & _ & Hm). rewrite Forall_forall in *. intros p Hp.
  apply in_map_iff in Hp. destruct Hp as (x & <- & Hx). apply Hm. exact Hx.
Qed.

Lemma show_fold_sim cs matching :
  forall a1 a0, snd a1 = snd a0 -> Forall2 LineStrips (fst a1) (fst a0) ->
  snd (fold_left (show_fold true cs) matching a1) = snd (fold_left (show_fold false cs) matching a0) /\
  Forall2 LineStrips (fst (fold_left (show_fold true cs) matching a1)) (fst (fold_left (show_fold false cs) matching a0)).
Proof.
  induction matching as [|p l IH]; intros a1 a0 Hs Hf; cbn [fold_left]; [split; assumption|].
  apply IH; unfold show_fold;
    destruct (nth_error cs (fst p)) as [c|] eqn:E; try assumption;
    destruct (show_message_sim (fst p) (c_db c) (c_name c) (snd a1) (snd p)) as [G1 G2]; rewrite <- Hs;
    destruct (show_message true _ _ _ _ _) as [o1 l1]; destruct (show_message false _ _ _ _ _) as [o0 l0]; cbn [fst snd] in *.
  - exact G1.
  - F2; assumption.
Qed.

Lemma Strips_count good n : Strips (count_color true good n) (count_color false good n).
Proof. unfold count_color. apply Strips_color_plain; [destruct (Nat.ltb 0 n); [destruct good|]; reflexivity|apply z_to_dec_esc_free]. Qed.

Lemma counts_line_sim a b c : LineStrips (counts_line true a b c) (counts_line false a b c).
Proof.
  unfold counts_line. cbn [LineStrips]. apply TextEq_txt_Strips.
  apply Strips_app; [apply Strips_plain; reflexivity|]. apply Strips_app; [apply Strips_count|].
  apply Strips_app; [apply Strips_plain; reflexivity|]. apply Strips_app; [apply Strips_count|].
  apply Strips_app; [apply Strips_plain; reflexivity|]. apply Strips_app; [|apply Strips_plain; reflexivity].
  destruct (Nat.eqb c 0); [apply Strips_nil|]. apply Strips_app; [apply Strips_plain; reflexivity|].
  apply Strips_app; [apply Strips_color_plain; [reflexivity|apply z_to_dec_esc_free]|apply Strips_plain; reflexivity].
Qed.

Lemma header_line_sim m : LineStrips (header_line true m) (header_line false m).
Proof.
  unfold header_line. cbn [LineStrips]. apply TextEq_txt_TR, TR_of_CE.
  apply CE_app; [apply CE_refl|]. apply CE_app; [apply CE_mshow|apply CE_refl].
Qed.

Lemma none_line_sim cs d : LineStrips (none_line true cs d) (none_line false cs d).
Proof.
  unfold none_line. destruct cs; cbn [LineStrips]; [apply TextEq_refl|]. apply TextEq_txt_Strips.
  apply Strips_app; [apply Strips_plain; reflexivity|]. apply Strips_app; [apply Strips_plain; reflexivity|].
  apply Strips_app; [apply Strips_color_plain; [reflexivity|apply z_to_dec_esc_free]|apply Strips_plain; reflexivity].
Qed.

Lemma show_messages_sim s1 s0 m cap : SR s1 s0 ->
  SR (fst (show_messages s1 m cap)) (fst (show_messages s0 m cap)) /\
  Forall2 LineStrips (snd (show_messages s1 m cap)) (snd (show_messages s0 m cap)).
Proof.
  intros H. rewrite !show_messages_eq.
  destruct (SR_color _ _ H) as [C1 C0]. destruct (SR_fields _ _ H) as (F1 & F2' & _).
  assert (Em : conn_messages_of s0 (k_current (s_ctrl s0)) = conn_messages_of s1 (k_current (s_ctrl s1))).
  { unfold conn_messages_of. rewrite F1, F2'. reflexivity. }
  cbv zeta. rewrite Em, (scan_matching_conns s0 s1 m (cap_of cap) _ F1), C1, C0, F1, F2'.
  destruct (scan_matching s1 m (cap_of cap) _ [] O) as [[matching didnt] ns].
  destruct matching as [|p0 matching].
  - cbn [fst snd]. split; [exact H|]. F2; [apply header_line_sim|apply none_line_sim].
  - destruct (show_fold_sim (s_conns s1) (p0 :: matching) ([], None) ([], None) eq_refl (Forall2_nil _)) as [_ G].
    destruct (fold_left (show_fold true (s_conns s1)) (p0 :: matching) ([], None)) as [outs1 l1].
    destruct (fold_left (show_fold false (s_conns s1)) (p0 :: matching) ([], None)) as [outs0 l0].
    cbn [fst snd] in *. split; [apply SR_set_ctrl; exact H|]. F2; [apply header_line_sim|exact G|apply counts_line_sim].
Qed.

(* ---- connection list ------------------------------------------------------------------------------------------ *)
(* the title comes from a string argument and is printed as it is: it may contain anything *)
Lemma CE_show_conn c : good_name (c_name c) -> CE (show_conn true c) (show_conn false c).
Proof.
  intros [Hn Hb]. unfold show_conn.
  apply CE_app; [apply CE_color; [reflexivity|exact Hn|apply bstart_bhead; exact Hb]|].
  apply CE_app; [apply CE_refl|].
  apply CE_app; [destruct (c_server c) as [[|]|]; [apply CE_refl|apply CE_refl|apply CE_color; reflexivity]|].
  apply CE_app; [apply CE_refl|].
  apply CE_app; [|apply CE_refl].
  destruct (c_open c); [apply CE_refl|]. apply CE_app; [apply CE_refl|apply CE_color; reflexivity].
Qed.

Definition conn_line (on : bool) (cur : bool) (c : connst) : oline :=
  OOut (txt (color on (if cur then alert_color else symbol_color)
                   ((if cur then s2l " => " else s2l "    ") ++ show_conn on c ++ s2l ": ")
             ++ (if c_open c then color on good_color (s2l "open") else color on bad_color (s2l "closed"))
             ++ s2l ", " ++ color on int_color (z_to_dec (Z.of_nat (List.length (c_msgs c)))) ++ s2l " messages")).

Lemma conn_line_sim cur c : good_name (c_name c) -> LineStrips (conn_line true cur c) (conn_line false cur c).
Proof.
  intros Hn. unfold conn_line. cbn [LineStrips]. apply TextEq_txt_TR, TR_of_CE.
  apply CE_app.
  - rewrite !(app_assoc _ (show_conn _ c) (s2l ": ")).
    apply CE_color_wrap; [destruct cur; reflexivity| |destruct cur; reflexivity|reflexivity|reflexivity].
    apply CE_app; [apply CE_refl|apply CE_show_conn; exact Hn].
  - apply CE_app; [destruct (c_open c); apply CE_color; reflexivity|].
    apply CE_Strips; [reflexivity|reflexivity|].
    apply Strips_app; [apply Strips_plain; reflexivity|].
    apply Strips_app; [apply Strips_color_plain; [reflexivity|apply z_to_dec_esc_free]|apply Strips_plain; reflexivity].
Qed.

Fixpoint conn_lines (on : bool) (cur : option nat) (i : nat) (cs : list connst) : list oline :=
  match cs with
  | [] => []
  | c :: cs' => conn_line on (match cur with Some j => Nat.eqb i j | None => false end) c :: conn_lines on cur (S i) cs'
  end.

Lemma list_connections_eq s : list_connections s = conn_lines (s_color s) (k_current (s_ctrl s)) O (s_conns s).
Proof.
  unfold list_connections. generalize O. induction (s_conns s) as [|c cs IH]; intros i; [reflexivity|].
  cbn [conn_lines]. rewrite <- IH. reflexivity.
Qed.

Lemma conn_lines_sim cur cs : Forall (fun c => good_name (c_name c)) cs -> forall i, Forall2 LineStrips (conn_lines true cur i cs) (conn_lines false cur i cs).
Proof.
  induction 1 as [|c cs Hc _ IH]; intros i; cbn [conn_lines]; constructor; [apply conn_line_sim; apply Hc|apply IH].
Qed.

Lemma list_connections_sim s1 s0 : SR s1 s0 -> names_ok s1 -> Forall2 LineStrips (list_connections s1) (list_connections s0).
Proof.
  intros H HI. rewrite !list_connections_eq. destruct (SR_color _ _ H) as [C1 C0]. destruct (SR_fields _ _ H) as (F1 & F2' & _).
  rewrite C1, C0, F1, F2'. apply conn_lines_sim. apply names_ok_Forall. exact HI.
Qed.

(* ---- the commands ---------------------------------------------------------------------------------------------- *)
Lemma cmd_help_sim s1 s0 arg : SR s1 s0 ->
  SR (fst (cmd_help s1 arg)) (fst (cmd_help s0 arg)) /\ Forall2 LineStrips (snd (cmd_help s1 arg)) (snd (cmd_help s0 arg)).
Proof.
  intros H. destruct (SR_color _ _ H) as [C1 C0]. unfold cmd_help. destruct arg as [|x arg]; [split; [exact H|F2; exact I]|].
  destruct (str_eqb _ (s2l "matcher")); [split; [exact H|F2; exact I]|]. rewrite C1, C0.
  destruct (get_command_sim (if starts_with (s2l "wl") (x :: arg) then strip (skipn 2 (x :: arg)) else x :: arg)) as [_ G].
  destruct (get_command' true _) as [r1 e1]. destruct (get_command' false _) as [r0 e0]. cbn [fst snd] in *.
  split; [exact H|F2; [exact G|exact I]].
Qed.

Lemma cmd_list_sim s1 s0 arg : SR s1 s0 ->
  SR (fst (cmd_list s1 arg)) (fst (cmd_list s0 arg)) /\ Forall2 LineStrips (snd (cmd_list s1 arg)) (snd (cmd_list s0 arg)).
Proof.
  intros H. destruct (SR_color _ _ H) as [C1 C0]. destruct (SR_fields _ _ H) as (F1 & F2' & _).
  unfold cmd_list. rewrite C1, C0, F2'.
  match goal with |- context [match ?c with Ok _ => _ | Raise _ _ => _ end] => destruct c as [cap'|e msg] end.
  2:{ destruct e; cbn [fst snd]; (split; [exact H|F2; try exact I]). apply error_line_sim, TextEq_refl. }
  destruct (match split_tilde arg with x :: _ => x | [] => [] end) as [|a0 a].
  - apply show_messages_sim; assumption.
  - pose proof (parse_and_join_sim s1 s0 (a0 :: a) None H) as G.
    destruct (parse_and_join s1 (a0 :: a) None) as [[m1 e1]|x1 y1]; destruct (parse_and_join s0 (a0 :: a) None) as [[m0 e0]|x0 y0]; try contradiction.
    + destruct G as [-> G]. destruct (show_messages_sim s1 s0 m0 cap' H) as [K1 K2].
      destruct (show_messages s1 m0 cap') as [s1' o1]. destruct (show_messages s0 m0 cap') as [s0' o0]. cbn [fst snd] in *.
      split; [exact K1|F2; assumption].
    + cbn [fst snd]. split; [exact H|F2; exact I].
Qed.

Lemma matcher_line_sim (pre : list N) m : LineStrips (OOut (txt (pre ++ mshow true m))) (OOut (txt (pre ++ mshow false m))).
Proof. cbn [LineStrips]. apply TextEq_txt_TR, TR_of_CE. apply CE_app; [apply CE_refl|apply CE_mshow]. Qed.

Lemma cmd_filter_sim s1 s0 arg : SR s1 s0 ->
  SR (fst (cmd_filter s1 arg)) (fst (cmd_filter s0 arg)) /\ Forall2 LineStrips (snd (cmd_filter s1 arg)) (snd (cmd_filter s0 arg)).
Proof.
  intros H. destruct (SR_color _ _ H) as [C1 C0]. destruct (SR_fields _ _ H) as (F1 & F2' & _).
  unfold cmd_filter. rewrite C1, C0, F2'. destruct arg as [|x arg]; [cbn [fst snd]; split; [exact H|F2; apply matcher_line_sim]|].
  pose proof (parse_and_join_sim s1 s0 (x :: arg) (Some (k_display (s_ctrl s1))) H) as G.
  destruct (parse_and_join s1 (x :: arg) _) as [[m1 e1]|x1 y1]; destruct (parse_and_join s0 (x :: arg) _) as [[m0 e0]|x0 y0]; try contradiction.
  - destruct G as [-> G]. cbn [fst snd]. split; [apply SR_set_ctrl; exact H|F2; [exact G|apply matcher_line_sim]].
  - cbn [fst snd]. split; [exact H|F2; exact I].
Qed.

Lemma cmd_break_sim s1 s0 arg : SR s1 s0 ->
  SR (fst (cmd_break s1 arg)) (fst (cmd_break s0 arg)) /\ Forall2 LineStrips (snd (cmd_break s1 arg)) (snd (cmd_break s0 arg)).
Proof.
  intros H. destruct (SR_color _ _ H) as [C1 C0]. destruct (SR_fields _ _ H) as (F1 & F2' & _).
  unfold cmd_break. rewrite C1, C0, F2'. destruct arg as [|x arg]; [cbn [fst snd]; split; [exact H|F2; apply matcher_line_sim]|].
  pose proof (parse_and_join_sim s1 s0 (x :: arg) (Some (k_stop (s_ctrl s1))) H) as G.
  destruct (parse_and_join s1 (x :: arg) _) as [[m1 e1]|x1 y1]; destruct (parse_and_join s0 (x :: arg) _) as [[m0 e0]|x0 y0]; try contradiction.
  - destruct G as [-> G]. cbn [fst snd]. split; [apply SR_set_ctrl; exact H|F2; [exact G|apply matcher_line_sim]].
  - cbn [fst snd]. split; [exact H|F2; exact I].
Qed.

(* the matcher printed in colour and pasted back parses as the matcher printed plain *)
Lemma parse_mshow p : parse (mshow true p) = parse (mshow false p).
Proof. unfold parse. rewrite (mshow_nc p). reflexivity. Qed.

Lemma cmd_matcher_sim s1 s0 arg : SR s1 s0 ->
  SR (fst (cmd_matcher s1 arg)) (fst (cmd_matcher s0 arg)) /\ Forall2 LineStrips (snd (cmd_matcher s1 arg)) (snd (cmd_matcher s0 arg)).
Proof.
  intros H. destruct (SR_color _ _ H) as [C1 C0]. unfold cmd_matcher. rewrite C1, C0.
  destruct arg as [|x arg]; [cbn [fst snd]; split; [exact H|F2; apply TextEq_refl]|].
  assert (Hfail : forall l, LineStrips (error_line true l) (error_line false l)) by (intros l; apply error_line_sim, TextEq_refl).
  destruct (parse (x :: arg)) as [p|e msg].
  2:{ destruct e; cbn [fst snd]; (split; [exact H|F2; try exact I]). apply Hfail. }
  rewrite (parse_mshow p).
  destruct (parse (mshow false p)) as [p2|e msg].
  - cbn [fst snd]. split; [exact H|]. F2; apply matcher_line_sim.
  - destruct e; cbn [fst snd]; (split; [exact H|F2; try exact I; try apply matcher_line_sim]). apply Hfail.
Qed.

Lemma cmd_connection_sim s1 s0 arg : SR s1 s0 -> names_ok s1 ->
  SR (fst (cmd_connection s1 arg)) (fst (cmd_connection s0 arg)) /\
  Forall2 LineStrips (snd (cmd_connection s1 arg)) (snd (cmd_connection s0 arg)).
Proof.
  intros H HI. destruct (SR_color _ _ H) as [C1 C0]. destruct (SR_fields _ _ H) as (F1 & F2' & _).
  pose proof (list_connections_sim s1 s0 H HI) as HL.
  unfold cmd_connection. rewrite C1, C0, F1, F2'.
  destruct arg as [|x arg]; [cbn [fst snd]; split; [exact H|exact HL]|].
  destruct (str_eqb (x :: arg) (s2l "all")); [cbn [fst snd]; split; [apply SR_set_ctrl; exact H|F2; apply TextEq_refl]|].
  destruct (negb (all_ascii (x :: arg))); [cbn [fst snd]; split; [exact H|F2; exact I]|].
  match goal with |- context [match ?f with Some _ => _ | None => _ end] => destruct f as [i|] end.
  - destruct (nth_error (s_conns s1) i) as [c|] eqn:E; [|cbn [fst snd]; split; [exact H|constructor]].
    cbn [fst snd]. split; [apply SR_set_ctrl; exact H|]. F2. cbn [LineStrips]. apply TextEq_txt_Strips.
    apply Strips_app; [apply Strips_plain; reflexivity|]. apply Strips_color_plain; [reflexivity|].
    destruct (names_ok_good s1 i c HI E) as [Hn _]. exact Hn.
  - cbn [fst snd]. split; [exact H|]. F2; [apply error_line_sim, TextEq_refl|exact HL].
Qed.

Lemma run_command_sim s1 s0 name arg : SR s1 s0 -> names_ok s1 ->
  SR (fst (run_command s1 name arg)) (fst (run_command s0 name arg)) /\
  Forall2 LineStrips (snd (run_command s1 name arg)) (snd (run_command s0 name arg)).
Proof.
  intros H HI. destruct (SR_fields _ _ H) as (_ & _ & F3 & F4 & _). unfold run_command.
  destruct (str_eqb name (s2l "help")); [apply cmd_help_sim; exact H|].
  destruct (str_eqb name (s2l "list")); [apply cmd_list_sim; exact H|].
  destruct (str_eqb name (s2l "filter")); [apply cmd_filter_sim; exact H|].
  destruct (str_eqb name (s2l "breakpoint")); [apply cmd_break_sim; exact H|].
  destruct (str_eqb name (s2l "matcher")); [apply cmd_matcher_sim; exact H|].
  destruct (str_eqb name (s2l "connection")); [apply cmd_connection_sim; assumption|].
  destruct (str_eqb name (s2l "resume")); [cbn [fst snd]; rewrite F4; split; [apply SR_set_pause; exact H|constructor]|].
  destruct (str_eqb name (s2l "quit")); [cbn [fst snd]; rewrite F3; split; [apply SR_set_pause; exact H|constructor]|].
  split; [exact H|constructor].
Qed.

(* ---- from the typed line to the command ------------------------------------------------------------------------ *)
Lemma resolve_cmd_sim fuel : forall input,
  snd (resolve_cmd fuel true input) = snd (resolve_cmd fuel false input) /\
  Forall2 LineStrips (fst (resolve_cmd fuel true input)) (fst (resolve_cmd fuel false input)).
Proof.
  induction fuel as [|f IH]; intros input; cbn [resolve_cmd]; [split; [reflexivity|F2; exact I]|].
  destruct (split_first_space (strip input)) as [a0 a1].
  set (first := strip (no_color a0)). set (second := match a1 with Some r => strip (no_color r) | None => [] end).
  assert (Hmain : forall first1 (pre1 pre0 : list oline), Forall2 LineStrips pre1 pre0 ->
    snd (if str_eqb first1 [119%N] || str_eqb first1 (s2l "wl")
         then let '(o, r) := resolve_cmd f true second in (pre1 ++ o, r)
         else let '(cmd, errs) := get_command' true (if starts_with (s2l "wl") first1 then skipn 2 first1 else first1) in
              match cmd with Some name => (pre1 ++ errs, Some (name, second)) | None => (pre1 ++ errs, None) end)
    = snd (if str_eqb first1 [119%N] || str_eqb first1 (s2l "wl")
         then let '(o, r) := resolve_cmd f false second in (pre0 ++ o, r)
         else let '(cmd, errs) := get_command' false (if starts_with (s2l "wl") first1 then skipn 2 first1 else first1) in
              match cmd with Some name => (pre0 ++ errs, Some (name, second)) | None => (pre0 ++ errs, None) end)
    /\ Forall2 LineStrips
      (fst (if str_eqb first1 [119%N] || str_eqb first1 (s2l "wl")
         then let '(o, r) := resolve_cmd f true second in (pre1 ++ o, r)
         else let '(cmd, errs) := get_command' true (if starts_with (s2l "wl") first1 then skipn 2 first1 else first1) in
              match cmd with Some name => (pre1 ++ errs, Some (name, second)) | None => (pre1 ++ errs, None) end))
      (fst (if str_eqb first1 [119%N] || str_eqb first1 (s2l "wl")
         then let '(o, r) := resolve_cmd f false second in (pre0 ++ o, r)
         else let '(cmd, errs) := get_command' false (if starts_with (s2l "wl") first1 then skipn 2 first1 else first1) in
              match cmd with Some name => (pre0 ++ errs, Some (name, second)) | None => (pre0 ++ errs, None) end))).
  { intros first1 pre1 pre0 Hpre. destruct (_ || _).
    - destruct (IH second) as [G1 G2]. destruct (resolve_cmd f true second) as [o1 r1]. destruct (resolve_cmd f false second) as [o0 r0].
      cbn [fst snd] in *. split; [exact G1|F2; assumption].
    - destruct (get_command_sim (if starts_with (s2l "wl") first1 then skipn 2 first1 else first1)) as [G1 G2].
      destruct (get_command' true _) as [c1 e1]. destruct (get_command' false _) as [c0 e0]. cbn [fst snd] in *. subst c0.
      destruct c1; cbn [fst snd]; (split; [reflexivity|F2; assumption]). }
  destruct first as [|x first'].
  - destruct second as [|y second']; [|apply IH].
    apply Hmain. F2. apply error_line_sim, TextEq_refl.
  - apply Hmain. constructor.
Qed.

Lemma process_command_sim fuel s1 s0 input : SR s1 s0 -> names_ok s1 ->
  SR (fst (process_command fuel s1 input)) (fst (process_command fuel s0 input)) /\
  Forall2 LineStrips (snd (process_command fuel s1 input)) (snd (process_command fuel s0 input)).
Proof.
  intros H HI. destruct (SR_color _ _ H) as [C1 C0]. unfold process_command. rewrite C1, C0.
  destruct (resolve_cmd_sim fuel input) as [G1 G2].
  destruct (resolve_cmd fuel true input) as [pre1 r1]. destruct (resolve_cmd fuel false input) as [pre0 r0]. cbn [fst snd] in *. subst r0.
  destruct r1 as [[name arg]|]; [|split; assumption].
  destruct (run_command_sim s1 s0 name arg H HI) as [K1 K2].
  destruct (run_command s1 name arg) as [s1' o1]. destruct (run_command s0 name arg) as [s0' o0]. cbn [fst snd] in *.
  split; [exact K1|F2; assumption].
Qed.
