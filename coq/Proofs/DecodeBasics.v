(* DecodeBasics.v — generic facts used by the decode/render round trip:
   list scanners, character classes, decimal printing. *)
From WD Require Import Base Wire Decode Render LetterIdProofs.
From Coq Require Import Lia ZifyBool ZifyNat ZifyN.
Ltac Zify.zify_post_hook ::= Z.div_mod_to_equations.
Open Scope N_scope.

Ltac cc := intros; unfold is_space, is_word, is_ascii, is_letter, is_digit, is_lower, is_upper in *; unfold in_range in *; lia.

(* turn [s2l "literal"] into an explicit list of code points *)
Ltac norm_lits :=
  repeat match goal with
         | |- context [s2l ?s] => let x := eval vm_compute in (s2l s) in change (s2l s) with x
         end.

(* decide a [match c with <literal> ...] on an abstract character by walking its bits *)
Ltac char_cases c :=
  destruct c as [|c];
  [ try reflexivity; try congruence
  | repeat (first [reflexivity | congruence | destruct c as [c|c|]]) ].

(* ---- lists ---------------------------------------------------------------- *)
Lemma forallb_impl {A} (p q : A -> bool) l :
  (forall x, p x = true -> q x = true) -> forallb p l = true -> forallb q l = true.
Proof.
  intros H. induction l as [|x l IH]; [reflexivity|]. cbn [forallb]. intros E.
  apply andb_true_iff in E. destruct E as [E1 E2]. rewrite (H _ E1), (IH E2). reflexivity.
Qed.

Lemma forallb_repeat {A} (p : A -> bool) c k : p c = true -> forallb p (repeat c k) = true.
Proof. intros H. induction k as [|k IH]; [reflexivity|]. cbn [repeat forallb]. rewrite H, IH. reflexivity. Qed.

Lemma forallb_rev {A} (p : A -> bool) l : forallb p (rev l) = forallb p l.
Proof.
  induction l as [|x l IH]; [reflexivity|]. cbn [rev]. rewrite forallb_app, IH. cbn [forallb].
  rewrite andb_true_r. apply andb_comm.
Qed.

Lemma take_while_app_stop {A} (p : A -> bool) a c r :
  forallb p a = true -> p c = false -> take_while p (a ++ c :: r) = a.
Proof.
  intros Ha Hc. induction a as [|x a IH]; cbn [app take_while].
  - rewrite Hc. reflexivity.
  - cbn [forallb] in Ha. apply andb_true_iff in Ha. destruct Ha as [H1 H2]. rewrite H1, (IH H2). reflexivity.
Qed.

Lemma drop_while_app_stop {A} (p : A -> bool) a c r :
  forallb p a = true -> p c = false -> drop_while p (a ++ c :: r) = c :: r.
Proof.
  intros Ha Hc. induction a as [|x a IH]; cbn [app drop_while].
  - rewrite Hc. reflexivity.
  - cbn [forallb] in Ha. apply andb_true_iff in Ha. destruct Ha as [H1 H2]. rewrite H1. apply (IH H2).
Qed.

Lemma take_while_all {A} (p : A -> bool) a : forallb p a = true -> take_while p a = a.
Proof.
  induction a as [|x a IH]; [reflexivity|]. cbn [forallb take_while]. intros Ha.
  apply andb_true_iff in Ha. destruct Ha as [H1 H2]. rewrite H1, (IH H2). reflexivity.
Qed.

Lemma drop_while_all {A} (p : A -> bool) a : forallb p a = true -> drop_while p a = [].
Proof.
  induction a as [|x a IH]; [reflexivity|]. cbn [forallb drop_while]. intros Ha.
  apply andb_true_iff in Ha. destruct Ha as [H1 H2]. rewrite H1. apply (IH H2).
Qed.

Lemma span_app_stop p a c r :
  forallb p a = true -> p c = false -> span p (a ++ c :: r) = (a, c :: r).
Proof. intros Ha Hc. unfold span. rewrite take_while_app_stop, drop_while_app_stop by assumption. reflexivity. Qed.

Lemma span_all p a : forallb p a = true -> span p a = (a, []).
Proof. intros Ha. unfold span. rewrite take_while_all, drop_while_all by assumption. reflexivity. Qed.

Lemma drop_while_length_le {A} (p : A -> bool) l : (List.length (drop_while p l) <= List.length l)%nat.
Proof.
  induction l as [|x l IH]; [apply le_n|]. cbn [drop_while]. destruct (p x); cbn [List.length]; lia.
Qed.

Lemma starts_with_app p s : starts_with p (p ++ s) = true.
Proof. induction p as [|c p IH]; [reflexivity|]. cbn [app starts_with]. rewrite N.eqb_refl, IH. reflexivity. Qed.

Lemma skipn_length_app {A} (p s : list A) : skipn (List.length p) (p ++ s) = s.
Proof. induction p as [|c p IH]; [reflexivity|]. cbn [List.length app skipn]. exact IH. Qed.

Lemma firstn_length_app {A} (p s : list A) : firstn (List.length p) (p ++ s) = p.
Proof. induction p as [|c p IH]; [reflexivity|]. cbn [List.length app firstn]. rewrite IH. reflexivity. Qed.

Lemma str_eqb_refl s : str_eqb s s = true.
Proof. unfold str_eqb. induction s as [|c s IH]; [reflexivity|]. cbn [list_eqb]. rewrite N.eqb_refl, IH. reflexivity. Qed.

(* ---- character classes ----------------------------------------------------- *)
Lemma digit_word c : is_digit c = true -> is_word c = true.
Proof. cc. Qed.
Lemma word_ascii c : is_word c = true -> is_ascii c = true.
Proof. cc. Qed.
Lemma digit_ascii c : is_digit c = true -> is_ascii c = true.
Proof. cc. Qed.
Lemma digit_not_space c : is_digit c = true -> is_space c = false.
Proof. cc. Qed.

Lemma digits_word s : forallb is_digit s = true -> forallb is_word s = true.
Proof. apply forallb_impl, digit_word. Qed.
Lemma word_all_ascii s : forallb is_word s = true -> all_ascii s = true.
Proof. apply forallb_impl, word_ascii. Qed.
Lemma digits_all_ascii s : forallb is_digit s = true -> all_ascii s = true.
Proof. apply forallb_impl, digit_ascii. Qed.

Lemma all_ascii_app a b : all_ascii (a ++ b) = all_ascii a && all_ascii b.
Proof. apply forallb_app. Qed.

Lemma is_word_str_spec s : is_word_str s = true -> s <> [] /\ forallb is_word s = true.
Proof. destruct s as [|c s]; [discriminate|]. intros H. split; [discriminate|exact H]. Qed.

(* ---- decimals ---------------------------------------------------------------- *)
Lemma dec_value_acc_shift s : forall a,
  dec_value_acc a s = a * 10 ^ N.of_nat (List.length s) + dec_value s.
Proof.
  induction s as [|c s IH]; intros a.
  - unfold dec_value. cbn [dec_value_acc List.length]. change (10 ^ N.of_nat 0) with 1. lia.
  - unfold dec_value. cbn [dec_value_acc List.length].
    rewrite (IH (a * 10 + (c - 48))), (IH (0 * 10 + (c - 48))).
    rewrite Nat2N.inj_succ, N.pow_succ_r'. set (P := 10 ^ N.of_nat (List.length s)). lia.
Qed.

Lemma dec_value_acc_app s t : forall a, dec_value_acc a (s ++ t) = dec_value_acc (dec_value_acc a s) t.
Proof. induction s as [|c s IH]; intros a; [reflexivity|]. cbn [app dec_value_acc]. apply IH. Qed.

Lemma dec_value_app s t :
  dec_value (s ++ t) = dec_value s * 10 ^ N.of_nat (List.length t) + dec_value t.
Proof.
  unfold dec_value at 1. rewrite dec_value_acc_app. rewrite dec_value_acc_shift. reflexivity.
Qed.

Lemma dec_value_zeros k s : dec_value (repeat 48 k ++ s) = dec_value s.
Proof.
  induction k as [|k IH]; [reflexivity|]. cbn [repeat app]. unfold dec_value in *. cbn [dec_value_acc].
  change (0 * 10 + (48 - 48)) with 0. exact IH.
Qed.

Lemma n_digits_rev_len fuel : forall n k,
  (1 <= k)%nat -> n < 10 ^ N.of_nat k -> (List.length (n_digits_rev fuel n) <= k)%nat.
Proof.
  induction fuel as [|f IH]; intros n k Hk Hn; [cbn; lia|].
  cbn [n_digits_rev]. destruct (n <? 10) eqn:E; [cbn [List.length]; lia|].
  destruct k as [|[|k]]; [lia| |].
  - change (10 ^ N.of_nat 1) with 10 in Hn. lia.
  - cbn [List.length]. apply le_n_S. apply IH; [lia|].
    rewrite Nat2N.inj_succ, N.pow_succ_r' in Hn. set (P := 10 ^ N.of_nat (S k)) in *. clearbody P. lia.
Qed.

Lemma n_to_dec_len n k : (1 <= k)%nat -> n < 10 ^ N.of_nat k -> (List.length (n_to_dec n) <= k)%nat.
Proof. intros Hk Hn. unfold n_to_dec. rewrite rev_length. apply n_digits_rev_len; assumption. Qed.

Lemma n_to_dec_digits n : forallb is_digit (n_to_dec n) = true.
Proof. apply n_to_dec_spec. Qed.
Lemma n_to_dec_value n : dec_value (n_to_dec n) = n.
Proof. apply n_to_dec_spec. Qed.

Lemma z_to_dec_abs z : z_to_dec z = (if (z <? 0)%Z then [45] else []) ++ n_to_dec (Z.abs_N z).
Proof. destruct z; reflexivity. Qed.

Lemma z_to_dec_nonneg z : (0 <= z)%Z -> z_to_dec z = n_to_dec (Z.to_N z).
Proof. intros H. destruct z; [reflexivity|reflexivity|lia]. Qed.

(* ---- padding ------------------------------------------------------------------- *)
Lemma pad_left_length w c s : (List.length s <= w)%nat -> List.length (pad_left w c s) = w.
Proof. intros H. unfold pad_left. rewrite app_length, repeat_length. lia. Qed.

Lemma dec_pad_digits w n : forallb is_digit (dec_pad w n) = true.
Proof.
  unfold dec_pad, pad_left. rewrite forallb_app, forallb_repeat by reflexivity. apply n_to_dec_digits.
Qed.

Lemma dec_pad_nonempty w n : dec_pad w n <> [].
Proof.
  unfold dec_pad, pad_left. intros H. apply app_eq_nil in H. destruct H as [_ H].
  exact (n_to_dec_nonempty n H).
Qed.

Lemma dec_pad_value w n : dec_value (dec_pad w n) = n.
Proof. unfold dec_pad, pad_left. rewrite dec_value_zeros. apply n_to_dec_value. Qed.

Lemma dec_pad_length w n : (1 <= w)%nat -> n < 10 ^ N.of_nat w -> List.length (dec_pad w n) = w.
Proof. intros Hw Hn. unfold dec_pad. apply pad_left_length. apply n_to_dec_len; assumption. Qed.
