(* Proofs about the argv splitter and the GDB re-quoting (C19). *)
From WD Require Import Base Wire Conn Color Matcher MatcherParse Show Args.
From Coq Require Import Lia.
Open Scope N_scope.

(* ---- everything after the first marker is forwarded verbatim ------------------------------------ *)
Definition not_marker (a : str) : Prop := classify a = NotMarker.

Theorem split_first_marker_exact pre a post id :
  Forall not_marker pre -> classify a = Exact id ->
  split_command (pre ++ a :: post) = Ok (pre, id, post).
Proof.
  intros Hpre Ha. induction Hpre as [|x pre Hx _ IH]; cbn [app split_command].
  - rewrite Ha. reflexivity.
  - unfold not_marker in Hx. rewrite Hx, IH. reflexivity.
Qed.

Theorem split_first_marker_cluster pre a post id a' :
  Forall not_marker pre -> classify a = ClusterEnd id a' ->
  split_command (pre ++ a :: post) = Ok (pre ++ [a'], id, post).
Proof.
  intros Hpre Ha. induction Hpre as [|x pre Hx _ IH]; cbn [app split_command].
  - rewrite Ha. reflexivity.
  - unfold not_marker in Hx. rewrite Hx, IH. reflexivity.
Qed.

Theorem split_cluster_marker_must_be_last pre a post :
  Forall not_marker pre -> classify a = ClusterError ->
  split_command (pre ++ a :: post) = Raise RuntimeError [].
Proof.
  intros Hpre Ha. induction Hpre as [|x pre Hx _ IH]; cbn [app split_command].
  - rewrite Ha. reflexivity.
  - unfold not_marker in Hx. rewrite Hx, IH. reflexivity.
Qed.

Theorem split_no_marker args : Forall not_marker args -> split_command args = Ok (args, [], []).
Proof.
  induction 1 as [|x l Hx _ IH]; cbn [split_command]; [reflexivity|].
  unfold not_marker in Hx. rewrite Hx, IH. reflexivity.
Qed.

(* what counts as a marker: the four spellings on their own, or r/g as the last letter of a cluster *)
Theorem classify_spellings :
  classify (s2l "-r") = Exact [114] /\ classify (s2l "--run") = Exact [114] /\
  classify (s2l "-g") = Exact [103] /\ classify (s2l "--gdb") = Exact [103] /\
  classify (s2l "-Cr") = ClusterEnd [114] (s2l "-C") /\ classify (s2l "-Cpg") = ClusterEnd [103] (s2l "-Cp") /\
  classify (s2l "-rC") = ClusterError /\ classify (s2l "-f") = NotMarker /\ classify (s2l "--running") = NotMarker /\
  classify (s2l "prog") = NotMarker /\ classify (s2l "r") = NotMarker.
Proof. vm_compute. repeat split. Qed.

(* a cluster ending in the marker letter, whatever the other letters (none of them a marker letter) *)
Lemma classify_one_end letter long a :
  str_eqb a [45; letter] = false -> Nat.ltb 2 (List.length a) = true -> starts_with_single_dash a = true ->
  mem_char letter (removelast a) = false -> ends_with [letter] a = true ->
  classify_one letter long a = ClusterEnd [letter] (removelast a).
Proof. intros H1 H2 H3 H4 H5. unfold classify_one. unfold char in *. rewrite H1, H2, H3, H4, H5. reflexivity. Qed.

Lemma classify_one_none letter long a :
  str_eqb a [45; letter] = false -> mem_char letter (removelast a) = false -> ends_with [letter] a = false ->
  str_eqb a long = false -> classify_one letter long a = NotMarker.
Proof.
  intros H1 H4 H5 H6. unfold classify_one. unfold char in *. rewrite H1, H4, H5, H6.
  rewrite !andb_false_r. reflexivity.
Qed.

Lemma mem_char_app c a b : mem_char c (a ++ b) = mem_char c a || mem_char c b.
Proof. induction a as [|x a IH]; [reflexivity|]. cbn. rewrite IH. apply orb_assoc. Qed.

Theorem classify_cluster_r body :
  body <> [] -> forallb (fun c => negb (N.eqb c 45) && negb (N.eqb c 103) && negb (N.eqb c 114)) body = true ->
  classify (45 :: body ++ [114]) = ClusterEnd [114] (45 :: body).
Proof.
  intros Hne Hb.
  assert (Hmem : forall c, (c = 45 \/ c = 103 \/ c = 114) -> mem_char c body = false).
  { clear Hne. induction body as [|x l IH]; intros c Hc; [reflexivity|]. cbn [forallb mem_char] in *.
    apply andb_true_iff in Hb. destruct Hb as [Hx Hl]. rewrite (IH Hl c Hc), orb_false_r.
    apply andb_true_iff in Hx. destruct Hx as [Hx Hx2]. apply andb_true_iff in Hx. destruct Hx as [Hx0 Hx1].
    apply negb_true_iff in Hx0, Hx1, Hx2. destruct Hc as [->|[->| ->]]; rewrite N.eqb_sym; assumption. }
  remember (45 :: body ++ [114]) as a eqn:Ea.
  assert (Ha : a = (45 :: body) ++ [114]) by (subst a; reflexivity).
  assert (Hrl : removelast a = 45 :: body) by (rewrite Ha; apply removelast_last).
  assert (Hlen : Nat.ltb 2 (List.length a) = true).
  { rewrite Ha, app_length. cbn [List.length]. apply Nat.ltb_lt. destruct body; [contradiction|cbn; lia]. }
  assert (Hsd : starts_with_single_dash a = true).
  { subst a. destruct body as [|b0 body]; [contradiction|]. cbn [app starts_with_single_dash].
    cbn [forallb] in Hb. apply andb_true_iff in Hb. destruct Hb as [Hb0 _].
    apply andb_true_iff in Hb0. destruct Hb0 as [Hb0 _]. apply andb_true_iff in Hb0. destruct Hb0 as [Hb0 _]. exact Hb0. }
  assert (Hends : forall l, ends_with [l] a = N.eqb l 114).
  { intros l. rewrite Ha. unfold ends_with. rewrite rev_app_distr. cbn. rewrite andb_true_r. reflexivity. }
  assert (Hneq : forall l : N, str_eqb a [45; l] = false).
  { intros l. subst a. destruct body as [|b0 [|b1 body]]; [contradiction| |]; cbn; rewrite ?andb_false_r; reflexivity. }
  assert (Hlong : str_eqb a (s2l "--gdb") = false).
  { subst a. destruct body as [|b0 body]; [contradiction|]. cbn [forallb] in Hb. apply andb_true_iff in Hb. destruct Hb as [Hb0 _].
    apply andb_true_iff in Hb0. destruct Hb0 as [Hb0 _]. apply andb_true_iff in Hb0. destruct Hb0 as [Hb0 _]. apply negb_true_iff in Hb0.
    cbn. rewrite Hb0. reflexivity. }
  unfold classify.
  rewrite (classify_one_none 103 (s2l "--gdb") a); [| apply (Hneq 103) | unfold char in *; rewrite Hrl; cbn [mem_char]; rewrite (Hmem 103); [reflexivity|auto] | rewrite Hends; reflexivity | exact Hlong].
  rewrite (classify_one_end 114 (s2l "--run") a); [unfold char in *; rewrite Hrl; reflexivity | apply (Hneq 114) | exact Hlen | exact Hsd | unfold char in *; rewrite Hrl; cbn [mem_char]; rewrite (Hmem 114); [reflexivity|auto] | rewrite Hends; reflexivity].
Qed.

(* ---- exactly one mode -------------------------------------------------------------------------------- *)
Theorem exactly_one_mode id o m :
  select_mode id o = Some m ->
  let run := str_eqb id [114] in let gdb := str_eqb id [103] in
  let load := match o_load o with Some _ => true | None => false end in
  let pipe := o_pipe o in
  match m with
  | MRun => run = true /\ gdb = false /\ load = false /\ pipe = false
  | MGdbRunner => gdb = true /\ load = false /\ pipe = false
  | MLoad => gdb = false /\ run = false /\ load = true /\ pipe = false
  | MPipe => gdb = false /\ run = false /\ load = false /\ pipe = true
  end.
Proof.
  unfold select_mode. cbn zeta.
  destruct (str_eqb id [103]) eqn:Eg; destruct (str_eqb id [114]) eqn:Er; destruct (o_load o); destruct (o_pipe o);
    cbn; intros H; try discriminate; injection H as <-; repeat split.
Qed.

(* ---- GDB mode: the instance started inside GDB receives exactly our words ------------------------------- *)
Lemma unhex_hex n : n < 16 -> unhex (hex_digit n) = Some n.
Proof.
  intros Hn. unfold hex_digit, unhex, is_digit, in_range.
  destruct (n <? 10) eqn:En.
  - apply N.ltb_lt in En. replace ((48 <=? 48 + n) && (48 + n <=? 57)) with true by (symmetry; apply andb_true_iff; split; apply N.leb_le; lia).
    f_equal. lia.
  - apply N.ltb_ge in En. replace ((48 <=? 87 + n) && (87 + n <=? 57)) with false by (symmetry; apply andb_false_iff; right; apply N.leb_gt; lia).
    replace ((97 <=? 87 + n) && (87 + n <=? 102)) with true by (symmetry; apply andb_true_iff; split; apply N.leb_le; lia).
    f_equal. lia.
Qed.

(* one character of repr output is read back as that character *)
Lemma unescape_char q c rest :
  (q = 34 \/ q = 39) -> c < 128 ->
  unescape (repr_char q c ++ rest) q = option_map (cons c) (unescape rest q).
Proof.
  intros Hq Hc. unfold repr_char.
  destruct (N.eqb c q) eqn:E1.
  { apply N.eqb_eq in E1. subst c. destruct Hq as [-> | ->]; reflexivity. }
  destruct (N.eqb c 92) eqn:E2.
  { apply N.eqb_eq in E2. subst c. destruct Hq as [-> | ->]; reflexivity. }
  destruct (N.eqb c 10) eqn:E3.
  { apply N.eqb_eq in E3. subst c. destruct Hq as [-> | ->]; reflexivity. }
  destruct (N.eqb c 13) eqn:E4.
  { apply N.eqb_eq in E4. subst c. destruct Hq as [-> | ->]; reflexivity. }
  destruct (N.eqb c 9) eqn:E5.
  { apply N.eqb_eq in E5. subst c. destruct Hq as [-> | ->]; reflexivity. }
  destruct ((c <? 32) || N.eqb c 127) eqn:E6.
  { change ([92; 120; hex_digit (c / 16); hex_digit (c mod 16)] ++ rest)
      with (92 :: 120 :: hex_digit (c / 16) :: hex_digit (c mod 16) :: rest).
    assert (Hq92 : N.eqb 92 q = false) by (destruct Hq as [-> | ->]; reflexivity).
    cbn [unescape]. rewrite Hq92. change (N.eqb 92 92) with true. cbn iota.
    rewrite (unhex_hex (c / 16)) by (apply N.div_lt_upper_bound; lia).
    rewrite (unhex_hex (c mod 16)) by (apply N.mod_lt; lia).
    replace (c / 16 * 16 + c mod 16) with c; [reflexivity|].
    rewrite N.mul_comm. apply N.div_mod. lia. }
  destruct (c <? 127) eqn:E7.
  - change ([c] ++ rest) with (c :: rest). cbn [unescape]. rewrite E1, E2. reflexivity.
  - exfalso. apply N.ltb_ge in E7. apply orb_false_iff in E6. destruct E6 as [_ E6]. apply N.eqb_neq in E6. lia.
Qed.

Lemma unescape_repr q s :
  (q = 34 \/ q = 39) -> forallb (fun c => c <? 128) s = true ->
  unescape (flat_map (repr_char q) s ++ [q]) q = Some s.
Proof.
  intros Hq. induction s as [|c s IH]; intros Hs.
  - cbn. rewrite N.eqb_refl. reflexivity.
  - cbn [forallb] in Hs. apply andb_true_iff in Hs. destruct Hs as [Hc Hs]. specialize (IH Hs).
    cbn [flat_map]. rewrite <- app_assoc, unescape_char; [rewrite IH; reflexivity|exact Hq|apply N.ltb_lt; exact Hc].
Qed.

Theorem quote_roundtrip w : forallb (fun c => c <? 128) w = true -> py_eval_literal (quote_word w) = Some w.
Proof.
  intros H. unfold quote_word, py_repr, py_eval_literal.
  set (q := if mem_char 39 w && negb (mem_char 34 w) then 34 else 39).
  assert (Hq : q = 34 \/ q = 39) by (unfold q; destruct (mem_char 39 w && negb (mem_char 34 w)); auto).
  replace (N.eqb q 39 || N.eqb q 34) with true by (destruct Hq as [-> | ->]; reflexivity).
  apply unescape_repr; assumption.
Qed.

(* all words: the list literal `[w1, w2, ...]` evaluates back to the same words *)
Theorem gdb_argv_roundtrip ws :
  Forall (fun w => forallb (fun c => c <? 128) w = true) ws ->
  map py_eval_literal (map quote_word ws) = map Some ws.
Proof.
  induction 1 as [|w ws Hw _ IH]; [reflexivity|]. cbn [map]. rewrite (quote_roundtrip w Hw), IH. reflexivity.
Qed.

(* the forwarded words go to gdb verbatim, after the -ex command *)
Theorem gdb_forwarded_verbatim ours forwarded : skipn 3 (gdb_argv ours forwarded) = forwarded.
Proof. reflexivity. Qed.
