(* Utf8ProofsB.v - the decoder against the encoder, the range of what it produces, and worked examples
   (the cases of the task statement, checked by computation). *)
From WD Require Import Base Runner Utf8 Utf8ProofsA.
From Coq Require Import Lia ZifyBool ZifyN.
Open Scope N_scope.

Lemma divmod64 c : c = 64 * (c / 64) + c mod 64 /\ c mod 64 < 64.
Proof. split; [apply N.div_mod'|apply N.mod_lt; lia]. Qed.

Lemma second_ok_intro b0 b1 :
  128 <= b1 -> b1 <= 191 ->
  (b0 = 224 -> 160 <= b1) -> (b0 = 237 -> b1 <= 159) -> (b0 = 240 -> 144 <= b1) -> (b0 = 244 -> b1 <= 143) ->
  second_ok b0 b1 = true.
Proof.
  intros H1 H2 H3 H4 H5 H6. unfold second_ok, is_cont.
  destruct (b0 =? 224) eqn:E1; [lia|]. destruct (b0 =? 237) eqn:E2; [lia|].
  destruct (b0 =? 240) eqn:E3; [lia|]. destruct (b0 =? 244) eqn:E4; lia.
Qed.

Lemma second_ok_elim b0 b1 :
  second_ok b0 b1 = true ->
  128 <= b1 /\ b1 <= 191 /\
  (b0 = 224 -> 160 <= b1) /\ (b0 = 237 -> b1 <= 159) /\ (b0 = 240 -> 144 <= b1) /\ (b0 = 244 -> b1 <= 143).
Proof.
  unfold second_ok, is_cont.
  destruct (b0 =? 224) eqn:E1; [lia|]. destruct (b0 =? 237) eqn:E2; [lia|].
  destruct (b0 =? 240) eqn:E3; [lia|]. destruct (b0 =? 244) eqn:E4; lia.
Qed.

(* ---- decoding what was encoded gives the characters back ------------------------------------------------ *)
Lemma decode_encode_cp c rest :
  is_scalar c = true -> decode_utf8 (encode_cp c ++ rest) = c :: decode_utf8 rest.
Proof.
  intros Hsc. unfold is_scalar in Hsc. unfold encode_cp.
  destruct (c <? 128) eqn:E1.
  { cbn [app decode_utf8]. rewrite E1. reflexivity. }
  destruct (divmod64 c) as [Hc1 Hr1].
  destruct (c <? 2048) eqn:E2.
  { cbn [app]. rewrite decode_seq2; [f_equal; unfold cp2; lia|lia|lia|unfold is_cont; lia]. }
  destruct (divmod64 (c / 64)) as [Hc2 Hr2].
  destruct (c <? 65536) eqn:E3.
  { cbn [app]. change 4096 with (64 * 64). rewrite <- N.div_div by lia.
    rewrite decode_seq3; [f_equal; unfold cp3; lia|lia|lia| |unfold is_cont; lia].
    apply second_ok_intro; lia. }
  destruct (divmod64 (c / 64 / 64)) as [Hc3 Hr3].
  cbn [app]. change 262144 with (64 * 64 * 64). change 4096 with (64 * 64).
  rewrite <- !N.div_div by lia.
  rewrite decode_seq4; [f_equal; unfold cp4; lia|lia|lia| |unfold is_cont; lia|unfold is_cont; lia].
  apply second_ok_intro; lia.
Qed.

Theorem decode_encode cps :
  Forall (fun c => is_scalar c = true) cps -> decode_utf8 (encode_utf8 cps) = cps.
Proof.
  induction 1 as [|c r Hc _ IH]; [reflexivity|].
  unfold encode_utf8 in *. cbn [flat_map]. rewrite decode_encode_cp, IH by exact Hc. reflexivity.
Qed.

(* the same through the incremental decoder, the encoded bytes cut into any pieces *)
Corollary decode_chunks_encode cps chunks :
  Forall (fun c => is_scalar c = true) cps -> List.concat chunks = encode_utf8 cps ->
  decode_chunks chunks = cps.
Proof. intros Hs Heq. rewrite decode_chunks_concat, Heq. apply decode_encode, Hs. Qed.

(* ---- what comes out is always a character (never a surrogate, never above U+10FFFF) --------------------- *)
Theorem decode_scalar bs : Forall (fun c => is_scalar c = true) (decode_utf8 bs).
Proof.
  induction bs as [bs IH] using list_len_ind.
  assert (REPL : is_scalar replacement = true) by reflexivity.
  destruct bs as [|b0 r0]; [constructor|].
  cbn [decode_utf8].
  destruct (b0 <? 128) eqn:E0.
  { constructor; [unfold is_scalar; lia|apply IH; cbn [List.length]; lia]. }
  destruct (bad_lead b0) eqn:E1; [constructor; [exact REPL|apply IH; cbn [List.length]; lia]|].
  unfold bad_lead in E1.
  destruct r0 as [|b1 r1]; [repeat constructor|].
  destruct (second_ok b0 b1) eqn:E2; cbn [negb];
    [|constructor; [exact REPL|apply IH; cbn [List.length]; lia]].
  apply second_ok_elim in E2.
  destruct (b0 <? 224) eqn:E3.
  { constructor; [unfold is_scalar, cp2; lia|apply IH; cbn [List.length]; lia]. }
  destruct r1 as [|b2 r2]; [repeat constructor|].
  destruct (is_cont b2) eqn:E4; cbn [negb];
    [|constructor; [exact REPL|apply IH; cbn [List.length]; lia]].
  unfold is_cont in E4.
  destruct (b0 <? 240) eqn:E5.
  { constructor; [unfold is_scalar, cp3; lia|apply IH; cbn [List.length]; lia]. }
  destruct r2 as [|b3 r3]; [repeat constructor|].
  destruct (is_cont b3) eqn:E6; cbn [negb];
    [|constructor; [exact REPL|apply IH; cbn [List.length]; lia]].
  unfold is_cont in E6.
  constructor; [unfold is_scalar, cp4; lia|apply IH; cbn [List.length]; lia].
Qed.

(* ---- worked examples ---------------------------------------------------------------------------------------- *)
(* "caf\xc3" then "\xa9\n": the two bytes of e-acute arrive in different reads *)
Example split_multibyte :
  decode_chunks [[99; 97; 102; 195]; [169; 10]] = [99; 97; 102; 233; 10]
  /\ decode_utf8 [99; 97; 102; 195; 169; 10] = [99; 97; 102; 233; 10]
  /\ feed dstate0 [99; 97; 102; 195] = ([195], [99; 97; 102])
  /\ feed [195] [169; 10] = ([], [233; 10])
  /\ lines_of (decode_chunks [[99; 97; 102; 195]; [169; 10]]) = [[99; 97; 102; 233; 10]].
Proof. vm_compute. repeat split. Qed.

(* a 4-byte character (U+1F600) one byte per read, a 3-byte one (U+20AC) cut 1+2 and 2+1 *)
Example split_everywhere :
  decode_chunks [[240]; [159]; [152]; [128]] = [128512]
  /\ decode_chunks [[226]; [130; 172]] = [8364] /\ decode_chunks [[226; 130]; [172]] = [8364]
  /\ decode_chunks [[226; 130]; []; [172]] = [8364]
  /\ encode_utf8 [233; 8364; 128512] = [195; 169; 226; 130; 172; 240; 159; 152; 128].
Proof. vm_compute. repeat split. Qed.

(* ill-formed input: one U+FFFD for every maximal subpart *)
Example truncated_at_end : decode_utf8 [226; 130] = [65533]
  /\ decode_chunks [[226]; [130]] = [65533].
Proof. vm_compute. split; reflexivity. Qed.
Example truncated_then_ascii : decode_utf8 [240; 159; 65] = [65533; 65]
  /\ decode_chunks [[240]; [159]; [65]] = [65533; 65] /\ decode_chunks [[240; 159]; [65]] = [65533; 65].
Proof. vm_compute. repeat split. Qed.
Example overlong_slash : decode_utf8 [192; 175] = [65533; 65533]
  /\ decode_chunks [[192]; [175]] = [65533; 65533].
Proof. vm_compute. split; reflexivity. Qed.
Example surrogate : decode_utf8 [237; 160; 128] = [65533; 65533; 65533]
  /\ decode_chunks [[237]; [160]; [128]] = [65533; 65533; 65533]
  /\ decode_chunks [[237; 160]; [128]] = [65533; 65533; 65533]
  /\ feed dstate0 [237; 160] = ([237; 160], [])      (* CPython keeps ED A0 pending ... *)
  /\ finish [237; 160] = [65533; 65533].             (* ... and gives it up at the end *)
Proof. vm_compute. repeat split. Qed.
Example above_range : decode_utf8 [244; 144; 128; 128] = [65533; 65533; 65533; 65533]
  /\ decode_chunks [[244]; [144; 128]; [128]] = [65533; 65533; 65533; 65533]
  /\ decode_utf8 [245; 128; 128; 128] = [65533; 65533; 65533; 65533]
  /\ decode_utf8 [255; 254] = [65533; 65533].
Proof. vm_compute. repeat split. Qed.
Example overlong_3_and_4 : decode_utf8 [224; 128; 128] = [65533; 65533; 65533]
  /\ decode_utf8 [240; 128; 128; 128] = [65533; 65533; 65533; 65533]
  /\ decode_utf8 [224; 160; 128] = [2048] /\ decode_utf8 [240; 144; 128; 128] = [65536]
  /\ decode_utf8 [244; 143; 191; 191] = [1114111] /\ decode_utf8 [237; 159; 191] = [55295]
  /\ decode_utf8 [238; 128; 128] = [57344].
Proof. vm_compute. repeat split. Qed.
Example lone_continuation : decode_utf8 [97; 128; 98; 191; 99] = [97; 65533; 98; 65533; 99].
Proof. vm_compute. reflexivity. Qed.
(* a truncated character directly followed by a complete one *)
Example truncated_then_char : decode_utf8 [226; 130; 226; 130; 172] = [65533; 8364]
  /\ decode_chunks [[226; 130; 226]; [130]; [172]] = [65533; 8364].
Proof. vm_compute. split; reflexivity. Qed.

Print Assumptions decode_chunks_concat.
Print Assumptions decode_chunking_irrelevant.
Print Assumptions lines_chunking_irrelevant.
Print Assumptions lines_of_decode_chunks.
Print Assumptions decode_ascii.
Print Assumptions decode_encode.
Print Assumptions decode_chunks_encode.
Print Assumptions decode_scalar.
Print Assumptions feed_app.
Print Assumptions pending_at_most_3.
Print Assumptions feed_nil.
Print Assumptions feed_trace_total.
