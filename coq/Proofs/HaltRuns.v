(* HaltRuns.v — C10 lifted to whole runs (GDB mode).

   "In GDB mode the debugged program is halted at a message if and only if that message matches the
    breakpoint matcher (and belongs to the selected connection when one is selected), with a notice
    naming the message, and is left running at every other message.  Once halted, `resume` lets it
    continue, `quit` quits, and any other command leaves it halted."

   [gdb_arrival s id th rel m]  what the plugin does with a closure seen on the libwayland connection
                        at address [id] in state [s]: delivered to which connection as which resolved
                        message, or which exception escapes.
   [gdb_message_out]    the COMPLETE output of one message event, any state.
   [halt_step]          C10 for one message, any state: exactly one verdict, the LAST line of the output:
                        [OStop b] with b = selected && matches-breakpoint when the message is delivered,
                        [ORaise e] when its resolution raises; a `Stopped at` notice naming exactly that
                        message, once, iff b = true.
   [halt_event], [halt_iff]   the same at the k-th event of ANY run from ANY state over ANY events:
                        selection and breakpoint matcher are those of the state the run has reached.
   [command_step], [command_event], [command_event_iff], [command_event_run]
                        what GDB is told to execute after a command.
   [halt_stream], [verdicts_stream]   the list of all verdicts of a run, event by event.
   [HaltExamples]       non-vacuity, and the two corners:
                        - a message whose resolution raises gets NO [OStop]: the exception escapes
                          from stop() (no notice, the pause flag stays clear);
                        - after `quit`, every later command (also `resume`) makes GDB execute `quit`:
                          the quit flag is never cleared. *)
From WD Require Import Base Wire Protocol Conn Color LetterId Matcher MatcherParse Show Session.
From WD Require Import ProtocolProofs LetterIdProofs ControllerProofs SessionProofs ConnMgrProofs GdbProofs EofCloses IsolationRuns.
From WD Require Import StreamSpecA GdbRunsA.
From Coq Require Import Lia List.
Import ListNotations.
Open Scope Z_scope.

(* ---- what GDB is told: verdicts of the breakpoint's stop(), commands executed ------------------------ *)
Inductive verdict :=
| VHalt                 (* stop() returned True: the program is halted *)
| VRun                  (* stop() returned False: the program runs on *)
| VRaise (e : exn).     (* an exception escaped from stop() *)

Definition verdict_of (o : oline) : list verdict :=
  match o with
  | OStop true => [VHalt]
  | OStop false => [VRun]
  | ORaise e => [VRaise e]
  | _ => []
  end.
Definition verdicts (o : list oline) : list verdict := flat_map verdict_of o.

Definition is_exec (o : oline) : bool := match o with OExec _ => true | _ => false end.
Definition execs (o : list oline) : list oline := filter is_exec o.

(* the `Stopped at` notice, by shape: the first segment is the text "    Stopped at " (plain or in
   alert_color) and more segments follow *)
Definition is_stop_notice (o : oline) : bool :=
  match o with
  | OOut (Txt s :: _ :: _) =>
      str_eqb s (s2l "    Stopped at ") || str_eqb s (color true alert_color (s2l "    Stopped at "))
  | _ => false
  end.
Definition stop_notices (o : list oline) : list oline := filter is_stop_notice o.

(* the notice naming message [rm] (object table [d] after the message) *)
Definition stop_notice (on : bool) (d : db) (rm : rmsg) : oline :=
  OOut (Txt (color on alert_color (s2l "    Stopped at ")) :: show_msg_body on d rm).

Lemma verdicts_app a b : verdicts (a ++ b) = verdicts a ++ verdicts b.
Proof. apply flat_map_app. Qed.
Lemma execs_app a b : execs (a ++ b) = execs a ++ execs b.
Proof. apply filter_app. Qed.
Lemma stop_notices_app a b : stop_notices (a ++ b) = stop_notices a ++ stop_notices b.
Proof. apply filter_app. Qed.

Lemma is_stop_notice_stop on d rm : is_stop_notice (stop_notice on d rm) = true.
Proof. destruct on; reflexivity. Qed.

(* ---- lines that tell GDB nothing: everything a command prints ----------------------------------------- *)
(* [quiet o]: no verdict, no gdb.execute, no `Stopped at` notice *)
Definition quiet1 (o : oline) : bool :=
  match o with
  | OStop _ | ORaise _ | OExec _ => false
  | _ => negb (is_stop_notice o)
  end.
Definition quiet (o : list oline) : bool := forallb quiet1 o.

Lemma quiet_app a b : quiet (a ++ b) = quiet a && quiet b.
Proof. apply forallb_app. Qed.

Lemma quiet_facts o : quiet o = true -> verdicts o = [] /\ execs o = [] /\ stop_notices o = [].
Proof.
  induction o as [|x o IH]; [repeat split|]. cbn [quiet forallb]. intros H. apply andb_true_iff in H. destruct H as [Hx Ho].
  destruct (IH Ho) as (I1 & I2 & I3). unfold verdicts, execs, stop_notices in *. cbn [flat_map filter]. rewrite I1, I2, I3.
  destruct x; cbn [quiet1] in Hx; try discriminate; cbn [verdict_of is_exec app];
    (apply negb_true_iff in Hx; rewrite Hx; repeat split).
Qed.

Ltac finq :=
  cbn [fst snd]; rewrite ?quiet_app;
  try (match goal with H : quiet _ = true |- _ => exact H end);
  repeat match goal with H : quiet _ = true |- _ => rewrite H; clear H end; try reflexivity.

Lemma error_line_quiet on l : quiet1 (error_line on l) = true.
Proof. reflexivity. Qed.

Lemma txt_quiet s : quiet1 (OOut (txt s)) = true.
Proof. reflexivity. Qed.

Lemma get_command_quiet on c : quiet (snd (get_command' on c)) = true.
Proof. unfold get_command'. destruct (filter (starts_with c) command_names) as [|x [|y l]]; reflexivity. Qed.

Lemma resolve_cmd_quiet fuel : forall on input, quiet (fst (resolve_cmd fuel on input)) = true.
Proof.
  induction fuel as [|f IH]; intros on input; [reflexivity|]. cbn [resolve_cmd].
  repeat match goal with
  | |- context [resolve_cmd f ?a ?b] =>
      let H := fresh "HR" in pose proof (IH a b) as H; destruct (resolve_cmd f a b); cbn [fst] in H
  | |- context [get_command' ?a ?b] =>
      let H := fresh "HC" in pose proof (get_command_quiet a b) as H; destruct (get_command' a b); cbn [snd] in H
  | |- context [if ?b then _ else _] => destruct b
  | |- context [match ?x with _ => _ end] => destruct x
  end; finq.
Qed.

Lemma sep_line_quiet on delta : quiet1 (OOut (sep_line on delta)) = true /\ quiet1 (OMaybe (sep_line on delta)) = true.
Proof. destruct on; split; reflexivity. Qed.

Lemma show_message_quiet on ci d cn last m : quiet (fst (show_message on ci d cn last m)) = true.
Proof.
  unfold show_message. cbn [fst]. destruct (1000000 <? _); [destruct on; reflexivity|].
  destruct (_ =? _); reflexivity.
Qed.

Lemma show_messages_quiet s m cap : quiet (snd (show_messages s m cap)) = true.
Proof.
  unfold show_messages. destruct (scan_matching _ _ _ _ _ _) as [[matching d] ns].
  destruct matching as [|x matching]; [destruct (s_conns s); reflexivity|].
  match goal with |- context [fold_left ?f _ _] => set (F := f) end.
  assert (G : forall l acc, quiet (fst acc) = true -> quiet (fst (fold_left F l acc)) = true).
  { induction l as [|p l IHl]; intros acc H; cbn [fold_left]; [exact H|]. apply IHl. unfold F.
    destruct (nth_error (s_conns s) (fst p)) as [c|]; [|exact H].
    pose proof (show_message_quiet (s_color s) (fst p) (c_db c) (c_name c) (snd acc) (snd p)) as H0.
    destruct (show_message _ _ _ _ _ _) as [o l']. cbn [fst] in *. rewrite quiet_app, H, H0. reflexivity. }
  specialize (G (x :: matching) ([], None) eq_refl).
  destruct (fold_left F (x :: matching) ([], None)) as [outs lst]. cbn [fst snd] in *.
  rewrite !quiet_app, G. reflexivity.
Qed.

Lemma parse_and_join_quiet s t old :
  match parse_and_join s t old with Ok (m, errs) => quiet errs = true | Raise _ _ => True end.
Proof.
  unfold parse_and_join. destruct (parse t) as [p|e msg]; [reflexivity|]. destruct e; try exact I. reflexivity.
Qed.

Lemma list_connections_quiet s : quiet (list_connections s) = true.
Proof.
  unfold list_connections. generalize 0%nat. induction (s_conns s) as [|c cs IH]; intros i; [reflexivity|].
  exact (IH (S i)).
Qed.

Ltac crunchq :=
  repeat match goal with
  | |- context [show_messages ?a ?b ?c] =>
      let H := fresh "HS" in pose proof (show_messages_quiet a b c) as H; destruct (show_messages a b c); cbn [snd] in H
  | |- context [parse_and_join ?a ?b ?c] =>
      let H := fresh "HP" in pose proof (parse_and_join_quiet a b c) as H; destruct (parse_and_join a b c) as [[? ?]|? ?]
  | |- context [get_command' ?a ?b] =>
      let H := fresh "HC" in pose proof (get_command_quiet a b) as H; destruct (get_command' a b); cbn [snd] in H
  | |- context [list_connections ?a] =>
      let H := fresh "HL" in pose proof (list_connections_quiet a) as H; generalize dependent (list_connections a); intros
  | |- context [if ?b then _ else _] => destruct b
  | |- context [match ?x with _ => _ end] => destruct x
  end; finq.

Lemma cmd_help_quiet s a : quiet (snd (cmd_help s a)) = true.
Proof. unfold cmd_help. crunchq. Qed.
Lemma cmd_list_quiet s a : quiet (snd (cmd_list s a)) = true.
Proof. unfold cmd_list. crunchq. Qed.
Lemma cmd_filter_quiet s a : quiet (snd (cmd_filter s a)) = true.
Proof. unfold cmd_filter. crunchq. Qed.
Lemma cmd_break_quiet s a : quiet (snd (cmd_break s a)) = true.
Proof. unfold cmd_break. crunchq. Qed.
Lemma cmd_matcher_quiet s a : quiet (snd (cmd_matcher s a)) = true.
Proof. unfold cmd_matcher. crunchq. Qed.
Lemma cmd_connection_quiet s a : quiet (snd (cmd_connection s a)) = true.
Proof. unfold cmd_connection. crunchq. Qed.

Lemma run_command_quiet s n a : quiet (snd (run_command s n a)) = true.
Proof.
  unfold run_command.
  destruct (str_eqb n (s2l "help")); [apply cmd_help_quiet|].
  destruct (str_eqb n (s2l "list")); [apply cmd_list_quiet|].
  destruct (str_eqb n (s2l "filter")); [apply cmd_filter_quiet|].
  destruct (str_eqb n (s2l "breakpoint")); [apply cmd_break_quiet|].
  destruct (str_eqb n (s2l "matcher")); [apply cmd_matcher_quiet|].
  destruct (str_eqb n (s2l "connection")); [apply cmd_connection_quiet|].
  destruct (str_eqb n (s2l "resume")); [reflexivity|]. destruct (str_eqb n (s2l "quit")); reflexivity.
Qed.

(* a command prints nothing that GDB acts upon *)
Lemma process_command_quiet fuel s input : quiet (snd (process_command fuel s input)) = true.
Proof.
  unfold process_command. pose proof (resolve_cmd_quiet fuel (s_color s) input) as H.
  destruct (resolve_cmd fuel (s_color s) input) as [pre [[name arg]|]]; cbn [fst] in H; [|exact H].
  pose proof (run_command_quiet s name arg) as H2. destruct (run_command s name arg) as [s1 o]. cbn [snd] in *.
  rewrite quiet_app, H, H2. reflexivity.
Qed.

(* ---- small frame facts ----------------------------------------------------------------------------------- *)
Lemma close_conn_flags s id :
  let s' := fst (close_conn s id) in s_paused s' = s_paused s /\ s_quit s' = s_quit s.
Proof.
  unfold close_conn. destruct (find_open s id) as [i|]; [|split; reflexivity].
  destruct (nth_error (s_conns s) i); split; reflexivity.
Qed.

Lemma open_conn_flags s id sv :
  let s' := fst (open_conn s id sv) in s_paused s' = s_paused s /\ s_quit s' = s_quit s.
Proof.
  unfold open_conn. pose proof (close_conn_flags s id) as H.
  destruct (close_conn s id) as [s1 o1]. cbn [fst] in *. exact H.
Qed.

Lemma close_conn_quiet s id : quiet (snd (close_conn s id)) = true.
Proof.
  unfold close_conn. destruct (find_open s id) as [i|]; [|reflexivity].
  destruct (nth_error (s_conns s) i); reflexivity.
Qed.

Lemma open_conn_quiet s id sv : quiet (snd (open_conn s id sv)) = true.
Proof.
  destruct (open_conn_spec s id sv) as (_ & _ & ->). rewrite quiet_app, close_conn_quiet. reflexivity.
Qed.

Section WithP.
Variable P : pdb.

(* ---- what the plugin does with one closure ------------------------------------------------------------ *)
Inductive gdb_outcome :=
| GDelivered (ci : nat) (cn : str) (d : db) (rm : rmsg)   (* resolved; connection index, name, table after *)
| GRaised (e : exn).                                      (* resolution raised [e] (or no open connection) *)

Definition gdb_arrival (s : sess) (id : str) (th rel : Z) (m : pmsg) : gdb_outcome :=
  let s2 := pre_gdb s id th m in
  match find_open s2 id with
  | None => GRaised AssertionError
  | Some i =>
      match nth_error (s_conns s2) i with
      | None => GRaised AssertionError
      | Some c =>
          let '(d', rm, err) := resolve_msg P (c_db c) rel m in
          match err with
          | None => GDelivered i (c_name c) d' rm
          | Some (e, _) => GRaised e
          end
      end
  end.

(* connection-opened notice for a new address (preceded by a closed notice if an open connection
   still had that address) *)
Definition gdb_notices (s : sess) (id : str) (m : pmsg) : list oline :=
  match gdb_get (s_gdb s) id with
  | Some _ => []
  | None => snd (open_conn (set_pause s false (s_quit s)) id (is_get_registry m))
  end.

(* the foreign-thread warning *)
Definition gdb_warn (s2 : sess) (id : str) (thread : Z) : list oline :=
  match gdb_get (s_gdb s2) id, find_open s2 id with
  | Some t, Some i =>
      match nth_error (s_conns s2) i with
      | Some c => match c_server c with
                  | Some false => []
                  | _ => if t =? thread then [] else [warn_line (s_color s2) [AnyText]]
                  end
      | None => []
      end
  | _, _ => []
  end.

(* the halt decision for a delivered message under controller state [k] *)
Definition halts (k : ctrl) (ci : nat) (cn : str) (d : db) (rm : rmsg) : bool :=
  selected (k_current k) ci && matches (k_stop k) (VM (view_msg d cn rm)).

(* what the controller prints for the message: the live view's lines (the message if it passes the
   display filter, behind a separator when due), then the notice if the program is halted *)
Definition live_lines (on : bool) (k : ctrl) (ci : nat) (cn : str) (d : db) (rm : rmsg) : list oline :=
  if selected (k_current k) ci && matches (k_display k) (VM (view_msg d cn rm))
  then fst (show_message on ci d cn (k_last_shown k) rm) else [].

Definition gdb_body (s : sess) (a : gdb_outcome) : list oline :=
  match a with
  | GDelivered ci cn d rm =>
      live_lines (s_color s) (s_ctrl s) ci cn d rm
      ++ (if halts (s_ctrl s) ci cn d rm then [stop_notice (s_color s) d rm] else [])
      ++ [OStop (halts (s_ctrl s) ci cn d rm)]
  | GRaised e => [ORaise e]
  end.

Lemma ctrl_on_message_out on k ci d cn rm :
  snd (fst (ctrl_on_message on k ci d cn rm)) =
    live_lines on k ci cn d rm ++ (if halts k ci cn d rm then [stop_notice on d rm] else []) /\
  snd (ctrl_on_message on k ci d cn rm) = halts k ci cn d rm.
Proof.
  unfold ctrl_on_message, live_lines, halts, selected, stop_notice.
  destruct (match k_current k with None => true | Some j => Nat.eqb j ci end); cbn [andb]; [|split; reflexivity].
  destruct (matches (k_display k) (VM (view_msg d cn rm))).
  - destruct (show_message on ci d cn (k_last_shown k) rm) as [o1 l1]. cbn [fst snd]. split; reflexivity.
  - cbn [fst snd]. split; reflexivity.
Qed.

Lemma pre_gdb_frame s id th m :
  let s2 := pre_gdb s id th m in
  s_ctrl s2 = s_ctrl s /\ s_color s2 = s_color s /\ s_paused s2 = false /\ s_quit s2 = s_quit s.
Proof.
  unfold pre_gdb. cbn zeta. set (s1 := set_pause s false (s_quit s)).
  destruct (gdb_get (s_gdb s1) id); [repeat split|].
  destruct (open_conn_misc s1 id (is_get_registry m)) as (H1 & H2 & _).
  destruct (open_conn_flags s1 id (is_get_registry m)) as (H3 & H4). cbn zeta in *.
  cbn [set_gdb s_ctrl s_color s_paused s_quit]. rewrite H1, H2, H3, H4. repeat split.
Qed.

(* what delivering does: error, output, pause flag, quit flag *)
Lemma conn_message_full s2 id rel m :
  let r := conn_message P s2 id rel m in
  let s3 := fst (fst (fst r)) in
  s_quit s3 = s_quit s2 /\ s_color s3 = s_color s2 /\
  match find_open s2 id with
  | None => snd (fst r) = Some (AssertionError, []) /\ snd (fst (fst r)) = [] /\ s_paused s3 = s_paused s2
  | Some i =>
      match nth_error (s_conns s2) i with
      | None => snd (fst r) = Some (AssertionError, []) /\ snd (fst (fst r)) = [] /\ s_paused s3 = s_paused s2
      | Some c =>
          let '(d', rm, err) := resolve_msg P (c_db c) rel m in
          snd (fst r) = err /\
          match err with
          | Some _ => snd (fst (fst r)) = [] /\ s_paused s3 = s_paused s2
          | None => snd (fst (fst r)) = snd (fst (ctrl_on_message (s_color s2) (s_ctrl s2) i d' (c_name c) rm)) /\
                    s_paused s3 = (snd (ctrl_on_message (s_color s2) (s_ctrl s2) i d' (c_name c) rm) || s_paused s2)
          end
      end
  end.
Proof.
  unfold conn_message. destruct (find_open s2 id) as [i|]; [|repeat split].
  destruct (nth_error (s_conns s2) i) as [c|]; [|repeat split].
  destruct (resolve_msg P (c_db c) rel m) as [[d' rm] err]. cbn [fst snd].
  destruct err as [e|]; [repeat split|].
  destruct (ctrl_on_message (s_color s2) (s_ctrl s2) i d' (c_name c) rm) as [[k' outs] stop].
  destruct stop; repeat split.
Qed.

Lemma gdb_message_snd s id th rel m :
  snd (gdb_message P s id th rel m) =
  let r := conn_message P (pre_gdb s id th m) id rel m in
  gdb_notices s id m ++ gdb_warn (pre_gdb s id th m) id th ++ snd (fst (fst r)) ++
  match snd (fst r) with
  | None => [OStop (s_paused (fst (fst (fst r))))]
  | Some (e, _) => [ORaise e]
  end.
Proof.
  unfold gdb_message, gdb_notices, gdb_warn, pre_gdb. cbn zeta. set (s1 := set_pause s false (s_quit s)).
  change (s_gdb s1) with (s_gdb s).
  destruct (gdb_get (s_gdb s) id).
  - destruct (conn_message P s1 id rel m) as [[[s3 o2] err] st]. cbn [fst snd app].
    destruct err as [[e msg]|]; reflexivity.
  - destruct (open_conn s1 id (is_get_registry m)) as [sa oa]. cbn [fst snd].
    destruct (conn_message P _ id rel m) as [[[s3 o2] err] st]. cbn [fst snd].
    destruct err as [[e msg]|]; reflexivity.
Qed.

(* THE COMPLETE OUTPUT OF ONE GDB MESSAGE EVENT, any state *)
Theorem gdb_message_out s id th rel m :
  snd (gdb_message P s id th rel m) =
  gdb_notices s id m ++ gdb_warn (pre_gdb s id th m) id th ++ gdb_body s (gdb_arrival s id th rel m).
Proof.
  rewrite gdb_message_snd. cbn zeta. unfold gdb_arrival.
  destruct (pre_gdb_frame s id th m) as (Hk & Hc & Hp & Hq). cbn zeta in Hk, Hc, Hp, Hq.
  set (s2 := pre_gdb s id th m) in *.
  destruct (conn_message_full s2 id rel m) as (_ & _ & H). cbn zeta in H.
  destruct (find_open s2 id) as [i|].
  2: { destruct H as (-> & -> & _). reflexivity. }
  destruct (nth_error (s_conns s2) i) as [c|].
  2: { destruct H as (-> & -> & _). reflexivity. }
  destruct (resolve_msg P (c_db c) rel m) as [[d' rm] err]. destruct H as [-> H].
  destruct err as [[e msg]|].
  - destruct H as [-> _]. reflexivity.
  - destruct H as [-> ->]. rewrite Hp, orb_false_r, Hc, Hk. cbn [gdb_body].
    destruct (ctrl_on_message_out (s_color s) (s_ctrl s) i d' (c_name c) rm) as [-> ->].
    rewrite <- !app_assoc. reflexivity.
Qed.

(* the state after the event: the pause flag is the verdict (clear when an exception escaped) *)
Theorem gdb_message_paused s id th rel m :
  s_paused (fst (gdb_message P s id th rel m)) =
  match gdb_arrival s id th rel m with
  | GDelivered ci cn d rm => halts (s_ctrl s) ci cn d rm
  | GRaised _ => false
  end.
Proof.
  rewrite gdb_message_state. unfold gdb_arrival.
  destruct (pre_gdb_frame s id th m) as (Hk & Hc & Hp & Hq). cbn zeta in Hk, Hc, Hp, Hq.
  set (s2 := pre_gdb s id th m) in *.
  destruct (conn_message_full s2 id rel m) as (_ & _ & H). cbn zeta in H.
  destruct (find_open s2 id) as [i|].
  2: { destruct H as (_ & _ & ->). exact Hp. }
  destruct (nth_error (s_conns s2) i) as [c|].
  2: { destruct H as (_ & _ & ->). exact Hp. }
  destruct (resolve_msg P (c_db c) rel m) as [[d' rm] err]. destruct H as [_ H].
  destruct err as [[e msg]|].
  - destruct H as [_ ->]. exact Hp.
  - destruct H as [_ ->]. rewrite Hp, orb_false_r, Hc, Hk.
    apply (ctrl_on_message_out (s_color s) (s_ctrl s) i d' (c_name c) rm).
Qed.

Lemma gdb_message_flags s id th rel m :
  s_quit (fst (gdb_message P s id th rel m)) = s_quit s /\ s_color (fst (gdb_message P s id th rel m)) = s_color s.
Proof.
  rewrite gdb_message_state.
  destruct (pre_gdb_frame s id th m) as (_ & Hc & _ & Hq). cbn zeta in Hc, Hq.
  destruct (conn_message_full (pre_gdb s id th m) id rel m) as (H1 & H2 & _). cbn zeta in H1, H2.
  rewrite H1, H2, Hc, Hq. split; reflexivity.
Qed.

(* ---- C10, one message, any state -------------------------------------------------------------------------- *)
Lemma gdb_notices_quiet s id m : quiet (gdb_notices s id m) = true.
Proof. unfold gdb_notices. destruct (gdb_get (s_gdb s) id); [reflexivity|apply open_conn_quiet]. Qed.

Lemma gdb_warn_quiet s2 id th : quiet (gdb_warn s2 id th) = true.
Proof.
  unfold gdb_warn. destruct (gdb_get (s_gdb s2) id) as [t|]; [|reflexivity].
  destruct (find_open s2 id) as [i|]; [|reflexivity].
  destruct (nth_error (s_conns s2) i) as [c|]; [|reflexivity].
  destruct (c_server c) as [[|]|]; try reflexivity; destruct (t =? th); reflexivity.
Qed.

Lemma live_lines_quiet on k ci cn d rm : quiet (live_lines on k ci cn d rm) = true.
Proof. unfold live_lines. destruct (_ && _); [apply show_message_quiet|reflexivity]. Qed.

(* For a delivered message the output is: quiet lines (notices, warning, live view), the `Stopped at`
   notice iff the verdict is "halt", and the verdict as the last line.  For a message whose
   resolution raises: quiet lines, then the exception; no verdict is returned, nothing is printed
   about it. *)
Theorem halt_step s id th rel m :
  let o := snd (gdb_message P s id th rel m) in
  match gdb_arrival s id th rel m with
  | GDelivered ci cn d rm =>
      let b := halts (s_ctrl s) ci cn d rm in
      exists pre, quiet pre = true /\
        o = pre ++ (if b then [stop_notice (s_color s) d rm] else []) ++ [OStop b]
  | GRaised e => exists pre, quiet pre = true /\ o = pre ++ [ORaise e]
  end.
Proof.
  cbn zeta. rewrite gdb_message_out.
  pose proof (gdb_notices_quiet s id m) as Q1. pose proof (gdb_warn_quiet (pre_gdb s id th m) id th) as Q2.
  destruct (gdb_arrival s id th rel m) as [ci cn d rm|e]; cbn [gdb_body].
  - exists (gdb_notices s id m ++ gdb_warn (pre_gdb s id th m) id th ++ live_lines (s_color s) (s_ctrl s) ci cn d rm).
    split; [rewrite !quiet_app, Q1, Q2, live_lines_quiet; reflexivity|]. rewrite <- !app_assoc. reflexivity.
  - exists (gdb_notices s id m ++ gdb_warn (pre_gdb s id th m) id th).
    split; [rewrite !quiet_app, Q1, Q2; reflexivity|]. rewrite <- !app_assoc. reflexivity.
Qed.

(* the same, read off the output: exactly one verdict; the notice exactly when halted *)
Definition verdict_spec (k : ctrl) (a : gdb_outcome) : verdict :=
  match a with
  | GDelivered ci cn d rm => if halts k ci cn d rm then VHalt else VRun
  | GRaised e => VRaise e
  end.
Definition notice_spec (on : bool) (k : ctrl) (a : gdb_outcome) : list oline :=
  match a with
  | GDelivered ci cn d rm => if halts k ci cn d rm then [stop_notice on d rm] else []
  | GRaised e => []
  end.

Theorem halt_step_read s id th rel m :
  let o := snd (gdb_message P s id th rel m) in
  let a := gdb_arrival s id th rel m in
  verdicts o = [verdict_spec (s_ctrl s) a] /\
  stop_notices o = notice_spec (s_color s) (s_ctrl s) a /\
  execs o = [] /\
  (exists pre x, o = pre ++ [x] /\ verdict_of x = [verdict_spec (s_ctrl s) a]).
Proof.
  cbn zeta. pose proof (halt_step s id th rel m) as H. cbn zeta in H.
  destruct (gdb_arrival s id th rel m) as [ci cn d rm|e]; cbn [verdict_spec notice_spec].
  - destruct H as (pre & Q & ->). destruct (quiet_facts pre Q) as (V & E & N).
    rewrite !verdicts_app, !stop_notices_app, !execs_app, V, E, N. cbn [app].
    pose proof (is_stop_notice_stop (s_color s) d rm) as Hn.
    destruct (halts (s_ctrl s) ci cn d rm).
    + unfold stop_notices, execs. cbn [filter app]. rewrite Hn. cbn [is_exec is_stop_notice].
      split; [reflexivity|]. split; [reflexivity|]. split; [reflexivity|].
      exists (pre ++ [stop_notice (s_color s) d rm]), (OStop true). rewrite <- app_assoc. split; reflexivity.
    + split; [reflexivity|]. split; [reflexivity|]. split; [reflexivity|].
      exists pre, (OStop false). split; reflexivity.
  - destruct H as (pre & Q & ->). destruct (quiet_facts pre Q) as (V & E & N).
    rewrite !verdicts_app, !stop_notices_app, !execs_app, V, E, N.
    split; [reflexivity|]. split; [reflexivity|]. split; [reflexivity|].
    exists pre, (ORaise e). split; reflexivity.
Qed.

(* ---- whole runs: the k-th event ---------------------------------------------------------------------------- *)
Definition gdb_arrival_top (T : top) (id : str) (th : Z) (m : pmsg) : gdb_outcome :=
  gdb_arrival (t_sess T) id th (snd (rel_time (t_base T) (p_time m))) m.

Lemma step_gdbmsg_out T id th m :
  snd (step P T (EGdbMsg id th m)) =
  snd (gdb_message P (t_sess T) id th (snd (rel_time (t_base T) (p_time m))) m).
Proof.
  destruct T as [b0 s]. unfold step. cbn [t_base t_sess].
  destruct (rel_time b0 (p_time m)) as [b' rel]. cbn [fst snd].
  destruct (gdb_message P s id th rel m) as [s1 o]. reflexivity.
Qed.

Lemma step_gdbmsg_sess T id th m :
  t_sess (fst (step P T (EGdbMsg id th m))) =
  fst (gdb_message P (t_sess T) id th (snd (rel_time (t_base T) (p_time m))) m).
Proof.
  destruct T as [b0 s]. unfold step. cbn [t_base t_sess].
  destruct (rel_time b0 (p_time m)) as [b' rel]. cbn [fst snd].
  destruct (gdb_message P s id th rel m) as [s1 o]. reflexivity.
Qed.

(* For every run, from any state, over any events: if the k-th event is a closure seen by the
   breakpoint, its output ends with the verdict - halt exactly when the message, as resolved on its
   connection, belongs to the connection selected just before that event (or none is selected) and
   matches the breakpoint matcher in force just before that event; run on otherwise - preceded by a
   `Stopped at` notice naming that message exactly when the verdict is halt.  When resolving the
   message raises, the exception escapes instead: no verdict, no notice. *)
Theorem halt_event T evs k id th m :
  nth_error evs k = Some (EGdbMsg id th m) ->
  let Tk := fst (run P T (firstn k evs)) in
  let kc := s_ctrl (t_sess Tk) in
  exists o, nth_error (snd (run P T evs)) k = Some o /\
    match gdb_arrival_top Tk id th m with
    | GDelivered ci cn d rm =>
        let b := selected (k_current kc) ci && matches (k_stop kc) (VM (view_msg d cn rm)) in
        exists pre, quiet pre = true /\
          o = pre ++ (if b then [stop_notice (s_color (t_sess Tk)) d rm] else []) ++ [OStop b]
    | GRaised e => exists pre, quiet pre = true /\ o = pre ++ [ORaise e]
    end.
Proof.
  intros H Tk kc. eexists. split; [apply run_nth; exact H|].
  fold Tk. rewrite step_gdbmsg_out. apply halt_step.
Qed.

(* ... as "if and only if" statements about the output of the k-th event *)
Corollary halt_iff T evs k id th m o :
  nth_error evs k = Some (EGdbMsg id th m) -> nth_error (snd (run P T evs)) k = Some o ->
  let Tk := fst (run P T (firstn k evs)) in
  let kc := s_ctrl (t_sess Tk) in
  (* halted iff delivered, selected, matching *)
  (In (OStop true) o <->
     exists ci cn d rm, gdb_arrival_top Tk id th m = GDelivered ci cn d rm /\
       selected (k_current kc) ci = true /\ matches (k_stop kc) (VM (view_msg d cn rm)) = true) /\
  (* left running iff delivered and (not selected or not matching) *)
  (In (OStop false) o <->
     exists ci cn d rm, gdb_arrival_top Tk id th m = GDelivered ci cn d rm /\
       selected (k_current kc) ci && matches (k_stop kc) (VM (view_msg d cn rm)) = false) /\
  (* an exception escapes iff resolving raises it *)
  (forall e, In (ORaise e) o <-> gdb_arrival_top Tk id th m = GRaised e) /\
  (* exactly one of these, and it is the last line *)
  (exists v, verdicts o = [v] /\ exists pre x, o = pre ++ [x] /\ verdict_of x = [v]) /\
  (* a notice iff halted, and it names the message *)
  (forall x, In x o -> is_stop_notice x = true ->
     In (OStop true) o /\ exists ci cn d rm, gdb_arrival_top Tk id th m = GDelivered ci cn d rm /\
                                            x = stop_notice (s_color (t_sess Tk)) d rm) /\
  (In (OStop true) o -> exists x, stop_notices o = [x]) /\
  (* GDB is not told to execute anything *)
  execs o = [].
Proof.
  intros He Ho Tk kc.
  assert (Hn : o = snd (step P Tk (EGdbMsg id th m))).
  { pose proof (run_nth P evs T k _ He) as Hn. rewrite Ho in Hn. fold Tk in Hn. congruence. }
  rewrite step_gdbmsg_out in Hn.
  pose proof (halt_step_read (t_sess Tk) id th (snd (rel_time (t_base Tk) (p_time m))) m) as R.
  cbn zeta in R. rewrite <- Hn in R. fold (gdb_arrival_top Tk id th m) in R. fold kc in R.
  destruct R as (RV & RN & RE & RL).
  assert (InV : forall x, In x o -> verdict_of x <> [] -> verdict_of x = [verdict_spec kc (gdb_arrival_top Tk id th m)]).
  { intros x Hx Hv. apply in_split in Hx. destruct Hx as (l1 & l2 & ->).
    rewrite verdicts_app in RV. change (verdicts (x :: l2)) with (verdict_of x ++ verdicts l2) in RV.
    destruct (verdicts l1) as [|v1 r1]; cbn [app] in RV.
    - destruct x as [| | | | | |[|]|e|]; cbn [verdict_of] in *; try contradiction; cbn [app] in RV; congruence.
    - destruct x as [| | | | | |[|]|e|]; cbn [verdict_of] in *; try contradiction; cbn [app] in RV;
        injection RV as _ RV; destruct r1; discriminate. }
  assert (VIn : forall x, verdict_of x = [verdict_spec kc (gdb_arrival_top Tk id th m)] -> (forall y, verdict_of y = verdict_of x -> y = x) -> In x o).
  { intros x Hx Hinj. destruct RL as (pre & y & -> & Hy). rewrite <- Hx in Hy. rewrite (Hinj y Hy).
    apply in_or_app. right. left. reflexivity. }
  assert (Inj : forall x, (exists b, x = OStop b) \/ (exists e, x = ORaise e) -> forall y, verdict_of y = verdict_of x -> y = x).
  { intros x Hx y Hy. destruct Hx as [[b ->]|[e ->]].
    - destruct b; destruct y as [| | | | | |[|]|e|]; cbn [verdict_of] in Hy; try discriminate; reflexivity.
    - destruct y as [| | | | | |[|]|e'|]; cbn [verdict_of] in Hy; try discriminate. injection Hy as ->. reflexivity. }
  split; [|split; [|split; [|split; [|split; [|split]]]]].
  - split.
    + intros Hin. specialize (InV _ Hin ltac:(discriminate)). cbn [verdict_of] in InV.
      destruct (gdb_arrival_top Tk id th m) as [ci cn d rm|e]; cbn [verdict_spec] in InV; [|discriminate].
      unfold halts in InV. exists ci, cn, d, rm. split; [reflexivity|].
      destruct (selected (k_current kc) ci); destruct (matches (k_stop kc) _); cbn [andb] in InV; try discriminate. split; reflexivity.
    + intros (ci & cn & d & rm & Ea & Hs & Hm). apply VIn; [|apply Inj; left; eexists; reflexivity].
      rewrite Ea. cbn [verdict_spec verdict_of]. unfold halts. rewrite Hs, Hm. reflexivity.
  - split.
    + intros Hin. specialize (InV _ Hin ltac:(discriminate)). cbn [verdict_of] in InV.
      destruct (gdb_arrival_top Tk id th m) as [ci cn d rm|e]; cbn [verdict_spec] in InV; [|discriminate].
      unfold halts in InV. exists ci, cn, d, rm. split; [reflexivity|].
      destruct (selected (k_current kc) ci && matches (k_stop kc) _); [discriminate|reflexivity].
    + intros (ci & cn & d & rm & Ea & Hb). apply VIn; [|apply Inj; left; eexists; reflexivity].
      rewrite Ea. cbn [verdict_spec verdict_of]. unfold halts. rewrite Hb. reflexivity.
  - intros e. split.
    + intros Hin. specialize (InV _ Hin ltac:(discriminate)). cbn [verdict_of] in InV.
      destruct (gdb_arrival_top Tk id th m) as [ci cn d rm|e']; cbn [verdict_spec] in InV.
      * destruct (halts kc ci cn d rm); discriminate.
      * congruence.
    + intros Ea. apply VIn; [|apply Inj; right; eexists; reflexivity]. rewrite Ea. reflexivity.
  - exists (verdict_spec kc (gdb_arrival_top Tk id th m)). split; [exact RV|exact RL].
  - intros x Hx Hs. assert (Hf : In x (stop_notices o)) by (apply filter_In; split; assumption).
    rewrite RN in Hf. destruct (gdb_arrival_top Tk id th m) as [ci cn d rm|e] eqn:Ea; cbn [notice_spec] in Hf; [|destruct Hf].
    destruct (halts kc ci cn d rm) eqn:Eh; [|destruct Hf]. destruct Hf as [<-|[]]. split.
    + apply VIn; [|apply Inj; left; eexists; reflexivity]. cbn [verdict_spec verdict_of]. rewrite Eh. reflexivity.
    + exists ci, cn, d, rm. split; reflexivity.
  - intros Hin. specialize (InV _ Hin ltac:(discriminate)). cbn [verdict_of] in InV. rewrite RN.
    destruct (gdb_arrival_top Tk id th m) as [ci cn d rm|e]; cbn [verdict_spec notice_spec] in *; [|discriminate].
    destruct (halts kc ci cn d rm); [|discriminate]. eexists. reflexivity.
  - exact RE.
Qed.

(* ---- commands ------------------------------------------------------------------------------------------------ *)
Lemma step_gdbcmd_out T c : snd (step P T (EGdbCmd c)) = snd (gdb_command (t_sess T) c).
Proof.
  destruct T as [ob s]. unfold step. cbn [t_sess t_base]. generalize (gdb_command s c). intros [s1 o]. reflexivity.
Qed.

Lemma step_gdbcmd_sess T c : t_sess (fst (step P T (EGdbCmd c))) = fst (gdb_command (t_sess T) c).
Proof.
  destruct T as [ob s]. unfold step. cbn [t_sess t_base]. generalize (gdb_command s c). intros [s1 o]. reflexivity.
Qed.

Lemma step_gdbdestroy_out T id : snd (step P T (EGdbDestroy id)) = snd (gdb_destroy (t_sess T) id).
Proof. destruct T as [ob s]. unfold step. cbn [t_sess t_base]. generalize (gdb_destroy s id). intros [s1 o]. reflexivity. Qed.

Lemma execs_after_command q r : execs (after_command q r) = after_command q r.
Proof.
  unfold after_command. destruct r as [n|]; [|destruct q; reflexivity].
  destruct (str_eqb n (s2l "resume")); [destruct q; reflexivity|].
  destruct (str_eqb n (s2l "quit")); [reflexivity|destruct q; reflexivity].
Qed.

Lemma after_command_no_verdict q r : verdicts (after_command q r) = [] /\ stop_notices (after_command q r) = [].
Proof.
  unfold after_command. destruct r as [n|]; [|destruct q; split; reflexivity].
  destruct (str_eqb n (s2l "resume")); [destruct q; split; reflexivity|].
  destruct (str_eqb n (s2l "quit")); [split; reflexivity|destruct q; split; reflexivity].
Qed.

(* what a command typed at the GDB prompt makes GDB do: quiet lines (whatever the command prints),
   then [after_command]: `continue` if the line resolves to resume, `quit` if it resolves to quit
   (or quit was requested before), nothing otherwise; no verdict, no notice *)
Theorem command_step s c :
  let o := snd (gdb_command s c) in
  (exists pre, quiet pre = true /\ o = pre ++ after_command (s_quit s) (resolves_to (s_color s) c)) /\
  execs o = after_command (s_quit s) (resolves_to (s_color s) c) /\
  verdicts o = [] /\ stop_notices o = [].
Proof.
  cbn zeta. pose proof (gdb_command_spec s c) as H. cbn zeta in H.
  pose proof (process_command_quiet command_fuel (set_pause s true (s_quit s)) c) as Q.
  destruct (process_command command_fuel (set_pause s true (s_quit s)) c) as [s1 o1]. rewrite H. cbn [snd] in *.
  destruct (quiet_facts _ Q) as (V & E & N).
  destruct (after_command_no_verdict (s_quit s) (resolves_to (s_color s) c)) as [V2 N2].
  split; [exists o1; split; [exact Q|reflexivity]|].
  rewrite execs_app, verdicts_app, stop_notices_app, V, E, N, V2, N2, execs_after_command. repeat split.
Qed.

(* the flags after a command *)
Lemma gdb_command_flags s c :
  s_color (fst (gdb_command s c)) = s_color s /\
  s_quit (fst (gdb_command s c)) =
    (s_quit s || match resolves_to (s_color s) c with Some n => str_eqb n (s2l "quit") | None => false end).
Proof.
  pose proof (gdb_command_spec s c) as H. cbn zeta in H.
  pose proof (process_command_pause (set_pause s true (s_quit s)) c) as HP.
  pose proof (process_command_color (set_pause s true (s_quit s)) c) as HC.
  destruct (process_command command_fuel (set_pause s true (s_quit s)) c) as [s1 o1]. rewrite H. cbn [fst] in *.
  change (s_color (set_pause s true (s_quit s))) with (s_color s) in *.
  split; [exact HC|]. unfold pause_of in HP. cbn [set_pause s_paused s_quit] in HP.
  destruct (resolves_to (s_color s) c) as [n|].
  - destruct (str_eqb n (s2l "resume")) eqn:Er.
    + apply str_eqb_eq in Er. subst n. injection HP as _ ->.
      change (str_eqb (s2l "resume") (s2l "quit")) with false. rewrite orb_false_r. reflexivity.
    + destruct (str_eqb n (s2l "quit")); injection HP as _ ->; [rewrite orb_true_r|rewrite orb_false_r]; reflexivity.
  - injection HP as _ ->. rewrite orb_false_r. reflexivity.
Qed.

Definition cont : oline := OExec (s2l "continue").
Definition quit : oline := OExec (s2l "quit").

(* For every run, from any state, over any events: what GDB executes after the k-th event, a command *)
Theorem command_event T evs k c :
  nth_error evs k = Some (EGdbCmd c) ->
  let sk := t_sess (fst (run P T (firstn k evs))) in
  exists o, nth_error (snd (run P T evs)) k = Some o /\
    (exists pre, quiet pre = true /\ o = pre ++ after_command (s_quit sk) (resolves_to (s_color sk) c)) /\
    execs o = after_command (s_quit sk) (resolves_to (s_color sk) c) /\
    verdicts o = [] /\ stop_notices o = [].
Proof.
  intros H sk. eexists. split; [apply run_nth; exact H|].
  rewrite step_gdbcmd_out. apply command_step.
Qed.

Lemma in_execs x o : In x (execs o) <-> In x o /\ is_exec x = true.
Proof. apply filter_In. Qed.

(* reading [after_command] while quit has not been requested *)
Lemma after_command_read (r : option str) o :
  execs o = after_command false r ->
  (In cont o <-> r = Some (s2l "resume")) /\
  (In quit o <-> r = Some (s2l "quit")) /\
  (forall x, In (OExec x) o -> OExec x = cont \/ OExec x = quit) /\
  (List.length (execs o) <= 1)%nat.
Proof.
  intros HE.
  assert (A : forall x, In (OExec x) o <-> In (OExec x) (execs o)).
  { intros x. rewrite in_execs. split; [intros H; split; [exact H|reflexivity]|intros [H _]; exact H]. }
  assert (B : forall x, In (OExec x) o <-> In (OExec x) (after_command false r)).
  { intros x. rewrite A, HE. reflexivity. }
  unfold cont, quit. rewrite !B. rewrite HE.
  assert (C : (forall x, In (OExec x) (after_command false r) -> OExec x = OExec (s2l "continue") \/ OExec x = OExec (s2l "quit")) ->
              (forall x, In (OExec x) o -> OExec x = OExec (s2l "continue") \/ OExec x = OExec (s2l "quit"))).
  { intros H x Hx. apply H. apply B. exact Hx. }
  split; [|split; [|split; [apply C|]]]; clear HE A B C; unfold after_command.
  - destruct r as [n|]; [|split; [intros []|discriminate]].
    destruct (str_eqb n (s2l "resume")) eqn:Er.
    { apply str_eqb_eq in Er. subst n. split; [reflexivity|intros _; left; reflexivity]. }
    apply str_eqb_neq in Er. destruct (str_eqb n (s2l "quit")).
    + split; [intros [H|[]]; discriminate H|congruence].
    + split; [intros []|congruence].
  - destruct r as [n|]; [|split; [intros []|discriminate]].
    destruct (str_eqb n (s2l "resume")) eqn:Er.
    { apply str_eqb_eq in Er. subst n. split; [intros [H|[]]; discriminate H|discriminate]. }
    destruct (str_eqb n (s2l "quit")) eqn:Eq.
    + apply str_eqb_eq in Eq. subst n. split; [reflexivity|intros _; left; reflexivity].
    + apply str_eqb_neq in Eq. split; [intros []|congruence].
  - destruct r as [n|]; [|intros x []].
    destruct (str_eqb n (s2l "resume")); [intros x [<-|[]]; left; reflexivity|].
    destruct (str_eqb n (s2l "quit")); [intros x [<-|[]]; right; reflexivity|intros x []].
  - destruct r as [n|]; [|apply Nat.le_0_l].
    destruct (str_eqb n (s2l "resume")); [apply Nat.le_refl|].
    destruct (str_eqb n (s2l "quit")); [apply Nat.le_refl|apply Nat.le_0_l].
Qed.

(* while quit has not been requested: `continue` iff the line resolves to resume, `quit` iff it
   resolves to quit, nothing otherwise *)
Corollary command_event_iff T evs k c o :
  nth_error evs k = Some (EGdbCmd c) -> nth_error (snd (run P T evs)) k = Some o ->
  let sk := t_sess (fst (run P T (firstn k evs))) in
  s_quit sk = false ->
  (In cont o <-> resolves_to (s_color sk) c = Some (s2l "resume")) /\
  (In quit o <-> resolves_to (s_color sk) c = Some (s2l "quit")) /\
  (forall x, In (OExec x) o -> OExec x = cont \/ OExec x = quit) /\
  (List.length (execs o) <= 1)%nat.
Proof.
  intros He Ho sk Hq. destruct (command_event T evs k c He) as (o' & Ho' & _ & HE & _).
  fold sk in HE. rewrite Ho in Ho'. injection Ho' as <-. rewrite Hq in HE.
  apply after_command_read. exact HE.
Qed.

(* ---- the quit flag along a GDB run: set by a line that resolves to quit, never cleared ------------------ *)
Definition quits (on : bool) (e : event) : bool :=
  match e with
  | EGdbCmd c => match resolves_to on c with Some n => str_eqb n (s2l "quit") | None => false end
  | _ => false
  end.

Lemma gdb_destroy_flags s id :
  s_color (fst (gdb_destroy s id)) = s_color s /\ s_quit (fst (gdb_destroy s id)) = s_quit s.
Proof.
  unfold gdb_destroy. set (s0 := set_gdb s (gdb_del (s_gdb s) id)).
  destruct (close_conn_misc s0 id) as (_ & H1 & _). destruct (close_conn_flags s0 id) as (_ & H2). cbn zeta in *.
  destruct (close_conn s0 id) as [s1 o]. cbn [fst] in *. rewrite H1, H2. split; reflexivity.
Qed.

Lemma gdb_step_flags T e : gdb_event e = true ->
  let s := t_sess T in let s' := t_sess (fst (step P T e)) in
  s_color s' = s_color s /\ s_quit s' = (s_quit s || quits (s_color s) e).
Proof.
  intros He. cbn zeta. destruct e as [ | | | |id th m|id|c| | | ]; try discriminate; cbn [quits].
  - rewrite step_gdbmsg_sess. destruct (gdb_message_flags (t_sess T) id th (snd (rel_time (t_base T) (p_time m))) m) as [-> ->].
    rewrite orb_false_r. split; reflexivity.
  - rewrite step_gdbdestroy. cbn [t_sess]. destruct (gdb_destroy_flags (t_sess T) id) as [-> ->].
    rewrite orb_false_r. split; reflexivity.
  - rewrite step_gdbcmd_sess. apply gdb_command_flags.
Qed.

Lemma gdb_run_flags : forall evs T, forallb gdb_event evs = true ->
  let s := t_sess T in let s' := t_sess (fst (run P T evs)) in
  s_color s' = s_color s /\ s_quit s' = (s_quit s || existsb (quits (s_color s)) evs).
Proof.
  induction evs as [|e evs IH]; intros T Hl; cbn zeta.
  - cbn [run fst existsb]. rewrite orb_false_r. split; reflexivity.
  - cbn [forallb] in Hl. apply andb_true_iff in Hl. destruct Hl as [He Hl].
    rewrite run_cons. destruct (IH (fst (step P T e)) Hl) as [H1 H2]. cbn zeta in H1, H2.
    destruct (gdb_step_flags T e He) as [G1 G2]. cbn zeta in G1, G2.
    rewrite H1, H2, G1, G2. cbn [existsb]. rewrite orb_assoc. split; reflexivity.
Qed.

Lemma forallb_firstn {A} (f : A -> bool) l : forall n, forallb f l = true -> forallb f (firstn n l) = true.
Proof.
  induction l as [|x l IH]; intros [|n] H; try reflexivity. cbn [forallb firstn] in *.
  apply andb_true_iff in H. destruct H as [-> H]. exact (IH n H).
Qed.

(* C10, second sentence, for whole GDB runs that start with quit not requested: as long as no
   earlier line resolved to quit, the k-th event, a command, makes GDB execute `continue` iff the
   line resolves to resume, `quit` iff it resolves to quit, and nothing otherwise - independently of
   every message, destroy and other command of the run *)
Theorem command_event_run T evs k c o :
  forallb gdb_event evs = true -> s_quit (t_sess T) = false ->
  nth_error evs k = Some (EGdbCmd c) -> nth_error (snd (run P T evs)) k = Some o ->
  let on := s_color (t_sess T) in
  existsb (quits on) (firstn k evs) = false ->
  (In cont o <-> resolves_to on c = Some (s2l "resume")) /\
  (In quit o <-> resolves_to on c = Some (s2l "quit")) /\
  (forall x, In (OExec x) o -> OExec x = cont \/ OExec x = quit) /\
  (List.length (execs o) <= 1)%nat /\ verdicts o = [] /\ stop_notices o = [].
Proof.
  intros Hl Hq He Ho on Hn.
  destruct (gdb_run_flags (firstn k evs) T (forallb_firstn _ _ k Hl)) as [Hc Hq']. cbn zeta in Hc, Hq'.
  fold on in Hq'. rewrite Hq, Hn in Hq'. cbn [orb] in Hq'.
  destruct (command_event_iff T evs k c o He Ho Hq') as (A & B & C & D). rewrite Hc in A, B. fold on in A, B.
  destruct (command_event T evs k c He) as (o' & Ho' & _ & _ & V & N). rewrite Ho in Ho'. injection Ho' as <-.
  repeat split; try apply A; try apply B; try exact C; try exact D; try exact V; exact N.
Qed.

(* ... and once quit has been requested, every later command makes GDB execute `quit` *)
Theorem command_after_quit T evs k c :
  nth_error evs k = Some (EGdbCmd c) ->
  s_quit (t_sess (fst (run P T (firstn k evs)))) = true ->
  exists o, nth_error (snd (run P T evs)) k = Some o /\ execs o = [quit].
Proof.
  intros He Hq. destruct (command_event T evs k c He) as (o & Ho & _ & HE & _). exists o. split; [exact Ho|].
  rewrite HE, Hq. unfold after_command. destruct (resolves_to _ c) as [n|]; [|reflexivity].
  destruct (str_eqb n (s2l "resume")); [reflexivity|]. destruct (str_eqb n (s2l "quit")); reflexivity.
Qed.

(* ---- stream forms ----------------------------------------------------------------------------------------------- *)
(* the verdicts returned at the closures of a run, in order (whatever the other events are) *)
Fixpoint halt_trace (evs : list event) (outs : list (list oline)) : list verdict :=
  match evs, outs with
  | e :: evs', o :: outs' =>
      (match e with EGdbMsg _ _ _ => verdicts o | _ => [] end) ++ halt_trace evs' outs'
  | _, _ => []
  end.

(* ... and what the property demands: walk the events, ask the selection and the breakpoint matcher
   in force *)
Fixpoint halt_expected (T : top) (evs : list event) : list verdict :=
  match evs with
  | [] => []
  | e :: evs' =>
      (match e with
       | EGdbMsg id th m => [verdict_spec (s_ctrl (t_sess T)) (gdb_arrival_top T id th m)]
       | _ => []
       end) ++ halt_expected (fst (step P T e)) evs'
  end.

Theorem halt_stream evs : forall T,
  halt_trace evs (snd (run P T evs)) = halt_expected T evs.
Proof.
  induction evs as [|e evs IH]; intros T; [reflexivity|].
  rewrite run_snd_cons. cbn [halt_trace halt_expected]. rewrite IH. f_equal.
  destruct e as [ | | | |id th m| | | | | ]; try reflexivity.
  rewrite step_gdbmsg_out. apply halt_step_read.
Qed.

(* the `Stopped at` notices of a run: one per halt, naming the message *)
Fixpoint notice_expected (T : top) (evs : list event) : list oline :=
  match evs with
  | [] => []
  | e :: evs' =>
      (match e with
       | EGdbMsg id th m => notice_spec (s_color (t_sess T)) (s_ctrl (t_sess T)) (gdb_arrival_top T id th m)
       | _ => []
       end) ++ notice_expected (fst (step P T e)) evs'
  end.

(* everything GDB is told in a pure GDB run: one verdict per closure, "run on" at every destroy,
   nothing at a command; `continue` / `quit` after commands only *)
Fixpoint verdicts_expected (T : top) (evs : list event) : list verdict :=
  match evs with
  | [] => []
  | e :: evs' =>
      (match e with
       | EGdbMsg id th m => [verdict_spec (s_ctrl (t_sess T)) (gdb_arrival_top T id th m)]
       | EGdbDestroy _ => [VRun]
       | _ => []
       end) ++ verdicts_expected (fst (step P T e)) evs'
  end.

Fixpoint execs_expected (T : top) (evs : list event) : list oline :=
  match evs with
  | [] => []
  | e :: evs' =>
      (match e with
       | EGdbCmd c => after_command (s_quit (t_sess T)) (resolves_to (s_color (t_sess T)) c)
       | _ => []
       end) ++ execs_expected (fst (step P T e)) evs'
  end.

Lemma gdb_destroy_read s id :
  let o := snd (gdb_destroy s id) in verdicts o = [VRun] /\ execs o = [] /\ stop_notices o = [].
Proof.
  cbn zeta. unfold gdb_destroy. pose proof (close_conn_quiet (set_gdb s (gdb_del (s_gdb s) id)) id) as Q.
  destruct (close_conn _ id) as [s1 o]. cbn [snd] in *. destruct (quiet_facts o Q) as (V & E & N).
  rewrite verdicts_app, execs_app, stop_notices_app, V, E, N. repeat split.
Qed.

Theorem verdicts_stream evs : forall T, forallb gdb_event evs = true ->
  let out := List.concat (snd (run P T evs)) in
  verdicts out = verdicts_expected T evs /\
  execs out = execs_expected T evs /\
  stop_notices out = notice_expected T evs.
Proof.
  induction evs as [|e evs IH]; intros T Hl; [repeat split|].
  cbn [forallb] in Hl. apply andb_true_iff in Hl. destruct Hl as [He Hl].
  cbn zeta. rewrite run_snd_cons. cbn [List.concat verdicts_expected execs_expected notice_expected].
  destruct (IH (fst (step P T e)) Hl) as (I1 & I2 & I3). cbn zeta in I1, I2, I3.
  rewrite verdicts_app, execs_app, stop_notices_app, I1, I2, I3.
  destruct e as [ | | | |id th m|id|c| | | ]; try discriminate.
  - rewrite step_gdbmsg_out.
    destruct (halt_step_read (t_sess T) id th (snd (rel_time (t_base T) (p_time m))) m) as (V & N & E & _).
    cbn zeta in V, N, E. rewrite V, N, E. repeat split.
  - rewrite step_gdbdestroy_out. destruct (gdb_destroy_read (t_sess T) id) as (V & E & N). cbn zeta in V, E, N.
    rewrite V, E, N. repeat split.
  - rewrite step_gdbcmd_out. destruct (command_step (t_sess T) c) as (_ & E & V & N). cbn zeta in V, E, N.
    rewrite V, E, N. repeat split.
Qed.

End WithP.

Print Assumptions gdb_message_out.
Print Assumptions halt_step.
Print Assumptions halt_event.
Print Assumptions halt_iff.
Print Assumptions command_event.
Print Assumptions command_event_iff.
Print Assumptions command_event_run.
Print Assumptions command_after_quit.
Print Assumptions halt_stream.
Print Assumptions verdicts_stream.

(* ---- non-vacuity, corners (empty protocol database) ---------------------------------------------------------- *)
Module HaltExamples.
Import IsolationRuns.Examples.   (* m_gr, m_bind, m_del *)

Definition a := s2l "0x5581a0".
Definition b := s2l "0x5581b8".
(* the plugin as started by `main.py -g`: filter `*`, breakpoint `!` (never), no colour *)
Definition G0 : top := mkTop None (init_sess (MAlways true) (MAlways false) false true true).

(* two libwayland connections (named A and B by the tool); the breakpoint matcher is changed in
   mid-run (step 3); two matching messages in a row (4, 5); connection B is selected (6); a listing
   while halted (9); resume (10); a message whose resolution raises (11: delete_id of an id never
   created); quit (13), and a `resume` after the quit (14) *)
Definition evs : list event :=
  [EGdbMsg a 1 (m_gr 100); EGdbMsg b 2 (m_gr 105); EGdbMsg a 1 (m_bind 110 "wl_compositor");
   EGdbCmd (s2l "b wl_registry");
   EGdbMsg a 1 (m_bind 120 "wl_seat"); EGdbMsg b 2 (m_bind 125 "wl_shm");
   EGdbCmd (s2l "connection B");
   EGdbMsg a 1 (m_bind 130 "wl_output"); EGdbMsg b 2 (m_bind 135 "wl_output");
   EGdbCmd (s2l "list"); EGdbCmd (s2l "r");
   EGdbMsg b 2 (m_del 140 9); EGdbMsg b 2 (m_del 145 3);
   EGdbCmd (s2l "q"); EGdbCmd (s2l "resume")].
Definition outs := snd (run [] G0 evs).

Example ex_events : forallb gdb_event evs = true.
Proof. reflexivity. Qed.

(* the verdicts: wl_registry.bind on A (step 2) runs on under breakpoint `!` and halts (step 4) once
   the breakpoint is wl_registry; step 5 halts too; after `connection B` the same kind of message
   halts on B (8) and runs on on A (7); the delete_id of step 12 (on wl_display) does not match *)
Example ex_verdicts :
  map verdicts outs =
  [[VRun]; [VRun]; [VRun]; []; [VHalt]; [VHalt]; []; [VRun]; [VHalt]; []; []; [VRaise RuntimeError]; [VRun]; []; []].
Proof. vm_compute. reflexivity. Qed.

(* exactly one `Stopped at` notice per halt ... *)
Example ex_notice_count :
  map (fun o => List.length (stop_notices o)) outs =
  [0; 0; 0; 0; 1; 1; 0; 0; 1; 0; 0; 0; 0; 0; 0]%nat.
Proof. vm_compute. reflexivity. Qed.

(* ... naming the message: at step 4 the output is the message line (it passes filter `*`), the
   notice with the same message text (the line without its time and connection columns), the verdict *)
Definition body_of (o : list oline) : line := match o with OMsg _ _ l :: _ => skipn 4 l | _ => [] end.
Example ex_notice_names_message :
  let o := nth 4 outs [] in
  List.length o = 3%nat /\
  nth 1 o OOM = OOut (Txt (s2l "    Stopped at ") :: body_of o) /\
  nth 2 o OOM = OStop true /\ body_of o <> [].
Proof. vm_compute. repeat split. discriminate. Qed.

(* at step 7 (matching message, connection not selected) nothing at all is printed but the verdict *)
Example ex_unselected : nth 7 outs [] = [OStop false].
Proof. vm_compute. reflexivity. Qed.

(* what GDB executes: nothing after `b ...`, `connection B`, `list`; `continue` after `r`;
   `quit` after `q` *)
Example ex_execs :
  map execs outs = [[]; []; []; []; []; []; []; []; []; []; [cont]; []; []; [quit]; [quit]].
Proof. vm_compute. reflexivity. Qed.

(* the stream theorem on this instance, both sides by computation *)
Example ex_stream :
  halt_trace evs outs = halt_expected [] G0 evs /\
  halt_expected [] G0 evs = [VRun; VRun; VRun; VHalt; VHalt; VRun; VHalt; VRaise RuntimeError; VRun].
Proof. vm_compute. split; reflexivity. Qed.

Example ex_all_verdicts :
  verdicts (List.concat outs) = verdicts_expected [] G0 evs /\ execs (List.concat outs) = execs_expected [] G0 evs /\
  execs_expected [] G0 evs = [cont; quit; quit].
Proof. vm_compute. repeat split. Qed.

(* the selection and the matcher in force at the end *)
Example ex_final_state :
  k_current (s_ctrl (t_sess (fst (run [] G0 evs)))) = Some 1%nat /\
  mshow false (k_stop (s_ctrl (t_sess (fst (run [] G0 evs))))) = s2l "[wl_registry.*(*), *.*(*=wl_registry)]".
Proof. vm_compute. split; reflexivity. Qed.

(* CORNER 1.  A message whose resolution raises: the exception escapes from the breakpoint's stop();
   no [OStop] is emitted, no notice, nothing else is printed and the pause flag is clear afterwards.
   (What GDB does with an exception from stop() is outside the model.) *)
Example corner_raise_no_verdict :
  nth 11 outs [] = [ORaise RuntimeError] /\
  gdb_arrival_top [] (fst (run [] G0 (firstn 11 evs))) b 2 (m_del 140 9) = GRaised RuntimeError /\
  s_paused (t_sess (fst (run [] G0 (firstn 12 evs)))) = false.
Proof. vm_compute. repeat split. Qed.

(* CORNER 2.  The quit flag is never cleared: after `q` (step 13) a line that resolves to resume
   (step 14) makes GDB execute `quit`, not `continue`.  Hence the side condition of
   [command_event_iff] / [command_event_run]. *)
Example corner_resume_after_quit :
  resolves_to false (s2l "resume") = Some (s2l "resume") /\
  nth 14 outs [] = [quit] /\
  s_quit (t_sess (fst (run [] G0 (firstn 14 evs)))) = true /\
  existsb (quits false) (firstn 14 evs) = true /\ existsb (quits false) (firstn 13 evs) = false.
Proof. vm_compute. repeat split. Qed.

End HaltExamples.
