(* DecodeHeader.v — the header scanner on a rendered line: match_at succeeds at offset 0 in the
   right direction, and the outgoing pattern fails at offset 0 on an incoming line. *)
From WD Require Import Base Wire Decode Render LetterIdProofs DecodeBasics DecodeArgs.
From Coq Require Import Lia ZifyBool ZifyNat ZifyN.
Open Scope N_scope.

Definition marker (out : bool) : str := if out then s2l "  -> " else [32].

(* ---- match_tail --------------------------------------------------------------------------------- *)
Lemma match_tail_ok out ty c id nm A :
  ty <> [] -> forallb is_word ty = true -> (c = 64 \/ c = 35) ->
  id <> [] -> forallb is_digit id = true ->
  nm <> [] -> forallb is_word nm = true ->
  match_tail out (marker out ++ ty ++ c :: id ++ 46 :: nm ++ 40 :: A ++ [41]) = Some (ty, id, nm, A).
Proof.
  intros Nt Wt Hc Ni Di Nn Wn. unfold match_tail. fold (marker out). cbv zeta.
  rewrite (starts_with_app (marker out)). rewrite (skipn_length_app (marker out)).
  assert (Wc : is_word c = false) by (destruct Hc as [-> | ->]; reflexivity).
  assert (Ec : (N.eqb c 64 || N.eqb c 35) = true) by (destruct Hc as [-> | ->]; reflexivity).
  rewrite (span_app_stop is_word ty c) by assumption.
  destruct ty as [|t0 ty']; [congruence|]. cbv beta iota. rewrite Ec.
  rewrite (span_app_stop is_digit id 46) by (assumption || reflexivity).
  destruct id as [|i0 id']; [congruence|]. cbv beta iota.
  rewrite (span_app_stop is_word nm 40) by (assumption || reflexivity).
  destruct nm as [|n0 nm']; [congruence|]. cbv beta iota.
  rewrite rev_app_distr. cbn [rev app]. cbv beta iota. rewrite rev_involutive. reflexivity.
Qed.

Lemma match_tail_true_none c r : c <> 32 -> match_tail true (32 :: c :: r) = None.
Proof.
  intros H. unfold match_tail. cbv beta iota zeta. norm_lits. cbn [starts_with].
  assert (E : N.eqb 32 c = false) by lia. rewrite E. reflexivity.
Qed.

(* ---- match_conn_tail ---------------------------------------------------------------------------- *)
Definition conn_part (c : option str) (rest : str) : str :=
  match c with Some c => 32 :: 60 :: c ++ 62 :: rest | None => rest end.

Lemma match_conn_tail_ok out conn T res :
  match conn with Some c => is_word_str c = true | None => starts_with [32; 60] T = false end ->
  match_tail out T = Some res ->
  match_conn_tail out (conn_part conn T) = Some (conn, res).
Proof.
  intros Hc Ht. unfold match_conn_tail. destruct conn as [c|]; cbn [conn_part].
  - apply is_word_str_spec in Hc. destruct Hc as [Nc Wc].
    cbn [starts_with skipn]. change (N.eqb 32 32 && (N.eqb 60 60 && true)) with true. cbv beta iota.
    rewrite (span_app_stop is_word c 62) by (assumption || reflexivity).
    destruct c as [|c0 c']; [congruence|]. cbv beta iota. rewrite Ht. reflexivity.
  - rewrite Hc, Ht. reflexivity.
Qed.

Lemma match_conn_tail_true_none conn c r : c <> 32 ->
  match conn with Some c => is_word_str c = true | None => True end ->
  starts_with [32; 60] (32 :: c :: r) = false ->
  match_conn_tail true (conn_part conn (32 :: c :: r)) = None.
Proof.
  intros Hne Hc Hs. unfold match_conn_tail. destruct conn as [cn|]; cbn [conn_part].
  - apply is_word_str_spec in Hc. destruct Hc as [Nc Wc].
    cbn [starts_with skipn]. change (N.eqb 32 32 && (N.eqb 60 60 && true)) with true. cbv beta iota.
    rewrite (span_app_stop is_word cn 62) by (assumption || reflexivity).
    destruct cn as [|c0 c']; [congruence|]. cbv beta iota.
    rewrite (match_tail_true_none c r Hne).
    rewrite (match_tail_true_none 60) by discriminate. reflexivity.
  - rewrite Hs. rewrite (match_tail_true_none c r Hne). reflexivity.
Qed.

(* ---- match_queue_conn_tail ------------------------------------------------------------------------ *)
Definition queue_part (q : option str) (rest : str) : str :=
  match q with Some q => 32 :: 123 :: q ++ 125 :: rest | None => rest end.

Definition not_brace (c : char) : bool := negb (N.eqb c 125).

Lemma match_queue_ok out q T res :
  match q with Some q => forallb not_brace q = true | None => starts_with [32; 123] T = false end ->
  match_conn_tail out T = Some res ->
  match_queue_conn_tail out (queue_part q T) = Some res.
Proof.
  intros Hq Ht. unfold match_queue_conn_tail. destruct q as [q|]; cbn [queue_part].
  - cbn [starts_with skipn]. change (N.eqb 32 32 && (N.eqb 123 123 && true)) with true. cbv beta iota.
    fold not_brace. rewrite (drop_while_app_stop not_brace q 125) by (assumption || reflexivity).
    cbv beta iota. rewrite Ht. reflexivity.
  - rewrite Hq, Ht. reflexivity.
Qed.

Lemma match_queue_true_none q T :
  match q with Some q => forallb not_brace q = true | None => starts_with [32; 123] T = false end ->
  match_conn_tail true T = None ->
  match_queue_conn_tail true (queue_part q T) = None.
Proof.
  intros Hq Ht. unfold match_queue_conn_tail. destruct q as [q|]; cbn [queue_part].
  - cbn [starts_with skipn]. change (N.eqb 32 32 && (N.eqb 123 123 && true)) with true. cbv beta iota.
    fold not_brace. rewrite (drop_while_app_stop not_brace q 125) by (assumption || reflexivity).
    cbv beta iota. rewrite Ht.
    unfold match_conn_tail. cbn [starts_with]. change (N.eqb 60 123) with false.
    rewrite andb_false_r. cbv beta iota.
    rewrite (match_tail_true_none 123) by discriminate. reflexivity.
  - rewrite Hq, Ht. reflexivity.
Qed.

(* ---- the time stamp ----------------------------------------------------------------------------------- *)
Definition header_of (ip fp : str) (r : option (option str * (str * str * str * str))) : option header :=
  match r with
  | Some (conn, (ty, id, nm, a)) => Some (mkHeader ip fp conn ty id nm a)
  | None => None
  end.

Lemma drop_spaces k c r : is_space c = false -> drop_while is_space (repeat 32 k ++ c :: r) = c :: r.
Proof.
  intros H. induction k as [|k IH].
  - cbn [repeat app drop_while]. rewrite H. reflexivity.
  - cbn [repeat app drop_while]. change (is_space 32) with true. exact IH.
Qed.

Lemma match_at_ts out k ip mark fp rest :
  ip <> [] -> forallb is_digit ip = true -> fp <> [] -> forallb is_digit fp = true ->
  (mark = 46 \/ mark = 44) ->
  match_at out (91 :: repeat 32 k ++ ip ++ mark :: fp ++ 93 :: rest)
  = header_of ip fp (match_queue_conn_tail out rest).
Proof.
  intros Ni Di Nf Df Hm.
  assert (Dm : is_digit mark = false) by (destruct Hm as [-> | ->]; reflexivity).
  assert (Em : (N.eqb mark 46 || N.eqb mark 44) = true) by (destruct Hm as [-> | ->]; reflexivity).
  unfold match_at. cbv beta iota zeta.
  destruct ip as [|i0 ip']; [congruence|].
  assert (S0 : is_space i0 = false).
  { cbn [forallb] in Di. apply andb_true_iff in Di. destruct Di as [D0 _]. apply digit_not_space. exact D0. }
  change ((i0 :: ip') ++ mark :: fp ++ 93 :: rest) with (i0 :: (ip' ++ mark :: fp ++ 93 :: rest)).
  rewrite drop_spaces by exact S0.
  change (i0 :: (ip' ++ mark :: fp ++ 93 :: rest)) with ((i0 :: ip') ++ mark :: fp ++ 93 :: rest).
  rewrite (span_app_stop is_digit (i0 :: ip') mark) by assumption.
  cbv beta iota. rewrite Em.
  rewrite (span_app_stop is_digit fp 93) by (assumption || reflexivity).
  destruct fp as [|f0 fp']; [congruence|]. cbv beta iota.
  cbn [drop_while]. change (is_space 93) with false. cbv beta iota.
  unfold header_of. reflexivity.
Qed.

Lemma render_ts_shape d us rest : exists k mark, (mark = 46 \/ mark = 44) /\
  render_ts d us ++ rest
  = 91 :: repeat 32 k ++ n_to_dec (us / 1000) ++ mark :: dec_pad 3 (us mod 1000) ++ 93 :: rest.
Proof.
  unfold render_ts. destruct (d_ts_u d).
  - exists (7 - List.length (n_to_dec (us / 1000)))%nat, 46. split; [auto|].
    unfold pad_left. repeat rewrite <- app_assoc. reflexivity.
  - exists (10 - List.length (n_to_dec (us / 1000) ++ [mark_char d] ++ dec_pad 3 (us mod 1000)))%nat, (mark_char d).
    split; [apply mark_cases|].
    unfold pad_left. repeat rewrite <- app_assoc. reflexivity.
Qed.

Lemma match_at_render_ts out d us rest :
  match_at out (render_ts d us ++ rest)
  = header_of (n_to_dec (us / 1000)) (dec_pad 3 (us mod 1000)) (match_queue_conn_tail out rest).
Proof.
  destruct (render_ts_shape d us rest) as [k [mark [Hm ->]]].
  apply match_at_ts; [apply n_to_dec_nonempty|apply n_to_dec_digits|apply dec_pad_nonempty|apply dec_pad_digits|exact Hm].
Qed.

Lemma render_ts_ascii d us : all_ascii (render_ts d us) = true.
Proof.
  rewrite <- (app_nil_r (render_ts d us)).
  destruct (render_ts_shape d us []) as [k [mark [Hm ->]]].
  assert (Am : is_ascii mark = true) by (destruct Hm as [-> | ->]; reflexivity).
  unfold all_ascii. cbn [forallb]. rewrite !forallb_app. cbn [forallb]. rewrite !forallb_app.
  rewrite forallb_repeat by reflexivity.
  fold (all_ascii (n_to_dec (us / 1000))). rewrite (digits_all_ascii _ (n_to_dec_digits _)).
  fold (all_ascii (dec_pad 3 (us mod 1000))). rewrite (digits_all_ascii _ (dec_pad_digits _ _)).
  rewrite Am. reflexivity.
Qed.

(* ---- the whole line --------------------------------------------------------------------------------------- *)
Definition args_text d m : str := intercalate (s2l ", ") (map (render_arg d) (w_args m)).

Definition tail_text d m : str :=
  marker (w_sent m) ++ w_iface m ++ sep_char d :: z_to_dec (w_id m) ++ 46 :: w_name m ++ 40 :: args_text d m ++ [41].

Lemma render_shape d m :
  render d m = render_ts d (w_time m) ++ queue_part (w_queue m) (conn_part (w_conn m) (tail_text d m)).
Proof.
  unfold render. f_equal. unfold queue_part, conn_part, tail_text, args_text, marker.
  destruct (w_queue m) as [q|], (w_conn m) as [c|]; repeat rewrite <- app_assoc; reflexivity.
Qed.

Definition hdr d m : header :=
  mkHeader (n_to_dec (w_time m / 1000)) (dec_pad 3 (w_time m mod 1000)) (w_conn m) (w_iface m)
           (z_to_dec (w_id m)) (w_name m) (args_text d m).

Record wf_parts (m : wmsg) : Prop := mkWfParts {
  wp_iface : is_word_str (w_iface m) = true;
  wp_name : is_word_str (w_name m) = true;
  wp_id : (0 < w_id m)%Z;
  wp_time : w_time m < 1000000000000000;
  wp_queue : match w_queue m with
             | Some q => forallb (fun c => negb (N.eqb c 125) && negb (N.eqb c 10) && is_ascii c) q = true
             | None => True end;
  wp_conn : match w_conn m with Some c => is_word_str c = true | None => True end;
  wp_args : forallb wf_warg (w_args m) = true }.

Lemma wf_wmsg_parts m : wf_wmsg m = true -> wf_parts m.
Proof.
  unfold wf_wmsg. intros H. repeat (apply andb_true_iff in H; destruct H as [H ?]).
  constructor; try assumption; try lia.
  - destruct (w_queue m); [assumption|exact I].
  - destruct (w_conn m); [assumption|exact I].
Qed.

Lemma tail_head d m : wf_parts m ->
  exists c r, tail_text d m = 32 :: c :: r /\ N.eqb 60 c = false /\ N.eqb 123 c = false /\
              (w_sent m = false -> c <> 32).
Proof.
  intros W. destruct W as [Wi _ _ _ _ _ _]. apply is_word_str_spec in Wi. destruct Wi as [Ni Wi].
  unfold tail_text, marker. destruct (w_sent m).
  - norm_lits. cbn [app]. eexists _, _. split; [reflexivity|]. repeat split; try reflexivity. discriminate.
  - destruct (w_iface m) as [|i0 i']; [congruence|]. cbn [app]. eexists _, _. split; [reflexivity|].
    pose proof (word_head _ _ Wi) as W0. repeat split; cc.
Qed.

Lemma tail_match d m : wf_parts m ->
  match_tail (w_sent m) (tail_text d m) = Some (w_iface m, z_to_dec (w_id m), w_name m, args_text d m).
Proof.
  intros W. destruct W as [Wi Wn Hid _ _ _ _].
  apply is_word_str_spec in Wi. destruct Wi as [Ni Wi].
  apply is_word_str_spec in Wn. destruct Wn as [Nn Wn].
  destruct (pos_id_digits _ Hid) as [Nd [Dd _]].
  unfold tail_text. apply match_tail_ok; try assumption. apply sep_cases.
Qed.

Lemma conn_part_head conn T : (exists c r, T = 32 :: c :: r /\ N.eqb 123 c = false) ->
  starts_with [32; 123] (conn_part conn T) = false.
Proof.
  intros [c [r [-> E]]]. destruct conn; cbn [conn_part starts_with].
  - reflexivity.
  - rewrite E. reflexivity.
Qed.

Lemma queue_cond d m : wf_parts m ->
  match w_queue m with
  | Some q => forallb not_brace q = true
  | None => starts_with [32; 123] (conn_part (w_conn m) (tail_text d m)) = false
  end.
Proof.
  intros W. pose proof (wp_queue m W) as Hq. destruct (w_queue m) as [q|].
  - revert Hq. apply forallb_impl. intros x Hx. unfold not_brace. lia.
  - apply conn_part_head. destruct (tail_head d m W) as [c [r [E [_ [E2 _]]]]]. exists c, r. tauto.
Qed.

Theorem match_at_render d m : wf_wmsg m = true -> match_at (w_sent m) (render d m) = Some (hdr d m).
Proof.
  intros Hwf. apply wf_wmsg_parts in Hwf. rewrite render_shape, match_at_render_ts.
  rewrite (match_queue_ok _ _ _ (w_conn m, (w_iface m, z_to_dec (w_id m), w_name m, args_text d m))).
  - reflexivity.
  - apply queue_cond. exact Hwf.
  - apply match_conn_tail_ok.
    + pose proof (wp_conn m Hwf) as Hc. destruct (w_conn m) as [c|]; [exact Hc|].
      destruct (tail_head d m Hwf) as [c [r [-> [E1 _]]]]. cbn [starts_with]. rewrite E1. reflexivity.
    + apply tail_match. exact Hwf.
Qed.

Theorem match_at_render_other d m : wf_wmsg m = true -> w_sent m = false -> match_at true (render d m) = None.
Proof.
  intros Hwf Hs. apply wf_wmsg_parts in Hwf. rewrite render_shape, match_at_render_ts.
  rewrite match_queue_true_none; [reflexivity| |].
  - apply queue_cond. exact Hwf.
  - destruct (tail_head d m Hwf) as [c [r [-> [E1 [_ Hne]]]]].
    apply match_conn_tail_true_none.
    + apply Hne. exact Hs.
    + exact (wp_conn m Hwf).
    + cbn [starts_with]. rewrite E1. reflexivity.
Qed.
