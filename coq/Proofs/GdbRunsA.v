(* GdbRunsA.v — C15 lifted to whole runs, part A: the lifetime specification and the connection list.

   GDB mode: events [EGdbMsg addr thread m] (a closure seen on the libwayland connection at address
   [addr]), [EGdbDestroy addr] (libwayland destroys the connection at [addr]) and [EGdbCmd text].

   LIFETIMES ([lifetimes], table-free, a left fold over the event list): a message on an address that
   has no live lifetime starts a new lifetime (appended at the end: lifetimes are listed in the order
   of their FIRST message, all addresses together); a message on an address with a live lifetime
   joins it; a destroy of an address ends its live lifetime, if there is one (a destroy with no
   message since the previous destroy of that address, or since the start, changes nothing);
   commands change nothing.  At most one lifetime per address is live ([live_unique]).

   MAIN THEOREM of this file ([gdb_conns_are_lifetimes]): after any such run from the initial state
   the connection list is EXACTLY one connection per lifetime, in that order; the i-th is the fresh
   connection (address, name [conn_name i], role read off its first message, empty object table)
   played through that lifetime's messages — and nothing else — with the open flag = "not yet
   destroyed" ([spec_conn]).

   The decoding switch: GDB mode has none.  [gdb_message] never looks at [s_parse] and never changes
   it; every message is delivered to its connection and RECORDED, also when resolving it raises (the
   exception then escapes to GDB, see GdbRunsB.v).  So there is no side condition of the
   [foreign_abort] / [wf_event] kind here: the theorems are unconditional.

   Thread numbers: the thread of the first message is stored in [s_gdb]; a later message from another
   thread only adds a warning line on the error stream (never for a connection known to be a
   client).  No thread number appears in the specification. *)
From WD Require Import Base Wire Protocol Conn Color LetterId Matcher MatcherParse Show Session.
From WD Require Import ProtocolProofs LetterIdProofs ControllerProofs SessionProofs ConnMgrProofs GdbProofs EofCloses IsolationRuns.
From Coq Require Import Lia List.
Import ListNotations.
Open Scope Z_scope.

(* ---- the events of GDB mode ------------------------------------------------------------------------ *)
Definition gdb_event (e : event) : bool :=
  match e with EGdbMsg _ _ _ | EGdbDestroy _ | EGdbCmd _ => true | _ => false end.

(* ---- lifetimes: read off the event list alone ------------------------------------------------------ *)
(* a lifetime always has a first message; [lt_open] = not yet destroyed *)
Record lifetime := mkLt { lt_addr : str; lt_open : bool; lt_first : pmsg; lt_rest : list pmsg }.

Definition lt_msgs (l : lifetime) : list pmsg := lt_first l :: lt_rest l.
Definition lt_live (a : str) (l : lifetime) : bool := lt_open l && str_eqb (lt_addr l) a.
Definition has_live (a : str) (L : list lifetime) : bool := existsb (lt_live a) L.
Definition lt_add (m : pmsg) (l : lifetime) : lifetime := mkLt (lt_addr l) (lt_open l) (lt_first l) (lt_rest l ++ [m]).
Definition lt_close (l : lifetime) : lifetime := mkLt (lt_addr l) false (lt_first l) (lt_rest l).
Definition lt_upd (a : str) (f : lifetime -> lifetime) (l : lifetime) : lifetime := if lt_live a l then f l else l.

Definition lt_step (L : list lifetime) (e : event) : list lifetime :=
  match e with
  | EGdbMsg a _ m => if has_live a L then map (lt_upd a (lt_add m)) L else L ++ [mkLt a true m []]
  | EGdbDestroy a => map (lt_upd a lt_close) L
  | _ => L
  end.

Definition lifetimes (evs : list event) : list lifetime := fold_left lt_step evs [].

(* the lifetime of [a] that has not been destroyed, if any *)
Definition live_lifetime (a : str) (L : list lifetime) : option lifetime := find (lt_live a) L.

(* time origin of a run: Message.base_time is the time of the first message ever constructed *)
Fixpoint first_gdb_time (evs : list event) : option Z :=
  match evs with
  | [] => None
  | EGdbMsg _ _ m :: _ => Some (p_time m)
  | _ :: evs' => first_gdb_time evs'
  end.
Definition origin (ob : option Z) (evs : list event) : Z :=
  match ob with
  | Some b => b
  | None => match first_gdb_time evs with Some t => t | None => 0 end
  end.

Lemma lifetimes_snoc evs e : lifetimes (evs ++ [e]) = lt_step (lifetimes evs) e.
Proof. unfold lifetimes. rewrite fold_left_app. reflexivity. Qed.

(* ---- facts about the specification ----------------------------------------------------------------- *)
Lemma lt_live_add a a' m l : lt_live a (lt_upd a' (lt_add m) l) = lt_live a l.
Proof. unfold lt_upd. destruct (lt_live a' l); reflexivity. Qed.

Lemma has_live_add a a' m L : has_live a (map (lt_upd a' (lt_add m)) L) = has_live a L.
Proof.
  unfold has_live. induction L as [|l L IH]; [reflexivity|]. cbn [map existsb].
  rewrite lt_live_add, IH. reflexivity.
Qed.

Lemma has_live_app a L l : has_live a (L ++ [l]) = has_live a L || lt_live a l.
Proof. unfold has_live. rewrite existsb_app. cbn [existsb]. rewrite orb_false_r. reflexivity. Qed.

Lemma has_live_close a a' L :
  has_live a (map (lt_upd a' lt_close) L) = if str_eqb a' a then false else has_live a L.
Proof.
  unfold has_live. induction L as [|l L IH]; cbn [map existsb].
  - destruct (str_eqb a' a); reflexivity.
  - rewrite IH. unfold lt_upd, lt_live. destruct (str_eqb a' a) eqn:E.
    + apply str_eqb_eq in E. subst a'. destruct (lt_open l) eqn:Eo; cbn [andb].
      * destruct (str_eqb (lt_addr l) a) eqn:Ea; cbn [lt_close lt_open andb]; [reflexivity|].
        rewrite Eo, Ea. reflexivity.
      * rewrite Eo. reflexivity.
    + destruct (lt_open l) eqn:Eo; cbn [andb]; [|rewrite Eo; reflexivity].
      destruct (str_eqb (lt_addr l) a') eqn:Ea'; cbn [lt_close lt_open lt_addr andb].
      * apply str_eqb_eq in Ea'. rewrite Ea', E. reflexivity.
      * rewrite Eo. reflexivity.
Qed.

Definition live_count (a : str) (L : list lifetime) : nat := List.length (filter (lt_live a) L).

Lemma has_live_false_count a L : has_live a L = false -> live_count a L = 0%nat.
Proof.
  unfold has_live, live_count. induction L as [|l L IH]; [reflexivity|]. cbn [existsb filter].
  intros H. apply orb_false_iff in H. destruct H as [H1 H2]. rewrite H1. apply IH. exact H2.
Qed.

Lemma live_count_add a i m L : live_count a (map (lt_upd i (lt_add m)) L) = live_count a L.
Proof.
  unfold live_count. induction L as [|l L IH]; [reflexivity|].
  cbn [map filter]. rewrite lt_live_add. destruct (lt_live a l); cbn [List.length]; rewrite IH; reflexivity.
Qed.

Lemma live_count_close_le a i L : (live_count a (map (lt_upd i lt_close) L) <= live_count a L)%nat.
Proof.
  unfold live_count. induction L as [|l L IH]; [apply Nat.le_refl|].
  cbn [map filter]. unfold lt_upd at 1. destruct (lt_live i l) eqn:Ei.
  - unfold lt_live at 1. cbn [lt_close lt_open andb]. destruct (lt_live a l); cbn [List.length]; lia.
  - destruct (lt_live a l); cbn [List.length]; lia.
Qed.

Lemma live_count_step a L e : (live_count a L <= 1)%nat -> (live_count a (lt_step L e) <= 1)%nat.
Proof.
  intros H. destruct e as [ | | | |i th m|i| | | | ]; cbn [lt_step]; try exact H.
  - destruct (has_live i L) eqn:Eh.
    + rewrite live_count_add. exact H.
    + unfold live_count. rewrite filter_app, app_length. fold (live_count a L). cbn [filter].
      unfold lt_live. cbn [lt_open lt_addr andb].
      destruct (str_eqb i a) eqn:E; cbn [List.length]; [|lia].
      apply str_eqb_eq in E. subst i. rewrite (has_live_false_count a L Eh). lia.
  - pose proof (live_count_close_le a i L). lia.
Qed.

(* at most one live lifetime per address, after any events *)
Theorem live_unique evs a : (live_count a (lifetimes evs) <= 1)%nat.
Proof.
  unfold lifetimes. assert (G : forall evs L, (live_count a L <= 1)%nat -> (live_count a (fold_left lt_step evs L) <= 1)%nat).
  { clear. induction evs as [|e evs IH]; intros L H; [exact H|]. cbn [fold_left]. apply IH. apply live_count_step. exact H. }
  apply G. cbn. lia.
Qed.

(* ---- the specification, read declaratively ---------------------------------------------------------- *)
(* (i) an address has a live lifetime exactly when the last event concerning it is a message, i.e.
   when no destroy of that address follows its last message *)
Definition live_upd (a : str) (b : bool) (e : event) : bool :=
  match e with
  | EGdbMsg i _ _ => if str_eqb i a then true else b
  | EGdbDestroy i => if str_eqb i a then false else b
  | _ => b
  end.
Definition live_after (a : str) (evs : list event) : bool := fold_left (live_upd a) evs false.

Lemma has_live_step a L e : has_live a (lt_step L e) = live_upd a (has_live a L) e.
Proof.
  destruct e as [ | | | |i th m|i| | | | ]; try reflexivity; cbn [lt_step live_upd].
  - destruct (has_live i L) eqn:Eh.
    + rewrite has_live_add. destruct (str_eqb i a) eqn:E; [|reflexivity].
      apply str_eqb_eq in E. subst i. exact Eh.
    + rewrite has_live_app. unfold lt_live. cbn [lt_open lt_addr andb].
      destruct (str_eqb i a); [apply orb_true_r|apply orb_false_r].
  - apply has_live_close.
Qed.

Theorem live_iff_last_is_message evs a : has_live a (lifetimes evs) = live_after a evs.
Proof.
  unfold lifetimes, live_after.
  assert (G : forall evs L b, has_live a L = b -> has_live a (fold_left lt_step evs L) = fold_left (live_upd a) evs b).
  { clear. induction evs as [|e evs IH]; intros L b H; [exact H|]. cbn [fold_left]. apply IH.
    rewrite has_live_step, H. reflexivity. }
  apply G. reflexivity.
Qed.

(* (ii) a live lifetime is the LAST lifetime of its address *)
Definition at_addr (a : str) (l : lifetime) : bool := str_eqb (lt_addr l) a.

Fixpoint live_is_last (L : list lifetime) : Prop :=
  match L with
  | [] => True
  | l :: r => (lt_open l = true -> existsb (at_addr (lt_addr l)) r = false) /\ live_is_last r
  end.

Lemma str_eqb_sym a b : str_eqb a b = str_eqb b a.
Proof.
  destruct (str_eqb a b) eqn:E1; destruct (str_eqb b a) eqn:E2; try reflexivity.
  - apply str_eqb_eq in E1. apply str_eqb_neq in E2. congruence.
  - apply str_eqb_eq in E2. apply str_eqb_neq in E1. congruence.
Qed.

Lemma existsb_at_upd a i f L : (forall l, lt_addr (f l) = lt_addr l) ->
  existsb (at_addr a) (map (lt_upd i f) L) = existsb (at_addr a) L.
Proof.
  intros Hf. induction L as [|l L IH]; [reflexivity|]. cbn [map existsb]. rewrite IH. f_equal.
  unfold lt_upd, at_addr. destruct (lt_live i l); [rewrite Hf|]; reflexivity.
Qed.

Lemma live_is_last_upd i f L :
  (forall l, lt_addr (f l) = lt_addr l) -> (forall l, lt_open (f l) = true -> lt_open l = true) ->
  live_is_last L -> live_is_last (map (lt_upd i f) L).
Proof.
  intros Ha Ho. induction L as [|l L IH]; [intros _; exact I|]. intros [H1 H2]. cbn [map live_is_last]. split; [|apply IH; exact H2].
  intros Hop. rewrite (existsb_at_upd _ i f L Ha).
  assert (E : lt_addr (lt_upd i f l) = lt_addr l) by (unfold lt_upd; destruct (lt_live i l); [apply Ha|reflexivity]).
  rewrite E. apply H1. unfold lt_upd in Hop. destruct (lt_live i l); [apply Ho|]; exact Hop.
Qed.

Lemma live_is_last_new i m L : has_live i L = false -> live_is_last L -> live_is_last (L ++ [mkLt i true m []]).
Proof.
  induction L as [|l L IH]; intros Hh H.
  - cbn. split; [reflexivity|exact I].
  - destruct H as [H1 H2]. unfold has_live in Hh. cbn [existsb] in Hh. apply orb_false_iff in Hh. destruct Hh as [Hl Hr].
    cbn [app live_is_last]. split; [|apply IH; assumption].
    intros Hop. rewrite existsb_app, (H1 Hop). cbn [existsb orb]. unfold at_addr. cbn [lt_addr].
    unfold lt_live in Hl. rewrite Hop in Hl. cbn [andb] in Hl. rewrite str_eqb_sym, Hl. reflexivity.
Qed.

Theorem live_lifetime_is_last evs : live_is_last (lifetimes evs).
Proof.
  unfold lifetimes.
  assert (G : forall evs L, live_is_last L -> live_is_last (fold_left lt_step evs L)).
  { clear. induction evs as [|e evs IH]; intros L H; [exact H|]. cbn [fold_left]. apply IH.
    destruct e as [ | | | |i th m|i| | | | ]; try exact H; cbn [lt_step].
    - destruct (has_live i L) eqn:Eh.
      + apply live_is_last_upd; [reflexivity|intros l Hl; exact Hl|exact H].
      + apply live_is_last_new; assumption.
    - apply live_is_last_upd; [reflexivity|intros l Hl; discriminate Hl|exact H]. }
  apply G. exact I.
Qed.

(* (iii) the lifetimes at an address depend on the events of that address only: other addresses,
   their destroys, destroys of never-seen addresses and commands play no part *)
Definition concerns (a : str) (e : event) : bool :=
  match e with EGdbMsg i _ _ | EGdbDestroy i => str_eqb i a | _ => false end.

Lemma at_addr_upd a i f l : (forall l, lt_addr (f l) = lt_addr l) -> at_addr a (lt_upd i f l) = at_addr a l.
Proof. intros Hf. unfold lt_upd, at_addr. destruct (lt_live i l); [rewrite Hf|]; reflexivity. Qed.

Lemma filter_upd_same a f L : (forall l, lt_addr (f l) = lt_addr l) ->
  filter (at_addr a) (map (lt_upd a f) L) = map (lt_upd a f) (filter (at_addr a) L).
Proof.
  intros Hf. induction L as [|l L IH]; [reflexivity|]. cbn [map filter]. rewrite (at_addr_upd a a f l Hf).
  destruct (at_addr a l); cbn [map]; rewrite IH; reflexivity.
Qed.

Lemma filter_upd_other a i f L : (forall l, lt_addr (f l) = lt_addr l) -> str_eqb i a = false ->
  filter (at_addr a) (map (lt_upd i f) L) = filter (at_addr a) L.
Proof.
  intros Hf Hne. induction L as [|l L IH]; [reflexivity|]. cbn [map filter]. rewrite (at_addr_upd a i f l Hf), IH.
  destruct (at_addr a l) eqn:E; [|reflexivity]. f_equal.
  unfold lt_upd, lt_live. unfold at_addr in E. apply str_eqb_eq in E. rewrite E, str_eqb_sym, Hne, andb_false_r. reflexivity.
Qed.

Lemma has_live_filter a L : has_live a (filter (at_addr a) L) = has_live a L.
Proof.
  unfold has_live. induction L as [|l L IH]; [reflexivity|]. cbn [filter existsb].
  destruct (at_addr a l) eqn:E; cbn [existsb]; rewrite IH; [reflexivity|].
  unfold lt_live. unfold at_addr in E. rewrite E, andb_false_r. reflexivity.
Qed.

Lemma lt_step_at_addr a L e :
  filter (at_addr a) (lt_step L e) = if concerns a e then lt_step (filter (at_addr a) L) e else filter (at_addr a) L.
Proof.
  destruct e as [ | | | |i th m|i| | | | ]; try reflexivity; cbn [lt_step concerns].
  - destruct (str_eqb i a) eqn:E.
    + apply str_eqb_eq in E. subst i. rewrite has_live_filter. destruct (has_live a L).
      * apply filter_upd_same. reflexivity.
      * rewrite filter_app. cbn [filter]. change (at_addr a (mkLt a true m [])) with (str_eqb a a). rewrite str_eqb_refl. reflexivity.
    + destruct (has_live i L).
      * apply filter_upd_other; [reflexivity|exact E].
      * rewrite filter_app. cbn [filter]. change (at_addr a (mkLt i true m [])) with (str_eqb i a). rewrite E. apply app_nil_r.
  - destruct (str_eqb i a) eqn:E.
    + apply str_eqb_eq in E. subst i. apply filter_upd_same. reflexivity.
    + apply filter_upd_other; [reflexivity|exact E].
Qed.

Theorem lifetimes_at_addr a evs : filter (at_addr a) (lifetimes evs) = lifetimes (filter (concerns a) evs).
Proof.
  unfold lifetimes.
  assert (G : forall evs L, filter (at_addr a) (fold_left lt_step evs L) =
                            fold_left lt_step (filter (concerns a) evs) (filter (at_addr a) L)).
  { clear. induction evs as [|e evs IH]; intros L; [reflexivity|]. cbn [fold_left filter]. rewrite IH, lt_step_at_addr.
    destruct (concerns a e); reflexivity. }
  apply G.
Qed.

(* ---- small model-side facts ------------------------------------------------------------------------- *)
Definition is_some {A} (o : option A) : bool := match o with Some _ => true | None => false end.

Definition set_open (o : bool) (c : connst) : connst :=
  mkConn (c_id c) (c_name c) (c_server c) o (c_title c) (c_app_id c) (c_db c) (c_msgs c).

Definition upd_if (id : str) (f : connst -> connst) (c : connst) : connst := if is_open_id id c then f c else c.

Lemma upd_if_closef id : map (upd_if id closef) = map (close_if id).
Proof. reflexivity. Qed.

Lemma opens_nil_upd id f cs : opens id cs = [] -> map (upd_if id f) cs = cs.
Proof.
  induction cs as [|c cs IH]; intros H; [reflexivity|].
  unfold opens in H. cbn [filter] in H. cbn [map]. unfold upd_if at 1.
  destruct (is_open_id id c); [discriminate|]. rewrite IH by exact H. reflexivity.
Qed.

Lemma find_open_from_unique_upd (f : connst -> connst) cs : forall i0 id,
  (List.length (opens id cs) <= 1)%nat ->
  match find_open_from i0 cs id with
  | None => opens id cs = []
  | Some j => exists c, (i0 <= j)%nat /\ nth_error cs (j - i0) = Some c /\ opens id cs = [c] /\
                        update_nth (j - i0) f cs = map (upd_if id f) cs
  end.
Proof.
  induction cs as [|c cs IH]; intros i0 id Hle; cbn [find_open_from]; [reflexivity|].
  assert (Hcons : opens id (c :: cs) = if is_open_id id c then c :: opens id cs else opens id cs) by reflexivity.
  assert (Hle' : (List.length (opens id cs) <= 1)%nat).
  { rewrite Hcons in Hle. destruct (is_open_id id c); cbn [List.length] in Hle; lia. }
  specialize (IH (S i0) id Hle').
  destruct (find_open_from (S i0) cs id) as [j|].
  - destruct IH as (c' & Hj & Hn & Ho & Hu).
    assert (Hhd : is_open_id id c = false).
    { destruct (is_open_id id c) eqn:E; [|reflexivity]. rewrite Hcons, Ho in Hle. cbn [List.length] in Hle. lia. }
    exists c'. replace (j - i0)%nat with (S (j - S i0)) by lia. cbn [nth_error update_nth map].
    rewrite Hcons, Hhd. unfold upd_if at 1. rewrite Hhd.
    split; [lia|]. split; [exact Hn|]. split; [exact Ho|]. rewrite Hu. reflexivity.
  - fold (is_open_id id c). destruct (is_open_id id c) eqn:E.
    + exists c. rewrite Nat.sub_diag. cbn [nth_error update_nth map]. rewrite Hcons, IH.
      unfold upd_if at 1. rewrite E. rewrite (opens_nil_upd _ _ _ IH).
      split; [lia|]. split; [reflexivity|]. split; reflexivity.
    + rewrite Hcons. exact IH.
Qed.

Lemma update_nth_const {A} (f : A -> A) l : forall n x, nth_error l n = Some x ->
  update_nth n (fun _ => f x) l = update_nth n f l.
Proof.
  induction l as [|y l IH]; intros [|n] x H; cbn in *; try discriminate; try reflexivity.
  - injection H as ->. reflexivity.
  - rewrite (IH n x H). reflexivity.
Qed.

Lemma Forall2_map2 {A B A' B'} (R : A -> B -> Prop) (R' : A' -> B' -> Prop) (f : A -> A') (g : B -> B') l1 l2 :
  (forall x y, R x y -> R' (f x) (g y)) -> Forall2 R l1 l2 -> Forall2 R' (map f l1) (map g l2).
Proof. intros H F. induction F; cbn [map]; constructor; [apply H; assumption|assumption]. Qed.

Lemma gdb_get_app g id th a :
  is_some (gdb_get (g ++ [(id, th)]) a) = is_some (gdb_get g a) || str_eqb id a.
Proof.
  induction g as [|[k t] g IH]; cbn [app gdb_get].
  - destruct (str_eqb id a); reflexivity.
  - destruct (str_eqb k a); [reflexivity|exact IH].
Qed.

Lemma gdb_get_del_other g id a :
  is_some (gdb_get (gdb_del g id) a) = if str_eqb id a then false else is_some (gdb_get g a).
Proof.
  unfold gdb_del. induction g as [|[k t] g IH]; cbn [filter fst gdb_get].
  - destruct (str_eqb id a); reflexivity.
  - destruct (str_eqb k id) eqn:Ek; cbn [negb].
    + apply str_eqb_eq in Ek. subst k. rewrite IH. destruct (str_eqb id a); reflexivity.
    + cbn [gdb_get]. destruct (str_eqb k a) eqn:Ea.
      * apply str_eqb_eq in Ea. subst k.
        assert (E : str_eqb id a = false) by (apply str_eqb_neq; apply str_eqb_neq in Ek; congruence).
        rewrite E. reflexivity.
      * exact IH.
Qed.

(* commands do not touch the plugin's address table *)
Lemma show_messages_gdb s m cap : s_gdb (fst (show_messages s m cap)) = s_gdb s.
Proof.
  unfold show_messages. destruct (scan_matching _ _ _ _ _ _) as [[mm d] ns]. destruct mm; [reflexivity|].
  destruct (fold_left _ _ _). reflexivity.
Qed.

Ltac crunchg :=
  repeat match goal with
         | |- context [show_messages ?a ?b ?c] =>
             let H := fresh in pose proof (show_messages_gdb a b c) as H;
             destruct (show_messages a b c); cbn [fst] in H
         | |- context [if ?b then _ else _] => destruct b
         | |- context [match ?x with _ => _ end] => destruct x
         end; cbn [fst]; try reflexivity; try assumption.

Lemma run_command_gdb s n a : s_gdb (fst (run_command s n a)) = s_gdb s.
Proof.
  unfold run_command.
  destruct (str_eqb n (s2l "help")); [unfold cmd_help; crunchg|].
  destruct (str_eqb n (s2l "list")); [unfold cmd_list; crunchg|].
  destruct (str_eqb n (s2l "filter")); [unfold cmd_filter; crunchg|].
  destruct (str_eqb n (s2l "breakpoint")); [unfold cmd_break; crunchg|].
  destruct (str_eqb n (s2l "matcher")); [unfold cmd_matcher; crunchg|].
  destruct (str_eqb n (s2l "connection")); [unfold cmd_connection; crunchg|].
  destruct (str_eqb n (s2l "resume")); [reflexivity|]. destruct (str_eqb n (s2l "quit")); reflexivity.
Qed.

Lemma process_command_gdb fuel s input : s_gdb (fst (process_command fuel s input)) = s_gdb s.
Proof.
  unfold process_command. destruct (resolve_cmd fuel (s_color s) input) as [pre [[name arg]|]]; [|reflexivity].
  pose proof (run_command_gdb s name arg) as H. destruct (run_command s name arg). exact H.
Qed.

Lemma close_conn_gdb s id : s_gdb (fst (close_conn s id)) = s_gdb s.
Proof.
  unfold close_conn. destruct (find_open s id) as [i|]; [|reflexivity].
  destruct (nth_error (s_conns s) i); reflexivity.
Qed.

Lemma open_conn_gdb s id sv : s_gdb (fst (open_conn s id sv)) = s_gdb s.
Proof.
  unfold open_conn. pose proof (close_conn_gdb s id) as H. destruct (close_conn s id) as [s1 o1]. exact H.
Qed.

Section WithP.
Variable P : pdb.

Lemma conn_message_gdb s id rel m : s_gdb (fst (fst (fst (conn_message P s id rel m)))) = s_gdb s.
Proof.
  unfold conn_message. destruct (find_open s id) as [i|]; [|reflexivity].
  destruct (nth_error (s_conns s) i) as [c|]; [|reflexivity].
  destruct (resolve_msg P (c_db c) rel m) as [[d' rm] err]. destruct err; [reflexivity|].
  destruct (ctrl_on_message _ _ _ _ _ _) as [[k' outs] stop]. destruct stop; reflexivity.
Qed.

(* with at most one open connection per identifier, a delivered message steps every open connection
   with that identifier (there is at most one) and nothing else *)
Lemma conn_message_conns_u s id rel m : open_unique s ->
  s_conns (fst (fst (fst (conn_message P s id rel m)))) =
  map (upd_if id (fun c => conn_step P c rel m)) (s_conns s).
Proof.
  intros Hu. pose proof (conn_message_cases P s id rel m) as H. unfold find_open in H.
  pose proof (find_open_from_unique_upd (fun c => conn_step P c rel m) (s_conns s) 0 id (Hu id)) as G.
  destruct (find_open_from 0 (s_conns s) id) as [i|].
  - destruct H as (c & Hi & _ & Hc & _). destruct G as (c' & _ & Hn & _ & Hup).
    rewrite Nat.sub_0_r in Hn, Hup. rewrite Hc, <- Hup.
    apply (update_nth_const (fun c => conn_step P c rel m)). exact Hi.
  - rewrite H. cbn [fst]. rewrite (opens_nil_upd _ _ _ G). reflexivity.
Qed.

(* the exception a delivery raises: the one resolving the message against the table of the open
   connection raises; AssertionError when there is no open connection *)
Lemma conn_message_err_u s id rel m : open_unique s ->
  snd (fst (conn_message P s id rel m)) =
  match opens id (s_conns s) with
  | c :: _ => snd (resolve_msg P (c_db c) rel m)
  | [] => Some (AssertionError, [])
  end.
Proof.
  intros Hu. pose proof (conn_message_cases P s id rel m) as H. unfold find_open in H.
  pose proof (find_open_from_unique (s_conns s) 0 id (Hu id)) as G.
  destruct (find_open_from 0 (s_conns s) id) as [i|].
  - destruct H as (c & Hi & _ & _ & _ & _ & He). destruct G as (c' & _ & Hn & Ho & _).
    rewrite Nat.sub_0_r in Hn. rewrite Ho. rewrite Hi in Hn. injection Hn as <-. exact He.
  - rewrite H, G. reflexivity.
Qed.

(* ---- the state a gdb message is delivered in -------------------------------------------------------- *)
Definition pre_gdb (s : sess) (id : str) (th : Z) (m : pmsg) : sess :=
  let s1 := set_pause s false (s_quit s) in
  match gdb_get (s_gdb s1) id with
  | Some _ => s1
  | None => let sa := fst (open_conn s1 id (is_get_registry m)) in set_gdb sa (s_gdb sa ++ [(id, th)])
  end.

Lemma gdb_message_state s id th rel m :
  fst (gdb_message P s id th rel m) = fst (fst (fst (conn_message P (pre_gdb s id th m) id rel m))).
Proof.
  unfold gdb_message, pre_gdb. cbn zeta. set (s1 := set_pause s false (s_quit s)).
  destruct (gdb_get (s_gdb s1) id).
  - destruct (conn_message P s1 id rel m) as [[[s3 o2] err] st]. destruct err as [[e msg]|]; reflexivity.
  - destruct (open_conn s1 id (is_get_registry m)) as [sa oa]. cbn [fst].
    destruct (conn_message P _ id rel m) as [[[s3 o2] err] st]. destruct err as [[e msg]|]; reflexivity.
Qed.

Lemma pre_gdb_spec s id th m : open_unique s ->
  let s2 := pre_gdb s id th m in
  open_unique s2 /\
  match gdb_get (s_gdb s) id with
  | Some _ => s_conns s2 = s_conns s /\ s_gdb s2 = s_gdb s
  | None => s_conns s2 = map (close_if id) (s_conns s) ++ [fresh_conn id (conn_name (s_next s)) (is_get_registry m)] /\
            s_gdb s2 = s_gdb s ++ [(id, th)]
  end.
Proof.
  intros Hu. unfold pre_gdb. cbn zeta. set (s1 := set_pause s false (s_quit s)).
  assert (Hu1 : open_unique s1) by exact Hu.
  change (s_gdb s1) with (s_gdb s).
  destruct (gdb_get (s_gdb s) id).
  - split; [exact Hu1|]. split; reflexivity.
  - destruct (open_conn_spec_u s1 id (is_get_registry m) Hu1) as [Hc _].
    pose proof (open_conn_unique s1 id (is_get_registry m) Hu1) as Hu2.
    pose proof (open_conn_gdb s1 id (is_get_registry m)) as Hg.
    split; [exact Hu2|]. split.
    + cbn [set_gdb s_conns]. exact Hc.
    + cbn [set_gdb s_gdb]. rewrite Hg. reflexivity.
Qed.

(* ---- the connection a lifetime stands for ------------------------------------------------------------ *)
(* the connection [c0] after the messages [ms], time stamps relative to [b] *)
Definition play (b : Z) (c0 : connst) (ms : list pmsg) : connst :=
  fold_left (fun c m => conn_step P c (p_time m - b) m) ms c0.

(* client/server role: read off the first message (a get_registry request means a client) *)
Definition lt_sv (l : lifetime) : option bool := is_get_registry (lt_first l).

Definition spec_conn (b : Z) (name : str) (l : lifetime) : connst :=
  set_open (lt_open l) (play b (fresh_conn (lt_addr l) name (lt_sv l)) (lt_msgs l)).

Lemma title_update_frame c m :
  c_id (title_update c m) = c_id c /\ c_name (title_update c m) = c_name c /\ c_open (title_update c m) = c_open c /\
  c_server (title_update c m) = c_server c /\ c_db (title_update c m) = c_db c /\ c_msgs (title_update c m) = c_msgs c.
Proof.
  unfold title_update.
  repeat match goal with
         | |- context [if ?b then _ else _] => destruct b
         | |- context [match ?x with _ => _ end] => destruct x
         end; repeat split; reflexivity.
Qed.

Lemma conn_step_frame c rel m :
  c_id (conn_step P c rel m) = c_id c /\ c_name (conn_step P c rel m) = c_name c /\
  c_open (conn_step P c rel m) = c_open c /\ c_server (conn_step P c rel m) = c_server c /\
  c_db (conn_step P c rel m) = fst (fst (resolve_msg P (c_db c) rel m)) /\
  c_msgs (conn_step P c rel m) = c_msgs c ++ [snd (fst (resolve_msg P (c_db c) rel m))].
Proof.
  unfold conn_step. destruct (resolve_msg P (c_db c) rel m) as [[d' rm] err]. cbn [fst snd].
  destruct err as [e|]; [repeat split|].
  destruct (title_update_frame (mkConn (c_id c) (c_name c) (c_server c) (c_open c) (c_title c) (c_app_id c) d' (c_msgs c ++ [rm])) rm)
    as (H1 & H2 & H3 & H4 & H5 & H6).
  rewrite H1, H2, H3, H4, H5, H6. repeat split.
Qed.

Lemma conn_step_set_open o c rel m : conn_step P (set_open o c) rel m = set_open o (conn_step P c rel m).
Proof.
  unfold conn_step. cbn [set_open c_db c_id c_name c_server c_open c_title c_app_id c_msgs].
  destruct (resolve_msg P (c_db c) rel m) as [[d' rm] err]. destruct err as [e|]; [reflexivity|].
  apply (title_update_nat (set_open o)
           (mkConn (c_id c) (c_name c) (c_server c) (c_open c) (c_title c) (c_app_id c) d' (c_msgs c ++ [rm])) rm rm);
    reflexivity.
Qed.

Lemma play_snoc b c0 ms m : play b c0 (ms ++ [m]) = conn_step P (play b c0 ms) (p_time m - b) m.
Proof. unfold play. rewrite fold_left_app. reflexivity. Qed.

Lemma play_frame b ms : forall c0,
  c_id (play b c0 ms) = c_id c0 /\ c_name (play b c0 ms) = c_name c0 /\ c_open (play b c0 ms) = c_open c0 /\
  c_server (play b c0 ms) = c_server c0 /\
  List.length (c_msgs (play b c0 ms)) = (List.length (c_msgs c0) + List.length ms)%nat.
Proof.
  induction ms as [|m ms IH]; intros c0; [cbn [play fold_left List.length]; repeat split; lia|].
  change (play b c0 (m :: ms)) with (play b (conn_step P c0 (p_time m - b) m) ms).
  destruct (IH (conn_step P c0 (p_time m - b) m)) as (H1 & H2 & H3 & H4 & H5).
  destruct (conn_step_frame c0 (p_time m - b) m) as (S1 & S2 & S3 & S4 & _ & S6).
  rewrite H1, H2, H3, H4, H5, S1, S2, S3, S4, S6, app_length. cbn [List.length]. repeat split. lia.
Qed.

Lemma spec_conn_fields b n l :
  c_id (spec_conn b n l) = lt_addr l /\ c_name (spec_conn b n l) = n /\ c_open (spec_conn b n l) = lt_open l /\
  c_server (spec_conn b n l) = lt_sv l /\
  List.length (c_msgs (spec_conn b n l)) = List.length (lt_msgs l).
Proof.
  unfold spec_conn. cbn [set_open c_id c_name c_open c_server c_msgs].
  destruct (play_frame b (lt_msgs l) (fresh_conn (lt_addr l) n (lt_sv l))) as (H1 & H2 & _ & H4 & H5).
  rewrite H1, H2, H4, H5. repeat split.
Qed.

Lemma spec_conn_add b n l m :
  conn_step P (spec_conn b n l) (p_time m - b) m = spec_conn b n (lt_add m l).
Proof.
  unfold spec_conn. rewrite conn_step_set_open.
  change (lt_msgs (lt_add m l)) with (lt_msgs l ++ [m]). rewrite play_snoc. reflexivity.
Qed.

Lemma spec_conn_close b n l : closef (spec_conn b n l) = spec_conn b n (lt_close l).
Proof. reflexivity. Qed.

Lemma set_open_same c : set_open (c_open c) c = c.
Proof. destruct c. reflexivity. Qed.

Lemma spec_conn_new b a n m :
  conn_step P (fresh_conn a n (is_get_registry m)) (p_time m - b) m = spec_conn b n (mkLt a true m []).
Proof.
  unfold spec_conn. cbn [lt_open lt_addr lt_msgs lt_first lt_rest lt_sv play fold_left].
  set (c := conn_step P _ _ m). destruct (conn_step_frame (fresh_conn a n (is_get_registry m)) (p_time m - b) m) as (_ & _ & H & _).
  fold c in H. cbn [fresh_conn c_open] in H. rewrite <- H. symmetry. apply set_open_same.
Qed.

(* ---- the invariant ------------------------------------------------------------------------------------ *)
Definition conn_is (b : Z) (c : connst) (l : lifetime) : Prop := c = spec_conn b (c_name c) l.

Definition gdb_ok (g : list (str * Z)) (L : list lifetime) : Prop :=
  forall a, is_some (gdb_get g a) = has_live a L.

Definition Inv (T : top) (L : list lifetime) : Prop :=
  open_unique (t_sess T) /\ gdb_ok (s_gdb (t_sess T)) L /\
  match t_base T with
  | Some b => Forall2 (conn_is b) (s_conns (t_sess T)) L
  | None => s_conns (t_sess T) = [] /\ L = []
  end.

Lemma conn_is_live b c l a : conn_is b c l -> is_open_id a c = lt_live a l.
Proof.
  intros H. unfold conn_is in H. destruct (spec_conn_fields b (c_name c) l) as (H1 & _ & H3 & _).
  unfold is_open_id, lt_live. rewrite H, H1, H3. reflexivity.
Qed.

Lemma conn_is_step b a m c l :
  conn_is b c l -> conn_is b (upd_if a (fun c => conn_step P c (p_time m - b) m) c) (lt_upd a (lt_add m) l).
Proof.
  intros H. unfold upd_if, lt_upd. rewrite (conn_is_live b c l a H). destruct (lt_live a l); [|exact H].
  unfold conn_is in *. destruct (conn_step_frame c (p_time m - b) m) as (_ & Hn & _). rewrite Hn.
  remember (c_name c) as n eqn:En. rewrite H. apply spec_conn_add.
Qed.

Lemma conn_is_close b a c l : conn_is b c l -> conn_is b (close_if a c) (lt_upd a lt_close l).
Proof.
  intros H. unfold close_if, lt_upd. rewrite (conn_is_live b c l a H). destruct (lt_live a l); [|exact H].
  unfold conn_is in *. change (c_name (closef c)) with (c_name c).
  remember (c_name c) as n eqn:En. rewrite H. apply spec_conn_close.
Qed.

Lemma no_live_no_open b a cs L : Forall2 (conn_is b) cs L -> has_live a L = false -> opens a cs = [].
Proof.
  intros F. induction F as [|c l cs L Hc F IH]; intros H; [reflexivity|].
  unfold has_live in H. cbn [existsb] in H. apply orb_false_iff in H. destruct H as [H1 H2].
  unfold opens. cbn [filter]. rewrite (conn_is_live b c l a Hc), H1. apply IH. exact H2.
Qed.

Lemma rel_time_eq ob t :
  rel_time ob t = (Some (match ob with Some b => b | None => t end), t - match ob with Some b => b | None => t end).
Proof. destruct ob as [b|]; cbn [rel_time]; [reflexivity|]. rewrite Z.sub_diag. reflexivity. Qed.

(* the three kinds of step, without computing anything *)
Lemma step_gdbmsg T id th m :
  let b := match t_base T with Some b => b | None => p_time m end in
  fst (step P T (EGdbMsg id th m)) = mkTop (Some b) (fst (gdb_message P (t_sess T) id th (p_time m - b) m)).
Proof.
  destruct T as [ob s]. unfold step. cbn [t_base t_sess]. rewrite rel_time_eq.
  destruct (gdb_message P s id th _ m) as [s1 o]. reflexivity.
Qed.

Lemma step_gdbdestroy T id :
  fst (step P T (EGdbDestroy id)) = mkTop (t_base T) (fst (gdb_destroy (t_sess T) id)).
Proof. destruct T as [ob s]. unfold step. cbn [t_base t_sess]. reflexivity. Qed.

Lemma step_gdbcmd T cm : exists s1,
  fst (step P T (EGdbCmd cm)) = mkTop (t_base T) s1 /\ s_conns s1 = s_conns (t_sess T) /\ s_gdb s1 = s_gdb (t_sess T).
Proof.
  destruct T as [ob s]. unfold step. cbn [t_base t_sess]. unfold gdb_command.
  pose proof (process_command_record command_fuel (set_pause s true (s_quit s)) cm) as HR.
  pose proof (process_command_gdb command_fuel (set_pause s true (s_quit s)) cm) as HG.
  destruct (process_command command_fuel (set_pause s true (s_quit s)) cm) as [s1 o].
  exists s1. unfold record_of in HR. injection HR as HR _ _ _ _.
  split; [reflexivity|]. split; [exact HR|exact HG].
Qed.

(* one step preserves the invariant *)
Lemma step_inv T L e : gdb_event e = true -> Inv T L -> Inv (fst (step P T e)) (lt_step L e).
Proof.
  intros He (Hu & Hg & Hb).
  pose proof (step_unique P T e Hu) as Hu'.
  destruct e as [ | | | |id th m|id|cm| | | ]; try discriminate.
  - (* a message *)
    rewrite step_gdbmsg in *. cbn zeta in *.
    set (b := match t_base T with Some b => b | None => p_time m end) in *.
    set (s := t_sess T) in *.
    assert (HF : Forall2 (conn_is b) (s_conns s) L).
    { unfold b. destruct (t_base T) as [b0|]; [exact Hb|]. destruct Hb as [-> ->]. constructor. }
    rewrite gdb_message_state in *.
    destruct (pre_gdb_spec s id th m Hu) as (Hu2 & Hpre). cbn zeta in Hu2, Hpre.
    set (s2 := pre_gdb s id th m) in *.
    split; [exact Hu'|]. cbn [t_base t_sess].
    rewrite conn_message_gdb, (conn_message_conns_u s2 id (p_time m - b) m Hu2).
    cbn [lt_step]. specialize (Hg id) as Hgid.
    destruct (gdb_get (s_gdb s) id) as [t0|]; cbn [is_some] in Hgid; rewrite <- Hgid.
    + destruct Hpre as [Hc2 Hg2]. rewrite Hc2, Hg2. split.
      * intros a. rewrite has_live_add. apply Hg.
      * apply (Forall2_map2 (conn_is b) (conn_is b)); [|exact HF]. intros c l. apply conn_is_step.
    + destruct Hpre as [Hc2 Hg2]. rewrite Hc2, Hg2. split.
      * intros a. rewrite gdb_get_app, has_live_app, Hg. unfold lt_live at 1. cbn [lt_open lt_addr andb]. reflexivity.
      * pose proof (no_live_no_open b id _ _ HF (eq_sym Hgid)) as Hno.
        rewrite (opens_nil_map _ _ Hno), map_app, (opens_nil_upd _ _ _ Hno).
        apply Forall2_app; [exact HF|]. constructor; [|constructor].
        cbn [map]. unfold upd_if, is_open_id, fresh_conn at 1 2. cbn [c_open c_id andb]. rewrite str_eqb_refl.
        unfold conn_is. destruct (conn_step_frame (fresh_conn id (conn_name (s_next s)) (is_get_registry m)) (p_time m - b) m) as (_ & Hn & _).
        rewrite Hn. cbn [fresh_conn c_name]. apply spec_conn_new.
  - (* a destroy *)
    rewrite step_gdbdestroy in *. set (s := t_sess T) in *. unfold gdb_destroy in *.
    assert (Hu0 : open_unique (set_gdb s (gdb_del (s_gdb s) id))) by exact Hu.
    rewrite (close_conn_spec_u _ id Hu0) in *.
    split; [exact Hu'|]. cbn [fst t_base t_sess set_conns set_gdb s_conns s_gdb lt_step]. split.
    + intros a. rewrite gdb_get_del_other, has_live_close, Hg. reflexivity.
    + destruct (t_base T) as [b|].
      * apply (Forall2_map2 (conn_is b) (conn_is b)); [|exact Hb]. intros c l. apply conn_is_close.
      * destruct Hb as [-> ->]. split; reflexivity.
  - (* a command *)
    destruct (step_gdbcmd T cm) as (s1 & E & HR & HG). rewrite E in *.
    split; [exact Hu'|]. cbn [t_base t_sess lt_step]. rewrite HR, HG. split; [exact Hg|exact Hb].
Qed.

Lemma run_inv : forall evs T L, forallb gdb_event evs = true -> Inv T L ->
  Inv (fst (run P T evs)) (fold_left lt_step evs L).
Proof.
  induction evs as [|e evs IH]; intros T L Hl H; [exact H|].
  cbn [forallb] in Hl. apply andb_true_iff in Hl. destruct Hl as [He Hl].
  rewrite run_cons. cbn [fold_left]. apply IH; [exact Hl|]. apply step_inv; assumption.
Qed.

Lemma inv_init ob d st c u g : Inv (mkTop ob (init_sess d st c u g)) [].
Proof.
  split; [|split].
  - intros id. cbn. lia.
  - intros a. reflexivity.
  - cbn [t_base t_sess]. destruct ob; [constructor|split; reflexivity].
Qed.

(* the time origin after a run *)
Lemma step_base T e : gdb_event e = true ->
  t_base (fst (step P T e)) =
  match t_base T with Some b => Some b | None => match e with EGdbMsg _ _ m => Some (p_time m) | _ => None end end.
Proof.
  intros He. destruct T as [ob s]. destruct e as [ | | | |id th m|id|cm| | | ]; try discriminate; unfold step; cbn [t_base t_sess].
  - rewrite rel_time_eq. destruct (gdb_message P s id th _ m) as [s1 o]. cbn [fst t_base]. destruct ob; reflexivity.
  - cbn [fst t_base]. destruct ob; reflexivity.
  - cbn [fst t_base]. destruct ob; reflexivity.
Qed.

Lemma run_base : forall evs T, forallb gdb_event evs = true ->
  t_base (fst (run P T evs)) = match t_base T with Some b => Some b | None => first_gdb_time evs end.
Proof.
  induction evs as [|e evs IH]; intros T Hl.
  - cbn [run fst first_gdb_time]. destruct (t_base T); reflexivity.
  - cbn [forallb] in Hl. apply andb_true_iff in Hl. destruct Hl as [He Hl].
    rewrite run_cons, IH by exact Hl. rewrite (step_base T e He).
    destruct (t_base T) as [b|]; [reflexivity|].
    destruct e; try discriminate; reflexivity.
Qed.

(* ---- the connection list, exactly ----------------------------------------------------------------------- *)
Definition named_conns (b : Z) (L : list lifetime) : list connst :=
  map (fun nl => spec_conn b (fst nl) (snd nl)) (combine (names_list (List.length L)) L).

Lemma conns_by_name b cs L : Forall2 (conn_is b) cs L ->
  cs = map (fun nl => spec_conn b (fst nl) (snd nl)) (combine (map c_name cs) L).
Proof.
  intros F. induction F as [|c l cs L Hc F IH]; [reflexivity|].
  cbn [map combine fst snd]. rewrite <- IH. f_equal. exact Hc.
Qed.

Lemma Forall2_length' {A B} (R : A -> B -> Prop) l1 l2 : Forall2 R l1 l2 -> List.length l1 = List.length l2.
Proof. intros F. induction F; cbn [List.length]; congruence. Qed.

(* MAIN THEOREM (2).  [ob] is the time origin the run starts with ([None] for a fresh tool),
   [g] the in-gdb flag ([true] for the plugin). *)
Theorem gdb_conns_exact : forall d st c u g ob evs,
  forallb gdb_event evs = true ->
  s_conns (t_sess (fst (run P (mkTop ob (init_sess d st c u g)) evs))) =
  named_conns (origin ob evs) (lifetimes evs).
Proof.
  intros d st c u g ob evs Hl. set (T0 := mkTop ob (init_sess d st c u g)).
  pose proof (run_inv evs T0 [] Hl (inv_init ob d st c u g)) as (_ & _ & Hb).
  pose proof (run_base evs T0 Hl) as HB. cbn [T0 t_base] in HB.
  pose proof (names_sequential P evs T0 (names_ok_init d st c u g)) as [HN _].
  fold (lifetimes evs) in Hb. unfold named_conns.
  destruct (t_base (fst (run P T0 evs))) as [b|].
  - assert (Eb : origin ob evs = b).
    { unfold origin. destruct ob as [b0|]; [congruence|]. rewrite <- HB. reflexivity. }
    rewrite Eb, <- (Forall2_length' _ _ _ Hb), <- HN. apply conns_by_name. exact Hb.
  - destruct Hb as [-> ->]. reflexivity.
Qed.

End WithP.

(* ---- readable consequences -------------------------------------------------------------------------------- *)
Section Consequences.
Variable P : pdb.

Lemma named_conns_map {X} (f : connst -> X) (g : lifetime -> X) b L :
  (forall n l, f (spec_conn P b n l) = g l) -> map f (named_conns P b L) = map g L.
Proof.
  intros H. unfold named_conns. rewrite map_map.
  assert (G : forall (ns : list str) L, List.length ns = List.length L ->
            map (fun nl => f (spec_conn P b (fst nl) (snd nl))) (combine ns L) = map g L).
  { clear -H. induction ns as [|n ns IH]; intros [|l L] E; try discriminate; [reflexivity|].
    cbn [combine map fst snd]. rewrite H, IH by (cbn in E; lia). reflexivity. }
  apply G. unfold names_list. rewrite map_length, seq_length. reflexivity.
Qed.

Lemma named_conns_names b L : map c_name (named_conns P b L) = names_list (List.length L).
Proof.
  unfold named_conns. rewrite map_map.
  assert (G : forall (ns : list str) L, List.length ns = List.length L ->
            map (fun nl => c_name (spec_conn P b (fst nl) (snd nl))) (combine ns L) = ns).
  { clear. induction ns as [|n ns IH]; intros [|l L] E; try discriminate; [reflexivity|].
    cbn [combine map fst snd]. destruct (spec_conn_fields P b n l) as (_ & H & _). rewrite H, IH by (cbn in E; lia). reflexivity. }
  apply G. unfold names_list. rewrite map_length, seq_length. reflexivity.
Qed.

(* (2) as asked: one connection per lifetime, in the order of the lifetimes' first messages, named
   A, B, C, ... ([conn_name 0, 1, 2, ...]); identifier = the address; open = not destroyed; role read
   off the first message; and EVERY message of the lifetime is recorded — GDB mode refuses none (no
   decoding switch; a message whose resolution raises is recorded too, partially resolved) *)
Theorem gdb_conns_are_lifetimes : forall d st c u evs,
  forallb gdb_event evs = true ->
  let cs := s_conns (t_sess (fst (run P (mkTop None (init_sess d st c u true)) evs))) in
  let L := lifetimes evs in
  List.length cs = List.length L /\
  map c_name cs = names_list (List.length L) /\
  map c_id cs = map lt_addr L /\
  map c_open cs = map lt_open L /\
  map c_server cs = map lt_sv L /\
  map (fun c => List.length (c_msgs c)) cs = map (fun l => List.length (lt_msgs l)) L.
Proof.
  intros d st c u evs Hl. cbn zeta. rewrite (gdb_conns_exact P d st c u true None evs Hl).
  set (b := origin None evs). set (L := lifetimes evs).
  split; [|split; [|split; [|split; [|split]]]].
  - rewrite <- (map_length c_id), (named_conns_map c_id lt_addr), map_length; [reflexivity|].
    intros n l. apply (spec_conn_fields P b n l).
  - apply named_conns_names.
  - apply named_conns_map. intros n l. apply (spec_conn_fields P b n l).
  - apply named_conns_map. intros n l. apply (spec_conn_fields P b n l).
  - apply named_conns_map. intros n l. apply (spec_conn_fields P b n l).
  - apply (named_conns_map (fun c => List.length (c_msgs c)) (fun l => List.length (lt_msgs l))).
    intros n l. apply (spec_conn_fields P b n l).
Qed.

Lemma names_list_nth n i : (i < n)%nat -> nth_error (names_list n) i = Some (conn_name (N.of_nat i)).
Proof.
  intros H. unfold names_list. rewrite nth_error_map.
  rewrite (nth_error_nth' _ 0%nat) by (rewrite seq_length; exact H).
  rewrite seq_nth by exact H. reflexivity.
Qed.

Lemma nth_error_combine {A B} (l1 : list A) : forall (l2 : list B) i a b,
  nth_error l1 i = Some a -> nth_error l2 i = Some b -> nth_error (combine l1 l2) i = Some (a, b).
Proof.
  induction l1 as [|x l1 IH]; intros [|y l2] [|i] a b H1 H2; cbn in *; try discriminate.
  - congruence.
  - apply IH; assumption.
Qed.

(* the i-th connection is the i-th lifetime's *)
Theorem gdb_nth_conn : forall d st c u g ob evs i l,
  forallb gdb_event evs = true ->
  nth_error (lifetimes evs) i = Some l ->
  nth_error (s_conns (t_sess (fst (run P (mkTop ob (init_sess d st c u g)) evs)))) i =
  Some (spec_conn P (origin ob evs) (conn_name (N.of_nat i)) l).
Proof.
  intros d st c u g ob evs i l Hl Hi. rewrite (gdb_conns_exact P d st c u g ob evs Hl).
  unfold named_conns. rewrite nth_error_map.
  assert (Hlt : (i < List.length (lifetimes evs))%nat) by (apply nth_error_Some; congruence).
  assert (G : nth_error (combine (names_list (List.length (lifetimes evs))) (lifetimes evs)) i =
              Some (conn_name (N.of_nat i), l)).
  { apply nth_error_combine; [apply names_list_nth; exact Hlt|exact Hi]. }
  rewrite G. reflexivity.
Qed.

End Consequences.

Print Assumptions live_unique.
Print Assumptions live_iff_last_is_message.
Print Assumptions live_lifetime_is_last.
Print Assumptions lifetimes_at_addr.
Print Assumptions gdb_conns_exact.
Print Assumptions gdb_conns_are_lifetimes.
Print Assumptions gdb_nth_conn.
