(* DocParseD.v — T1 stage C, level by level: text, object, argument value, argument item.
   For each level: the rendered text is Good / a chunk / tight, and the level's parser (with enough
   fuel) returns the elaborated matcher (exactly for text and object, up to simplify for values and items). *)
From WD Require Import Base Wire Conn Color LetterId Matcher MatcherParse Doc.
From WD Require Import LetterIdProofs DecodeBasics ColorProofs ProtocolProofs MatcherProofs DocParseA DocParseB DocParseC.
From Coq Require Import Lia ZifyBool ZifyNat ZifyN.
Open Scope N_scope.

(* ---- the model's extra restriction (OutOfModel answers) ----------------------------------------------- *)
Fixpoint mok_val (v : dval) : bool :=
  match v with
  | VStr s => all_ascii s
  | VWord w => negb (forallb float_charset w)
  | VList pos neg => forallb mok_val pos && forallb mok_val neg
  | _ => true
  end.

Fixpoint mok_item (i : ditem) : bool :=
  match i with
  | IItem _ (Some v) => mok_val v
  | IItem _ None => true
  | IList pos neg => forallb mok_item pos && forallb mok_item neg
  end.

(* ---- helpers ---------------------------------------------------------------------------------------------- *)
Lemma Forall_wf {A} (wf : A -> bool) (Q : A -> Prop) xs :
  Forall (fun x => wf x = true -> Q x) xs -> forallb wf xs = true -> Forall Q xs.
Proof.
  intros H. induction H as [|x r Hx Hr IH]; intros W; [constructor|].
  cbn [forallb] in W. apply andb_true_iff in W. destruct W as [W1 W2]. constructor; auto.
Qed.

Lemma Forall_wf2 {A} (wf mok : A -> bool) (Q : A -> Prop) xs :
  Forall (fun x => wf x = true -> mok x = true -> Q x) xs -> forallb wf xs = true -> forallb mok xs = true -> Forall Q xs.
Proof.
  intros H. induction H as [|x r Hx Hr IH]; intros W M; [constructor|].
  cbn [forallb] in W, M. apply andb_true_iff in W. destruct W as [W1 W2].
  apply andb_true_iff in M. destruct M as [M1 M2]. constructor; auto.
Qed.

Lemma Forall_map' {A B} (f : A -> B) (Q : B -> Prop) xs : Forall (fun x => Q (f x)) xs -> Forall Q (map f xs).
Proof. intros H. induction H; constructor; assumption. Qed.

Lemma Forall_and {A} (P Q : A -> Prop) xs : Forall (fun x => P x /\ Q x) xs -> Forall P xs /\ Forall Q xs.
Proof. intros H. induction H as [|x r [H1 H2] Hr [I1 I2]]; split; constructor; assumption. Qed.

Lemma Forall_app' {A} (P : A -> Prop) xs ys : Forall P xs -> Forall P ys -> Forall P (xs ++ ys).
Proof. intros H1 H2. apply Forall_app. split; assumption. Qed.

Lemma ne_of_match {A} (pos neg : list A) :
  match pos, neg with [], [] => false | _, _ => true end = true -> pos <> [] \/ neg <> [].
Proof. destruct pos; [destruct neg; [discriminate|right; discriminate]|left; discriminate]. Qed.

Lemma exists_Forall2 {A} (F : A -> mt -> Prop) (Rel : mt -> mt -> Prop) (el : A -> mt) xs :
  (forall x, In x xs -> exists m, F x m /\ Rel m (el x)) ->
  exists ms, Forall2 F xs ms /\ Forall2 Rel ms (map el xs).
Proof.
  induction xs as [|x r IH]; intros H.
  - exists []. split; constructor.
  - destruct (H x (or_introl eq_refl)) as [m [H1 H2]].
    destruct IH as [ms [I1 I2]]; [intros y Hy; apply H; right; exact Hy|].
    exists (m :: ms). split; constructor; assumption.
Qed.

Lemma Forall2_map_l {A B C} (f : A -> B) (R : B -> C -> Prop) xs ys :
  Forall2 (fun x y => R (f x) y) xs ys -> Forall2 R (map f xs) ys.
Proof. intros H. induction H; constructor; assumption. Qed.

(* the list case of every level *)
Lemma level_list {A} (Rel : mt -> mt -> Prop) k (r : A -> str) (el : A -> mt) pad pos neg f m0 :
  blank pad ->
  (forall x, In x (pos ++ neg) -> Chunk 33 (r x) /\ Chunk 44 (r x)) ->
  (forall x, In x (pos ++ neg) -> exists m, parse_item (parse_list f) k (strip (r x)) = Ok m /\ Rel m (el x)) ->
  parse_item (parse_list f) k [] = Ok m0 ->
  (pos <> [] \/ neg <> []) ->
  exists ps ns, parse_list (S f) k (pad ++ rlist (map r pos) (map r neg) pad ++ pad) = Ok (assemble m0 ps ns)
    /\ Forall2 Rel ps (map el pos) /\ Forall2 Rel ns (map el neg).
Proof.
  intros Hp Hch Hpar H0 Hne.
  destruct (exists_Forall2 (fun x m => parse_item (parse_list f) k (strip (r x)) = Ok m) Rel el pos) as [ps [P1 P2]].
  { intros x Hx. apply Hpar. apply in_or_app. left. exact Hx. }
  destruct (exists_Forall2 (fun x m => parse_item (parse_list f) k (strip (r x)) = Ok m) Rel el neg) as [ns [N1 N2]].
  { intros x Hx. apply Hpar. apply in_or_app. right. exact Hx. }
  exists ps, ns. split; [|split; assumption].
  cbn [parse_list]. apply pml_rendered; try assumption.
  - rewrite <- map_app. apply Forall_map'. apply Forall_forall. intros x Hx. apply (Hch x Hx).
  - rewrite <- map_app. apply Forall_map'. apply Forall_forall. intros x Hx. apply (Hch x Hx).
  - apply Forall2_map_l. exact P1.
  - apply Forall2_map_l. exact N1.
  - destruct Hne as [Hne|Hne]; [left|right]; intros E; apply map_eq_nil in E; congruence.
Qed.

Lemma Forall2_eq_id ms es : Forall2 (fun m e : mt => m = e) ms es -> ms = es.
Proof. intros H. induction H; [reflexivity|]. subst. reflexivity. Qed.

Lemma level_list_eq {A} k (r : A -> str) (el : A -> mt) pad pos neg f :
  blank pad ->
  (forall x, In x (pos ++ neg) -> Chunk 33 (r x) /\ Chunk 44 (r x)) ->
  (forall x, In x (pos ++ neg) -> parse_item (parse_list f) k (strip (r x)) = Ok (el x)) ->
  parse_item (parse_list f) k [] = Ok (MAlways true) ->
  (pos <> [] \/ neg <> []) ->
  parse_list (S f) k (pad ++ rlist (map r pos) (map r neg) pad ++ pad) = Ok (list_or_single (map el pos) (map el neg)).
Proof.
  intros Hp Hch Hpar H0 Hne.
  destruct (level_list (fun m e => m = e) k r el pad pos neg f (MAlways true) Hp Hch) as [ps [ns [E [P N]]]]; try assumption.
  { intros x Hx. exists (el x). split; [apply Hpar, Hx|reflexivity]. }
  apply Forall2_eq_id in P, N. subst. rewrite E. reflexivity.
Qed.

Lemma level_list_seq {A} k (r : A -> str) (el : A -> mt) pad pos neg f m0 :
  blank pad ->
  (forall x, In x (pos ++ neg) -> Chunk 33 (r x) /\ Chunk 44 (r x)) ->
  (forall x, In x (pos ++ neg) -> exists m, parse_item (parse_list f) k (strip (r x)) = Ok m /\ seq m (el x)) ->
  parse_item (parse_list f) k [] = Ok m0 -> simplify m0 = MAlways true ->
  (pos <> [] \/ neg <> []) ->
  exists m, parse_list (S f) k (pad ++ rlist (map r pos) (map r neg) pad ++ pad) = Ok m
    /\ seq m (list_or_single (map el pos) (map el neg)).
Proof.
  intros Hp Hch Hpar H0 Hs Hne.
  destruct (level_list seq k r el pad pos neg f m0 Hp Hch Hpar H0 Hne) as [ps [ns [E [P N]]]].
  exists (assemble m0 ps ns). split; [exact E|]. apply seq_assemble; assumption.
Qed.

(* fuel for the children of a bracketed list *)
Lemma fuel_child {A} (r : A -> str) pad pos neg f x :
  (cnt91 (bracket (rlist (map r pos) (map r neg) pad) pad) <= S f)%nat -> In x (pos ++ neg) -> (cnt91 (r x) <= f)%nat.
Proof.
  intros H Hx. pose proof (cnt91_bracket (rlist (map r pos) (map r neg) pad) pad) as B.
  assert (I : In (r x) (map r pos ++ map r neg)) by (rewrite <- map_app; apply in_map; exact Hx).
  pose proof (cnt91_rlist (map r pos) (map r neg) pad (r x) I). lia.
Qed.

Lemma fuel_pos s pad f : (cnt91 (bracket s pad) <= f)%nat -> exists f', f = S f'.
Proof. intros H. pose proof (cnt91_bracket s pad). destruct f as [|f']; [lia|]. exists f'. reflexivity. Qed.

Lemma strip_bracket s pad : strip (bracket s pad) = bracket s pad.
Proof. rewrite bracket_eq. cbn [app]. apply strip_wrap; reflexivity. Qed.

Lemma bracket_ne_nil s pad : bracket s pad <> [].
Proof. rewrite bracket_eq. discriminate. Qed.

(* ---- text ------------------------------------------------------------------------------------------------- *)
Definition delim_ok (d : char) : Prop := ident_char d = false /\ d <> 91 /\ is_space d = false /\ d <> 64 /\ d <> 35 /\ d <> 34.

Lemma text_facts pad : blank pad -> forall t, wf_text t = true ->
  Good (r_text pad t) /\ strip (r_text pad t) = r_text pad t /\ r_text pad t <> [] /\
  (forall d, delim_ok d -> Chunk d (r_text pad t)).
Proof.
  intros Hp. induction t as [w|pos neg IHp IHn] using dtext_ind'; intros W.
  - cbn [wf_text r_text] in *. destruct (wf_tword_inv w W) as [W1 W2].
    split; [apply Good_ident, W2|]. split; [apply strip_nonblank_all, ident_nonblank, W2|].
    split; [exact W1|]. intros d [D1 _]. apply Chunk_plain, ident_plain; assumption.
  - cbn [wf_text] in W. apply andb_true_iff in W. destruct W as [W W3].
    apply andb_true_iff in W. destruct W as [W1 W2].
    assert (G : Good (rlist (map (r_text pad) pos) (map (r_text pad) neg) pad)).
    { apply Good_rlist; [exact Hp| |]; apply Forall_map'.
      - apply (Forall_wf wf_text); [|exact W1]. revert IHp. apply Forall_impl. intros a H Wa. apply (H Wa).
      - apply (Forall_wf wf_text); [|exact W2]. revert IHn. apply Forall_impl. intros a H Wa. apply (H Wa). }
    cbn [r_text]. split; [apply Good_bracket; assumption|]. split; [apply strip_bracket|].
    split; [apply bracket_ne_nil|]. intros d [_ [D2 _]]. apply Chunk_bracket; assumption.
Qed.

Lemma delim_33 : delim_ok 33. Proof. repeat split; try reflexivity; discriminate. Qed.
Lemma delim_44 : delim_ok 44. Proof. repeat split; try reflexivity; discriminate. Qed.
Lemma delim_58 : delim_ok 58. Proof. repeat split; try reflexivity; discriminate. Qed.
Lemma delim_46 : delim_ok 46. Proof. repeat split; try reflexivity; discriminate. Qed.
Lemma delim_40 : delim_ok 40. Proof. repeat split; try reflexivity; discriminate. Qed.
Lemma delim_61 : delim_ok 61. Proof. repeat split; try reflexivity; discriminate. Qed.

Lemma forallb_In {A} (p : A -> bool) xs x : forallb p xs = true -> In x xs -> p x = true.
Proof. intros H Hx. rewrite forallb_forall in H. apply H, Hx. Qed.

Lemma forallb_In_app {A} (p : A -> bool) xs ys x : forallb p xs = true -> forallb p ys = true -> In x (xs ++ ys) -> p x = true.
Proof. intros H1 H2 Hx. apply in_app_or in Hx. destruct Hx as [Hx|Hx]; [exact (forallb_In p xs x H1 Hx)|exact (forallb_In p ys x H2 Hx)]. Qed.

Lemma Forall_In_app {A} (P : A -> Prop) xs ys x : Forall P xs -> Forall P ys -> In x (xs ++ ys) -> P x.
Proof. intros H1 H2 Hx. apply in_app_or in Hx. rewrite Forall_forall in H1, H2. destruct Hx; auto. Qed.

Theorem T_text pad : blank pad -> forall t, wf_text t = true -> forall f, (cnt91 (r_text pad t) <= f)%nat ->
  parse_text_matcher (parse_list f) (r_text pad t) = Ok (elab_text t).
Proof.
  intros Hp. induction t as [w|pos neg IHp IHn] using dtext_ind'; intros W f Hf.
  - cbn [wf_text r_text elab_text] in *. apply ptm_tword. exact W.
  - cbn [wf_text] in W. apply andb_true_iff in W. destruct W as [W W3].
    apply andb_true_iff in W. destruct W as [W1 W2].
    cbn [r_text elab_text] in *. destruct (fuel_pos _ _ _ Hf) as [f' ->].
    unfold parse_text_matcher. rewrite bracketed_bracket, strip_ends_bracket.
    apply level_list_eq; [exact Hp| | |reflexivity|apply ne_of_match, W3].
    + intros x Hx. pose proof (forallb_In_app _ _ _ _ W1 W2 Hx) as Wx.
      destruct (text_facts pad Hp x Wx) as [_ [_ [_ C]]]. split; apply C; [apply delim_33|apply delim_44].
    + intros x Hx. pose proof (forallb_In_app _ _ _ _ W1 W2 Hx) as Wx.
      destruct (text_facts pad Hp x Wx) as [_ [S _]]. rewrite S. cbn [parse_item].
      apply (Forall_In_app _ _ _ _ IHp IHn Hx Wx). exact (fuel_child (r_text pad) pad pos neg f' x Hf Hx).
Qed.

(* ---- objects ------------------------------------------------------------------------------------------------ *)
Definition idc (c : char) : bool := ident_char c || N.eqb c 64 || N.eqb c 35.

Lemma idc_Good s : forallb idc s = true -> Good s.
Proof. intros H. apply Good_okc. revert H. apply forallb_impl. intros c Hc. unfold okc, idc in *. ccx. Qed.
Lemma idc_nonblank s : forallb idc s = true -> nonblank_all s = true.
Proof. unfold nonblank_all. apply forallb_impl. intros c Hc. unfold idc in *. ccx. Qed.
Lemma idc_plain d s : delim_ok d -> forallb idc s = true -> plain_for d s = true.
Proof.
  intros [D1 [D2 [D3 [D4 [D5 D6]]]]]. unfold plain_for. apply forallb_impl. intros c Hc.
  assert (H1 : c <> d).
  { intros ->. unfold idc in Hc. rewrite D1 in Hc. cbn [orb] in Hc. apply orb_true_iff in Hc.
    destruct Hc as [Hc|Hc]; apply N.eqb_eq in Hc; congruence. }
  assert (H2 : is_brace c = false) by (unfold idc in Hc; ccx).
  apply N.eqb_neq in H1. rewrite H1, H2. reflexivity.
Qed.
Lemma ident_idc s : forallb ident_char s = true -> forallb idc s = true.
Proof. apply forallb_impl. intros c Hc. unfold idc. rewrite Hc. reflexivity. Qed.

Lemma r_id_idc a id l : (0 <= id)%Z -> wf_letters l = true ->
  match a with Some c => N.eqb c 64 || N.eqb c 35 | None => true end = true -> forallb idc (r_id a id l) = true.
Proof.
  intros Hid Hl Ha. unfold r_id. rewrite forallb_app, (ident_idc _ (id_body_ident id l Hid Hl)), andb_true_r.
  destruct a as [c|]; [|reflexivity]. cbn [forallb]. rewrite andb_true_r. unfold idc.
  destruct (ident_char c); [reflexivity|exact Ha].
Qed.

Lemma idc_facts s : forallb idc s = true ->
  Good s /\ strip s = s /\ (forall d, delim_ok d -> Chunk d s).
Proof.
  intros H. split; [apply idc_Good, H|]. split; [apply strip_nonblank_all, idc_nonblank, H|].
  intros d Hd. apply Chunk_plain, idc_plain; assumption.
Qed.

Lemma wf_obj_id_inv a id l : wf_obj (OId a id l) = true ->
  (0 <= id)%Z /\ wf_letters l = true /\ match a with Some c => N.eqb c 64 || N.eqb c 35 | None => true end = true.
Proof.
  cbn [wf_obj]. intros H. apply andb_true_iff in H. destruct H as [H H3].
  apply andb_true_iff in H. destruct H as [H1 H2]. apply Z.leb_le in H1. auto.
Qed.

Lemma obj_facts pad : blank pad -> forall o, wf_obj o = true ->
  Good (r_obj pad o) /\ strip (r_obj pad o) = r_obj pad o /\ (forall d, delim_ok d -> Chunk d (r_obj pad o)).
Proof.
  intros Hp. induction o as [|w|a id l| |pos neg IHp IHn] using dobj_ind'; intros W.
  - cbn [r_obj]. split; [apply Good_nil|]. split; [reflexivity|]. intros d _. constructor.
  - cbn [wf_obj r_obj] in *. destruct (wf_word_inv w W) as [c [r [E [_ [Hi _]]]]]. apply idc_facts, ident_idc, Hi.
  - cbn [r_obj]. destruct (wf_obj_id_inv a id l W) as [H1 [H2 H3]]. apply idc_facts, r_id_idc; assumption.
  - cbn [r_obj]. apply idc_facts. reflexivity.
  - cbn [wf_obj] in W. apply andb_true_iff in W. destruct W as [W W3].
    apply andb_true_iff in W. destruct W as [W1 W2].
    assert (G : Good (rlist (map (r_obj pad) pos) (map (r_obj pad) neg) pad)).
    { apply Good_rlist; [exact Hp| |]; apply Forall_map'.
      - apply (Forall_wf wf_obj); [|exact W1]. revert IHp. apply Forall_impl. intros a H Wa. apply (H Wa).
      - apply (Forall_wf wf_obj); [|exact W2]. revert IHn. apply Forall_impl. intros a H Wa. apply (H Wa). }
    cbn [r_obj]. split; [apply Good_bracket; assumption|]. split; [apply strip_bracket|].
    intros d [_ [D2 _]]. apply Chunk_bracket; assumption.
Qed.

Theorem T_obj pad : blank pad -> forall o, wf_obj o = true -> forall f, (cnt91 (r_obj pad o) <= f)%nat ->
  parse_obj_matcher (parse_list f) (r_obj pad o) = Ok (elab_obj o).
Proof.
  intros Hp. induction o as [|w|a id l| |pos neg IHp IHn] using dobj_ind'; intros W f Hf.
  - reflexivity.
  - cbn [wf_obj r_obj elab_obj] in *. apply pom_name. exact W.
  - cbn [r_obj elab_obj]. destruct (wf_obj_id_inv a id l W) as [H1 [H2 H3]]. apply pom_id; assumption.
  - apply pom_nil.
  - cbn [wf_obj] in W. apply andb_true_iff in W. destruct W as [W W3].
    apply andb_true_iff in W. destruct W as [W1 W2].
    cbn [r_obj elab_obj] in *. destruct (fuel_pos _ _ _ Hf) as [f' ->].
    unfold parse_obj_matcher. rewrite bracketed_bracket, strip_ends_bracket.
    apply level_list_eq; [exact Hp| | |reflexivity|apply ne_of_match, W3].
    + intros x Hx. pose proof (forallb_In_app _ _ _ _ W1 W2 Hx) as Wx.
      destruct (obj_facts pad Hp x Wx) as [_ [_ C]]. split; apply C; [apply delim_33|apply delim_44].
    + intros x Hx. pose proof (forallb_In_app _ _ _ _ W1 W2 Hx) as Wx.
      destruct (obj_facts pad Hp x Wx) as [_ [S _]]. rewrite S. cbn [parse_item].
      apply (Forall_In_app _ _ _ _ IHp IHn Hx Wx). exact (fuel_child (r_obj pad) pad pos neg f' x Hf Hx).
Qed.

(* ---- argument values ------------------------------------------------------------------------------------ *)
Definition vdelim (d : char) : Prop := d = 33 \/ d = 44 \/ d = 61.
Lemma vdelim_ok d : vdelim d -> delim_ok d.
Proof. intros [-> | [-> | ->]]; [apply delim_33|apply delim_44|apply delim_61]. Qed.

Lemma num_idc s : forallb num_char s = true -> forallb idc s = true.
Proof. apply forallb_impl. intros c Hc. unfold idc, num_char in *. ccx. Qed.

Lemma idc_not_bracketed s : forallb idc s = true -> bracketed s = false.
Proof.
  destruct s as [|c r]; [reflexivity|]. cbn [forallb]. intros H. apply andb_true_iff in H. destruct H as [H _].
  apply bracketed_ne. unfold idc in H. ccx.
Qed.

Lemma float_facts n ip fp : ip <> [] -> forallb is_digit ip = true -> forallb is_digit fp = true ->
  Good (r_float n ip fp) /\ strip (r_float n ip fp) = r_float n ip fp /\ r_float n ip fp <> [] /\
  (forall d, vdelim d -> Chunk d (r_float n ip fp)) /\ bracketed (r_float n ip fp) = false.
Proof.
  intros Hn Hi Hf. pose proof (r_float_chars n ip fp Hi Hf) as C.
  split; [apply Good_okc; revert C; apply forallb_impl; intros c Hc; unfold okc, float_char in *; ccx|].
  split; [apply strip_nonblank_all, float_nonblank, C|].
  split; [unfold r_float; destruct n, ip; try congruence; discriminate|].
  split.
  - intros d Hd. apply Chunk_plain. unfold plain_for. revert C. apply forallb_impl. intros c Hc.
    unfold float_char in Hc. destruct Hd as [-> | [-> | ->]]; ccx.
  - destruct ip as [|c ip]; [congruence|]. cbn [forallb] in Hi. apply andb_true_iff in Hi. destruct Hi as [Hc _].
    unfold r_float. destruct n; cbn [app]; apply bracketed_ne; ccx.
Qed.

Lemma str_facts s : forallb str_char_ok s = true ->
  Good (34 :: s ++ [34]) /\ strip (34 :: s ++ [34]) = 34 :: s ++ [34] /\
  (forall d, vdelim d -> Chunk d (34 :: s ++ [34])) /\ bracketed (34 :: s ++ [34]) = false.
Proof.
  intros H. split; [|split; [|split]].
  - apply Good_okc. cbn [forallb]. rewrite forallb_app. cbn [forallb].
    assert (X : forallb okc s = true) by (revert H; apply forallb_impl; intros c Hc; unfold okc; ccx).
    rewrite X. reflexivity.
  - apply strip_wrap; reflexivity.
  - intros d Hd. apply (Chunk_quote d s []); [destruct Hd as [-> | [-> | ->]]; discriminate| |constructor].
    destruct (str_char_ok_free s H) as [F _]. exact F.
  - apply bracketed_ne. discriminate.
Qed.

Lemma wf_val_float_inv n ip fp : wf_val (VFloat n ip fp) = true ->
  ip <> [] /\ forallb is_digit ip = true /\ forallb is_digit fp = true.
Proof.
  cbn [wf_val]. destruct ip as [|i0 ip]; [discriminate|]. destruct fp as [|f0 fp]; [discriminate|].
  intros H. apply andb_true_iff in H. destruct H as [H _]. apply andb_true_iff in H. destruct H as [H1 H2].
  split; [discriminate|]. split; assumption.
Qed.

Lemma wf_val_obj_inv c id l : wf_val (VObj c id l) = true ->
  (0 <= id)%Z /\ wf_letters l = true /\ (N.eqb c 64 || N.eqb c 35) = true.
Proof.
  cbn [wf_val]. intros H. apply andb_true_iff in H. destruct H as [H H3].
  apply andb_true_iff in H. destruct H as [H1 H2]. apply Z.leb_le in H1. auto.
Qed.

Definition is_vlist (v : dval) : bool := match v with VList _ _ => true | _ => false end.

Lemma idc_vfacts s : s <> [] -> forallb idc s = true ->
  Good s /\ strip s = s /\ s <> [] /\ (forall d, vdelim d -> Chunk d s) /\ (false = false -> bracketed s = false).
Proof.
  intros Hn H. destruct (idc_facts s H) as [G [S C]]. split; [exact G|]. split; [exact S|]. split; [exact Hn|].
  split; [intros d Hd; apply C, vdelim_ok, Hd|]. intros _. apply idc_not_bracketed, H.
Qed.

Lemma val_facts pad : blank pad -> forall v, wf_val v = true ->
  Good (r_val pad v) /\ strip (r_val pad v) = r_val pad v /\ r_val pad v <> [] /\
  (forall d, vdelim d -> Chunk d (r_val pad v)) /\ (is_vlist v = false -> bracketed (r_val pad v) = false).
Proof.
  intros Hp. induction v as [|z|n ip fp|s|w|c id l| |pos neg IHp IHn] using dval_ind'; intros W.
  - cbn [r_val is_vlist]. apply idc_vfacts; [discriminate|reflexivity].
  - cbn [r_val is_vlist]. apply idc_vfacts; [|apply num_idc, z_to_dec_chars].
    destruct (z_to_dec_first z) as [c [r [E _]]]. rewrite E. discriminate.
  - cbn [r_val is_vlist]. destruct (wf_val_float_inv n ip fp W) as [H1 [H2 H3]].
    destruct (float_facts n ip fp H1 H2 H3) as [A [B [C [D E]]]].
    split; [exact A|]. split; [exact B|]. split; [exact C|]. split; [exact D|]. intros _. exact E.
  - cbn [r_val is_vlist wf_val app] in *. destruct (str_facts s W) as [A [B [C D]]].
    split; [exact A|]. split; [exact B|]. split; [discriminate|]. split; [exact C|]. intros _. exact D.
  - cbn [r_val is_vlist wf_val] in *. destruct (wf_word_inv w W) as [c [r [E [_ [Hi _]]]]].
    apply idc_vfacts; [rewrite E; discriminate|apply ident_idc, Hi].
  - cbn [r_val is_vlist]. destruct (wf_val_obj_inv c id l W) as [H1 [H2 H3]].
    apply idc_vfacts; [unfold r_id; discriminate|apply r_id_idc; assumption].
  - cbn [r_val is_vlist]. apply idc_vfacts; [discriminate|reflexivity].
  - cbn [wf_val] in W. apply andb_true_iff in W. destruct W as [W W3].
    apply andb_true_iff in W. destruct W as [W1 W2].
    assert (G : Good (rlist (map (r_val pad) pos) (map (r_val pad) neg) pad)).
    { apply Good_rlist; [exact Hp| |]; apply Forall_map'.
      - apply (Forall_wf wf_val); [|exact W1]. revert IHp. apply Forall_impl. intros a H Wa. apply (H Wa).
      - apply (Forall_wf wf_val); [|exact W2]. revert IHn. apply Forall_impl. intros a H Wa. apply (H Wa). }
    cbn [r_val is_vlist]. split; [apply Good_bracket; assumption|]. split; [apply strip_bracket|].
    split; [apply bracket_ne_nil|]. split; [|discriminate].
    intros d Hd. apply Chunk_bracket; [destruct Hd as [-> | [-> | ->]]; discriminate|exact Hp|exact G].
Qed.

Theorem T_val pad : blank pad -> forall v, wf_val v = true -> mok_val v = true ->
  forall f, (cnt91 (r_val pad v) <= f)%nat ->
  exists m, parse_arg_value_matcher (parse_list f) (r_val pad v) = Ok m /\ seq m (elab_val v).
Proof.
  intros Hp. induction v as [|z|n ip fp|s|w|c id l| |pos neg IHp IHn] using dval_ind'; intros W M f Hf.
  - eexists. split; [apply pavm_any|reflexivity].
  - eexists. split; [apply pavm_int|reflexivity].
  - eexists. split; [apply pavm_float; exact W|reflexivity].
  - eexists. split; [cbn [r_val app]; apply pavm_str; [exact W|exact M]|reflexivity].
  - eexists. split; [cbn [r_val]; apply pavm_word; [exact W|cbn [mok_val] in M; apply negb_true_iff in M; exact M]|reflexivity].
  - destruct (wf_val_obj_inv c id l W) as [H1 [H2 H3]].
    eexists. split; [cbn [r_val]; apply pavm_obj; assumption|reflexivity].
  - eexists. split; [apply pavm_nil|reflexivity].
  - cbn [wf_val] in W. apply andb_true_iff in W. destruct W as [W W3].
    apply andb_true_iff in W. destruct W as [W1 W2].
    cbn [mok_val] in M. apply andb_true_iff in M. destruct M as [M1 M2].
    cbn [r_val elab_val] in *. destruct (fuel_pos _ _ _ Hf) as [f' ->].
    unfold parse_arg_value_matcher. rewrite bracketed_bracket, strip_ends_bracket.
    apply (level_list_seq KArgValue (r_val pad) elab_val pad pos neg f' (MWrap WInt (MAlways true)));
      [exact Hp| | |reflexivity|reflexivity|apply ne_of_match, W3].
    + intros x Hx. pose proof (forallb_In_app _ _ _ _ W1 W2 Hx) as Wx.
      destruct (val_facts pad Hp x Wx) as [_ [_ [_ [C _]]]]. split; apply C; [left|right; left]; reflexivity.
    + intros x Hx. pose proof (forallb_In_app _ _ _ _ W1 W2 Hx) as Wx.
      pose proof (forallb_In_app _ _ _ _ M1 M2 Hx) as Mx.
      destruct (val_facts pad Hp x Wx) as [_ [S _]]. rewrite S. cbn [parse_item].
      apply (Forall_In_app _ _ _ _ IHp IHn Hx Wx Mx). exact (fuel_child (r_val pad) pad pos neg f' x Hf Hx).
Qed.

(* ---- argument items ----------------------------------------------------------------------------------------- *)
Definition rv_of (pad : str) (v : option dval) : str := match v with Some d => r_val pad d | None => [] end.

Lemma rv_facts pad v : blank pad -> match v with Some d => wf_val d | None => true end = true ->
  Good (rv_of pad v) /\ strip (rv_of pad v) = rv_of pad v /\ (forall d, vdelim d -> Chunk d (rv_of pad v)).
Proof.
  intros Hp W. destruct v as [d|]; cbn [rv_of].
  - destruct (val_facts pad Hp d W) as [A [B [_ [C _]]]]. auto.
  - split; [apply Good_nil|]. split; [reflexivity|]. intros d _. constructor.
Qed.

Lemma named_eq pad w v : r_item pad (IItem (Some w) v) = (w ++ pad) ++ 61 :: (pad ++ rv_of pad v).
Proof. cbn [r_item]. unfold rv_of. repeat rewrite <- app_assoc. reflexivity. Qed.

Lemma wf_item_inv name v : wf_item (IItem name v) = true ->
  match name with Some w => wf_tword w | None => true end = true /\
  match v with Some d => wf_val d | None => true end = true /\
  match name, v with None, None => false | None, Some (VList _ _) => false | _, _ => true end = true.
Proof.
  cbn [wf_item]. intros H. apply andb_true_iff in H. destruct H as [H H3].
  apply andb_true_iff in H. destruct H as [H1 H2]. auto.
Qed.

Lemma Chunk_one (d c : char) : c <> d -> is_brace c = false -> Chunk d [c].
Proof. intros H1 H2. apply Ch_char; [exact H1|exact H2|constructor]. Qed.

Definition ldelim (d : char) : Prop := d = 33 \/ d = 44.
Lemma ldelim_v d : ldelim d -> vdelim d.
Proof. intros [->| ->]; [left|right; left]; reflexivity. Qed.

Lemma item_facts pad : blank pad -> forall i, wf_item i = true ->
  Good (r_item pad i) /\ (forall d, ldelim d -> Chunk d (r_item pad i)).
Proof.
  intros Hp. induction i as [name v|pos neg IHp IHn] using ditem_ind'; intros W.
  - destruct (wf_item_inv name v W) as [W1 [W2 W3]].
    destruct (rv_facts pad v Hp W2) as [G [_ C]].
    destruct name as [w|].
    + rewrite named_eq. destruct (wf_tword_inv w W1) as [Hn Hi]. split.
      * apply Good_app; [apply Good_app; [apply Good_ident, Hi|apply Good_blank, Hp]|].
        change (61 :: pad ++ rv_of pad v) with ([61] ++ pad ++ rv_of pad v).
        apply Good_app; [apply Good_one; reflexivity|]. apply Good_app; [apply Good_blank, Hp|exact G].
      * intros d Hd. pose proof (vdelim_ok d (ldelim_v d Hd)) as [D1 [D2 [D3 _]]].
        apply Chunk_app; [apply Chunk_app; [apply Chunk_plain, ident_plain; assumption|apply Chunk_blank; assumption]|].
        change (61 :: pad ++ rv_of pad v) with ([61] ++ pad ++ rv_of pad v).
        apply Chunk_app; [|apply Chunk_app; [apply Chunk_blank; assumption|apply C, ldelim_v, Hd]].
        apply Chunk_one; [|reflexivity]. destruct Hd as [-> | ->]; discriminate.
    + cbn [r_item]. fold (rv_of pad v). split; [exact G|]. intros d Hd. apply C, ldelim_v, Hd.
  - cbn [wf_item] in W. apply andb_true_iff in W. destruct W as [W W3].
    apply andb_true_iff in W. destruct W as [W1 W2].
    assert (G : Good (rlist (map (r_item pad) pos) (map (r_item pad) neg) pad)).
    { apply Good_rlist; [exact Hp| |]; apply Forall_map'.
      - apply (Forall_wf wf_item); [|exact W1]. revert IHp. apply Forall_impl. intros a H Wa. apply (H Wa).
      - apply (Forall_wf wf_item); [|exact W2]. revert IHn. apply Forall_impl. intros a H Wa. apply (H Wa). }
    cbn [r_item]. split; [apply Good_bracket; assumption|].
    intros d Hd. apply Chunk_bracket; [destruct Hd as [-> | ->]; discriminate|exact Hp|exact G].
Qed.

Lemma seq_arg_matcher n n' v v' : seq n n' -> seq v v' -> seq (arg_matcher n v) (arg_matcher n' v').
Proof. intros H1 H2. unfold arg_matcher. apply seq_wrap, seq_pair; assumption. Qed.

Lemma rv_parse pad v f : blank pad -> match v with Some d => wf_val d | None => true end = true ->
  match v with Some d => mok_val d | None => true end = true -> (cnt91 (rv_of pad v) <= f)%nat ->
  exists m, parse_arg_value_matcher (parse_list f) (rv_of pad v) = Ok m /\
            seq m (match v with Some d => elab_val d | None => MWrap WInt (MAlways true) end).
Proof.
  intros Hp W M Hf. destruct v as [d|]; cbn [rv_of] in *.
  - apply T_val; assumption.
  - eexists. split; [apply pavm_empty|reflexivity].
Qed.

Lemma pam_named rec pad w v m : blank pad -> wf_tword w = true ->
  match v with Some d => wf_val d | None => true end = true ->
  parse_arg_value_matcher rec (rv_of pad v) = Ok m ->
  parse_arg_matcher rec (strip (r_item pad (IItem (Some w) v))) = Ok (arg_matcher (str_matcher w) m).
Proof.
  intros Hp W1 W2 Hm. destruct (rv_facts pad v Hp W2) as [G [S C]].
  destruct (wf_tword_inv w W1) as [Hn Hi]. rewrite named_eq.
  set (text0 := (w ++ pad) ++ 61 :: pad ++ rv_of pad v).
  assert (B : bracketed (strip text0) = false).
  { unfold text0. destruct w as [|c r]; [congruence|]. cbn [app].
    assert (Hc : ident_char c = true) by (cbn [forallb] in Hi; apply andb_true_iff in Hi; tauto).
    destruct (strip_cons_nonblank c ((r ++ pad) ++ 61 :: pad ++ rv_of pad v)) as [s' E]; [ccx|].
    rewrite E. apply bracketed_ne. ccx. }
  unfold parse_arg_matcher. rewrite B. rewrite split_pair_strip by reflexivity. unfold text0.
  rewrite split_pair_two; [|reflexivity| |].
  - rewrite strip_app_blank by exact Hp. rewrite strip_blank_app by exact Hp.
    rewrite (strip_nonblank_all w (ident_nonblank w Hi)), S. cbn [bind].
    rewrite (ptm_tword _ w W1). cbn [bind]. rewrite Hm. reflexivity.
  - apply Chunk_app; [apply Chunk_plain, ident_plain; [reflexivity|exact Hi]|apply Chunk_blank; [reflexivity|exact Hp]].
  - apply Chunk_app; [apply Chunk_blank; [reflexivity|exact Hp]|]. apply C. right. right. reflexivity.
Qed.

Lemma pam_unnamed rec pad d m : blank pad -> wf_val d = true -> is_vlist d = false ->
  parse_arg_value_matcher rec (r_val pad d) = Ok m ->
  parse_arg_matcher rec (strip (r_item pad (IItem None (Some d)))) = Ok (arg_matcher (MAlways true) m).
Proof.
  intros Hp W Hl Hm. destruct (val_facts pad Hp d W) as [_ [S [_ [C B]]]].
  cbn [r_item]. rewrite S. unfold parse_arg_matcher. rewrite (B Hl).
  rewrite split_pair_none by (apply C; right; right; reflexivity). cbn [bind]. rewrite Hm. reflexivity.
Qed.

Lemma cnt91_named pad w v : (cnt91 (rv_of pad v) <= cnt91 (r_item pad (IItem (Some w) v)))%nat.
Proof. rewrite named_eq. rewrite cnt91_app. change (61 :: pad ++ rv_of pad v) with ([61] ++ pad ++ rv_of pad v). rewrite !cnt91_app. lia. Qed.

Theorem T_item pad : blank pad -> forall i, wf_item i = true -> mok_item i = true ->
  forall f, (cnt91 (r_item pad i) <= f)%nat ->
  exists m, parse_arg_matcher (parse_list f) (strip (r_item pad i)) = Ok m /\ seq m (elab_item i).
Proof.
  intros Hp. induction i as [name v|pos neg IHp IHn] using ditem_ind'; intros W M f Hf.
  - destruct (wf_item_inv name v W) as [W1 [W2 W3]].
    assert (M2 : match v with Some d => mok_val d | None => true end = true) by (destruct v; exact M).
    destruct name as [w|].
    + pose proof (cnt91_named pad w v) as Hc.
      destruct (rv_parse pad v f Hp W2 M2) as [m [E Q]]; [lia|].
      exists (arg_matcher (str_matcher w) m). split; [apply pam_named; assumption|].
      cbn [elab_item]. apply seq_arg_matcher; [reflexivity|exact Q].
    + destruct v as [d|]; [|discriminate].
      assert (Hl : is_vlist d = false) by (destruct d; try reflexivity; discriminate).
      destruct (T_val pad Hp d W2 M2 f Hf) as [m [E Q]].
      exists (arg_matcher (MAlways true) m). split; [apply pam_unnamed; assumption|].
      cbn [elab_item]. apply seq_arg_matcher; [reflexivity|exact Q].
  - cbn [wf_item] in W. apply andb_true_iff in W. destruct W as [W W3].
    apply andb_true_iff in W. destruct W as [W1 W2].
    cbn [mok_item] in M. apply andb_true_iff in M. destruct M as [M1 M2].
    cbn [r_item elab_item] in *. destruct (fuel_pos _ _ _ Hf) as [f' ->].
    rewrite strip_bracket. unfold parse_arg_matcher. rewrite bracketed_bracket, strip_ends_bracket.
    apply (level_list_seq KArg (r_item pad) elab_item pad pos neg f' (arg_matcher (MAlways true) (MWrap WInt (MAlways true))));
      [exact Hp| | |reflexivity|reflexivity|apply ne_of_match, W3].
    + intros x Hx. pose proof (forallb_In_app _ _ _ _ W1 W2 Hx) as Wx.
      destruct (item_facts pad Hp x Wx) as [_ C]. split; apply C; [left|right]; reflexivity.
    + intros x Hx. pose proof (forallb_In_app _ _ _ _ W1 W2 Hx) as Wx.
      pose proof (forallb_In_app _ _ _ _ M1 M2 Hx) as Mx. cbn [parse_item].
      apply (Forall_In_app _ _ _ _ IHp IHn Hx Wx Mx). exact (fuel_child (r_item pad) pad pos neg f' x Hf Hx).
Qed.
