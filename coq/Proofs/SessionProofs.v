(* Proofs about the whole pipeline: time shift (C16), prefix/truncation and passthrough (C08),
   commands never touch the record (C06/C11), connection names (C04). *)
From WD Require Import Base Wire Protocol Conn Color LetterId Matcher MatcherParse Show Session.
From Coq Require Import Lia.
Open Scope Z_scope.

Section WithP.
Variable P : pdb.

(* ---- C16: adding a constant to every time in the log changes nothing that is shown ------------ *)
Definition shift_msg (c : Z) (m : pmsg) : pmsg :=
  mkPmsg (p_time m + c) (p_type m) (p_id m) (p_sent m) (p_name m) (p_args m).
Definition shift_event (c : Z) (e : event) : event :=
  match e with
  | EMsg id m => EMsg id (shift_msg c m)
  | EGdbMsg id t m => EGdbMsg id t (shift_msg c m)
  | ESinkMsg id m => ESinkMsg id (shift_msg c m)
  | _ => e
  end.
Definition shift_top (c : Z) (T : top) : top :=
  mkTop (option_map (fun b => b + c) (t_base T)) (t_sess T).

Lemma rel_time_shift c b t :
  rel_time (option_map (fun x => x + c) b) (t + c) =
  (option_map (fun x => x + c) (fst (rel_time b t)), snd (rel_time b t)).
Proof. destruct b as [b|]; cbn; f_equal; lia. Qed.

Lemma log_message_shift s id rel c m : log_message P s id rel (shift_msg c m) = log_message P s id rel m.
Proof. reflexivity. Qed.
Lemma gdb_message_shift s id th rel c m : gdb_message P s id th rel (shift_msg c m) = gdb_message P s id th rel m.
Proof. reflexivity. Qed.

Theorem step_shift c T e :
  step P (shift_top c T) (shift_event c e) = (shift_top c (fst (step P T e)), snd (step P T e)).
Proof.
  destruct T as [b s]. destruct e as [id m|t|cm| |id th m|id|cm|id sv|id|id m]; unfold step, shift_top, shift_event;
    cbn [t_base t_sess].
  - cbn [shift_msg p_time]. rewrite rel_time_shift. destruct (rel_time b (p_time m)) as [b' rel]. cbn [fst snd].
    rewrite log_message_shift. destruct (log_message P s id rel m). reflexivity.
  - cbn [fst snd]. reflexivity.
  - destruct (process_command command_fuel s cm). reflexivity.
  - destruct (log_eof s). reflexivity.
  - cbn [shift_msg p_time]. rewrite rel_time_shift. destruct (rel_time b (p_time m)) as [b' rel]. cbn [fst snd].
    rewrite gdb_message_shift. destruct (gdb_message P s id th rel m). reflexivity.
  - destruct (gdb_destroy s id). reflexivity.
  - destruct (gdb_command s cm). reflexivity.
  - destruct id; [reflexivity|]. destruct (open_conn s (c0 :: id) sv). reflexivity.
  - destruct (close_conn s id). reflexivity.
  - cbn [shift_msg p_time]. rewrite rel_time_shift. destruct (rel_time b (p_time m)) as [b' rel]. cbn [fst snd].
    change (conn_message P s id rel (shift_msg c m)) with (conn_message P s id rel m).
    destruct (conn_message P s id rel m) as [[[s1 o] err] st]. reflexivity.
Qed.

Theorem run_shift c es : forall T,
  run P (shift_top c T) (map (shift_event c) es) = (shift_top c (fst (run P T es)), snd (run P T es)).
Proof.
  induction es as [|e es IH]; intros T; cbn [run map]; [reflexivity|].
  rewrite step_shift. destruct (step P T e) as [T1 o]. cbn [fst snd]. rewrite IH.
  destruct (run P T1 es); reflexivity.
Qed.

(* the time shown for a message is its log time minus the log time of the first message *)
Theorem rel_time_first t : rel_time None t = (Some t, 0).
Proof. reflexivity. Qed.
Theorem rel_time_later b t : rel_time (Some b) t = (Some b, t - b).
Proof. reflexivity. Qed.

(* ---- C08: prefix-closure, truncation, passthrough ------------------------------------------------ *)
Theorem run_app es1 es2 T :
  run P T (es1 ++ es2) =
  let '(T1, o1) := run P T es1 in let '(T2, o2) := run P T1 es2 in (T2, o1 ++ o2).
Proof.
  revert T. induction es1 as [|e es1 IH]; intros T; cbn [run app].
  - destruct (run P T es2); reflexivity.
  - destruct (step P T e) as [T1 o]. rewrite IH. destruct (run P T1 es1) as [T2 o1].
    destruct (run P T2 es2); reflexivity.
Qed.

(* input that stops after n lines yields exactly the first n output items of the full run,
   followed by what end-of-input prints for the state reached (the connection-closed notices) *)
Theorem truncation es n T :
  snd (run P T (firstn n es ++ [EEof])) =
  firstn n (snd (run P T es)) ++ [snd (step P (fst (run P T (firstn n es))) EEof)].
Proof.
  rewrite run_app.
  assert (G : forall es n T, snd (run P T (firstn n es)) = firstn n (snd (run P T es))).
  { clear. induction es as [|e es IH]; intros n T; destruct n; cbn [firstn run]; try reflexivity.
    destruct (step P T e) as [T1 o]. specialize (IH n T1).
    destruct (run P T1 (firstn n es)) as [Ta la]; destruct (run P T1 es) as [Tb lb]. cbn [snd firstn] in *.
    f_equal. exact IH. }
  specialize (G es n T). destruct (run P T (firstn n es)) as [T1 o1]. cbn [fst snd] in *.
  cbn [run]. destruct (step P T1 EEof) as [T2 o2]. cbn. rewrite G. reflexivity.
Qed.

(* a line that is not a message: its own text, exactly one item, only when not suppressed; the
   state does not change *)
Theorem text_passthrough T t :
  step P T (EText t) =
  (T, if s_unprocessed (t_sess T)
      then [OOut [Txt (color (s_color (t_sess T)) symbol_color (s2l "       |  " ++ t))]] else []).
Proof. destruct T as [b s]. unfold step, unprocessed_line. cbn [t_sess t_base fst snd]. destruct (s_unprocessed s); reflexivity. Qed.

(* end of input prints only connection-closed notices *)
Definition is_closed_notice (o : oline) : Prop :=
  exists on sv name, o = closed_conn_line on sv name.

Lemma close_conn_out s id s' o : close_conn s id = (s', o) -> Forall is_closed_notice o.
Proof.
  unfold close_conn. destruct (find_open s id) as [i|]; [|intros H; injection H as <- <-; constructor].
  destruct (nth_error (s_conns s) i) as [c|]; intros H; injection H as <- <-; [|constructor].
  constructor; [|constructor]. eexists _, _, _. reflexivity.
Qed.

Theorem eof_only_close_notices s : Forall is_closed_notice (snd (log_eof s)).
Proof.
  unfold log_eof.
  assert (G : forall ids acc, Forall is_closed_notice (snd acc) ->
            Forall is_closed_notice (snd (fold_left (fun acc id => let '(s1, o1) := close_conn (fst acc) id in (s1, snd acc ++ o1)) ids acc))).
  { induction ids as [|id ids IH]; intros acc H; cbn [fold_left]; [exact H|].
    apply IH. destruct (close_conn (fst acc) id) as [s1 o1] eqn:E. cbn [snd].
    apply Forall_app. split; [exact H|eapply close_conn_out; eassumption]. }
  apply G. constructor.
Qed.

(* ---- commands never change what is recorded, the connections or their names ---------------------- *)
Definition record_of (s : sess) := (s_conns s, s_next s, k_all (s_ctrl s), s_known s, s_parse s).

Lemma show_messages_record s m cap : record_of (fst (show_messages s m cap)) = record_of s.
Proof.
  unfold show_messages.
  destruct (scan_matching _ _ _ _ _ _) as [[matching d] ns]. destruct matching; [reflexivity|].
  destruct (fold_left _ _ _). reflexivity.
Qed.

Ltac crunch :=
  repeat match goal with
         | |- context [show_messages ?a ?b ?c] =>
             let H := fresh in pose proof (show_messages_record a b c) as H;
             destruct (show_messages a b c); cbn [fst] in H
         | |- context [if ?b then _ else _] => destruct b
         | |- context [match ?x with _ => _ end] => destruct x
         end; cbn [fst]; try reflexivity; try assumption.

Lemma cmd_help_record s a : record_of (fst (cmd_help s a)) = record_of s.
Proof. unfold cmd_help. crunch. Qed.
Lemma cmd_list_record s a : record_of (fst (cmd_list s a)) = record_of s.
Proof. unfold cmd_list. crunch. Qed.
Lemma cmd_filter_record s a : record_of (fst (cmd_filter s a)) = record_of s.
Proof. unfold cmd_filter. crunch. Qed.
Lemma cmd_break_record s a : record_of (fst (cmd_break s a)) = record_of s.
Proof. unfold cmd_break. crunch. Qed.
Lemma cmd_matcher_record s a : record_of (fst (cmd_matcher s a)) = record_of s.
Proof. unfold cmd_matcher. crunch. Qed.
Lemma cmd_connection_record s a : record_of (fst (cmd_connection s a)) = record_of s.
Proof. unfold cmd_connection. crunch. Qed.

Lemma run_command_record s name arg : record_of (fst (run_command s name arg)) = record_of s.
Proof.
  unfold run_command.
  destruct (str_eqb name (s2l "help")); [apply cmd_help_record|].
  destruct (str_eqb name (s2l "list")); [apply cmd_list_record|].
  destruct (str_eqb name (s2l "filter")); [apply cmd_filter_record|].
  destruct (str_eqb name (s2l "breakpoint")); [apply cmd_break_record|].
  destruct (str_eqb name (s2l "matcher")); [apply cmd_matcher_record|].
  destruct (str_eqb name (s2l "connection")); [apply cmd_connection_record|].
  destruct (str_eqb name (s2l "resume")); [reflexivity|].
  destruct (str_eqb name (s2l "quit")); reflexivity.
Qed.

Lemma process_command_record fuel s input : record_of (fst (process_command fuel s input)) = record_of s.
Proof.
  unfold process_command. destruct (resolve_cmd fuel (s_color s) input) as [pre [[name arg]|]]; [|reflexivity].
  pose proof (run_command_record s name arg) as H. destruct (run_command s name arg). exact H.
Qed.

(* C06/C11: whatever the user types, nothing that is recorded changes *)
Theorem cmds_do_not_touch_record T c :
  record_of (t_sess (fst (step P T (ECmd c)))) = record_of (t_sess T).
Proof.
  destruct T as [b s]. unfold step. cbn [t_sess t_base fst]. apply process_command_record.
Qed.

End WithP.
