(* HelpProofs.v — the help screen (Model/Help.v) is colour-invariant: for every file text without an
   escape character the coloured screen, stripped, IS the plain screen; the assertion and the
   out-of-model guard do not depend on the colour switch. *)
From WD Require Import Base Color Help ColorProofs.
Open Scope N_scope.

(* ---- pieces of an ESC-free text are ESC-free -------------------------------------------- *)
Lemma esc_free_nil : esc_free [].
Proof. reflexivity. Qed.

Lemma esc_free_cons c s : esc_free (c :: s) <-> negb (N.eqb c 27) = true /\ esc_free s.
Proof. unfold esc_free. cbn [forallb]. rewrite andb_true_iff. tauto. Qed.

Lemma esc_free_rev s : esc_free s -> esc_free (rev s).
Proof.
  unfold esc_free. rewrite !forallb_forall. intros H x Hx. apply H. apply in_rev. exact Hx.
Qed.

Lemma esc_free_rev' s : esc_free (rev s) -> esc_free s.
Proof. intros H. rewrite <- (rev_involutive s). apply esc_free_rev. exact H. Qed.

Lemma esc_free_drop_while f s : esc_free s -> esc_free (drop_while f s).
Proof.
  induction s as [|c s IH]; intros H; cbn [drop_while]; [exact H|].
  destruct (f c); [|exact H]. apply IH. apply esc_free_cons in H. tauto.
Qed.

Lemma esc_free_strip_prefix p : forall s r, strip_prefix p s = Some r -> esc_free s -> esc_free r.
Proof.
  induction p as [|a p IH]; intros s r Hm Hs; cbn [strip_prefix] in Hm.
  - inversion Hm; subst; exact Hs.
  - destruct s as [|b s]; [discriminate|]. destruct (N.eqb a b); [|discriminate].
    apply (IH s r Hm). apply esc_free_cons in Hs. tauto.
Qed.

Lemma esc_free_m_lit_ws_lit l1 l2 s r : m_lit_ws_lit l1 l2 s = Some r -> esc_free s -> esc_free r.
Proof.
  unfold m_lit_ws_lit. intros Hm Hs. destruct (strip_prefix l1 s) as [r1|] eqn:E1; [|discriminate].
  apply (esc_free_strip_prefix l2 _ r Hm). apply esc_free_drop_while.
  exact (esc_free_strip_prefix l1 s r1 E1 Hs).
Qed.

Lemma esc_free_remove_all_fuel (m : str -> option str) :
  (forall s r, m s = Some r -> esc_free s -> esc_free r) ->
  forall fuel s, esc_free s -> esc_free (remove_all_fuel fuel m s).
Proof.
  intros Hm fuel. induction fuel as [|f IH]; intros s Hs; cbn [remove_all_fuel]; [exact Hs|].
  destruct s as [|c s']; [exact Hs|].
  destruct (m (c :: s')) as [rest|] eqn:E.
  - apply IH. exact (Hm _ _ E Hs).
  - apply esc_free_cons in Hs. destruct Hs as [Hc Hs']. apply esc_free_cons. split; [exact Hc|]. apply IH. exact Hs'.
Qed.

Lemma esc_free_strip_headers t : esc_free t -> esc_free (strip_headers t).
Proof.
  intros H. unfold strip_headers, remove_all.
  apply esc_free_remove_all_fuel; [intros s r; apply esc_free_m_lit_ws_lit|].
  apply esc_free_remove_all_fuel; [intros s r; apply esc_free_m_lit_ws_lit|].
  apply esc_free_remove_all_fuel; [intros s r; apply esc_free_strip_prefix|]. exact H.
Qed.

Lemma esc_free_lines_acc s : forall cur, esc_free s -> esc_free cur -> Forall esc_free (lines_acc s cur).
Proof.
  induction s as [|c s IH]; intros cur Hs Hc; cbn [lines_acc].
  - constructor; [apply esc_free_rev; exact Hc|constructor].
  - apply esc_free_cons in Hs. destruct Hs as [Hc0 Hs]. destruct (N.eqb c NL).
    + constructor; [apply esc_free_rev; exact Hc|]. apply IH; [exact Hs|apply esc_free_nil].
    + apply IH; [exact Hs|]. apply esc_free_cons. split; assumption.
Qed.

Lemma esc_free_lines s : esc_free s -> Forall esc_free (lines s).
Proof. intros H. apply esc_free_lines_acc; [exact H|apply esc_free_nil]. Qed.

Lemma esc_free_row_tail r g : row_tail r = Some g -> esc_free r -> esc_free g.
Proof.
  unfold row_tail. intros Hm Hr. pose proof (esc_free_drop_while is_space r Hr) as Hd.
  destruct (drop_while is_space r) as [|c g0]; [discriminate|].
  destruct (N.eqb_spec c 124) as [->|Hne].
  - apply esc_free_cons in Hd. destruct Hd as [_ Hg0]. apply esc_free_rev in Hg0.
    destruct (rev g0) as [|d g2r]; [discriminate|].
    destruct (N.eqb_spec d 124) as [->|Hne2].
    + inversion Hm; subst. apply esc_free_rev. apply esc_free_cons in Hg0. tauto.
    + exfalso. destruct d as [|p]; [discriminate|]. repeat (destruct p as [p|p|]; try discriminate); congruence.
  - exfalso. destruct c as [|p]; [discriminate|]. repeat (destruct p as [p|p|]; try discriminate); congruence.
Qed.

Lemma esc_free_row_mid s : forall g1 g2, row_mid s = Some (g1, g2) -> esc_free s -> esc_free g1 /\ esc_free g2.
Proof.
  induction s as [|c s IH]; intros g1 g2 Hm Hs; cbn [row_mid] in Hm; [discriminate|].
  apply esc_free_cons in Hs. destruct Hs as [Hc Hs].
  destruct (row_mid s) as [[h1 h2]|].
  - inversion Hm; subst. destruct (IH h1 g2 eq_refl Hs) as [H1 H2]. split; [|exact H2].
    apply esc_free_cons. split; assumption.
  - destruct (N.eqb c BT); [|discriminate]. destruct (row_tail s) as [h2|] eqn:E; [|discriminate].
    inversion Hm; subst. split; [apply esc_free_nil|]. exact (esc_free_row_tail s g2 E Hs).
Qed.

Lemma esc_free_row_of_line l g1 g2 : row_of_line l = Some (g1, g2) -> esc_free l -> esc_free g1 /\ esc_free g2.
Proof.
  unfold row_of_line. intros Hm Hl. destruct l as [|c r]; [discriminate|].
  apply esc_free_cons in Hl. destruct Hl as [_ Hr].
  pose proof (esc_free_drop_while is_space r Hr) as Hd.
  destruct c as [|p]; [discriminate|].
  destruct (drop_while is_space r) as [|d s].
  - repeat (destruct p as [p|p|]; try discriminate).
  - apply esc_free_cons in Hd. destruct Hd as [_ Hs].
    assert (Hrm : row_mid s = Some (g1, g2) \/ False).
    { repeat (destruct p as [p|p|]; try discriminate).
      destruct d as [|q]; [discriminate|]. repeat (destruct q as [q|q|]; try discriminate). left. exact Hm. }
    destruct Hrm as [Hrm|[]]. exact (esc_free_row_mid s g1 g2 Hrm Hs).
Qed.

Lemma esc_free_repeat_space n : esc_free (repeat 32 n).
Proof. induction n as [|n IH]; [reflexivity|]. cbn [repeat]. apply esc_free_cons. split; [reflexivity|exact IH]. Qed.

(* ---- one row, one line, all lines ---------------------------------------------------------- *)
Lemma help_row_off m0 m1 : help_row false m0 m1 = m0 ++ repeat 32 (32 - List.length m0)%nat ++ m1.
Proof. unfold help_row. rewrite !color_off. reflexivity. Qed.

Lemma help_row_strips m0 m1 (k : str) : esc_free m0 -> esc_free m1 ->
  no_color (help_row true m0 m1 ++ k) = help_row false m0 m1 ++ no_color k.
Proof.
  intros H0 H1. rewrite help_row_off. unfold help_row. rewrite <- !app_assoc.
  assert (C1 : code_ok object_type_color) by reflexivity.
  assert (C2 : code_ok object_id_color) by reflexivity.
  rewrite (strip_color object_type_color m0 _ C1 H0).
  rewrite (no_color_esc_free _ _ (esc_free_repeat_space _)).
  do 2 f_equal. exact (strip_color object_id_color m1 k C2 H1).
Qed.

Lemma help_row_off_esc_free m0 m1 : esc_free m0 -> esc_free m1 -> esc_free (help_row false m0 m1).
Proof.
  intros H0 H1. rewrite help_row_off. apply esc_free_app. split; [exact H0|].
  apply esc_free_app. split; [apply esc_free_repeat_space|exact H1].
Qed.

(* the relation between the coloured and the plain rendering of a piece: same text once the escape
   sequences are removed, whatever follows; the plain one has none *)
Definition PieceStrips (a b : str) : Prop := (forall k : str, no_color (a ++ k) = b ++ no_color k) /\ esc_free b.

Lemma help_line_strips l : esc_free l ->
  match help_line true l, help_line false l with
  | Some a, Some b => PieceStrips a b
  | None, None => True
  | _, _ => False
  end.
Proof.
  intros Hl. unfold help_line. destruct (is_table_line l).
  - destruct (row_of_line l) as [[m0 m1]|] eqn:E; [|exact I].
    destruct (esc_free_row_of_line l m0 m1 E Hl) as [H0 H1]. split.
    + intros k. apply help_row_strips; assumption.
    + apply help_row_off_esc_free; assumption.
  - split; [intros k; apply no_color_esc_free; exact Hl|exact Hl].
Qed.

Lemma help_lines_strips ls : Forall esc_free ls ->
  match help_lines true ls, help_lines false ls with
  | Some a, Some b => Forall2 PieceStrips a b
  | None, None => True
  | _, _ => False
  end.
Proof.
  induction ls as [|l ls IH]; intros H; cbn [help_lines]; [constructor|].
  inversion H as [|? ? Hl Hls]; subst. specialize (IH Hls). pose proof (help_line_strips l Hl) as H1.
  destruct (help_line true l) as [a|], (help_line false l) as [b|]; try contradiction.
  - destruct (help_lines true ls) as [as_|], (help_lines false ls) as [bs|]; try contradiction; [|exact I].
    constructor; assumption.
  - destruct (help_lines true ls), (help_lines false ls); try contradiction; exact I.
Qed.

Lemma intercalate_strips a b : Forall2 PieceStrips a b ->
  PieceStrips (intercalate [NL] a) (intercalate [NL] b).
Proof.
  induction 1 as [|x y xs ys [Hxy Hy] Hrest IH].
  - split; [intros k; reflexivity|reflexivity].
  - destruct IH as [IHs IHe]. cbn [intercalate].
    destruct Hrest as [|x' y' xs' ys' Hx' Hr'].
    + split; [exact Hxy|exact Hy].
    + split.
      * intros k. rewrite <- !app_assoc. rewrite Hxy. f_equal.
        change ([NL] ++ intercalate [NL] (x' :: xs') ++ k) with (NL :: (intercalate [NL] (x' :: xs') ++ k)).
        rewrite no_color_cons by (cbv; discriminate). cbn [app]. f_equal. apply IHs.
      * apply esc_free_app. split; [exact Hy|]. apply esc_free_app. split; [reflexivity|exact IHe].
Qed.

(* ---- the help screen ------------------------------------------------------------------------ *)
Theorem help_text_color_invariant text : esc_free text ->
  match help_text true text, help_text false text with
  | Ok a, Ok b => no_color a = b /\ esc_free b
  | Raise e _, Raise e' _ => e = e'
  | _, _ => False
  end.
Proof.
  intros Ht. unfold help_text.
  pose proof (esc_free_lines _ (esc_free_strip_headers text Ht)) as Hls.
  set (ls := lines (strip_headers text)) in *.
  destruct (existsb dangling ls); [reflexivity|].
  pose proof (help_lines_strips ls Hls) as H.
  destruct (help_lines true ls) as [a|], (help_lines false ls) as [b|]; try contradiction; [|reflexivity].
  destruct (intercalate_strips a b H) as [Hs He]. split; [|exact He].
  specialize (Hs []). rewrite !app_nil_r in Hs. exact Hs.
Qed.

(* whether the screen can be produced at all (assertion, out-of-model guard) never depends on colour,
   for any text *)
Theorem help_text_outcome_colour_independent text :
  match help_text true text, help_text false text with
  | Ok _, Ok _ => True
  | Raise e _, Raise e' _ => e = e'
  | _, _ => False
  end.
Proof.
  unfold help_text. set (ls := lines (strip_headers text)).
  destruct (existsb dangling ls); [reflexivity|].
  assert (H : forall l, match help_lines true l, help_lines false l with Some _, Some _ => True | None, None => True | _, _ => False end).
  { induction l as [|x l IH]; cbn [help_lines]; [exact I|].
    unfold help_line. destruct (is_table_line x); [destruct (row_of_line x) as [[m0 m1]|]|];
      destruct (help_lines true l), (help_lines false l); try contradiction; exact I. }
  specialize (H ls). destruct (help_lines true ls), (help_lines false ls); try contradiction; [exact I|reflexivity].
Qed.

(* the column is padded with the width of the PLAIN first cell: a row whose first cell is shorter than
   32 characters puts the second cell at column 32 in the plain screen *)
Theorem help_row_column m0 m1 : (List.length m0 <= 32)%nat ->
  exists pad, help_row false m0 m1 = m0 ++ pad ++ m1 /\ List.length (m0 ++ pad) = 32%nat.
Proof.
  intros H. exists (repeat 32 (32 - List.length m0)%nat). split; [apply help_row_off|].
  rewrite app_length, repeat_length. apply Nat.sub_add in H. rewrite Nat.add_comm. exact H.
Qed.

(* non-vacuity: a small file with a title, the table header, two rows and prose *)
Definition help_example : str :=
  s2l "# Matchers" ++ [NL; NL] ++ s2l "intro" ++ [NL] ++
  s2l "| Matcher     | Description |" ++ [NL] ++ s2l "| ---   | --- |" ++ [NL] ++
  s2l "| `wl_surface` | all of a type |" ++ [NL] ++ s2l "| `[.x, .y]` | a `list` |" ++ [NL] ++ s2l "end".

Example help_example_ok :
  esc_free help_example /\
  help_text false help_example =
    Ok (s2l "intro" ++ [NL] ++ s2l "wl_surface" ++ repeat 32 22%nat ++ s2l " all of a type " ++ [NL] ++
        s2l "[.x, .y]" ++ repeat 32 24%nat ++ s2l " a `list` " ++ [NL] ++ s2l "end") /\
  (match help_text true help_example with Ok a => negb (str_eqb a (no_color a)) | _ => false end) = true /\
  help_text false (s2l "| not a row |") = Raise AssertionError [].
Proof. vm_compute. repeat split. Qed.
