(* CommandFuel.v — the fuel hypothesis of PastedCommands.v made concrete.

   [resolve_cmd] (Model/Session.v) emits the out-of-model marker [OOM] only when its fuel runs out.
   Every recursive call is on the second half of the line (what follows the first white-space
   character, stripped of colour sequences and of white space), which is strictly shorter than the
   line.  So a fuel larger than the length of the line is always enough ([fuel_enough]), and the
   theorem [pasted_command] holds for every line shorter than the fuel ([pasted_command_len]); the
   model's step function uses [command_fuel] = 200 ([pasted_command_200]). *)
From WD Require Import Base Color Session.
From WD Require Import ColorProofs DocParseA PastedCommands.
From Coq Require Import List NArith Bool Lia.
Import ListNotations.
Open Scope nat_scope.

(* ---- lengths ------------------------------------------------------------------------------------------ *)
Lemma strip_length (s : str) : List.length (strip s) <= List.length s.
Proof.
  destruct (strip_decomp s) as [b1 [b2 [_ [_ E]]]].
  apply (f_equal (@List.length _)) in E. rewrite !app_length in E. lia.
Qed.

Lemma sfs_length l a0 r : split_first_space l = (a0, Some r) -> List.length a0 + S (List.length r) = List.length l.
Proof.
  intros E. pose proof (sfs_decomp l) as [_ H]. rewrite E in H. cbn [fst snd] in H.
  destruct H as [w [_ El]]. apply (f_equal (@List.length _)) in El. rewrite app_length in El. cbn [List.length] in El. lia.
Qed.

(* the text of the recursive call: empty, or strictly shorter than the line *)
Lemma rc_second_length c : List.length (rc_second c) <= Nat.pred (List.length c).
Proof.
  unfold rc_second. destruct (split_first_space (strip c)) as [a0 [r|]] eqn:E; cbn [snd List.length]; [|lia].
  pose proof (sfs_length _ _ _ E) as L. pose proof (strip_length c) as L1.
  pose proof (strip_length (no_color r)) as L2. pose proof (nc_length r) as L3. lia.
Qed.

Lemma rc_nil_first : rc_first [] = [].
Proof. reflexivity. Qed.
Lemma rc_nil_second : rc_second [] = [].
Proof. reflexivity. Qed.

(* ---- the step adds no out-of-model line ----------------------------------------------------------------- *)
Lemma get_command'_oom on c : has_oom (snd (get_command' on c)) = false.
Proof. unfold get_command'. destruct (filter (starts_with c) command_names) as [|x [|y r]]; reflexivity. Qed.

Lemma rc_tail_oom v on f1 pre se : has_oom pre = false ->
  (str_eqb f1 [119%N] || str_eqb f1 (s2l "wl") = true -> has_oom (fst v) = false) ->
  has_oom (fst (rc_tail v on f1 pre se)) = false.
Proof.
  intros Hp Hv. unfold rc_tail. destruct (_ || _).
  - destruct v as [o r]. cbn [fst] in *. rewrite has_oom_app, Hp, (Hv eq_refl). reflexivity.
  - pose proof (get_command'_oom on (if starts_with (s2l "wl") f1 then skipn 2 f1 else f1)) as G.
    destruct (get_command' on _) as [cmd errs]. cbn [snd] in G.
    destruct cmd; cbn [fst]; rewrite has_oom_app, Hp, G; reflexivity.
Qed.

(* the recursive result is looked at only when the second half is non-empty or the first word is not *)
Lemma rc_step_oom v on fi se :
  (fi <> [] \/ se <> [] -> has_oom (fst v) = false) ->
  has_oom (fst (rc_step v on fi se)) = false.
Proof.
  intros Hv. rewrite rc_step_eq. destruct fi as [|x fi].
  - destruct se as [|y se].
    + apply rc_tail_oom; [reflexivity|]. intros H. vm_compute in H. discriminate H.
    + apply Hv. right. discriminate.
  - apply rc_tail_oom; [reflexivity|]. intros _. apply Hv. left. discriminate.
Qed.

(* ---- the bound ------------------------------------------------------------------------------------------- *)
Theorem fuel_enough : forall fuel on c,
  List.length c < fuel -> has_oom (fst (resolve_cmd fuel on c)) = false.
Proof.
  induction fuel as [|f IH]; intros on c HL; [lia|].
  rewrite (resolve_S f on c). apply rc_step_oom. intros Hne.
  destruct c as [|x c].
  - rewrite rc_nil_first, rc_nil_second in Hne. destruct Hne as [K|K]; exfalso; apply K; reflexivity.
  - apply IH. pose proof (rc_second_length (x :: c)) as L. cbn [List.length Nat.pred] in *. lia.
Qed.

Corollary pasted_command_len : forall fuel on c,
  no_color (no_color c) = no_color c -> List.length c < fuel ->
  resolve_cmd fuel on (no_color c) = resolve_cmd fuel on c.
Proof. intros fuel on c Hid HL. apply pasted_command; [exact Hid|]. apply fuel_enough. exact HL. Qed.

(* [command_fuel] = 200 is the fuel the model's step function uses (gdb_command, Model/Session.v) *)
Corollary pasted_command_200 : forall on c,
  no_color (no_color c) = no_color c -> List.length c < command_fuel ->
  resolve_cmd command_fuel on (no_color c) = resolve_cmd command_fuel on c.
Proof. intros on c. apply pasted_command_len. Qed.

Corollary pasted_process_command_len : forall fuel s c,
  no_color (no_color c) = no_color c -> List.length c < fuel ->
  process_command fuel s (no_color c) = process_command fuel s c.
Proof. intros fuel s c Hid HL. apply pasted_process_command; [exact Hid|]. apply fuel_enough. exact HL. Qed.

Corollary pasted_process_command_200 : forall s c,
  no_color (no_color c) = no_color c -> List.length c < command_fuel ->
  process_command command_fuel s (no_color c) = process_command command_fuel s c.
Proof. intros s c. apply pasted_process_command_len. Qed.

(* ---- a sharper bound: the number of words --------------------------------------------------------------- *)
(* number of maximal runs of characters that are not white space; [inword]: the previous character
   belongs to a word *)
Fixpoint cw (inword : bool) (s : str) : nat :=
  match s with
  | [] => 0
  | c :: s' => if is_space c then cw false s' else (if inword then 0 else 1) + cw true s'
  end.
Definition count_words (s : str) : nat := cw false s.

Lemma cw_le_length s : forall i, cw i s <= List.length s.
Proof.
  induction s as [|c s IH]; intros i; [apply le_n|]. cbn [cw List.length].
  destruct (is_space c); [specialize (IH false); lia|]. specialize (IH true). destruct i; lia.
Qed.

Lemma cw_blank b : blank b -> forall i, cw i b = 0.
Proof.
  unfold blank. induction b as [|w b IH]; intros H i; [reflexivity|]. cbn [forallb] in H.
  apply andb_true_iff in H. destruct H as [Hw Hb]. cbn [cw]. rewrite Hw. apply IH. exact Hb.
Qed.

Lemma cw_blank_app b x : blank b -> cw false (b ++ x) = cw false x.
Proof.
  unfold blank. induction b as [|w b IH]; intros H; [reflexivity|]. cbn [forallb] in H.
  apply andb_true_iff in H. destruct H as [Hw Hb]. cbn [app cw]. rewrite Hw. apply IH. exact Hb.
Qed.

Lemma cw_app_blank x b : blank b -> forall i, cw i (x ++ b) = cw i x.
Proof.
  intros Hb. induction x as [|c x IH]; intros i; cbn [app cw].
  - apply cw_blank. exact Hb.
  - destruct (is_space c); rewrite IH; reflexivity.
Qed.

Lemma cw_zero_blank s : cw false s = 0 -> blank s.
Proof.
  unfold blank. induction s as [|c s IH]; [reflexivity|]. cbn [cw forallb].
  destruct (is_space c); [exact IH|]. intros H. lia.
Qed.

Lemma cw_word_space a w r : forallb nsp a = true -> is_space w = true ->
  forall i, cw i (a ++ w :: r) = cw i a + cw false r.
Proof.
  intros Ha Hw. induction a as [|x a IH]; intros i; cbn [app cw].
  - rewrite Hw. reflexivity.
  - cbn [forallb] in Ha. apply andb_true_iff in Ha. destruct Ha as [Hx Ha]. apply negb_true_iff in Hx.
    rewrite Hx, (IH Ha). lia.
Qed.

Lemma cw_true_word a : forallb nsp a = true -> cw true a = 0.
Proof.
  induction a as [|x a IH]; [reflexivity|]. cbn [forallb cw]. intros Ha.
  apply andb_true_iff in Ha. destruct Ha as [Hx Ha]. apply negb_true_iff in Hx. rewrite Hx, (IH Ha). reflexivity.
Qed.

Definition word1 (a : str) : nat := match a with [] => 0 | _ :: _ => 1 end.

Lemma cw_word a : forallb nsp a = true -> cw false a = word1 a.
Proof.
  destruct a as [|x a]; [reflexivity|]. cbn [forallb cw word1]. intros Ha.
  apply andb_true_iff in Ha. destruct Ha as [Hx Ha]. apply negb_true_iff in Hx. rewrite Hx, (cw_true_word a Ha). reflexivity.
Qed.

Lemma word1_nc a : word1 (no_color a) <= word1 a.
Proof. destruct a as [|x a]; [apply le_n|]. cbn [word1]. destruct (no_color (x :: a)); cbn [word1]; lia. Qed.

Lemma count_words_strip s : count_words (strip s) = count_words s.
Proof.
  unfold count_words. destruct (strip_decomp s) as [b1 [b2 [H1 [H2 E]]]]. rewrite E at 2.
  rewrite (cw_blank_app b1 _ H1), (cw_app_blank _ b2 H2). reflexivity.
Qed.

(* colour sequences contain no white space: removing them creates no word *)
Lemma count_words_nc : forall s, count_words (no_color s) <= count_words s.
Proof.
  unfold count_words. intros s. remember (List.length s) as n eqn:En. revert s En.
  induction n as [n IH] using lt_wf_ind. intros s En.
  destruct (sfs_decomp s) as [Ha Ht]. destruct (split_first_space s) as [a0 t]. cbn [fst snd] in *.
  pose proof (nc_forallb nsp a0 Ha) as HA. destruct t as [r|].
  - destruct Ht as [w [Hw El]]. subst s. rewrite (nc_space a0 w r Hw).
    rewrite (cw_word_space _ w _ HA Hw), (cw_word_space _ w _ Ha Hw), (cw_word _ HA), (cw_word _ Ha).
    pose proof (word1_nc a0) as W.
    assert (R : cw false (no_color r) <= cw false r).
    { apply (IH (List.length r)); [|reflexivity]. rewrite En, app_length. cbn [List.length]. lia. }
    lia.
  - subst s. rewrite (cw_word _ HA), (cw_word _ Ha). apply word1_nc.
Qed.

(* a stripped text does not begin with white space *)
Lemma strip_head c w r : strip c = w :: r -> is_space w = false.
Proof.
  intros E. destruct (is_space w) eqn:Hw; [exfalso|reflexivity].
  pose proof (strip_idem c) as I. rewrite E in I. change (w :: r) with ([w] ++ r) in I at 1.
  rewrite strip_blank_app in I by (unfold blank; cbn [forallb]; rewrite Hw; reflexivity).
  pose proof (strip_length r) as L. rewrite I in L. cbn [List.length] in L. lia.
Qed.

(* the recursive call is on a text with at least one word less *)
Lemma rc_second_words c : count_words (rc_second c) <= Nat.pred (count_words c).
Proof.
  unfold rc_second. destruct (sfs_decomp (strip c)) as [Ha Ht].
  destruct (split_first_space (strip c)) as [a0 [r|]]; cbn [fst snd] in *; [|apply Nat.le_0_l].
  destruct Ht as [w [Hw El]].
  rewrite count_words_strip. pose proof (count_words_nc r) as N.
  rewrite <- (count_words_strip c), El. unfold count_words in *.
  rewrite (cw_word_space a0 w r Ha Hw), (cw_word a0 Ha).
  destruct a0 as [|x a0].
  - exfalso. cbn [app] in El. apply strip_head in El. rewrite El in Hw. discriminate Hw.
  - cbn [word1]. lia.
Qed.

Lemma rc_blank c : blank c -> rc_first c = [] /\ rc_second c = [].
Proof. intros Hb. unfold rc_first, rc_second. rewrite (strip_blank c Hb). split; reflexivity. Qed.

(* one unit of fuel per word, and one more *)
Theorem fuel_enough_words : forall fuel on c,
  count_words c < fuel -> has_oom (fst (resolve_cmd fuel on c)) = false.
Proof.
  induction fuel as [|f IH]; intros on c HL; [lia|].
  rewrite (resolve_S f on c). apply rc_step_oom. intros Hne.
  destruct (count_words c) as [|k] eqn:Ek.
  - apply cw_zero_blank, rc_blank in Ek. destruct Ek as [E1 E2].
    destruct Hne as [K|K]; exfalso; apply K; assumption.
  - apply IH. pose proof (rc_second_words c) as L. rewrite Ek in L. cbn [Nat.pred] in L. lia.
Qed.

Lemma count_words_le_length c : count_words c <= List.length c.
Proof. apply cw_le_length. Qed.

Corollary pasted_command_words : forall fuel on c,
  no_color (no_color c) = no_color c -> count_words c < fuel ->
  resolve_cmd fuel on (no_color c) = resolve_cmd fuel on c.
Proof. intros fuel on c Hid HL. apply pasted_command; [exact Hid|]. apply fuel_enough_words. exact HL. Qed.

(* the bound is reached: n times `w` needs n + 1 units *)
Example ex_words_tight :
  count_words (s2l "w w w") = 3 /\
  has_oom (fst (resolve_cmd 3 false (s2l "w w w"))) = true /\
  has_oom (fst (resolve_cmd 4 false (s2l "w w w"))) = false.
Proof. split; [reflexivity|]. split; vm_compute; reflexivity. Qed.

Print Assumptions fuel_enough.
Print Assumptions fuel_enough_words.
Print Assumptions pasted_command_200.
