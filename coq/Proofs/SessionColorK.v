(* C17 lifted to the session, part K: the protocol data shipped with the tool contains no ESC, so the
   side condition [pdb_clean] of the "no escape sequence of its own" theorem holds for it. *)
From WD Require Import Base Protocol Shipped.
From WD Require Import ColorProofs ShowProofs SessionColorB SessionColorG.
Open Scope N_scope.

Definition parg_desc_clean_b (a : p_arg) : bool :=
  esc_free_b (pa_name a) && match pa_iface a with Some t => esc_free_b t | None => true end.
Definition iface_clean_b (i : p_iface) : bool :=
  forallb (fun m => forallb parg_desc_clean_b (pm_args m)) (pi_msgs i) &&
  forallb (fun e => forallb (fun x => esc_free_b (pe_name x)) (pn_entries e)) (pi_enums i).
Definition pdb_clean_b (P : pdb) : bool := forallb iface_clean_b P.

Lemma pdb_clean_b_ok P : pdb_clean_b P = true -> pdb_clean P.
Proof.
  unfold pdb_clean_b, pdb_clean. rewrite forallb_forall, Forall_forall. intros H i Hi. specialize (H i Hi).
  unfold iface_clean_b in H. apply andb_true_iff in H. destruct H as [H1 H2]. split.
  - rewrite forallb_forall in H1. rewrite Forall_forall. intros m Hm. specialize (H1 m Hm).
    rewrite forallb_forall in H1. rewrite Forall_forall. intros a Ha. specialize (H1 a Ha).
    unfold parg_desc_clean_b in H1. apply andb_true_iff in H1. destruct H1 as [A B]. split; [exact A|].
    destruct (pa_iface a); [exact B|exact I].
  - rewrite forallb_forall in H2. rewrite Forall_forall. intros e He. specialize (H2 e He).
    rewrite forallb_forall in H2. rewrite Forall_forall. intros x Hx. exact (H2 x Hx).
Qed.

Theorem shipped_clean : pdb_clean shipped_db.
Proof. apply pdb_clean_b_ok. vm_compute. reflexivity. Qed.
Print Assumptions shipped_clean.
