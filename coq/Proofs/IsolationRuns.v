(* IsolationRuns.v — C04 lifted to whole runs.

   Everything recorded for one connection (its objects, their incarnation numbers, which of them
   are alive, its client/server role, open flag, title, every recorded message with its resolved
   target and arguments) is the same in a merged log as in the log that contains only that
   connection's lines — for arbitrary sets of per-connection histories and arbitrary interleavings
   (identical object ids on several connections included).

   Two components of a connection are NOT independent of the other connections and are excluded,
   exactly these two:
     - the connection NAME (A, B, ...: names are handed out in order of first appearance in the
       whole log);
     - the origin of the RELATIVE TIME STAMPS (times are relative to the first message of the
       whole log).  With a common time origin the time stamps are equal too
       ([merged_is_solo_from], [merged_is_solo_timed]); with each log using its own first
       message as origin the views are equal once the time stamps are blanked ([merged_is_solo],
       [untimed]).  [ex_name_depends] and [ex_times_depend] show both exclusions are needed.

   Side condition (known corner, documented): an exception other than RuntimeError raised while a
   line is handled switches decoding off for the whole session ([s_parse := false] in
   [log_message]); every later line of every connection is then dropped.  The theorems assume
   that no line of ANOTHER connection does this in the merged run ([foreign_abort id ... = false]);
   this follows from [s_parse] being still true at the end of the merged run
   ([parse_on_no_foreign_abort]) and from a per-message shape condition ([wf_msg],
   [wf_run_parse_on]).  [corner_abort] shows the hypothesis cannot be dropped. *)
From WD Require Import Base Wire Protocol Conn Color LetterId Matcher MatcherParse Show Session.
From WD Require Import ProtocolProofs LetterIdProofs SessionProofs ConnMgrProofs.
From Coq Require Import Lia.
Open Scope Z_scope.

(* ---- looking a connection up by identifier ---------------------------------------------------- *)
Definition flag (id : str) (c : connst) : bool := c_open c && str_eqb (c_id c) id.

(* open_connections[id]: the model's own lookup ([find_open]) followed by the list access *)
Definition conn_in (cs : list connst) (id : str) : option connst :=
  match find_open_from 0 cs id with Some i => nth_error cs i | None => None end.
Definition the_conn (s : sess) (id : str) : option connst := conn_in (s_conns s) id.

Lemma the_conn_find_open s id :
  the_conn s id = match find_open s id with Some i => nth_error (s_conns s) i | None => None end.
Proof. reflexivity. Qed.

Lemma find_open_from_ext id : forall cs cs' k,
  (forall j, option_map (flag id) (nth_error cs j) = option_map (flag id) (nth_error cs' j)) ->
  find_open_from k cs id = find_open_from k cs' id.
Proof.
  induction cs as [|c cs IH]; intros [|c' cs'] k H.
  - reflexivity.
  - specialize (H 0%nat). discriminate.
  - specialize (H 0%nat). discriminate.
  - cbn [find_open_from]. rewrite (IH cs' (S k)) by (intros j; exact (H (S j))).
    specialize (H 0%nat). cbn [nth_error option_map] in H. injection H as H.
    unfold flag in H. rewrite H. reflexivity.
Qed.

Lemma find_open_from_app id c : forall cs k,
  find_open_from k (cs ++ [c]) id =
  if flag id c then Some (k + List.length cs)%nat else find_open_from k cs id.
Proof.
  induction cs as [|x cs IH]; intros k; cbn [app find_open_from List.length].
  - unfold flag. destruct (c_open c && str_eqb (c_id c) id); [f_equal; lia|reflexivity].
  - rewrite IH. destruct (flag id c); [f_equal; lia|reflexivity].
Qed.

Lemma find_open_from_lt cs id k j : find_open_from k cs id = Some j -> (j - k < List.length cs)%nat.
Proof.
  intros H. destruct (find_open_from_spec _ _ _ _ H) as (c & Hn & _).
  apply nth_error_Some. congruence.
Qed.

Lemma conn_in_app id c cs : conn_in (cs ++ [c]) id = if flag id c then Some c else conn_in cs id.
Proof.
  unfold conn_in. rewrite find_open_from_app. destruct (flag id c).
  - rewrite nth_error_app2 by lia. replace (0 + List.length cs - List.length cs)%nat with 0%nat by lia. reflexivity.
  - destruct (find_open_from 0 cs id) as [j|] eqn:E; [|reflexivity].
    apply find_open_from_lt in E. rewrite nth_error_app1 by lia. reflexivity.
Qed.

Lemma find_open_update id cs i c (f : connst -> connst) k :
  nth_error cs i = Some c -> flag id (f c) = flag id c ->
  find_open_from k (update_nth i f cs) id = find_open_from k cs id.
Proof.
  intros Hi Hf. apply find_open_from_ext. intros j. destruct (Nat.eq_dec j i) as [->|Hne].
  - rewrite (update_nth_same f cs i c Hi), Hi. cbn [option_map]. rewrite Hf. reflexivity.
  - rewrite update_nth_other by exact Hne. reflexivity.
Qed.

Lemma flag_other id c : c_id c <> id -> flag id c = false.
Proof. intros H. unfold flag. apply str_eqb_neq in H. rewrite H. apply andb_false_r. Qed.

Lemma conn_in_update_other id cs i c (f : connst -> connst) :
  nth_error cs i = Some c -> c_id c <> id -> c_id (f c) <> id ->
  conn_in (update_nth i f cs) id = conn_in cs id.
Proof.
  intros Hi H1 H2. unfold conn_in.
  rewrite (find_open_update id cs i c f 0 Hi) by (rewrite !flag_other by assumption; reflexivity).
  destruct (find_open_from 0 cs id) as [j|] eqn:E; [|reflexivity].
  destruct (find_open_from_spec _ _ _ _ E) as (c0 & Hn & Hid & _). rewrite Nat.sub_0_r in Hn.
  apply update_nth_other. intros ->. rewrite Hi in Hn. injection Hn as <-. contradiction.
Qed.

Lemma conn_in_update_own id cs i c (f : connst -> connst) :
  find_open_from 0 cs id = Some i -> nth_error cs i = Some c -> flag id (f c) = flag id c ->
  conn_in (update_nth i f cs) id = Some (f c).
Proof.
  intros E Hi Hf. unfold conn_in. rewrite (find_open_update id cs i c f 0 Hi Hf), E.
  apply update_nth_same. exact Hi.
Qed.

(* ---- close / open ---------------------------------------------------------------------------- *)
Lemma close_conn_fields s id :
  let s' := fst (close_conn s id) in
  s_known s' = s_known s /\ s_parse s' = s_parse s /\ s_next s' = s_next s.
Proof.
  unfold close_conn. destruct (find_open s id) as [i|]; [|repeat split].
  destruct (nth_error (s_conns s) i); repeat split.
Qed.

Lemma close_conn_other s id id' : id' <> id -> the_conn (fst (close_conn s id')) id = the_conn s id.
Proof.
  intros Hne. unfold close_conn. destruct (find_open s id') as [i|] eqn:E; [|reflexivity].
  destruct (find_open_spec _ _ _ E) as (c & Hi & Hid & _). rewrite Hi. cbn [fst].
  unfold the_conn, set_conns. cbn [s_conns].
  apply (conn_in_update_other id _ i c _ Hi); cbn [c_id]; congruence.
Qed.

Definition fresh_conn (id name : str) (sv : option bool) : connst :=
  mkConn id name sv true None None db_init [].

Lemma open_conn_block s id sv :
  let sa := fst (open_conn s id sv) in
  the_conn sa id = Some (fresh_conn id (conn_name (s_next s)) sv) /\
  s_known sa = s_known s /\ s_parse sa = s_parse s /\
  (forall id', id' <> id -> the_conn sa id' = the_conn s id').
Proof.
  destruct (open_conn_spec s id sv) as (Hc & _ & _).
  destruct (close_conn_fields s id) as (Hk & Hp & _).
  cbn zeta. split; [|split; [|split]].
  - unfold the_conn. rewrite Hc, conn_in_app. unfold flag, fresh_conn. cbn [c_open c_id].
    rewrite str_eqb_refl. reflexivity.
  - unfold open_conn. destruct (close_conn s id) as [s1 o1]. exact Hk.
  - unfold open_conn. destruct (close_conn s id) as [s1 o1]. exact Hp.
  - intros id' Hne. unfold the_conn. rewrite Hc, conn_in_app.
    rewrite flag_other by (cbn [c_id]; congruence).
    apply (close_conn_other s id' id). congruence.
Qed.

Section WithP.
Variable P : pdb.

Lemma conn_step_id c rel m : c_id (conn_step P c rel m) = c_id c.
Proof.
  unfold conn_step. destruct (resolve_msg P (c_db c) rel m) as [[d' rm] err].
  destruct err; [reflexivity|]. unfold title_update. cbn [c_id c_title c_app_id c_name c_server c_open c_db c_msgs].
  repeat match goal with
         | |- context [if ?b then _ else _] => destruct b
         | |- context [match ?x with _ => _ end] => destruct x
         end; reflexivity.
Qed.

Lemma conn_step_open c rel m : c_open (conn_step P c rel m) = c_open c.
Proof.
  unfold conn_step. destruct (resolve_msg P (c_db c) rel m) as [[d' rm] err].
  destruct err; [reflexivity|]. unfold title_update. cbn [c_id c_title c_app_id c_name c_server c_open c_db c_msgs].
  repeat match goal with
         | |- context [if ?b then _ else _] => destruct b
         | |- context [match ?x with _ => _ end] => destruct x
         end; reflexivity.
Qed.

Lemma conn_step_flag id c rel m : flag id (conn_step P c rel m) = flag id c.
Proof. unfold flag. rewrite conn_step_id, conn_step_open. reflexivity. Qed.

(* ConnectionManager.message, described through the lookup *)
Lemma conn_message_cases s id rel m :
  match find_open s id with
  | None => conn_message P s id rel m = (s, [], Some (AssertionError, []), false)
  | Some i => exists c, nth_error (s_conns s) i = Some c /\ c_id c = id /\
      let r := conn_message P s id rel m in
      let s' := fst (fst (fst r)) in
      s_conns s' = update_nth i (fun _ => conn_step P c rel m) (s_conns s) /\
      s_known s' = s_known s /\ s_parse s' = s_parse s /\
      snd (fst r) = snd (resolve_msg P (c_db c) rel m)
  end.
Proof.
  destruct (find_open s id) as [i|] eqn:E.
  - destruct (find_open_spec _ _ _ E) as (c & Hi & Hid & Ho). exists c.
    split; [exact Hi|]. split; [exact Hid|].
    unfold conn_message. rewrite E, Hi. unfold conn_step.
    destruct (resolve_msg P (c_db c) rel m) as [[d' rm] err]. destruct err as [e|].
    + cbn [fst snd set_conns s_conns s_known s_parse]. repeat split.
    + destruct (ctrl_on_message _ _ _ _ _ _) as [[k' outs] stop].
      destruct stop; cbn [fst snd set_pause set_ctrl set_conns s_conns s_known s_parse]; repeat split.
  - unfold conn_message. rewrite E. reflexivity.
Qed.

Lemma conn_message_other s id id' rel m : id' <> id ->
  let s' := fst (fst (fst (conn_message P s id' rel m))) in
  the_conn s' id = the_conn s id /\ s_known s' = s_known s /\ s_parse s' = s_parse s.
Proof.
  intros Hne. pose proof (conn_message_cases s id' rel m) as H.
  destruct (find_open s id') as [i|].
  - destruct H as (c & Hi & Hid & Hc & Hk & Hp & _). cbn zeta. repeat split; try assumption.
    unfold the_conn. rewrite Hc.
    apply (conn_in_update_other id _ i c _ Hi); [congruence|rewrite conn_step_id; congruence].
  - rewrite H. cbn [fst]. repeat split.
Qed.

(* ---- one log line, seen from one identifier ---------------------------------------------------- *)
Definition known (s : sess) (id : str) : bool := existsb (str_eqb id) (s_known s).

Definition fatal (err : option (exn * str)) : bool :=
  match err with None => false | Some (RuntimeError, _) => false | Some _ => true end.

Definition set_last (s : sess) (rel : Z) : sess :=
  mkSess (s_conns s) (s_next s) (s_ctrl s) (s_known s) rel (s_parse s) (s_paused s) (s_quit s) (s_gdb s) (s_color s) (s_unprocessed s) (s_in_gdb s).
Definition add_known (s : sess) (id : str) : sess :=
  mkSess (s_conns s) (s_next s) (s_ctrl s) (s_known s ++ [id]) (s_last_time s) (s_parse s) (s_paused s) (s_quit s) (s_gdb s) (s_color s) (s_unprocessed s) (s_in_gdb s).
Definition parse_off (s : sess) : sess :=
  mkSess (s_conns s) (s_next s) (s_ctrl s) (s_known s) (s_last_time s) false (s_paused s) (s_quit s) (s_gdb s) (s_color s) (s_unprocessed s) (s_in_gdb s).

Definition pre_open (s : sess) (id : str) (rel : Z) (m : pmsg) : sess :=
  if known s id then set_last s rel
  else add_known (fst (open_conn (set_last s rel) id (is_get_registry m))) id.

Definition finish (r : sess * list oline * option (exn * str) * bool) : sess :=
  if fatal (snd (fst r)) then parse_off (fst (fst (fst r))) else fst (fst (fst r)).

Lemma log_message_eq s id rel m : s_parse s = true ->
  fst (log_message P s id rel m) = finish (conn_message P (pre_open s id rel m) id rel m).
Proof.
  intros Hp. unfold log_message, pre_open, finish, known, set_last. rewrite Hp. cbn [negb s_known].
  destruct (existsb (str_eqb id) (s_known s)).
  - destruct (conn_message P _ id rel m) as [[[s3 o2] err] st]. destruct err as [[[] msg]|]; reflexivity.
  - destruct (open_conn _ id (is_get_registry m)) as [sa oa]. cbn [fst]. unfold add_known.
    destruct (conn_message P _ id rel m) as [[[s3 o2] err] st]. destruct err as [[[] msg]|]; reflexivity.
Qed.

Lemma log_message_off s id rel m : s_parse s = false -> log_message P s id rel m = (s, []).
Proof. intros Hp. unfold log_message. rewrite Hp. reflexivity. Qed.

End WithP.

(* ---- the abstraction: what one identifier sees of the session ------------------------------------- *)
Section Abs.
Variable P : pdb.

Definition abs : Type := (bool * bool * option connst)%type.
Definition abs_of (id : str) (s : sess) : abs := (s_parse s, known s id, the_conn s id).

(* one line tagged [id], on the abstraction; [name] is the name a new connection would get *)
Definition astep (id : str) (a : abs) (name : str) (rel : Z) (m : pmsg) : abs :=
  match a with
  | (p, k, oc) =>
      if negb p then a else
      match (if k then oc else Some (fresh_conn id name (is_get_registry m))) with
      | None => (false, true, None)
      | Some c => (negb (fatal (snd (resolve_msg P (c_db c) rel m))), true, Some (conn_step P c rel m))
      end
  end.

Lemma pre_open_abs s id rel m :
  let s2 := pre_open s id rel m in
  s_parse s2 = s_parse s /\ known s2 id = true /\
  the_conn s2 id = if known s id then the_conn s id
                   else Some (fresh_conn id (conn_name (s_next s)) (is_get_registry m)).
Proof.
  unfold pre_open. destruct (known s id) eqn:Ek.
  - repeat split. exact Ek.
  - destruct (open_conn_block (set_last s rel) id (is_get_registry m)) as (Hc & Hk & Hp & _).
    cbn zeta. split; [exact Hp|]. split; [|exact Hc].
    unfold known, add_known. cbn [s_known]. rewrite existsb_app. cbn [existsb].
    rewrite str_eqb_refl. cbn [orb]. apply orb_true_r.
Qed.

Lemma pre_open_other s id id' rel m : id' <> id ->
  let s2 := pre_open s id' rel m in
  s_parse s2 = s_parse s /\ known s2 id = known s id /\ the_conn s2 id = the_conn s id.
Proof.
  intros Hne. unfold pre_open. destruct (known s id').
  - repeat split.
  - destruct (open_conn_block (set_last s rel) id' (is_get_registry m)) as (_ & Hk & Hp & Ho).
    cbn zeta. split; [exact Hp|]. split.
    + unfold known, add_known. cbn [s_known]. rewrite existsb_app, Hk. cbn [existsb].
      assert (E : str_eqb id id' = false) by (apply str_eqb_neq; congruence).
      rewrite E. cbn [orb]. apply orb_false_r.
    + apply (Ho id). congruence.
Qed.

Lemma finish_view r id :
  the_conn (finish r) id = the_conn (fst (fst (fst r))) id /\
  known (finish r) id = known (fst (fst (fst r))) id.
Proof. unfold finish. destruct (fatal (snd (fst r))); split; reflexivity. Qed.

(* a line tagged [id]: the new abstraction is a function of the old one and the message *)
Lemma log_message_own s id rel m :
  abs_of id (fst (log_message P s id rel m)) = astep id (abs_of id s) (conn_name (s_next s)) rel m.
Proof.
  unfold abs_of, astep. destruct (s_parse s) eqn:Hp; cbn [negb].
  2: { rewrite log_message_off by exact Hp. cbn [fst]. rewrite Hp. reflexivity. }
  rewrite log_message_eq by exact Hp.
  destruct (pre_open_abs s id rel m) as (Hp2 & Hk2 & Hc2). cbn zeta in Hp2, Hk2, Hc2.
  rewrite <- Hc2. clear Hc2.
  set (s2 := pre_open s id rel m) in *.
  pose proof (conn_message_cases P s2 id rel m) as H.
  rewrite (the_conn_find_open s2 id).
  destruct (find_open s2 id) as [i|] eqn:E.
  - destruct H as (c & Hi & Hid & Hc & Hk & Hpp & He). cbn zeta in Hc, Hk, Hpp, He.
    rewrite Hi. unfold finish. rewrite He.
    destruct (fatal (snd (resolve_msg P (c_db c) rel m))); cbn [negb].
    + f_equal; [f_equal|].
      * unfold known, parse_off. cbn [s_known]. rewrite Hk. exact Hk2.
      * unfold the_conn, parse_off. cbn [s_conns]. rewrite Hc.
        apply (conn_in_update_own id _ i c (fun _ => conn_step P c rel m) E Hi). apply conn_step_flag.
    + f_equal; [f_equal|].
      * rewrite Hpp, Hp2. exact Hp.
      * unfold known. rewrite Hk. exact Hk2.
      * unfold the_conn. rewrite Hc.
        apply (conn_in_update_own id _ i c (fun _ => conn_step P c rel m) E Hi). apply conn_step_flag.
  - rewrite H. unfold finish. cbn [fst snd fatal]. f_equal; [f_equal|].
    + exact Hk2.
    + rewrite (the_conn_find_open (parse_off s2) id). unfold find_open, parse_off. cbn [s_conns].
      unfold find_open in E. rewrite E. reflexivity.
Qed.

(* a line tagged with another identifier: nothing [id] can see changes, except possibly the
   decoding switch *)
Lemma log_message_other s id id' rel m : id' <> id ->
  let s' := fst (log_message P s id' rel m) in
  known s' id = known s id /\ the_conn s' id = the_conn s id.
Proof.
  intros Hne. cbn zeta. destruct (s_parse s) eqn:Hp.
  2: { rewrite log_message_off by exact Hp. split; reflexivity. }
  rewrite log_message_eq by exact Hp.
  destruct (pre_open_other s id id' rel m Hne) as (_ & Hk2 & Hc2). cbn zeta in Hk2, Hc2.
  set (s2 := pre_open s id' rel m) in *.
  destruct (conn_message_other P s2 id id' rel m Hne) as (Hc & Hk & _). cbn zeta in Hc, Hk.
  destruct (finish_view (conn_message P s2 id' rel m) id) as (Fc & Fk).
  split.
  - rewrite Fk. unfold known in *. rewrite Hk. exact Hk2.
  - rewrite Fc, Hc. exact Hc2.
Qed.

End Abs.

(* ---- the view: everything recorded for a connection except its name --------------------------- *)
Definition conn_view (c : connst) :=
  (c_id c, c_server c, c_open c, c_title c, c_app_id c, c_db c, c_msgs c).

Definition rename (n : str) (c : connst) : connst :=
  mkConn (c_id c) n (c_server c) (c_open c) (c_title c) (c_app_id c) (c_db c) (c_msgs c).

Lemma conn_view_rename c c' : conn_view c = conn_view c' -> c' = rename (c_name c') c.
Proof.
  destruct c, c'. unfold conn_view, rename. cbn. intros H. injection H; intros; subst. reflexivity.
Qed.

(* title_update commutes with every map on connections that leaves title and app id alone *)
Lemma title_update_nat (g : connst -> connst) c m m' :
  (forall c t a, g (mkConn (c_id c) (c_name c) (c_server c) (c_open c) t a (c_db c) (c_msgs c)) =
                 mkConn (c_id (g c)) (c_name (g c)) (c_server (g c)) (c_open (g c)) t a (c_db (g c)) (c_msgs (g c))) ->
  c_title (g c) = c_title c -> c_app_id (g c) = c_app_id c ->
  m_name m' = m_name m -> m_args m' = m_args m ->
  title_update (g c) m' = g (title_update c m).
Proof.
  intros Hg Ht Ha Hn Hr. unfold title_update. rewrite Hn, Hr, Ht, Ha.
  repeat match goal with
         | |- context [if ?b then _ else _] => destruct b
         | |- context [match ?x with _ => _ end] => destruct x
         end; try rewrite Hg; reflexivity.
Qed.

(* ---- changing the time stamps: the model never looks at them --------------------------------- *)
Section Retime.
Variable tm : Z -> Z.

Definition retime_obj (o : obj) : obj :=
  mkObj (o_id o) (o_gen o) (o_type o) (o_alive o) (tm (o_create o)) (option_map tm (o_destroy o)).
Definition retime_db (d : db) : db := map (fun p => (fst p, map retime_obj (snd p))) d.
Definition retime_rmsg (m : rmsg) : rmsg :=
  mkRmsg (tm (m_time m)) (m_obj m) (m_sent m) (m_name m) (m_args m) (m_destroyed m).
Definition retime_conn (c : connst) : connst :=
  mkConn (c_id c) (c_name c) (c_server c) (c_open c) (c_title c) (c_app_id c)
         (retime_db (c_db c)) (map retime_rmsg (c_msgs c)).

Lemma db_get_retime d id : db_get (retime_db d) id = option_map (map retime_obj) (db_get d id).
Proof.
  induction d as [|[k l] d IH]; cbn [retime_db map db_get fst snd option_map]; [reflexivity|].
  destruct (k =? id); [reflexivity|exact IH].
Qed.

Lemma db_set_retime d id l : db_set (retime_db d) id (map retime_obj l) = retime_db (db_set d id l).
Proof.
  induction d as [|[k l0] d IH]; cbn [retime_db map db_set fst snd]; [reflexivity|].
  destruct (k =? id); cbn [retime_db map fst snd]; [reflexivity|].
  f_equal. exact IH.
Qed.

Lemma db_set_retime' d id l l' : l' = map retime_obj l ->
  db_set (retime_db d) id l' = retime_db (db_set d id l).
Proof. intros ->. apply db_set_retime. Qed.

Lemma map_last_map {A B} (f : A -> B) (g : A -> A) (g' : B -> B) l :
  (forall x, g' (f x) = f (g x)) -> Conn.map_last g' (map f l) = map f (Conn.map_last g l).
Proof.
  intros H. induction l as [|x l IH]; [reflexivity|].
  destruct l as [|y l]; cbn [map Conn.map_last]; [rewrite H; reflexivity|].
  cbn [map Conn.map_last] in IH. rewrite IH. reflexivity.
Qed.

Lemma map_last_length {A} (g : A -> A) l : List.length (Conn.map_last g l) = List.length l.
Proof.
  induction l as [|x l IH]; [reflexivity|]. destruct l as [|y l]; [reflexivity|].
  cbn [Conn.map_last List.length] in *. rewrite IH. reflexivity.
Qed.

Lemma kill_retime time o : kill (tm time) (retime_obj o) = retime_obj (kill time o).
Proof. reflexivity. Qed.

Lemma last_alive_retime l :
  o_alive (last (map retime_obj l) display_obj) = o_alive (last l display_obj).
Proof.
  induction l as [|x l IH]; [reflexivity|]. destruct l as [|y l]; [reflexivity|].
  cbn [map last] in *. exact IH.
Qed.

Lemma create_object_retime d time id ty :
  create_object (retime_db d) (tm time) id ty =
  match create_object d time id ty with Ok d2 => Ok (retime_db d2) | Raise e msg => Raise e msg end.
Proof.
  unfold create_object. destruct (id <=? 1); [reflexivity|].
  rewrite db_get_retime. destruct (db_get d id) as [l|]; cbn [option_map].
  - rewrite last_alive_retime. destruct (o_alive (last l display_obj)).
    + destruct (str_eqb ty (s2l "wl_registry") && (id =? 2)); [reflexivity|].
      destruct (owned_by_server id); [|reflexivity]. f_equal.
      apply db_set_retime'.
      rewrite (map_last_map retime_obj (kill time) (kill (tm time))) by (intros; apply kill_retime).
      rewrite map_app, !map_length. reflexivity.
    + f_equal. apply db_set_retime'. rewrite map_app, !map_length. reflexivity.
  - f_equal. apply db_set_retime'. reflexivity.
Qed.

Lemma retrieve_latest_retime d id ty :
  retrieve_latest (retime_db d) id ty =
  match retrieve_latest d id ty with Ok o => Ok (retime_obj o) | Raise e msg => Raise e msg end.
Proof.
  unfold retrieve_latest. rewrite db_get_retime. destruct (db_get d id) as [l|]; cbn [option_map]; [|reflexivity].
  rewrite <- map_rev. destruct (rev l) as [|o r]; cbn [map]; [reflexivity|].
  cbn [retime_obj o_type]. destruct ty as [t|]; [|reflexivity]. destruct (o_type o) as [ot|]; [|reflexivity].
  destruct (str_match t ot); reflexivity.
Qed.

Lemma resolve_ref_retime d id ty : resolve_ref (retime_db d) id ty = resolve_ref d id ty.
Proof.
  unfold resolve_ref. rewrite retrieve_latest_retime. destruct (retrieve_latest d id ty); reflexivity.
Qed.

Lemma lookup_obj_retime d id g : lookup_obj (retime_db d) id g = option_map retime_obj (lookup_obj d id g).
Proof.
  unfold lookup_obj. rewrite db_get_retime. destruct (db_get d id) as [l|]; cbn [option_map]; [|reflexivity].
  apply nth_error_map.
Qed.

Lemma ref_type_retime d r : ref_type (retime_db d) r = ref_type d r.
Proof.
  destruct r as [id g|id ty]; cbn [ref_type]; [|reflexivity].
  rewrite lookup_obj_retime. destruct (lookup_obj d id g); reflexivity.
Qed.

Variable P : pdb.

Lemma resolve_arg_retime d time tty mname idx a :
  resolve_arg P (retime_db d) (tm time) tty mname idx a =
  match resolve_arg P d time tty mname idx a with
  | Ok (d1, ra) => Ok (retime_db d1, ra)
  | Raise e msg => Raise e msg
  end.
Proof.
  unfold resolve_arg. destruct (base_name P tty mname idx) as [nm|e msg]; cbn [bind]; [|reflexivity].
  destruct a as [v|x|s|ty|id ty is_new|v|vals|s]; try reflexivity.
  - destruct (enum_labels P tty mname idx v); reflexivity.
  - destruct ty, tty; try reflexivity. destruct (look_up_interface P s mname idx); reflexivity.
  - destruct is_new; [|rewrite resolve_ref_retime; reflexivity].
    destruct ty as [t|]; [|rewrite resolve_ref_retime; reflexivity].
    rewrite create_object_retime. destruct (create_object d time id t); rewrite resolve_ref_retime; reflexivity.
  - destruct vals as [vs|]; [|reflexivity]. destruct (mapM _ vs); reflexivity.
Qed.

Lemma resolve_args_retime time tty mname : forall args d idx,
  resolve_args P (retime_db d) (tm time) tty mname idx args =
  let '(d2, ras, err) := resolve_args P d time tty mname idx args in (retime_db d2, ras, err).
Proof.
  induction args as [|a rest IH]; intros d idx; cbn [resolve_args]; [reflexivity|].
  rewrite resolve_arg_retime. destruct (resolve_arg P d time tty mname idx a) as [[d1 ra]|e msg]; [|reflexivity].
  rewrite IH. destruct (resolve_args P d1 time tty mname (S idx) rest) as [[d2 ras] err]. reflexivity.
Qed.

Lemma resolve_msg_retime d time m :
  resolve_msg P (retime_db d) (tm time) m =
  let '(d2, rm, err) := resolve_msg P d time m in (retime_db d2, retime_rmsg rm, err).
Proof.
  unfold resolve_msg. rewrite resolve_ref_retime, ref_type_retime.
  set (target := resolve_ref d (p_id m) (p_type m)). set (tty := ref_type d target).
  match goal with |- context [match ?x with Ok _ => _ | Raise _ _ => _ end] =>
    match x with (if _ then bind_typing _ else _) => destruct x as [args|e msg] end end; [|reflexivity].
  match goal with |- context [if ?b then _ else Ok (d, None)] => destruct b end.
  - destruct args as [|[v|x|s|ty|id ty is_new|v|vals|s] rest]; try reflexivity.
    rewrite retrieve_latest_retime. destruct (retrieve_latest d v None) as [o|e s]; [|reflexivity].
    rewrite db_get_retime. destruct (db_get d v) as [l|]; cbn [option_map]; [|reflexivity].
    rewrite (map_last_map retime_obj (kill time) (kill (tm time))) by (intros; apply kill_retime).
    rewrite db_set_retime. cbn [retime_obj o_id o_gen].
    rewrite resolve_args_retime.
    destruct (resolve_args P _ time tty (p_name m) 0 (PInt v :: rest)) as [[d2 ras] err]. reflexivity.
  - rewrite resolve_args_retime.
    destruct (resolve_args P d time tty (p_name m) 0 args) as [[d2 ras] err]. reflexivity.
Qed.

Lemma conn_step_retime c rel m :
  conn_step P (retime_conn c) (tm rel) m = retime_conn (conn_step P c rel m).
Proof.
  unfold conn_step. cbn [retime_conn c_db c_id c_name c_server c_open c_title c_app_id c_msgs].
  rewrite resolve_msg_retime. destruct (resolve_msg P (c_db c) rel m) as [[d' rm] err].
  set (c1 := mkConn (c_id c) (c_name c) (c_server c) (c_open c) (c_title c) (c_app_id c) d' (c_msgs c ++ [rm])).
  match goal with |- context [title_update ?x _] => replace x with (retime_conn c1)
    by (unfold retime_conn, c1; cbn [c_db c_id c_name c_server c_open c_title c_app_id c_msgs];
        rewrite map_app; reflexivity) end.
  destruct err as [e|]; [reflexivity|].
  apply (title_update_nat retime_conn c1 rm (retime_rmsg rm)); reflexivity.
Qed.

Lemma resolve_err_retime d rel m :
  snd (resolve_msg P (retime_db d) (tm rel) m) = snd (resolve_msg P d rel m).
Proof. rewrite resolve_msg_retime. destruct (resolve_msg P d rel m) as [[d2 rm] err]. reflexivity. Qed.

End Retime.

(* ---- events, projections, side condition ----------------------------------------------------- *)
Definition ev_is (id : str) (e : event) : bool :=
  match e with EMsg i _ => str_eqb i id | _ => false end.

(* the log that contains only the lines tagged [id] *)
Definition only (id : str) (evs : list event) : list event := filter (ev_is id) evs.

(* file/pipe mode input: decoded lines, other text lines, and user commands *)
Definition log_event (e : event) : bool :=
  match e with EMsg _ _ | EText _ | ECmd _ => true | _ => false end.

(* the view of the connection the model itself attributes lines tagged [id] to
   (open_connections[id], i.e. [find_open]: the last opened, still open connection with that
   identifier; with lines, text and commands only, connections are never closed) *)
Definition view_of (id : str) (T : top) := option_map conn_view (the_conn (t_sess T) id).

Section Runs.
Variable P : pdb.

(* "a line NOT tagged [id] switched decoding off": computed on the run *)
Fixpoint foreign_abort (id : str) (T : top) (evs : list event) : bool :=
  match evs with
  | [] => false
  | e :: evs' =>
      let T1 := fst (step P T e) in
      (negb (ev_is id e) && s_parse (t_sess T) && negb (s_parse (t_sess T1)))
      || foreign_abort id T1 evs'
  end.

Lemma conn_step_rename n c rel m : conn_step P (rename n c) rel m = rename n (conn_step P c rel m).
Proof.
  unfold conn_step. cbn [rename c_db c_id c_name c_server c_open c_title c_app_id c_msgs].
  destruct (resolve_msg P (c_db c) rel m) as [[d' rm] err]. destruct err as [e|]; [reflexivity|].
  apply (title_update_nat (rename n)
           (mkConn (c_id c) (c_name c) (c_server c) (c_open c) (c_title c) (c_app_id c) d' (c_msgs c ++ [rm])) rm rm);
    reflexivity.
Qed.

(* connections with the same view make the same step *)
Lemma conn_step_view c c' rel m : conn_view c = conn_view c' ->
  conn_view (conn_step P c rel m) = conn_view (conn_step P c' rel m) /\ c_db c = c_db c'.
Proof.
  intros Hv. pose proof (conn_view_rename _ _ Hv) as R.
  remember (c_name c') as n0 eqn:En. rewrite R. rewrite conn_step_rename. split; reflexivity.
Qed.

Lemma run_cons T e evs : fst (run P T (e :: evs)) = fst (run P (fst (step P T e)) evs).
Proof. cbn [run]. destruct (step P T e) as [T1 o]. cbn [fst]. destruct (run P T1 evs). reflexivity. Qed.

Lemma step_msg T id m :
  t_base (fst (step P T (EMsg id m))) = fst (rel_time (t_base T) (p_time m)) /\
  t_sess (fst (step P T (EMsg id m))) =
    fst (log_message P (t_sess T) id (snd (rel_time (t_base T) (p_time m))) m).
Proof.
  destruct T as [b0 s]. unfold step. cbn [t_base t_sess].
  destruct (rel_time b0 (p_time m)) as [b' rel]. cbn [fst snd].
  destruct (log_message P s id rel m) as [s1 o]. split; reflexivity.
Qed.

(* what a text line or a command can change: nothing that is recorded, and not the time origin *)
Lemma step_nonmsg T e : log_event e = true -> (forall i m, e <> EMsg i m) ->
  let T1 := fst (step P T e) in
  t_base T1 = t_base T /\ record_of (t_sess T1) = record_of (t_sess T).
Proof.
  intros Hl Hn. destruct e as [i m|t|cm| | | | | | | ]; try discriminate.
  - exfalso. exact (Hn i m eq_refl).
  - rewrite text_passthrough. split; reflexivity.
  - cbn zeta. split; [|apply cmds_do_not_touch_record].
    destruct T as [b s]. unfold step. cbn [t_base t_sess fst]. reflexivity.
Qed.

Lemma record_abs id s s' : record_of s' = record_of s ->
  s_parse s' = s_parse s /\ known s' id = known s id /\ the_conn s' id = the_conn s id.
Proof.
  unfold record_of. intros R. injection R as Rc _ _ Rk Rp.
  unfold known, the_conn. rewrite Rc, Rk, Rp. repeat split.
Qed.

Definition base_after (b : option Z) (e : event) : option Z :=
  match e with EMsg _ m => fst (rel_time b (p_time m)) | _ => b end.

Lemma step_base T e : log_event e = true -> t_base (fst (step P T e)) = base_after (t_base T) e.
Proof.
  intros Hl. destruct e as [i m|t|cm| | | | | | | ] eqn:Ee; try discriminate.
  - apply (step_msg T i m).
  - destruct (step_nonmsg T (EText t) eq_refl) as [H _]; [intros; discriminate|]. exact H.
  - destruct (step_nonmsg T (ECmd cm) eq_refl) as [H _]; [intros; discriminate|]. exact H.
Qed.

(* an event that is not a line tagged [id]: [id] sees no change, except possibly the switch *)
Lemma step_foreign id T e : log_event e = true -> ev_is id e = false ->
  let T1 := fst (step P T e) in
  known (t_sess T1) id = known (t_sess T) id /\ the_conn (t_sess T1) id = the_conn (t_sess T) id /\
  (s_parse (t_sess T) = false -> s_parse (t_sess T1) = false).
Proof.
  intros Hl He. destruct e as [i m|t|cm| | | | | | | ] eqn:Ee; try discriminate.
  - cbn [ev_is] in He. apply str_eqb_neq in He.
    destruct T as [b s]. unfold step. cbn [t_base t_sess]. destruct (rel_time b (p_time m)) as [b' rel].
    pose proof (log_message_other P s id i rel m He) as H. cbn zeta in H.
    pose proof (log_message_off P s i rel m) as Hoff.
    destruct (log_message P s i rel m) as [s1 o]. cbn [fst t_sess] in *.
    destruct H as [H1 H2]. repeat split; try assumption.
    intros Hp. specialize (Hoff Hp). injection Hoff as -> _. exact Hp.
  - destruct (step_nonmsg T (EText t) eq_refl) as [_ R]; [intros; discriminate|].
    destruct (record_abs id _ _ R) as (A1 & A2 & A3).
    cbn zeta. repeat split; try assumption. intros Hp. rewrite A1. exact Hp.
  - destruct (step_nonmsg T (ECmd cm) eq_refl) as [_ R]; [intros; discriminate|].
    destruct (record_abs id _ _ R) as (A1 & A2 & A3).
    cbn zeta. repeat split; try assumption. intros Hp. rewrite A1. exact Hp.
Qed.

(* ---- the simulation, generic in what is observed (V) and in how the two time origins are
   related (Rbase / Rrel) ---------------------------------------------------------------------- *)
Section Sim.
Context {X : Type}.
Variable V : connst -> X.
Variable Rrel : Z -> Z -> Prop.
Variable Rbase : option Z -> option Z -> Prop.
Hypothesis V_step : forall c c' rel rel' m, V c = V c' -> Rrel rel rel' ->
  V (conn_step P c rel m) = V (conn_step P c' rel' m) /\
  fatal (snd (resolve_msg P (c_db c) rel m)) = fatal (snd (resolve_msg P (c_db c') rel' m)).
Hypothesis V_fresh : forall id n n' sv, V (fresh_conn id n sv) = V (fresh_conn id n' sv).
Hypothesis Rbase_own : forall bm bs t, Rbase bm bs ->
  Rbase (fst (rel_time bm t)) (fst (rel_time bs t)) /\ Rrel (snd (rel_time bm t)) (snd (rel_time bs t)).
Hypothesis Rbase_foreign : forall bm bs t, Rbase bm bs -> Rbase (fst (rel_time bm t)) bs.

Definition abs_sim (a a' : abs) : Prop :=
  fst (fst a) = fst (fst a') /\ snd (fst a) = snd (fst a') /\
  option_map V (snd a) = option_map V (snd a').

Lemma abs_sim_refl a : abs_sim a a.
Proof. repeat split. Qed.

Lemma astep_sim id a a' n n' rel rel' m :
  abs_sim a a' -> Rrel rel rel' -> abs_sim (astep P id a n rel m) (astep P id a' n' rel' m).
Proof.
  destruct a as [[p k] oc], a' as [[p' k'] oc']. intros (Hp & Hk & Hc) Hr. cbn [fst snd] in Hp, Hk, Hc. subst p' k'.
  unfold astep. destruct p; cbn [negb]; [|repeat split; assumption]. destruct k.
  - destruct oc as [c|], oc' as [c'|]; cbn [option_map] in Hc; try discriminate.
    + assert (Hv : V c = V c') by congruence.
      destruct (V_step c c' rel rel' m Hv Hr) as [H1 H2].
      unfold abs_sim. cbn [fst snd option_map]. rewrite H1, H2. repeat split.
    + repeat split.
  - destruct (V_step _ _ rel rel' m (V_fresh id n n' (is_get_registry m)) Hr) as [H1 H2].
    unfold abs_sim. cbn [fst snd option_map]. rewrite H1, H2. repeat split.
Qed.

(* merged run on the left, the run over [only id] on the right *)
Lemma run_sim id : forall evs Tm Ts,
  forallb log_event evs = true ->
  Rbase (t_base Tm) (t_base Ts) ->
  abs_sim (abs_of id (t_sess Tm)) (abs_of id (t_sess Ts)) ->
  foreign_abort id Tm evs = false ->
  abs_sim (abs_of id (t_sess (fst (run P Tm evs)))) (abs_of id (t_sess (fst (run P Ts (only id evs))))).
Proof.
  induction evs as [|e evs IH]; intros Tm Ts Hl Hb Hs Hf.
  - exact Hs.
  - cbn [forallb] in Hl. apply andb_true_iff in Hl. destruct Hl as [Hle Hl].
    cbn [foreign_abort] in Hf. apply orb_false_iff in Hf. destruct Hf as [Hf1 Hf2].
    unfold only. cbn [filter]. fold (only id evs). rewrite run_cons.
    destruct (ev_is id e) eqn:Ee.
    + (* a line of [id]: both runs take it *)
      destruct e as [i m| | | | | | | | | ]; try discriminate.
      cbn [ev_is] in Ee. apply str_eqb_eq in Ee. subst i.
      rewrite run_cons.
      destruct (step_msg Tm id m) as [Bm Sm]. destruct (step_msg Ts id m) as [Bs Ss].
      destruct (Rbase_own _ _ (p_time m) Hb) as [Hb' Hr].
      apply IH; try assumption.
      * rewrite Bm, Bs. exact Hb'.
      * rewrite Sm, Ss, !log_message_own. apply astep_sim; assumption.
    + (* anything else: only the merged run moves *)
      destruct (step_foreign id Tm e Hle Ee) as (Hk & Hc & Hoff). cbn zeta in Hk, Hc, Hoff.
      apply IH; try assumption.
      * rewrite step_base by exact Hle. destruct e; try exact Hb. cbn [base_after]. apply Rbase_foreign. exact Hb.
      * destruct Hs as (Sp & Sk & Sc). unfold abs_of in *. cbn [fst snd] in *.
        repeat split.
        -- rewrite <- Sp. cbn [negb andb] in Hf1.
           destruct (s_parse (t_sess Tm)) eqn:Ep.
           ++ cbn [andb] in Hf1. apply negb_false_iff in Hf1. exact Hf1.
           ++ apply Hoff. reflexivity.
        -- rewrite Hk. exact Sk.
        -- rewrite Hc. exact Sc.
Qed.

End Sim.

(* ---- main theorem 1: common time origin ---------------------------------------------------------
   Any starting session, any time origin b, any list of lines / text lines / commands: what is
   recorded for [id] in the merged run equals what is recorded for it in the run over its own lines
   alone — time stamps included, name excluded. *)
Theorem merged_is_solo_from : forall b s0 evs id,
  forallb log_event evs = true ->
  foreign_abort id (mkTop (Some b) s0) evs = false ->
  view_of id (fst (run P (mkTop (Some b) s0) evs)) =
  view_of id (fst (run P (mkTop (Some b) s0) (only id evs))).
Proof.
  intros b s0 evs id Hl Hf.
  assert (H : abs_sim conn_view (abs_of id (t_sess (fst (run P (mkTop (Some b) s0) evs))))
                      (abs_of id (t_sess (fst (run P (mkTop (Some b) s0) (only id evs)))))).
  { apply (run_sim conn_view eq (fun bm bs => bm = bs /\ bm <> None)); try assumption.
    - intros c c' rel rel' m Hv <-. destruct (conn_step_view c c' rel m Hv) as [H1 H2].
      split; [exact H1|]. rewrite H2. reflexivity.
    - reflexivity.
    - intros bm bs t [<- Hn]. destruct bm as [b0|]; [|contradiction]. cbn. repeat split. discriminate.
    - intros bm bs t [<- Hn]. destruct bm as [b0|]; [|contradiction]. cbn. repeat split. discriminate.
    - cbn [t_base]. split; [reflexivity|discriminate].
    - apply abs_sim_refl. }
  destruct H as (_ & _ & H). exact H.
Qed.

(* ---- main theorem 2: each log with its own time origin ----------------------------------------
   All time stamps are set to 0 in the view ("untimed"); everything else is compared exactly. *)
Definition untime (t : Z) : Z := 0.
Definition untimed (v : str * option bool * bool * option str * option str * db * list rmsg) :=
  let '(id, sv, op, ti, ap, d, ms) := v in
  (id, sv, op, ti, ap, retime_db untime d, map (retime_rmsg untime) ms).

Lemma untimed_conn_view c : untimed (conn_view c) = conn_view (retime_conn untime c).
Proof. reflexivity. Qed.

Theorem merged_is_solo_any_origin : forall bm bs s0 evs id,
  forallb log_event evs = true ->
  foreign_abort id (mkTop bm s0) evs = false ->
  option_map untimed (view_of id (fst (run P (mkTop bm s0) evs))) =
  option_map untimed (view_of id (fst (run P (mkTop bs s0) (only id evs)))).
Proof.
  intros bm bs s0 evs id Hl Hf.
  assert (H : abs_sim (fun c => untimed (conn_view c)) (abs_of id (t_sess (fst (run P (mkTop bm s0) evs))))
                      (abs_of id (t_sess (fst (run P (mkTop bs s0) (only id evs)))))).
  { apply (run_sim (fun c => untimed (conn_view c)) (fun _ _ => True) (fun _ _ => True)); try assumption; try (intros; exact I).
    - intros c c' rel rel' m Hv _. cbn beta in *. rewrite !untimed_conn_view in *.
      rewrite <- (conn_step_retime untime P c rel m), <- (conn_step_retime untime P c' rel' m).
      destruct (conn_step_view _ _ (untime rel) m Hv) as [H1 H2]. split; [exact H1|].
      rewrite <- (resolve_err_retime untime P (c_db c) rel m), <- (resolve_err_retime untime P (c_db c') rel' m).
      change (retime_db untime (c_db c)) with (c_db (retime_conn untime c)).
      change (retime_db untime (c_db c')) with (c_db (retime_conn untime c')).
      rewrite H2. reflexivity.
    - reflexivity.
    - intros; split; exact I.
    - apply abs_sim_refl. }
  destruct H as (_ & _ & H). unfold view_of, abs_of in *. cbn [snd] in H.
  destruct (the_conn _ id), (the_conn _ id); exact H.
Qed.

End Runs.

(* ---- the side condition from simpler ones ---------------------------------------------------- *)
Section SideCondition.
Variable P : pdb.

Lemma step_parse_off T e : log_event e = true ->
  s_parse (t_sess T) = false -> s_parse (t_sess (fst (step P T e))) = false.
Proof.
  intros Hl Hp. destruct e as [i m|t|cm| | | | | | | ] eqn:Ee; try discriminate.
  - destruct (step_msg P T i m) as [_ S]. rewrite S, log_message_off by exact Hp. exact Hp.
  - destruct (step_nonmsg P T (EText t) eq_refl) as [_ R]; [intros; discriminate|].
    destruct (record_abs [] _ _ R) as (A1 & _). rewrite A1. exact Hp.
  - destruct (step_nonmsg P T (ECmd cm) eq_refl) as [_ R]; [intros; discriminate|].
    destruct (record_abs [] _ _ R) as (A1 & _). rewrite A1. exact Hp.
Qed.

Lemma run_parse_off : forall evs T, forallb log_event evs = true ->
  s_parse (t_sess T) = false -> s_parse (t_sess (fst (run P T evs))) = false.
Proof.
  induction evs as [|e evs IH]; intros T Hl Hp; [exact Hp|].
  cbn [forallb] in Hl. apply andb_true_iff in Hl. destruct Hl as [Hle Hl].
  rewrite run_cons. apply IH; [exact Hl|]. apply step_parse_off; assumption.
Qed.

(* decoding still on at the end of the merged run: then nobody switched it off *)
Theorem parse_on_no_foreign_abort : forall evs T id, forallb log_event evs = true ->
  s_parse (t_sess (fst (run P T evs))) = true -> foreign_abort P id T evs = false.
Proof.
  induction evs as [|e evs IH]; intros T id Hl Hp; [reflexivity|].
  cbn [forallb] in Hl. apply andb_true_iff in Hl. destruct Hl as [Hle Hl].
  rewrite run_cons in Hp. cbn [foreign_abort]. rewrite (IH _ id Hl Hp).
  destruct (s_parse (t_sess (fst (step P T e)))) eqn:E1.
  - cbn [negb]. rewrite andb_false_r. reflexivity.
  - rewrite (run_parse_off evs _ Hl E1) in Hp. discriminate.
Qed.

(* ---- time origin of a log = time of its first message ---------------------------------------- *)
Fixpoint first_time (evs : list event) : option Z :=
  match evs with
  | [] => None
  | EMsg _ m :: _ => Some (p_time m)
  | _ :: evs' => first_time evs'
  end.

Lemma step_origin_msg s i m :
  step P (mkTop None s) (EMsg i m) = step P (mkTop (Some (p_time m)) s) (EMsg i m).
Proof. unfold step. cbn [t_base t_sess rel_time]. rewrite Z.sub_diag. reflexivity. Qed.

Lemma step_keep_base b b' s e : log_event e = true -> (forall i m, e <> EMsg i m) ->
  exists s1 o, step P (mkTop b s) e = (mkTop b s1, o) /\ step P (mkTop b' s) e = (mkTop b' s1, o).
Proof.
  intros Hl Hn. destruct e as [i m|t|cm| | | | | | | ]; try discriminate.
  - exfalso. exact (Hn i m eq_refl).
  - rewrite !text_passthrough. cbn [t_sess]. eexists _, _. split; reflexivity.
  - unfold step. cbn [t_base t_sess]. destruct (process_command command_fuel s cm) as [s1 o].
    cbn [fst snd]. eexists _, _. split; reflexivity.
Qed.

Lemma run_origin : forall evs s, forallb log_event evs = true ->
  run P (mkTop None s) evs = run P (mkTop (first_time evs) s) evs.
Proof.
  induction evs as [|e evs IH]; intros s Hl; [reflexivity|].
  cbn [forallb] in Hl. apply andb_true_iff in Hl. destruct Hl as [Hle Hl].
  destruct e as [i m|t|cm| | | | | | | ] eqn:Ee; try discriminate.
  - cbn [first_time run]. rewrite step_origin_msg. reflexivity.
  - cbn [first_time run].
    destruct (step_keep_base None (first_time evs) s (EText t) eq_refl) as (s1 & o & E1 & E2); [intros; discriminate|].
    rewrite E1, E2, IH by exact Hl. reflexivity.
  - cbn [first_time run].
    destruct (step_keep_base None (first_time evs) s (ECmd cm) eq_refl) as (s1 & o & E1 & E2); [intros; discriminate|].
    rewrite E1, E2, IH by exact Hl. reflexivity.
Qed.

Lemma foreign_abort_origin id : forall evs s, forallb log_event evs = true ->
  foreign_abort P id (mkTop None s) evs = foreign_abort P id (mkTop (first_time evs) s) evs.
Proof.
  induction evs as [|e evs IH]; intros s Hl; [reflexivity|].
  cbn [forallb] in Hl. apply andb_true_iff in Hl. destruct Hl as [Hle Hl].
  destruct e as [i m|t|cm| | | | | | | ] eqn:Ee; try discriminate.
  - cbn [first_time foreign_abort]. rewrite step_origin_msg. reflexivity.
  - cbn [first_time foreign_abort].
    destruct (step_keep_base None (first_time evs) s (EText t) eq_refl) as (s1 & o & E1 & E2); [intros; discriminate|].
    rewrite E1, E2. cbn [fst t_sess]. rewrite IH by exact Hl. reflexivity.
  - cbn [first_time foreign_abort].
    destruct (step_keep_base None (first_time evs) s (ECmd cm) eq_refl) as (s1 & o & E1 & E2); [intros; discriminate|].
    rewrite E1, E2. cbn [fst t_sess]. rewrite IH by exact Hl. reflexivity.
Qed.

(* the merged log read from the start (origin = its first message) against the solo log read with
   the SAME origin: equal, time stamps included *)
Theorem merged_is_solo_same_origin : forall s0 evs id t0,
  forallb log_event evs = true -> first_time evs = Some t0 ->
  foreign_abort P id (mkTop None s0) evs = false ->
  view_of id (fst (run P (mkTop None s0) evs)) =
  view_of id (fst (run P (mkTop (Some t0) s0) (only id evs))).
Proof.
  intros s0 evs id t0 Hl Ht Hf. rewrite run_origin by exact Hl.
  rewrite foreign_abort_origin in Hf by exact Hl. rewrite Ht in *.
  apply merged_is_solo_from; assumption.
Qed.

End SideCondition.

(* ---- a per-message shape condition that keeps decoding on --------------------------------------
   The only exceptions other than RuntimeError that handling a line can raise are the two
   assertions in Message.resolve: a wl_registry.bind whose arguments do not have the shape
   (_, str, _, new_id[ of that interface]), and a wl_display.delete_id whose first argument is not
   an integer.  [wf_msg] excludes both by looking at the message alone (it is conservative: it
   does not check that the target really is the registry / the display). *)
Definition wf_msg (m : pmsg) : bool :=
  (if str_eqb (p_name m) (s2l "bind") then is_ok (bind_typing (p_args m)) else true) &&
  (if str_eqb (p_name m) (s2l "delete_id")
   then match p_args m with [] => true | PInt _ :: _ => true | _ => false end
   else true).
Definition wf_event (e : event) : bool := match e with EMsg _ m => wf_msg m | _ => true end.

Definition only_rt {A} (r : res A) : Prop :=
  match r with Raise e _ => e = RuntimeError | Ok _ => True end.

Lemma bind_only_rt {A B} (r : res A) (f : A -> res B) :
  only_rt r -> (forall a, only_rt (f a)) -> only_rt (bind r f).
Proof. destruct r as [a|e msg]; cbn [bind only_rt]; intros H1 H2; [apply H2|exact H1]. Qed.

Lemma mapM_only_rt {A B} (f : A -> res B) l : (forall x, only_rt (f x)) -> only_rt (mapM f l).
Proof.
  intros H. induction l as [|x l IH]; cbn [mapM]; [exact I|].
  apply bind_only_rt; [apply H|]. intros y. apply bind_only_rt; [exact IH|]. intros ys. exact I.
Qed.

Section Wf.
Variable P : pdb.

Lemma get_arg_only_rt i mn idx : only_rt (get_arg P i mn idx).
Proof.
  unfold get_arg. destruct (_ && _); [exact I|]. destruct (od_get pi_name P i) as [x|]; [|exact I].
  destruct (od_get pm_name (pi_msgs x) mn) as [y|]; [|reflexivity].
  destruct (nth_error (pm_args y) idx); [exact I|reflexivity].
Qed.

Lemma base_name_only_rt tty mn idx : only_rt (base_name P tty mn idx).
Proof.
  destruct tty as [t|]; [|exact I]. unfold base_name, get_arg_name.
  apply bind_only_rt; [apply get_arg_only_rt|]. intros a. exact I.
Qed.

Lemma enum_labels_only_rt tty mn idx v : only_rt (enum_labels P tty mn idx v).
Proof.
  destruct tty as [t|]; [|exact I]. unfold enum_labels, look_up_enum.
  apply bind_only_rt; [|intros a; exact I].
  apply bind_only_rt; [apply get_arg_only_rt|]. intros [a|]; [|exact I].
  destruct (pa_enum a) as [path|]; [|exact I]. destruct (get_enum P t path) as [en|]; [|exact I].
  destruct (map _ _); exact I.
Qed.

Lemma resolve_arg_only_rt d time tty mn idx a : only_rt (resolve_arg P d time tty mn idx a).
Proof.
  unfold resolve_arg. apply bind_only_rt; [apply base_name_only_rt|]. intros nm.
  destruct a as [v|x|s|ty|id ty is_new|v|vals|s]; try exact I.
  - apply bind_only_rt; [apply enum_labels_only_rt|]. intros; exact I.
  - destruct ty, tty; try exact I. unfold look_up_interface.
    apply bind_only_rt; [|intros; exact I]. apply bind_only_rt; [apply get_arg_only_rt|]. intros; exact I.
  - destruct vals as [vs|]; [|exact I]. apply bind_only_rt; [|intros; exact I].
    apply mapM_only_rt. intros v. apply bind_only_rt; [apply enum_labels_only_rt|]. intros; exact I.
Qed.

Lemma resolve_args_not_fatal time tty mn : forall args d idx,
  fatal (snd (resolve_args P d time tty mn idx args)) = false.
Proof.
  induction args as [|a rest IH]; intros d idx; cbn [resolve_args]; [reflexivity|].
  pose proof (resolve_arg_only_rt d time tty mn idx a) as H.
  destruct (resolve_arg P d time tty mn idx a) as [[d1 ra]|e msg].
  - specialize (IH d1 (S idx)). destruct (resolve_args P d1 time tty mn (S idx) rest) as [[d2 ras] err]. exact IH.
  - cbn [only_rt] in H. subst e. reflexivity.
Qed.

Lemma bind_not_delete : str_eqb (s2l "bind") (s2l "delete_id") = false.
Proof. reflexivity. Qed.

Lemma wf_msg_not_fatal d rel m : wf_msg m = true -> fatal (snd (resolve_msg P d rel m)) = false.
Proof.
  intros Hwf. unfold wf_msg in Hwf. apply andb_true_iff in Hwf. destruct Hwf as [Hb Hd].
  unfold resolve_msg.
  generalize (resolve_ref d (p_id m) (p_type m)). intros target.
  generalize (ref_type d target). intros tty.
  match goal with |- context [if ?b then bind_typing _ else _] => set (ib := b) end.
  assert (Hargs : exists args, (if ib then bind_typing (p_args m) else Ok (p_args m)) = Ok args /\
            (str_eqb (p_name m) (s2l "delete_id") = true ->
             args = [] \/ exists v r, args = PInt v :: r)).
  { destruct ib eqn:Eib.
    - assert (En : str_eqb (p_name m) (s2l "bind") = true).
      { subst ib. destruct tty as [t|]; [|discriminate]. apply andb_true_iff in Eib. apply Eib. }
      rewrite En in Hb. destruct (bind_typing (p_args m)) as [a|]; [|discriminate].
      exists a. split; [reflexivity|]. intros Hdel.
      apply str_eqb_eq in En. rewrite En in Hdel. rewrite bind_not_delete in Hdel. discriminate.
    - exists (p_args m). split; [reflexivity|]. intros Hdel. rewrite Hdel in Hd.
      destruct (p_args m) as [|[v| | | | | | | ] r]; try discriminate; [left; reflexivity|right; eexists _, _; reflexivity]. }
  destruct Hargs as (args & Ha & Hdel). rewrite Ha. clearbody ib. clear Ha.
  match goal with |- context [if ?b then _ else Ok (d, None)] => destruct b eqn:Eid end.
  - assert (Hn : str_eqb (p_name m) (s2l "delete_id") = true /\ args <> []).
    { destruct target as [[|[p|p|]|p] [|g]|]; try discriminate.
      apply andb_true_iff in Eid. destruct Eid as [E1 E2]. split; [exact E1|].
      intros ->. discriminate. }
    destruct Hn as [Hn Hne]. destruct (Hdel Hn) as [->|(v & r & ->)]; [contradiction|].
    destruct (retrieve_latest d v None) as [o|e s]; [|reflexivity].
    destruct (db_get d v) as [l|]; [|reflexivity].
    match goal with |- context [resolve_args P ?a ?b ?c ?dd ?e ?f] =>
      pose proof (resolve_args_not_fatal b c dd f a e) as H; destruct (resolve_args P a b c dd e f) as [[d2 ras] err] end.
    exact H.
  - match goal with |- context [resolve_args P ?a ?b ?c ?dd ?e ?f] =>
      pose proof (resolve_args_not_fatal b c dd f a e) as H; destruct (resolve_args P a b c dd e f) as [[d2 ras] err] end.
    exact H.
Qed.

(* invariant of file-mode runs: decoding on, and every identifier seen so far has a connection *)
Definition healthy (s : sess) : Prop :=
  s_parse s = true /\ forall id, known s id = true -> the_conn s id <> None.

Lemma healthy_init d st c u g : healthy (init_sess d st c u g).
Proof. split; [reflexivity|]. intros id H. discriminate. Qed.

Lemma healthy_step T e : log_event e = true -> wf_event e = true ->
  healthy (t_sess T) -> healthy (t_sess (fst (step P T e))).
Proof.
  intros Hl Hw [Hp Hk]. destruct e as [i m|t|cm| | | | | | | ] eqn:Ee; try discriminate.
  - destruct (step_msg P T i m) as [_ S]. rewrite S. clear S.
    set (rel := snd (rel_time (t_base T) (p_time m))). set (s := t_sess T) in *.
    pose proof (log_message_own P s i rel m) as Own. unfold abs_of, astep in Own. rewrite Hp in Own. cbn [negb] in Own.
    assert (Hc : exists c, (if known s i then the_conn s i
                            else Some (fresh_conn i (conn_name (s_next s)) (is_get_registry m))) = Some c).
    { destruct (known s i) eqn:Ek; [|eexists; reflexivity].
      specialize (Hk i Ek). destruct (the_conn s i) as [c|]; [eexists; reflexivity|contradiction]. }
    destruct Hc as (c & Hc). rewrite Hc in Own.
    rewrite (wf_msg_not_fatal (c_db c) rel m Hw) in Own. cbn [negb] in Own.
    assert (O1 : s_parse (fst (log_message P s i rel m)) = true) by congruence.
    assert (O3 : the_conn (fst (log_message P s i rel m)) i = Some (conn_step P c rel m)) by congruence.
    split; [exact O1|]. intros id Hid.
    destruct (str_eqb i id) eqn:Eid.
    + apply str_eqb_eq in Eid. subst id. rewrite O3. discriminate.
    + apply str_eqb_neq in Eid. destruct (log_message_other P s id i rel m Eid) as [H1 H2]. cbn zeta in H1, H2.
      rewrite H2. apply Hk. rewrite <- H1. exact Hid.
  - destruct (step_nonmsg P T (EText t) eq_refl) as [_ R]; [intros; discriminate|].
    split; [destruct (record_abs [] _ _ R) as (A1 & _); rewrite A1; exact Hp|].
    intros id Hid. destruct (record_abs id _ _ R) as (_ & A2 & A3). rewrite A3. apply Hk. rewrite <- A2. exact Hid.
  - destruct (step_nonmsg P T (ECmd cm) eq_refl) as [_ R]; [intros; discriminate|].
    split; [destruct (record_abs [] _ _ R) as (A1 & _); rewrite A1; exact Hp|].
    intros id Hid. destruct (record_abs id _ _ R) as (_ & A2 & A3). rewrite A3. apply Hk. rewrite <- A2. exact Hid.
Qed.

Lemma healthy_run : forall evs T, forallb log_event evs = true -> forallb wf_event evs = true ->
  healthy (t_sess T) -> healthy (t_sess (fst (run P T evs))).
Proof.
  induction evs as [|e evs IH]; intros T Hl Hw H; [exact H|].
  cbn [forallb] in Hl, Hw. apply andb_true_iff in Hl, Hw. destruct Hl as [Hle Hl], Hw as [Hwe Hw].
  rewrite run_cons. apply IH; try assumption. apply healthy_step; assumption.
Qed.

(* well-shaped messages never switch decoding off *)
Theorem wf_run_parse_on : forall evs b d st c u g,
  forallb log_event evs = true -> forallb wf_event evs = true ->
  s_parse (t_sess (fst (run P (mkTop b (init_sess d st c u g)) evs))) = true.
Proof. intros. apply healthy_run; try assumption. apply healthy_init. Qed.

End Wf.

(* ---- the view is defined as soon as the identifier has a line ---------------------------------- *)
Section Defined.
Variable P : pdb.

Lemma known_step id T e : log_event e = true -> s_parse (t_sess T) = true ->
  known (t_sess T) id = true \/ ev_is id e = true ->
  known (t_sess (fst (step P T e))) id = true.
Proof.
  intros Hl Hp H. destruct (ev_is id e) eqn:Ee.
  - destruct e as [i m| | | | | | | | | ]; try discriminate.
    cbn [ev_is] in Ee. apply str_eqb_eq in Ee. subst i.
    destruct (step_msg P T id m) as [_ S]. rewrite S.
    pose proof (log_message_own P (t_sess T) id (snd (rel_time (t_base T) (p_time m))) m) as Own.
    unfold abs_of, astep in Own. rewrite Hp in Own. cbn [negb] in Own.
    destruct (if known (t_sess T) id then _ else _) in Own; congruence.
  - destruct H as [H|H]; [|discriminate].
    destruct (step_foreign P id T e Hl Ee) as (Hk & _). cbn zeta in Hk. rewrite Hk. exact H.
Qed.

Lemma known_run id : forall evs T, forallb log_event evs = true -> forallb wf_event evs = true ->
  healthy (t_sess T) ->
  known (t_sess T) id = true \/ existsb (ev_is id) evs = true ->
  known (t_sess (fst (run P T evs))) id = true.
Proof.
  induction evs as [|e evs IH]; intros T Hl Hw Hh H.
  - destruct H as [H|H]; [exact H|discriminate].
  - cbn [forallb] in Hl, Hw. apply andb_true_iff in Hl, Hw. destruct Hl as [Hle Hl], Hw as [Hwe Hw].
    rewrite run_cons. apply IH; try assumption.
    + apply healthy_step; assumption.
    + cbn [existsb] in H. destruct H as [H|H].
      * left. apply known_step; [assumption|apply Hh|left; exact H].
      * apply orb_true_iff in H. destruct H as [H|H]; [|right; exact H].
        left. apply known_step; [assumption|apply Hh|right; exact H].
Qed.

(* with well-shaped messages, every identifier that has a line has a view (so the equalities
   above are not None = None) *)
Theorem view_defined : forall evs b d st c u g id,
  forallb log_event evs = true -> forallb wf_event evs = true ->
  existsb (ev_is id) evs = true ->
  view_of id (fst (run P (mkTop b (init_sess d st c u g)) evs)) <> None.
Proof.
  intros evs b d st c u g id Hl Hw He.
  pose proof (healthy_run P evs (mkTop b (init_sess d st c u g)) Hl Hw (healthy_init d st c u g)) as [_ Hk].
  pose proof (known_run id evs (mkTop b (init_sess d st c u g)) Hl Hw (healthy_init d st c u g) (or_intror He)) as K.
  specialize (Hk id K). unfold view_of. destruct (the_conn _ id); [discriminate|contradiction].
Qed.

End Defined.

(* ---- headline statements ------------------------------------------------------------------------ *)
Section Headline.
Variable P : pdb.

(* the state the tool starts in (matchers, colour, show-unprocessed, in-gdb arbitrary) *)
Definition top0 (d st : mt) (c u g : bool) : top := mkTop None (init_sess d st c u g).

(* MERGED = SOLO.  Each run takes its own first message as time origin; the view is compared with
   the time stamps blanked ([untimed]); everything else — role, open flag, title, app id, the whole
   object table (ids, incarnation numbers, types, alive flags, which incarnations were destroyed),
   every recorded message with resolved target, resolved arguments and destroyed object — is
   equal.  The connection name is not part of the view. *)
Theorem merged_is_solo : forall d st c u g evs id,
  forallb log_event evs = true ->
  foreign_abort P id (top0 d st c u g) evs = false ->
  option_map untimed (view_of id (fst (run P (top0 d st c u g) evs))) =
  option_map untimed (view_of id (fst (run P (top0 d st c u g) (only id evs)))).
Proof. intros. apply merged_is_solo_any_origin; assumption. Qed.

(* the same with the side condition read off the final state of the merged run *)
Corollary merged_is_solo_parse_on : forall d st c u g evs id,
  forallb log_event evs = true ->
  s_parse (t_sess (fst (run P (top0 d st c u g) evs))) = true ->
  option_map untimed (view_of id (fst (run P (top0 d st c u g) evs))) =
  option_map untimed (view_of id (fst (run P (top0 d st c u g) (only id evs)))).
Proof. intros. apply merged_is_solo. - assumption. - apply parse_on_no_foreign_abort; assumption. Qed.

(* ... and with the side condition replaced by the shape condition on the messages *)
Corollary merged_is_solo_wf : forall d st c u g evs id,
  forallb log_event evs = true -> forallb wf_event evs = true ->
  option_map untimed (view_of id (fst (run P (top0 d st c u g) evs))) =
  option_map untimed (view_of id (fst (run P (top0 d st c u g) (only id evs)))).
Proof. intros. apply merged_is_solo_parse_on; [assumption|]. apply wf_run_parse_on; assumption. Qed.

(* the time stamps too, when the solo log is read with the merged log's time origin *)
Corollary merged_is_solo_timed : forall d st c u g evs id t0,
  forallb log_event evs = true -> first_time evs = Some t0 ->
  foreign_abort P id (top0 d st c u g) evs = false ->
  view_of id (fst (run P (top0 d st c u g) evs)) =
  view_of id (fst (run P (mkTop (Some t0) (init_sess d st c u g)) (only id evs))).
Proof. intros. apply merged_is_solo_same_origin; assumption. Qed.

(* INTERLEAVING IS IRRELEVANT: two logs in which [id] has the same lines in the same order —
   whatever else they contain, however it is interleaved — record the same for [id] *)
Theorem interleaving_irrelevant : forall d st c u g evs1 evs2 id,
  forallb log_event evs1 = true -> forallb log_event evs2 = true ->
  only id evs1 = only id evs2 ->
  foreign_abort P id (top0 d st c u g) evs1 = false ->
  foreign_abort P id (top0 d st c u g) evs2 = false ->
  option_map untimed (view_of id (fst (run P (top0 d st c u g) evs1))) =
  option_map untimed (view_of id (fst (run P (top0 d st c u g) evs2))).
Proof.
  intros d st c u g evs1 evs2 id L1 L2 E F1 F2.
  rewrite (merged_is_solo d st c u g evs1 id L1 F1), (merged_is_solo d st c u g evs2 id L2 F2), E.
  reflexivity.
Qed.

(* ... time stamps included when the two logs start at the same time *)
Theorem interleaving_irrelevant_timed : forall d st c u g evs1 evs2 id t0,
  forallb log_event evs1 = true -> forallb log_event evs2 = true ->
  only id evs1 = only id evs2 ->
  first_time evs1 = Some t0 -> first_time evs2 = Some t0 ->
  foreign_abort P id (top0 d st c u g) evs1 = false ->
  foreign_abort P id (top0 d st c u g) evs2 = false ->
  view_of id (fst (run P (top0 d st c u g) evs1)) = view_of id (fst (run P (top0 d st c u g) evs2)).
Proof.
  intros d st c u g evs1 evs2 id t0 L1 L2 E T1 T2 F1 F2.
  rewrite (merged_is_solo_timed d st c u g evs1 id t0 L1 T1 F1),
          (merged_is_solo_timed d st c u g evs2 id t0 L2 T2 F2), E.
  reflexivity.
Qed.

Corollary interleaving_irrelevant_wf : forall d st c u g evs1 evs2 id,
  forallb log_event evs1 = true -> forallb log_event evs2 = true ->
  forallb wf_event evs1 = true -> forallb wf_event evs2 = true ->
  only id evs1 = only id evs2 ->
  option_map untimed (view_of id (fst (run P (top0 d st c u g) evs1))) =
  option_map untimed (view_of id (fst (run P (top0 d st c u g) evs2))).
Proof.
  intros. apply interleaving_irrelevant; try assumption;
    apply parse_on_no_foreign_abort; try assumption; apply wf_run_parse_on; assumption.
Qed.

End Headline.

Print Assumptions merged_is_solo.
Print Assumptions view_defined.
Print Assumptions merged_is_solo_from.
Print Assumptions merged_is_solo_timed.
Print Assumptions merged_is_solo_wf.
Print Assumptions interleaving_irrelevant.
Print Assumptions interleaving_irrelevant_timed.
Print Assumptions interleaving_irrelevant_wf.

(* ---- examples (empty protocol database; message events only, so vm_compute is instant) --------- *)
Module Examples.
Definition m_gr (t : Z) : pmsg :=
  mkPmsg t (Some (s2l "wl_display")) 1 true (s2l "get_registry") [PObj 2 (Some (s2l "wl_registry")) true].
Definition m_bind (t : Z) (iface : string) : pmsg :=
  mkPmsg t (Some (s2l "wl_registry")) 2 true (s2l "bind") [PInt 1; PStr (s2l iface); PInt 1; PObj 3 None true].
Definition m_del (t : Z) (v : Z) : pmsg :=
  mkPmsg t (Some (s2l "wl_display")) 1 false (s2l "delete_id") [PInt v].
(* wl_display.delete_id with a string argument: the assertion in Message.resolve fails *)
Definition m_bad (t : Z) : pmsg :=
  mkPmsg t (Some (s2l "wl_display")) 1 false (s2l "delete_id") [PStr (s2l "oops")].
Definition x := s2l "x".
Definition y := s2l "y".
Definition T0 := top0 (MAlways true) (MAlways false) false true false.

(* two connections using the SAME object ids 1, 2, 3 for different things, interleaved, with a text
   line in between; y re-uses id 3 (two incarnations) *)
Definition merged : list event :=
  [EMsg x (m_gr 100); EMsg y (m_gr 105); EText (s2l "noise"); EMsg x (m_bind 110 "wl_compositor");
   EMsg y (m_bind 120 "wl_shm"); EMsg y (m_del 130 3); EMsg y (m_bind 140 "wl_seat"); EMsg x (m_del 150 2)].
(* another interleaving with the same per-connection histories *)
Definition merged' : list event :=
  [EMsg x (m_gr 100); EMsg x (m_bind 110 "wl_compositor"); EMsg x (m_del 150 2);
   EMsg y (m_gr 105); EMsg y (m_bind 120 "wl_shm"); EMsg y (m_del 130 3); EMsg y (m_bind 140 "wl_seat")].

(* per object id: incarnation number, type, alive *)
Definition objects (T : top) (id : str) :=
  option_map (fun c => (List.length (c_msgs c),
                        map (fun p => (fst p, map (fun o => (o_gen o, o_type o, o_alive o)) (snd p))) (c_db c)))
             (the_conn (t_sess T) id).

Example ex_hypotheses :
  forallb log_event merged = true /\ forallb wf_event merged = true /\
  foreign_abort [] x T0 merged = false /\ foreign_abort [] y T0 merged = false /\
  only y merged = only y merged' /\ only x merged = only x merged'.
Proof. vm_compute. repeat split. Qed.

(* non-vacuity: both connections exist, same ids, different contents *)
Example ex_objects :
  objects (fst (run [] T0 merged)) x =
    Some (3%nat, [(1, [(0%N, Some (s2l "wl_display"), true)]);
                  (2, [(0%N, Some (s2l "wl_registry"), false)]);
                  (3, [(0%N, Some (s2l "wl_compositor"), true)])]) /\
  objects (fst (run [] T0 merged)) y =
    Some (4%nat, [(1, [(0%N, Some (s2l "wl_display"), true)]);
                  (2, [(0%N, Some (s2l "wl_registry"), true)]);
                  (3, [(0%N, Some (s2l "wl_shm"), false); (1%N, Some (s2l "wl_seat"), true)])]).
Proof. vm_compute. split; reflexivity. Qed.

(* the theorems on this instance, checked by computation *)
Example ex_merged_is_solo :
  option_map untimed (view_of y (fst (run [] T0 merged))) =
  option_map untimed (view_of y (fst (run [] T0 (only y merged)))) /\
  view_of y (fst (run [] T0 merged)) =
  view_of y (fst (run [] (mkTop (Some 100) (t_sess T0)) (only y merged))) /\
  view_of y (fst (run [] T0 merged)) = view_of y (fst (run [] T0 merged')) /\
  view_of y (fst (run [] T0 merged)) <> None.
Proof. vm_compute. repeat (split; [reflexivity|]). intros H; discriminate H. Qed.

(* the two excluded components really depend on the other connection: y is called B in the merged
   log and A on its own, and its time stamps are relative to x's first line in the merged log *)
Example ex_name_depends :
  option_map c_name (the_conn (t_sess (fst (run [] T0 merged))) y) = Some (s2l "B") /\
  option_map c_name (the_conn (t_sess (fst (run [] T0 (only y merged)))) y) = Some (s2l "A").
Proof. vm_compute. split; reflexivity. Qed.

Example ex_times_depend :
  option_map (fun c => map m_time (c_msgs c)) (the_conn (t_sess (fst (run [] T0 merged))) y) = Some [5; 20; 30; 40] /\
  option_map (fun c => map m_time (c_msgs c)) (the_conn (t_sess (fst (run [] T0 (only y merged)))) y) = Some [0; 15; 25; 35].
Proof. vm_compute. split; reflexivity. Qed.

(* THE CORNER (known, documented): a malformed line of y switches decoding off for the whole
   session; x's later lines are dropped in the merged log but not in x's own log.  So the
   hypothesis [foreign_abort ... = false] cannot be dropped; [wf_msg] rejects the line. *)
Definition aborted : list event :=
  [EMsg x (m_gr 0); EMsg y (m_bad 5); EMsg x (m_bind 10 "wl_compositor")].

Example corner_abort :
  foreign_abort [] x T0 aborted = true /\
  s_parse (t_sess (fst (run [] T0 aborted))) = false /\
  wf_msg (m_bad 5) = false /\
  objects (fst (run [] T0 aborted)) x =
    Some (1%nat, [(1, [(0%N, Some (s2l "wl_display"), true)]); (2, [(0%N, Some (s2l "wl_registry"), true)])]) /\
  objects (fst (run [] T0 (only x aborted))) x =
    Some (2%nat, [(1, [(0%N, Some (s2l "wl_display"), true)]); (2, [(0%N, Some (s2l "wl_registry"), true)]);
                  (3, [(0%N, Some (s2l "wl_compositor"), true)])]) /\
  option_map untimed (view_of x (fst (run [] T0 aborted))) <>
  option_map untimed (view_of x (fst (run [] T0 (only x aborted)))).
Proof. vm_compute. repeat (split; [reflexivity|]). intros H; discriminate H. Qed.

(* when the malformed line is the connection's own, nothing is lost: the sharper hypothesis
   [foreign_abort] (rather than "decoding still on at the end") covers this case *)
Example own_abort_is_fine :
  foreign_abort [] y T0 aborted = false /\
  s_parse (t_sess (fst (run [] T0 aborted))) = false /\
  option_map untimed (view_of y (fst (run [] T0 aborted))) =
  option_map untimed (view_of y (fst (run [] T0 (only y aborted)))) /\
  view_of y (fst (run [] T0 aborted)) <> None.
Proof. vm_compute. repeat (split; [reflexivity|]). intros H; discriminate H. Qed.
End Examples.
