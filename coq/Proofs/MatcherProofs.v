(* Proofs about matcher evaluation, simplification and join (C05, C12). *)
From WD Require Import Base Wire Conn Color Matcher.
From Coq Require Import Lia.
Open Scope Z_scope.

Lemma is_always_spec b m : is_always b m = true <-> m = MAlways b.
Proof.
  destruct m; cbn; try (split; intros; discriminate).
  destruct b, b0; cbn; split; intros H; try reflexivity; try discriminate; try (injection H; discriminate).
Qed.

Lemma always_matches m b v : always m = Some b -> matches m v = b.
Proof. destruct m; cbn; intros H; try discriminate. injection H as ->. reflexivity. Qed.

Lemma existsb_map {A B} (f : B -> bool) (g : A -> B) l : existsb f (map g l) = existsb (fun x => f (g x)) l.
Proof. induction l as [|x l IH]; [reflexivity|]. cbn. rewrite IH. reflexivity. Qed.

Lemma existsb_filter_irrelevant {A} (f keep : A -> bool) l :
  (forall x, In x l -> keep x = false -> f x = false) ->
  existsb f (filter keep l) = existsb f l.
Proof.
  induction l as [|x l IH]; intros H; [reflexivity|]. cbn [filter existsb].
  assert (IH' : existsb f (filter keep l) = existsb f l) by (apply IH; intros; apply H; [right|]; assumption).
  destruct (keep x) eqn:E; cbn [existsb]; rewrite IH'; [reflexivity|].
  rewrite (H x (or_introl eq_refl) E). reflexivity.
Qed.

Lemma last_such_some {A} (f : A -> bool) l x : last_such f l = Some x -> In x l /\ f x = true.
Proof.
  unfold last_such.
  assert (G : forall acc, fold_left (fun a y => if f y then Some y else a) l acc = Some x ->
                          (In x l /\ f x = true) \/ acc = Some x).
  { induction l as [|y l IH]; intros acc H; cbn in H; [right; exact H|].
    destruct (IH _ H) as [[Hin Hf]|Hacc].
    - left. split; [right; exact Hin|exact Hf].
    - destruct (f y) eqn:E; [injection Hacc as <-; left; split; [left; reflexivity|exact E]|right; exact Hacc]. }
  intros H. destruct (G None H) as [R|R]; [exact R|discriminate].
Qed.

Lemma last_such_none {A} (f : A -> bool) l : last_such f l = None -> existsb f l = false.
Proof.
  unfold last_such.
  assert (G : forall acc, fold_left (fun a y => if f y then Some y else a) l acc = None ->
                          existsb f l = false /\ acc = None).
  { induction l as [|y l IH]; intros acc H; cbn in H; [split; [reflexivity|exact H]|].
    destruct (IH _ H) as [He Hacc]. cbn [existsb]. rewrite He.
    destruct (f y) eqn:E; [discriminate|]. split; [reflexivity|exact Hacc]. }
  intros H. apply (G None H).
Qed.

(* ---- MatcherList.simplify keeps the meaning of the list, given the children's simplified meaning *)
Theorem simplify_list_sem pos neg v :
  matches (simplify (MList pos neg)) v =
  existsb (fun p => matches (simplify p) v) pos && negb (existsb (fun n => matches (simplify n) v) neg).
Proof.
  cbn [simplify]. destruct pos as [|p0 pos0]; [reflexivity|].
  set (pos := p0 :: pos0).
  set (pos1 := map simplify pos). set (neg1 := map simplify neg).
  assert (EP : existsb (fun p => matches (simplify p) v) pos = existsb (fun p => matches p v) pos1)
    by (unfold pos1; rewrite existsb_map; reflexivity).
  assert (EN : existsb (fun n => matches (simplify n) v) neg = existsb (fun n => matches n v) neg1)
    by (unfold neg1; rewrite existsb_map; reflexivity).
  rewrite EP, EN. clearbody pos1 neg1. clear EP EN.
  destruct (existsb (is_always true) neg1) eqn:ENT.
  - (* an exclusion that always matches: nothing is selected *)
    cbn [matches]. apply existsb_exists in ENT. destruct ENT as (n & Hin & Hn).
    apply is_always_spec in Hn. subst n.
    assert (existsb (fun n => matches n v) neg1 = true) by (apply existsb_exists; exists (MAlways true); split; [exact Hin|reflexivity]).
    rewrite H. cbn. symmetry. apply andb_false_r.
  - set (pos2 := match last_such (is_always true) pos1 with Some p => [p] | None => pos1 end).
    assert (EP2 : existsb (fun p => matches p v) pos2 = existsb (fun p => matches p v) pos1).
    { unfold pos2. destruct (last_such (is_always true) pos1) as [p|] eqn:EL; [|reflexivity].
      apply last_such_some in EL. destruct EL as [Hin Hp]. apply is_always_spec in Hp. subst p.
      cbn. symmetry. apply existsb_exists. exists (MAlways true). split; [exact Hin|reflexivity]. }
    set (keep := fun p => negb (is_always false p)).
    assert (EK : forall l, existsb (fun p => matches p v) (filter keep l) = existsb (fun p => matches p v) l).
    { intros l. apply existsb_filter_irrelevant. intros x _ Hk. unfold keep in Hk.
      apply negb_false_iff in Hk. apply is_always_spec in Hk. subst x. reflexivity. }
    rewrite <- EP2, <- (EK pos2), <- (EK neg1).
    destruct (filter keep pos2) as [|q [|q2 qs]] eqn:EF.
    + reflexivity.
    + destruct (filter keep neg1) as [|r rs] eqn:EFN.
      * cbn. rewrite orb_false_r, andb_true_r. reflexivity.
      * cbn [matches]. reflexivity.
    + cbn [matches]. reflexivity.
Qed.

(* ---- PairMatcher.simplify keeps the meaning *)
Theorem simplify_pair_sem a d b x y :
  matches (simplify (MPair a d b)) (VP x y) = matches (simplify a) x && matches (simplify b) y.
Proof.
  cbn [simplify].
  destruct (always (simplify a)) as [ba|] eqn:EA; destruct (always (simplify b)) as [bb|] eqn:EB;
    try reflexivity.
  rewrite (always_matches _ _ x EA), (always_matches _ _ y EB).
  destruct (Bool.eqb ba bb) eqn:E.
  - apply eqb_prop in E. subst. cbn. destruct bb; reflexivity.
  - cbn [matches]. rewrite (always_matches _ _ x EA), (always_matches _ _ y EB). reflexivity.
Qed.

(* ---- WrapMatcher.simplify: constant folding, otherwise the wrapper over the simplified child *)
Theorem simplify_wrap_sem k w v :
  matches (simplify (MWrap k w)) v =
  match always (simplify w) with
  | Some b => b
  | None => matches (MWrap k (simplify w)) v
  end.
Proof. cbn [simplify]. destruct (always (simplify w)); reflexivity. Qed.

(* ---- `*` selects everything and `!` nothing, before and after simplification *)
Theorem star_all v : matches (simplify (MAlways true)) v = true.
Proof. reflexivity. Qed.
Theorem bang_none v : matches (simplify (MAlways false)) v = false.
Proof. reflexivity. Qed.

(* ---- join: accumulate alternatives and exclusions (C12) ------------------------------------------- *)
Definition sel (alts excls : list mt) (v : val) : bool :=
  existsb (fun p => matches (simplify p) v) alts && negb (existsb (fun n => matches (simplify n) v) excls).

Lemma existsb_app' {A} (f : A -> bool) a b : existsb f (a ++ b) = existsb f a || existsb f b.
Proof. apply existsb_app. Qed.

(* what the command path computes: join(new, old).simplify(), when neither side is a constant *)
Theorem join_accumulates new old v :
  always old = None -> always new = None ->
  let '(op, on) := as_list old in
  let '(np, nn) := as_list new in
  matches (simplify (join new old)) v =
  (* alternatives of both, minus always-true ones which are replaced by a single `*` if nothing
     else is left; exclusions of both *)
  let pos := filter (fun p => negb (is_always true p)) (np ++ op) in
  sel (match pos with [] => [MAlways true] | _ => pos end) (nn ++ on) v.
Proof.
  intros Ho Hn.
  destruct (as_list old) as [op on] eqn:EO. destruct (as_list new) as [np nn] eqn:EN.
  unfold join. destruct old; try discriminate; destruct new; try discriminate;
  rewrite EO, EN; rewrite simplify_list_sem; cbv zeta; unfold sel;
  destruct (filter (fun p => negb (is_always true p)) (np ++ op)); reflexivity.
Qed.

(* a constant on either side: the new matcher replaces the old one *)
Theorem join_replaces new old :
  (exists b, old = MAlways b) \/ (exists b, new = MAlways b) -> join new old = new.
Proof.
  intros [[b ->]|[b ->]]; [reflexivity|]. destruct old; reflexivity.
Qed.

(* ---- induction principle for the nested inductive ------------------------------------------------ *)
Section MtInd.
Variable Q : mt -> Prop.
Hypothesis Halways : forall b, Q (MAlways b).
Hypothesis Hwild : forall p, Q (MWild p).
Hypothesis Heqs : forall s, Q (MEqS s).
Hypothesis Heqz : forall z t, Q (MEqZ z t).
Hypothesis Heqf : forall d, Q (MEqF d).
Hypothesis Hpair : forall a d b, Q a -> Q b -> Q (MPair a d b).
Hypothesis Hlist : forall pos neg, Forall Q pos -> Forall Q neg -> Q (MList pos neg).
Hypothesis Hargs : forall pos neg, Forall Q pos -> Forall Q neg -> Q (MArgsList pos neg).
Hypothesis Hwrap : forall k w, Q w -> Q (MWrap k w).
Hypothesis Hpat : forall c o n a mn md, Q c -> Q o -> Q n -> Q a -> Q (MPattern c o n a mn md).

Fixpoint mt_ind' (m : mt) : Q m :=
  match m with
  | MAlways b => Halways b
  | MWild p => Hwild p
  | MEqS s => Heqs s
  | MEqZ z t => Heqz z t
  | MEqF d => Heqf d
  | MPair a d b => Hpair a d b (mt_ind' a) (mt_ind' b)
  | MList pos neg =>
      Hlist pos neg
        ((fix go (l : list mt) : Forall Q l :=
            match l with [] => Forall_nil Q | x :: l' => Forall_cons x (mt_ind' x) (go l') end) pos)
        ((fix go (l : list mt) : Forall Q l :=
            match l with [] => Forall_nil Q | x :: l' => Forall_cons x (mt_ind' x) (go l') end) neg)
  | MArgsList pos neg =>
      Hargs pos neg
        ((fix go (l : list mt) : Forall Q l :=
            match l with [] => Forall_nil Q | x :: l' => Forall_cons x (mt_ind' x) (go l') end) pos)
        ((fix go (l : list mt) : Forall Q l :=
            match l with [] => Forall_nil Q | x :: l' => Forall_cons x (mt_ind' x) (go l') end) neg)
  | MWrap k w => Hwrap k w (mt_ind' w)
  | MPattern c o n a mn md => Hpat c o n a mn md (mt_ind' c) (mt_ind' o) (mt_ind' n) (mt_ind' a)
  end.
End MtInd.

(* ---- simplify is idempotent: the matcher the user gets is stable ------------------------------------ *)
Definition Simp (m : mt) : Prop := simplify m = m.

Lemma map_simplify_fixed l : Forall Simp l -> map simplify l = l.
Proof. induction 1 as [|x l Hx _ IH]; [reflexivity|]. cbn. rewrite Hx, IH. reflexivity. Qed.

Lemma Forall_filter {A} (Pr : A -> Prop) f l : Forall Pr l -> Forall Pr (filter f l).
Proof. induction 1 as [|x l Hx _ IH]; cbn; [constructor|]. destruct (f x); [constructor; assumption|assumption]. Qed.

Lemma filter_idem {A} (f : A -> bool) l : filter f (filter f l) = filter f l.
Proof.
  induction l as [|x l IH]; [reflexivity|]. cbn. destruct (f x) eqn:E; cbn; [rewrite E, IH|]; [reflexivity|exact IH].
Qed.

Lemma existsb_filter_sub {A} (f g : A -> bool) l : existsb f l = false -> existsb f (filter g l) = false.
Proof.
  induction l as [|x l IH]; [reflexivity|]. cbn. intros H. apply orb_false_iff in H. destruct H as [Hx Hl].
  destruct (g x); cbn; [rewrite Hx|]; apply IH; exact Hl.
Qed.

Lemma last_such_none' {A} (f : A -> bool) l : existsb f l = false -> last_such f l = None.
Proof.
  unfold last_such. intros H.
  assert (G : forall acc, fold_left (fun a y => if f y then Some y else a) l acc = acc).
  { induction l as [|y l IH]; intros acc; [reflexivity|]. cbn in *. apply orb_false_iff in H. destruct H as [Hy Hl].
    rewrite Hy. apply IH. exact Hl. }
  apply G.
Qed.

Lemma simp_list_fixed pos neg :
  Forall Simp pos -> Forall Simp neg ->
  Simp (simplify (MList pos neg)).
Proof.
  intros HP HN. unfold Simp. cbn [simplify].
  destruct pos as [|p0 pos0]; [reflexivity|].
  set (pos := p0 :: pos0) in *.
  rewrite (map_simplify_fixed pos HP), (map_simplify_fixed neg HN).
  destruct (existsb (is_always true) neg) eqn:ENT; [reflexivity|].
  set (keep := fun p => negb (is_always false p)).
  set (pos2 := match last_such (is_always true) pos with Some p => [p] | None => pos end).
  assert (HP2 : Forall Simp pos2).
  { unfold pos2. destruct (last_such (is_always true) pos) as [p|] eqn:EL; [|exact HP].
    apply last_such_some in EL. destruct EL as [_ Hp]. apply is_always_spec in Hp. subst. constructor; [reflexivity|constructor]. }
  assert (HP3 : Forall Simp (filter keep pos2)) by (apply Forall_filter; exact HP2).
  assert (HN3 : Forall Simp (filter keep neg)) by (apply Forall_filter; exact HN).
  destruct (filter keep pos2) as [|q [|q2 qs]] eqn:EF.
  - reflexivity.
  - destruct (filter keep neg) as [|r rs] eqn:EFN.
    + inversion HP3; assumption.
    + (* MList [q] (r :: rs) *)
      cbn [simplify]. rewrite (map_simplify_fixed _ HP3), (map_simplify_fixed _ HN3).
      assert (E1 : existsb (is_always true) (r :: rs) = false).
      { rewrite <- EFN. apply existsb_filter_sub. exact ENT. }
      rewrite E1.
      assert (Ekq : keep q = true).
      { assert (In q (filter keep pos2)) by (rewrite EF; left; reflexivity). apply filter_In in H. apply H. }
      assert (Ek : filter keep [q] = [q]) by (cbn; rewrite Ekq; reflexivity).
      assert (Ekn : filter keep (r :: rs) = r :: rs) by (rewrite <- EFN; apply filter_idem).
      destruct (is_always true q) eqn:Eq.
      * cbn [last_such fold_left]. rewrite Eq. fold keep. rewrite Ek, Ekn. reflexivity.
      * cbn [last_such fold_left]. rewrite Eq. fold keep. rewrite Ek, Ekn. reflexivity.
  - (* at least two alternatives: no always-true among them *)
    cbn [simplify]. rewrite (map_simplify_fixed _ HP3), (map_simplify_fixed _ HN3).
    assert (E1 : existsb (is_always true) (filter keep neg) = false) by (apply existsb_filter_sub; exact ENT).
    rewrite E1.
    assert (Enone : last_such (is_always true) pos = None).
    { destruct (last_such (is_always true) pos) as [p|] eqn:EL; [|reflexivity].
      exfalso. unfold pos2 in EF. cbn in EF. destruct (keep p); discriminate. }
    assert (E2 : last_such (is_always true) (q :: q2 :: qs) = None).
    { apply last_such_none'. rewrite <- EF. apply existsb_filter_sub.
      unfold pos2. rewrite Enone. apply last_such_none. exact Enone. }
    rewrite E2. fold keep.
    assert (Ek : filter keep (q :: q2 :: qs) = q :: q2 :: qs) by (rewrite <- EF; apply filter_idem).
    rewrite Ek, filter_idem. reflexivity.
Qed.

Lemma Forall_map_simp l : Forall (fun x => Simp (simplify x)) l -> Forall Simp (map simplify l).
Proof. induction 1; cbn; constructor; assumption. Qed.

Definition list_body (pos1 neg1 : list mt) : mt :=
  if existsb (is_always true) neg1 then MAlways false else
  let pos2 := match last_such (is_always true) pos1 with Some p => [p] | None => pos1 end in
  let pos3 := filter (fun p => negb (is_always false p)) pos2 in
  let neg3 := filter (fun p => negb (is_always false p)) neg1 in
  match pos3, neg3 with
  | [], _ => MAlways false
  | [p], [] => p
  | _, _ => MList pos3 neg3
  end.

Lemma simplify_list_eq pos neg :
  simplify (MList pos neg) =
  match pos with [] => MAlways false | _ => list_body (map simplify pos) (map simplify neg) end.
Proof. destruct pos; reflexivity. Qed.

Lemma simplify_list_via_map pos neg :
  Forall Simp (map simplify pos) -> Forall Simp (map simplify neg) ->
  simplify (MList pos neg) = simplify (MList (map simplify pos) (map simplify neg)).
Proof.
  intros HP HN. rewrite !simplify_list_eq.
  rewrite (map_simplify_fixed _ HP), (map_simplify_fixed _ HN).
  destruct pos; reflexivity.
Qed.

Lemma simp_args_fixed pos neg :
  Forall Simp pos -> Forall Simp neg -> Simp (simplify (MArgsList pos neg)).
Proof.
  intros HP HN. unfold Simp. cbn [simplify].
  rewrite (map_simplify_fixed pos HP), (map_simplify_fixed neg HN).
  destruct (existsb (is_always true) neg) eqn:E1; [reflexivity|].
  destruct (existsb (is_always false) pos) eqn:E2; [reflexivity|].
  set (keep := fun p => negb (is_always false p)).
  destruct (forallb (is_always true) pos && match filter keep neg with [] => true | _ => false end) eqn:E3; [reflexivity|].
  cbn [simplify].
  assert (HN3 : Forall Simp (filter keep neg)) by (apply Forall_filter; exact HN).
  rewrite (map_simplify_fixed pos HP), (map_simplify_fixed _ HN3).
  rewrite (existsb_filter_sub _ _ _ E1), E2. fold keep. rewrite filter_idem, E3. reflexivity.
Qed.

Theorem simplify_idempotent : forall m, simplify (simplify m) = simplify m.
Proof.
  apply (mt_ind' (fun m => Simp (simplify m))); unfold Simp; try reflexivity.
  - (* pair *)
    intros a d b Ha Hb. cbn [simplify].
    destruct (always (simplify a)) as [x|] eqn:EA; destruct (always (simplify b)) as [y|] eqn:EB.
    + destruct (Bool.eqb x y) eqn:E; [reflexivity|]. cbn [simplify]. rewrite Ha, Hb, EA, EB, E. reflexivity.
    + cbn [simplify]. rewrite Ha, Hb, ?EA, ?EB. reflexivity.
    + cbn [simplify]. rewrite Ha, Hb, ?EA, ?EB. reflexivity.
    + cbn [simplify]. rewrite Ha, Hb, ?EA, ?EB. reflexivity.
  - (* list *)
    intros pos neg HP HN. apply Forall_map_simp in HP, HN.
    rewrite (simplify_list_via_map _ _ HP HN). apply simp_list_fixed; assumption.
  - (* args list *)
    intros pos neg HP HN. apply Forall_map_simp in HP, HN.
    assert (E : simplify (MArgsList pos neg) = simplify (MArgsList (map simplify pos) (map simplify neg))).
    { cbn [simplify]. rewrite (map_simplify_fixed _ HP), (map_simplify_fixed _ HN). reflexivity. }
    rewrite E. apply simp_args_fixed; assumption.
  - (* wrap *)
    intros k w Hw. cbn [simplify]. destruct (always (simplify w)) as [b|] eqn:E; [reflexivity|].
    cbn [simplify]. rewrite Hw, E. reflexivity.
  - (* pattern *)
    intros c o n a mn md Hc Ho Hn Ha. cbn [simplify].
    destruct (is_always false (simplify c) || is_always false (simplify o) || is_always false (simplify n) || is_always false (simplify a)) eqn:E1; [reflexivity|].
    destruct (is_always true (simplify c) && is_always true (simplify o) && is_always true (simplify n) && is_always true (simplify a)) eqn:E2; [reflexivity|].
    cbn [simplify]. rewrite Hc, Ho, Hn, Ha, E1, E2. reflexivity.
Qed.
