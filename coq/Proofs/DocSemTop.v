(* DocSemTop.v — T2: the simplified elaborated matcher selects exactly what the documentation says
   (argument lists, patterns, top level), under a side condition that excludes the two corners in
   which MatcherArgsList.simplify is not meaning preserving. *)
From WD Require Import Base Wire Conn Color LetterId Matcher MatcherParse Doc.
From WD Require Import MatcherProofs DocSemLevels.
Open Scope Z_scope.

(* the side condition (triv_true ... side_ok) is defined in Model/Doc.v so that the correspondence harness can evaluate it *)
Definition side_condition (e : dtop) (m : vmsg) : Prop := side_ok e m = true.

(* ---- MatcherArgsList.simplify ------------------------------------------------------------------------ *)
Definition args_sem (pos neg : list mt) (l : list varg) : bool :=
  forallb (fun p => existsb (fun a => matches (simplify p) (VA a)) l) pos
  && negb (existsb (fun n => existsb (fun a => matches (simplify n) (VA a)) l) neg).

Lemma existsb_true_in {A} (f : A -> bool) l x : In x l -> f x = true -> existsb f l = true.
Proof. intros Hin Hf. apply existsb_exists. exists x. split; assumption. Qed.

Lemma forallb_false_in {A} (f : A -> bool) l x : In x l -> f x = false -> forallb f l = false.
Proof.
  intros Hin Hf. destruct (forallb f l) eqn:E; [|reflexivity].
  rewrite (forallb_in _ _ _ E Hin) in Hf. discriminate.
Qed.

(* either the list is folded to `*` although it has items, or simplification keeps its meaning *)
Lemma simplify_argslist_cases pos neg :
  (existsb (fun n => is_always true (simplify n)) neg = true -> pos <> []) ->
  (simplify (MArgsList pos neg) = MAlways true /\ pos <> []
   /\ forallb (fun p => is_always true (simplify p)) pos = true
   /\ forallb (fun n => is_always false (simplify n)) neg = true)
  \/ (forall l, matches (simplify (MArgsList pos neg)) (VAs l) = args_sem pos neg l).
Proof.
  intros HA. cbn [simplify].
  rewrite (existsb_map (is_always true) simplify neg), (existsb_map (is_always false) simplify pos),
          (forallb_map (is_always true) simplify pos).
  destruct (existsb (fun n => is_always true (simplify n)) neg) eqn:E1.
  { (* a trivially-true exclusion next to a positive item: never *)
    right. intros l. cbn [matches]. unfold args_sem. symmetry.
    specialize (HA eq_refl). destruct l as [|a l].
    - destruct pos as [|p pos]; [contradiction|]. reflexivity.
    - apply existsb_exists in E1. destruct E1 as (n & Hin & Hn). apply is_always_spec in Hn.
      rewrite (existsb_true_in _ neg n Hin); [apply andb_false_r|]. rewrite Hn. reflexivity. }
  destruct (existsb (fun p => is_always false (simplify p)) pos) eqn:E2.
  { right. intros l. cbn [matches]. unfold args_sem. symmetry.
    apply existsb_exists in E2. destruct E2 as (p & Hin & Hp). apply is_always_spec in Hp.
    rewrite (forallb_false_in _ pos p Hin); [reflexivity|]. rewrite Hp.
    apply existsb_const_false. reflexivity. }
  set (keep := fun p : mt => negb (is_always false p)).
  assert (NEG : forall l, existsb (fun n => existsb (fun a => matches n (VA a)) l) (filter keep (map simplify neg))
                          = existsb (fun n => existsb (fun a => matches (simplify n) (VA a)) l) neg).
  { intros l. rewrite existsb_filter_irrelevant.
    - apply existsb_map.
    - intros x _ Hk. unfold keep in Hk. apply negb_false_iff in Hk. apply is_always_spec in Hk. subst x.
      apply existsb_const_false. reflexivity. }
  destruct (forallb (fun x => is_always true (simplify x)) pos) eqn:E3.
  - destruct (filter keep (map simplify neg)) as [|r rs] eqn:E4.
    + (* folded to `*` *)
      destruct pos as [|p pos].
      * right. intros l. cbn [andb matches]. unfold args_sem. rewrite <- NEG. reflexivity.
      * left. split; [reflexivity|]. split; [discriminate|]. split; [reflexivity|].
        apply forallb_forall. intros n Hn.
        destruct (is_always false (simplify n)) eqn:En; [reflexivity|]. exfalso.
        assert (Hin : In (simplify n) (filter keep (map simplify neg))).
        { apply filter_In. split; [apply in_map; exact Hn|]. unfold keep. rewrite En. reflexivity. }
        rewrite E4 in Hin. exact Hin.
    + right. intros l. cbn [andb matches]. unfold args_sem. rewrite <- NEG, forallb_map. reflexivity.
  - right. intros l. cbn [andb matches]. unfold args_sem. rewrite <- NEG, forallb_map. reflexivity.
Qed.

(* ---- argument lists -------------------------------------------------------------------------------- *)
Lemma wf_args_items pos neg : wf_args (AItems pos neg) = true ->
  (forall x, In x pos -> wf_item x = true) /\ (forall x, In x neg -> wf_item x = true).
Proof.
  intros H. cbn [wf_args] in H. apply wf_list_split in H. destruct H as (WP & WN & _). split; assumption.
Qed.

Lemma args_sem_den pos neg l : wf_args (AItems pos neg) = true ->
  args_sem (map elab_item pos) (map elab_item neg) l = den_args (AItems pos neg) l.
Proof.
  intros Hwf. apply wf_args_items in Hwf. destruct Hwf as [WP WN].
  unfold args_sem. cbn [den_args]. rewrite forallb_map, existsb_map. f_equal; [|f_equal].
  - apply forallb_ext_in. intros p Hp. apply existsb_ext_in. intros a _. apply item_sem. apply WP. exact Hp.
  - apply existsb_ext_in. intros n Hn. apply existsb_ext_in. intros a _. apply item_sem. apply WN. exact Hn.
Qed.

(* the flags of a pattern look at the unsimplified argument matcher on the empty argument list *)
Lemma args_raw_nil d : matches (elab_args d) (VAs []) = den_args d [].
Proof.
  destruct d as [| |pos neg]; try reflexivity.
  cbn [elab_args matches den_args]. rewrite forallb_map, existsb_map. reflexivity.
Qed.

Lemma star_folded_den d l : wf_args d = true -> star_folded d = true -> l <> [] -> den_args d l = true.
Proof.
  intros Hwf Hs Hl. destruct d as [| |pos neg]; try discriminate.
  cbn [star_folded] in Hs. apply andb_true_iff in Hs. destruct Hs as [Hs HN].
  apply andb_true_iff in Hs. destruct Hs as [_ HP].
  pose proof (wf_args_items _ _ Hwf) as [WP WN].
  destruct l as [|a l]; [contradiction|].
  cbn [den_args]. apply andb_true_iff. split.
  - apply forallb_forall. intros p Hp. cbn [existsb].
    rewrite <- (item_sem p (WP p Hp) a).
    pose proof (forallb_in _ _ _ HP Hp) as Ht. unfold triv_true in Ht. apply is_always_spec in Ht.
    rewrite Ht. reflexivity.
  - apply negb_true_iff. apply existsb_const_false. intros n Hn.
    apply existsb_const_false. intros b _. rewrite <- (item_sem n (WN n Hn) b).
    pose proof (forallb_in _ _ _ HN Hn) as Ht. unfold triv_false in Ht. apply is_always_spec in Ht.
    rewrite Ht. reflexivity.
Qed.

Lemma elab_args_cases d : wf_args d = true -> excl_ok d = true ->
  (star_folded d = true /\ simplify (elab_args d) = MAlways true)
  \/ (forall l, matches (simplify (elab_args d)) (VAs l) = den_args d l).
Proof.
  intros Hwf HA. destruct d as [| |pos neg].
  - right. reflexivity.
  - right. reflexivity.
  - cbn [elab_args].
    destruct (simplify_argslist_cases (map elab_item pos) (map elab_item neg)) as [(E & Hne & HP & HN)|R].
    + intros Ht. rewrite existsb_map in Ht. cbn [excl_ok] in HA. unfold triv_true in HA. rewrite Ht in HA.
      cbn in HA. destruct pos; [discriminate|]. discriminate.
    + left. split; [|exact E]. cbn [star_folded]. rewrite forallb_map in HP, HN.
      unfold triv_true, triv_false. rewrite HP, HN. destruct pos; [contradiction|reflexivity].
    + right. intros l. rewrite R. apply args_sem_den. exact Hwf.
Qed.

Theorem args_sem_doc d l : wf_args d = true -> args_ok d l = true ->
  matches (simplify (elab_args d)) (VAs l) = den_args d l.
Proof.
  intros Hwf Hok. unfold args_ok in Hok. apply andb_true_iff in Hok. destruct Hok as [HA HB].
  destruct (elab_args_cases d Hwf HA) as [[Hs E]|R]; [|apply R].
  rewrite E, Hs in *. cbn [negb] in HB. rewrite orb_false_r in HB.
  cbn [matches]. symmetry. apply star_folded_den; [exact Hwf|exact Hs|]. destruct l; [discriminate|discriminate].
Qed.

(* ---- patterns ---------------------------------------------------------------------------------------- *)
Definition pat_sem (fc fo fn fa : val -> bool) (mn md : bool) (m : vmsg) : bool :=
  fc (VC (vm_conn m))
  && ((mn && existsb (fun x => match va_val x with VAObj ob true => fo (VO ob) | _ => false end) (vm_args m))
      || (md && match vm_destroyed m with Some ob => fo (VO ob) | None => false end)
      || (fo (VO (vm_obj m)) && fn (VS (vm_name m)) && fa (VAs (vm_args m)))).

Lemma matches_pattern c o n a mn md m :
  matches (MPattern c o n a mn md) (VM m) = pat_sem (matches c) (matches o) (matches n) (matches a) mn md m.
Proof.
  cbn [matches]. unfold pat_sem.
  destruct (matches c (VC (vm_conn m))); [|reflexivity]. cbn [negb andb].
  destruct (mn && existsb _ (vm_args m)); [reflexivity|]. cbn [orb].
  destruct (md && match vm_destroyed m with Some ob => matches o (VO ob) | None => false end); reflexivity.
Qed.

Lemma pat_sem_no_obj fc fn fa mn md m : pat_sem fc (fun _ => false) fn fa mn md m = false.
Proof.
  unfold pat_sem. rewrite (existsb_const_false _ (vm_args m)).
  - destruct (vm_destroyed m), mn, md, (fc (VC (vm_conn m))); reflexivity.
  - intros x _. destruct (va_val x) as [| | | |ob [|]| |]; reflexivity.
Qed.

Lemma simplify_pattern_sem c o n a mn md m :
  (is_always false (simplify n) || is_always false (simplify a) = true -> mn = false /\ md = false) ->
  matches (simplify (MPattern c o n a mn md)) (VM m) =
  pat_sem (matches (simplify c)) (matches (simplify o)) (matches (simplify n)) (matches (simplify a)) mn md m.
Proof.
  intros Hflags. cbn [simplify].
  destruct (is_always false (simplify c)) eqn:Ec.
  { apply is_always_spec in Ec. rewrite Ec. reflexivity. }
  destruct (is_always false (simplify o)) eqn:Eo.
  { apply is_always_spec in Eo. rewrite Eo. cbn [orb matches]. symmetry.
    change (matches (MAlways false)) with (fun _ : val => false). apply pat_sem_no_obj. }
  destruct (is_always false (simplify n) || is_always false (simplify a)) eqn:Ena.
  { destruct (Hflags eq_refl) as [-> ->].
    cbn [orb]. rewrite Ena. cbn [matches]. unfold pat_sem. cbn [andb orb].
    symmetry. apply orb_true_iff in Ena. destruct Ena as [En|Ea].
    - apply is_always_spec in En. rewrite En. cbn [matches]. rewrite andb_false_r. apply andb_false_r.
    - apply is_always_spec in Ea. rewrite Ea. cbn [matches]. rewrite andb_false_r. apply andb_false_r. }
  cbn [orb]. rewrite Ena.
  destruct (is_always true (simplify c) && is_always true (simplify o) && is_always true (simplify n) && is_always true (simplify a)) eqn:Et.
  - apply andb_true_iff in Et. destruct Et as [Et Ea]. apply andb_true_iff in Et. destruct Et as [Et En].
    apply andb_true_iff in Et. destruct Et as [Ec' Eo'].
    apply is_always_spec in Ec', Eo', En, Ea. rewrite Ec', Eo', En, Ea. cbn [matches]. unfold pat_sem.
    cbn [matches andb]. symmetry. apply orb_true_r.
  - apply matches_pattern.
Qed.

Lemma pat_sem_eq fc fo fn fa mn md m dc (dob : vobj -> bool) dn da :
  fc (VC (vm_conn m)) = dc -> (forall ob, fo (VO ob) = dob ob) ->
  fn (VS (vm_name m)) = dn -> fa (VAs (vm_args m)) = da ->
  pat_sem fc fo fn fa mn md m =
  dc && ((mn && existsb (fun x => match va_val x with VAObj ob true => dob ob | _ => false end) (vm_args m))
         || (md && match vm_destroyed m with Some ob => dob ob | None => false end)
         || (dob (vm_obj m) && dn && da)).
Proof.
  intros Hc Ho Hn Ha. unfold pat_sem. rewrite Hc, Hn, Ha, (Ho (vm_obj m)).
  rewrite (existsb_ext_in _ (fun x => match va_val x with VAObj ob true => dob ob | _ => false end) (vm_args m)).
  - destruct (vm_destroyed m) as [ob|]; [rewrite (Ho ob)|]; reflexivity.
  - intros x _. destruct (va_val x) as [| | | |ob [|]| |]; try reflexivity. apply Ho.
Qed.

(* the connection part *)
Definition elab_conn (c : option dtext) : mt :=
  MWrap WConn (match c with Some t => elab_text t | None => MAlways true end).

Lemma conn_sem c m : match c with Some t => wf_text t = true | None => True end ->
  matches (simplify (elab_conn c)) (VC (vm_conn m)) = den_conn c m.
Proof.
  intros Hwf. unfold elab_conn. rewrite simplify_wrap_sem. unfold den_conn. destruct c as [t|].
  - set (s := match vm_conn m with Some n => n | None => s2l "unknown" end).
    rewrite <- (text_sem_simp t s Hwf).
    destruct (always (simplify (elab_text t))) as [b|] eqn:E.
    + symmetry. apply always_matches. exact E.
    + reflexivity.
  - reflexivity.
Qed.

(* the message-name part, raw and simplified *)
Definition elab_name (n : option dtext) : mt := match n with Some t => elab_text t | None => MAlways true end.
Definition elab_oargs (a : option dargs) : mt := match a with Some d => elab_args d | None => MAlways true end.

Lemma name_sem_raw n s : match n with Some t => wf_text t = true | None => True end ->
  matches (elab_name n) (VS s) = den_name n s.
Proof. destruct n as [t|]; intros H; [apply text_sem_raw; exact H|reflexivity]. Qed.
Lemma name_sem_simp n s : match n with Some t => wf_text t = true | None => True end ->
  matches (simplify (elab_name n)) (VS s) = den_name n s.
Proof. destruct n as [t|]; intros H; [apply text_sem_simp; exact H|reflexivity]. Qed.

Lemma oargs_raw_nil a : matches (elab_oargs a) (VAs []) = den_oargs a [].
Proof. destruct a as [d|]; [apply args_raw_nil|reflexivity]. Qed.

(* o.name(args) *)
Lemma full_sem c o n a m :
  match c with Some t => wf_text t = true | None => True end ->
  wf_obj o = true ->
  match n with Some t => wf_text t = true | None => True end ->
  match a with Some d => wf_args d = true /\ args_ok d (vm_args m) = true | None => True end ->
  matches (simplify (mk_pattern (elab_conn c) (elab_obj o) (elab_name n) (elab_oargs a))) (VM m) =
  den_conn c m &&
  ((den_name n (s2l "new") && den_oargs a [] && creates o m)
   || (den_name n (s2l "destroyed") && den_oargs a [] && destroys o m)
   || (den_obj o (vm_obj m) && den_name n (vm_name m) && den_oargs a (vm_args m))).
Proof.
  intros Wc Wo Wn Wa. unfold mk_pattern.
  rewrite !name_sem_raw by exact Wn. rewrite oargs_raw_nil.
  (* what the simplified argument matcher says on the message's arguments, and on every list if it is `never` *)
  assert (HA : matches (simplify (elab_oargs a)) (VAs (vm_args m)) = den_oargs a (vm_args m)
               /\ (is_always false (simplify (elab_oargs a)) = true -> den_oargs a [] = false)).
  { destruct a as [d|]; [|split; [reflexivity|discriminate]].
    destruct Wa as [Wd Hok]. cbn [elab_oargs den_oargs]. split; [apply args_sem_doc; assumption|].
    intros Hf. apply is_always_spec in Hf.
    unfold args_ok in Hok. apply andb_true_iff in Hok. destruct Hok as [Hex _].
    destruct (elab_args_cases d Wd Hex) as [[_ E]|R].
    - rewrite E in Hf. discriminate.
    - rewrite <- R, Hf. reflexivity. }
  destruct HA as [HA1 HA2].
  rewrite simplify_pattern_sem.
  - rewrite (pat_sem_eq _ _ _ _ _ _ m (den_conn c m) (den_obj o) (den_name n (vm_name m)) (den_oargs a (vm_args m))).
    + unfold creates, destroys. reflexivity.
    + apply conn_sem. exact Wc.
    + intros ob. apply obj_sem. exact Wo.
    + apply name_sem_simp. exact Wn.
    + exact HA1.
  - intros H. apply orb_true_iff in H. destruct H as [Hn|Ha].
    + apply is_always_spec in Hn.
      assert (Z : forall s, den_name n s = false).
      { intros s. rewrite <- (name_sem_simp n s Wn), Hn. reflexivity. }
      rewrite !Z. split; reflexivity.
    + rewrite (HA2 Ha), !andb_false_r. split; reflexivity.
Qed.

(* a bare object: on it, creating it, destroying it, or mentioning it *)
Lemma mention_item_sem om a :
  matches (simplify (arg_matcher (MAlways true) (MWrap WObjArg om))) (VA a) =
  match always (simplify om) with
  | Some b => b
  | None => match va_val a with
            | VAObj o _ => matches (simplify om) (VO o)
            | VANull ty => matches (simplify om) (VO (null_obj ty))
            | _ => false
            end
  end.
Proof.
  rewrite arg_matcher_simp_sem, simplify_wrap_sem. cbn [simplify matches andb].
  destruct (always (simplify om)); reflexivity.
Qed.

Lemma mention_args_sem o l : wf_obj o = true -> always (simplify (elab_obj o)) <> Some true ->
  matches (simplify (MArgsList [arg_matcher (MAlways true) (MWrap WObjArg (elab_obj o))] [])) (VAs l) =
  existsb (fun a => match arg_as_obj a with Some ob => den_obj o ob | None => false end) l.
Proof.
  intros Wo Hnt. set (item := arg_matcher (MAlways true) (MWrap WObjArg (elab_obj o))).
  destruct (simplify_argslist_cases [item] []) as [(_ & _ & HP & _)|R]; [discriminate| |].
  - exfalso. cbn [forallb] in HP. rewrite andb_true_r in HP. apply is_always_spec in HP.
    assert (F : matches (simplify item) (VA (mkVarg None VAOther)) = false).
    { unfold item. rewrite mention_item_sem. cbn [va_val].
      destruct (always (simplify (elab_obj o))) as [[|]|]; [contradiction Hnt; reflexivity|reflexivity|reflexivity]. }
    rewrite HP in F. discriminate.
  - rewrite R. unfold args_sem. cbn [forallb existsb negb]. rewrite !andb_true_r.
    apply existsb_ext_in. intros a _. unfold item. rewrite mention_item_sem.
    destruct (always (simplify (elab_obj o))) as [b|] eqn:Eo.
    + destruct b; [contradiction Hnt; reflexivity|].
      destruct (arg_as_obj a) as [ob|]; [|reflexivity].
      rewrite <- (obj_sem o Wo ob). symmetry. apply always_matches. exact Eo.
    + unfold arg_as_obj. destruct (va_val a); try reflexivity; apply obj_sem; exact Wo.
Qed.

Lemma bare_sem c o m :
  match c with Some t => wf_text t = true | None => True end ->
  wf_obj o = true ->
  matches (simplify (MList [mk_pattern (elab_conn c) (elab_obj o) (MAlways true) (MAlways true);
                            mk_pattern (elab_conn c) (MAlways true) (MAlways true)
                              (MArgsList [arg_matcher (MAlways true) (MWrap WObjArg (elab_obj o))] [])] [])) (VM m) =
  den_conn c m && (den_obj o (vm_obj m) || creates o m || destroys o m || mentions o m).
Proof.
  intros Wc Wo. rewrite simplify_list_sem. cbn [existsb negb]. rewrite orb_false_r, andb_true_r.
  unfold mk_pattern. cbn [matches andb forallb existsb].
  set (item := arg_matcher (MAlways true) (MWrap WObjArg (elab_obj o))).
  (* first alternative: on it, creating it, destroying it *)
  rewrite simplify_pattern_sem by (cbn; discriminate).
  rewrite (pat_sem_eq _ _ _ _ _ _ m (den_conn c m) (den_obj o) true true);
    [|apply conn_sem; exact Wc|intros ob; apply obj_sem; exact Wo|reflexivity|reflexivity].
  (* second alternative: the connection, and the simplified one-item argument list *)
  rewrite simplify_pattern_sem by (intros _; split; reflexivity).
  rewrite (pat_sem_eq _ _ _ _ _ _ m (den_conn c m) (fun _ => true) true
             (matches (simplify (MArgsList [item] [])) (VAs (vm_args m))));
    [|apply conn_sem; exact Wc|reflexivity|reflexivity|reflexivity].
  fold (creates o m). fold (destroys o m). cbn [andb orb]. rewrite !andb_true_r.
  destruct (always (simplify (elab_obj o))) as [[|]|] eqn:Eo.
  - (* the object part is `*`: everything on the connection *)
    assert (Ob : den_obj o (vm_obj m) = true).
    { rewrite <- (obj_sem o Wo). apply always_matches. exact Eo. }
    rewrite Ob, !orb_true_r. cbn [orb]. destruct (den_conn c m); reflexivity.
  - unfold item. rewrite mention_args_sem; [|exact Wo|rewrite Eo; discriminate]. fold (mentions o m).
    destruct (den_conn c m), (den_obj o (vm_obj m)), (creates o m), (destroys o m), (mentions o m); reflexivity.
  - unfold item. rewrite mention_args_sem; [|exact Wo|rewrite Eo; discriminate]. fold (mentions o m).
    destruct (den_conn c m), (den_obj o (vm_obj m)), (creates o m), (destroys o m), (mentions o m); reflexivity.
Qed.

Theorem pat_sem_doc p m : wf_pat p = true -> pat_ok p m = true ->
  matches (simplify (elab_pat p)) (VM m) = den_pat p m.
Proof.
  intros Hwf Hok. destruct p as [c body]. unfold wf_pat in Hwf. cbn [dp_conn dp_body] in Hwf.
  apply andb_true_iff in Hwf. destruct Hwf as [Wc Wb].
  assert (Wc' : match c with Some t => wf_text t = true | None => True end) by (destruct c; [exact Wc|exact I]).
  unfold elab_pat, den_pat, pat_ok in *. cbn [dp_conn dp_body] in *. destruct body as [o|o n a].
  - apply andb_true_iff in Wb. destruct Wb as [Wo _]. apply (bare_sem c o m Wc' Wo).
  - apply andb_true_iff in Wb. destruct Wb as [Wb _]. apply andb_true_iff in Wb. destruct Wb as [Wb Wa].
    apply andb_true_iff in Wb. destruct Wb as [Wo Wn].
    apply (full_sem c o n a m Wc' Wo).
    + destruct n; [exact Wn|exact I].
    + destruct a; [split; assumption|exact I].
Qed.

(* ---- top level ---------------------------------------------------------------------------------------- *)
Theorem simplified_means_doc : forall e m, wf_top e = true -> side_condition e m ->
  matches (simplify (elab e)) (VM m) = denote e m.
Proof.
  intros e m Hwf Hside. destruct e as [| |pos neg]; [reflexivity|reflexivity|].
  cbn [wf_top] in Hwf. apply wf_list_split in Hwf. destruct Hwf as (WP & WN & Hne).
  unfold side_condition in Hside. cbn [side_ok] in Hside. apply andb_true_iff in Hside. destruct Hside as [SP SN].
  cbn [elab denote]. apply den_list_simp_sem; [exact Hne| |]; intros p Hp.
  - apply pat_sem_doc; [apply WP; exact Hp|exact (forallb_in _ _ _ SP Hp)].
  - apply pat_sem_doc; [apply WN; exact Hp|exact (forallb_in _ _ _ SN Hp)].
Qed.

(* ---- the simpler side condition implies the one used ------------------------------------------------------ *)
(* no trivially-true exclusion anywhere, and (the message has an argument or no trivially-true item at all) *)
Definition simple_args_ok (d : dargs) (l : list varg) : bool :=
  match d with
  | AItems pos neg => negb (existsb triv_true neg) && (nonempty l || negb (existsb triv_true pos))
  | _ => true
  end.
Definition simple_pat_ok (p : dpat) (m : vmsg) : bool :=
  match dp_body p with BFull _ _ (Some d) => simple_args_ok d (vm_args m) | _ => true end.
Definition simple_side_ok (e : dtop) (m : vmsg) : bool :=
  match e with
  | TPats pos neg => forallb (fun p => simple_pat_ok p m) pos && forallb (fun p => simple_pat_ok p m) neg
  | _ => true
  end.

Lemma simple_args_ok_enough d l : simple_args_ok d l = true -> args_ok d l = true.
Proof.
  destruct d as [| |pos neg]; [intros _; unfold args_ok; cbn; apply orb_true_r|intros _; unfold args_ok; cbn; apply orb_true_r|].
  cbn [simple_args_ok]. unfold args_ok. cbn [excl_ok star_folded].
  intros H. apply andb_true_iff in H. destruct H as [H1 H2]. rewrite H1. cbn [orb andb].
  destruct (nonempty l); [reflexivity|]. cbn [orb] in *.
  destruct pos as [|p pos]; [reflexivity|]. cbn [nonempty andb existsb forallb] in *.
  apply negb_true_iff in H2. apply orb_false_iff in H2. destruct H2 as [-> _]. reflexivity.
Qed.

Lemma simple_side_ok_enough e m : simple_side_ok e m = true -> side_condition e m.
Proof.
  unfold side_condition. destruct e as [| |pos neg]; try reflexivity. cbn [simple_side_ok side_ok].
  assert (G : forall l, forallb (fun p => simple_pat_ok p m) l = true -> forallb (fun p => pat_ok p m) l = true).
  { intros l H. apply forallb_forall. intros p Hp. pose proof (forallb_in _ _ _ H Hp) as Hs.
    unfold simple_pat_ok, pat_ok in *. destruct (dp_body p) as [|o n [d|]]; try reflexivity.
    apply simple_args_ok_enough. exact Hs. }
  intros H. apply andb_true_iff in H. destruct H as [H1 H2]. rewrite (G _ H1), (G _ H2). reflexivity.
Qed.

Corollary simplified_means_doc_simple e m : wf_top e = true -> simple_side_ok e m = true ->
  matches (simplify (elab e)) (VM m) = denote e m.
Proof. intros Hwf H. apply simplified_means_doc; [exact Hwf|apply simple_side_ok_enough; exact H]. Qed.

Print Assumptions simplified_means_doc.
