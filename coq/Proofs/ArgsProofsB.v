(* Proofs about the argparse model in Args.v (C19): the option table, exact spellings, clusters of
   single-letter flags, unique-prefix abbreviations, unknown options. *)
From WD Require Import Base Wire Conn Color Matcher MatcherParse Show Args.
From Coq Require Import Lia.
Open Scope N_scope.

(* ---- basics ------------------------------------------------------------------------------------------ *)
Lemma aeqb_eq a : forall b, str_eqb a b = true -> a = b.
Proof.
  unfold str_eqb. induction a as [|x a IH]; intros [|y b] H; cbn in H; try discriminate; [reflexivity|].
  apply andb_true_iff in H. destruct H as [H1 H2]. apply N.eqb_eq in H1. subst y. f_equal. apply IH. exact H2.
Qed.

Lemma aeqb_refl a : str_eqb a a = true.
Proof. unfold str_eqb. induction a as [|x a IH]; [reflexivity|]. cbn. rewrite N.eqb_refl, IH. reflexivity. Qed.

Lemma assoc_in t s a : assoc t s = Some a -> In (s, a) t.
Proof.
  induction t as [|[k b] t IH]; cbn [assoc]; [discriminate|].
  destruct (str_eqb k s) eqn:E.
  - intros H. injection H as ->. apply aeqb_eq in E. subst k. left. reflexivity.
  - intros H. right. apply IH. exact H.
Qed.

Lemma lookup_in s a : lookup s = Some a -> In (s, a) option_table.
Proof. apply assoc_in. Qed.

(* why a single-dash word can only match through its first two characters: every option string
   longer than two characters starts with two dashes (argparse's startswith(option_prefix) arm of
   _get_option_tuples cannot fire for a word whose second character is not a dash) *)
Theorem long_options_have_two_dashes :
  forallb (fun e => Nat.leb (List.length (fst e)) 2 || starts_with (s2l "--") (fst e)) option_table = true.
Proof. vm_compute. reflexivity. Qed.

(* no option string occurs twice, none contains "=" or a blank *)
Theorem option_table_wellformed :
  forallb (fun e => negb (mem_char 61 (fst e)) && negb (mem_char 32 (fst e)) && all_ascii (fst e)
                    && match lookup (fst e) with Some _ => true | None => false end) option_table = true
  /\ List.length option_table = 21%nat.
Proof. vm_compute. split; reflexivity. Qed.

(* the single-letter options *)
Lemma lookup_short_cases c a :
  lookup [45; c] = Some a ->
  (c = 104 /\ a = AHelp) \/ (c = 114 /\ a = ARun) \/ (c = 103 /\ a = AGdb) \/ (c = 108 /\ a = ALoad) \/
  (c = 112 /\ a = APipe) \/ (c = 102 /\ a = AFilter) \/ (c = 98 /\ a = ABreak) \/ (c = 67 /\ a = ANoColor).
Proof.
  intros H. apply lookup_in in H. cbn in H.
  repeat (destruct H as [H|H]; [inversion H; subst; tauto|]). contradiction.
Qed.

Lemma split_eq_none s : mem_char 61 s = false -> split_eq s = None.
Proof.
  induction s as [|c s IH]; [reflexivity|]. cbn [mem_char split_eq]. intros H.
  apply orb_false_iff in H. destruct H as [H1 H2]. rewrite N.eqb_sym, H1, (IH H2). reflexivity.
Qed.

(* a word of three or more characters that starts with one dash only is not an option string *)
Lemma lookup_single_dash_long c r0 rest : c <> 45 -> lookup (45 :: c :: r0 :: rest) = None.
Proof.
  intros Hc. destruct (lookup (45 :: c :: r0 :: rest)) as [a|] eqn:E; [|reflexivity].
  apply lookup_in in E. cbn in E.
  repeat (destruct E as [E|E]; [inversion E; subst; try contradiction; try discriminate|]). contradiction.
Qed.

(* ---- exact spellings with separate values: the former specification ------------------------------------- *)
(* parse_opts as it was before argparse was modelled: exact spellings, values in the next word and
   not starting with a dash; anything else out of model *)
Fixpoint parse_opts_spec (fuel : nat) (ws : list str) (o : opts) : res opts :=
  match fuel with
  | O => Raise OutOfFuel []
  | S f =>
      match ws with
      | [] => Ok o
      | w :: rest =>
          let flag (o' : opts) := parse_opts_spec f rest o' in
          let valued (set : str -> opts) :=
            match rest with
            | v :: rest' => if starts_with [45] v then Raise OutOfModel [] else parse_opts_spec f rest' (set v)
            | [] => Raise OutOfModel []
            end in
          if str_eqb w (s2l "-p") || str_eqb w (s2l "--pipe") then
            flag (mkOpts (o_load o) true (o_filter o) (o_break o) (o_no_color o) (o_color o) (o_supress o) (o_verbose o) (o_libwayland o) (o_matcher_help o) (o_run o) (o_gdb o))
          else if str_eqb w (s2l "-C") || str_eqb w (s2l "--no-color") then
            flag (mkOpts (o_load o) (o_pipe o) (o_filter o) (o_break o) true (o_color o) (o_supress o) (o_verbose o) (o_libwayland o) (o_matcher_help o) (o_run o) (o_gdb o))
          else if str_eqb w (s2l "--color") then
            flag (mkOpts (o_load o) (o_pipe o) (o_filter o) (o_break o) (o_no_color o) true (o_supress o) (o_verbose o) (o_libwayland o) (o_matcher_help o) (o_run o) (o_gdb o))
          else if str_eqb w (s2l "--supress") then
            flag (mkOpts (o_load o) (o_pipe o) (o_filter o) (o_break o) (o_no_color o) (o_color o) true (o_verbose o) (o_libwayland o) (o_matcher_help o) (o_run o) (o_gdb o))
          else if str_eqb w (s2l "--verbose") then
            flag (mkOpts (o_load o) (o_pipe o) (o_filter o) (o_break o) (o_no_color o) (o_color o) (o_supress o) true (o_libwayland o) (o_matcher_help o) (o_run o) (o_gdb o))
          else if str_eqb w (s2l "-l") || str_eqb w (s2l "--load") then
            valued (fun v => mkOpts (Some v) (o_pipe o) (o_filter o) (o_break o) (o_no_color o) (o_color o) (o_supress o) (o_verbose o) (o_libwayland o) (o_matcher_help o) (o_run o) (o_gdb o))
          else if str_eqb w (s2l "-f") || str_eqb w (s2l "--filter") then
            valued (fun v => mkOpts (o_load o) (o_pipe o) (Some v) (o_break o) (o_no_color o) (o_color o) (o_supress o) (o_verbose o) (o_libwayland o) (o_matcher_help o) (o_run o) (o_gdb o))
          else if str_eqb w (s2l "-b") || str_eqb w (s2l "--break") then
            valued (fun v => mkOpts (o_load o) (o_pipe o) (o_filter o) (Some v) (o_no_color o) (o_color o) (o_supress o) (o_verbose o) (o_libwayland o) (o_matcher_help o) (o_run o) (o_gdb o))
          else Raise OutOfModel []
      end
  end.

(* what the whole-vector checks and the consume loop say about a word list *)
Definition accepts (ws : list str) (o o' : opts) : Prop :=
  existsb is_unmodelled (classify_all ws) = false /\ existsb is_ambiguous (classify_all ws) = false /\
  run_opts (classify_all ws) o false = APOk o'.

Lemma accepts_argparse ws o o' : accepts ws o o' -> argparse ws o = APOk o'.
Proof. intros (H1 & H2 & H3). unfold argparse. rewrite H1, H2. exact H3. Qed.

Lemma accepts_flag w a sh rest o o1 o' :
  str_eqb w (s2l "--") = false -> classify_word w = COpt a sh None -> takes_value a = false ->
  set_flag a o = Some o1 -> accepts rest o1 o' -> accepts (w :: rest) o o'.
Proof.
  intros Hw Hc Ht Hs (H1 & H2 & H3). unfold accepts. cbn [classify_all]. rewrite Hw.
  cbn [existsb run_opts]. unfold is_unmodelled at 1, is_ambiguous at 1. cbn [fst]. rewrite Hc.
  cbn [orb]. unfold resolve. rewrite Ht. cbn [apply_flags]. rewrite Hs. auto.
Qed.

Lemma value_word_is_arg v : starts_with [45] v = false -> classify_word v = CArg /\ str_eqb v (s2l "--") = false.
Proof.
  destruct v as [|c v]; [split; reflexivity|]. cbn [starts_with]. rewrite andb_true_r. intros H.
  split.
  - unfold classify_word. rewrite N.eqb_sym, H. reflexivity.
  - cbn. rewrite N.eqb_sym, H. reflexivity.
Qed.

Lemma accepts_valued w a sh v rest o o' :
  str_eqb w (s2l "--") = false -> classify_word w = COpt a sh None -> takes_value a = true ->
  starts_with [45] v = false -> accepts rest (set_value a v o) o' -> accepts (w :: v :: rest) o o'.
Proof.
  intros Hw Hc Ht Hv (H1 & H2 & H3). destruct (value_word_is_arg v Hv) as [Hcv Hsv].
  unfold accepts. cbn [classify_all]. rewrite Hw, Hsv.
  cbn [existsb run_opts]. unfold is_unmodelled at 1 2, is_ambiguous at 1 2. cbn [fst]. rewrite Hc, Hcv.
  cbn [orb]. unfold resolve. rewrite Ht. cbn [apply_flags]. unfold norm_value. rewrite Hsv. auto.
Qed.

Lemma parse_opts_spec_accepts f : forall ws o o', parse_opts_spec f ws o = Ok o' -> accepts ws o o'.
Proof.
  induction f as [|f IH]; intros ws o o' H; [discriminate|].
  destruct ws as [|w rest]; cbn [parse_opts_spec] in H.
  { injection H as <-. repeat split. }
  Ltac flag_branch IH H E :=
    apply aeqb_eq in E; subst; eapply accepts_flag; [reflexivity|reflexivity|reflexivity|reflexivity|apply IH; exact H].
  Ltac valued_branch IH H E :=
    apply aeqb_eq in E; subst; cbv beta iota delta [orb] in H;
    match type of H with
    | match ?rest with _ => _ end = _ =>
        destruct rest as [|v rest']; [discriminate|];
        destruct (starts_with [45] v) eqn:Ev; [discriminate|];
        eapply accepts_valued; [reflexivity|reflexivity|reflexivity|exact Ev|apply IH; exact H]
    end.
  destruct (str_eqb w (s2l "-p")) eqn:E1; [flag_branch IH H E1|].
  destruct (str_eqb w (s2l "--pipe")) eqn:E2; [flag_branch IH H E2|].
  destruct (str_eqb w (s2l "-C")) eqn:E3; [flag_branch IH H E3|].
  destruct (str_eqb w (s2l "--no-color")) eqn:E4; [flag_branch IH H E4|].
  destruct (str_eqb w (s2l "--color")) eqn:E5; [flag_branch IH H E5|].
  destruct (str_eqb w (s2l "--supress")) eqn:E6; [flag_branch IH H E6|].
  destruct (str_eqb w (s2l "--verbose")) eqn:E7; [flag_branch IH H E7|].
  cbn [orb] in H.
  destruct (str_eqb w (s2l "-l")) eqn:E8; [valued_branch IH H E8|].
  destruct (str_eqb w (s2l "--load")) eqn:E9; [valued_branch IH H E9|].
  destruct (str_eqb w (s2l "-f")) eqn:E10; [valued_branch IH H E10|].
  destruct (str_eqb w (s2l "--filter")) eqn:E11; [valued_branch IH H E11|].
  destruct (str_eqb w (s2l "-b")) eqn:E12; [valued_branch IH H E12|].
  destruct (str_eqb w (s2l "--break")) eqn:E13; [valued_branch IH H E13|].
  discriminate.
Qed.

(* on word lists made of exact spellings with separate values (all the former model covered), the
   argparse model gives the same namespace *)
Theorem parse_opts_exact_spelling f ws o o' : parse_opts_spec f ws o = Ok o' -> parse_opts ws o = Ok o'.
Proof.
  intros H. unfold parse_opts. rewrite (accepts_argparse _ _ _ (parse_opts_spec_accepts f ws o o' H)). reflexivity.
Qed.

Example exact_spelling_ex :
  let ws := [s2l "-p"; s2l "--filter"; s2l "wl_surface"; s2l "-C"; s2l "-b"; s2l ""; s2l "--load"; s2l "a b"; s2l "--supress"] in
  parse_opts_spec 20 ws opts0 = Ok (mkOpts (Some (s2l "a b")) true (Some (s2l "wl_surface")) (Some []) true false true false None false false false)
  /\ parse_opts ws opts0 = parse_opts_spec 20 ws opts0.
Proof. vm_compute. split; reflexivity. Qed.

Lemma neq_eqb61 c : c <> 61 -> N.eqb 61 c = false.
Proof. intros H. apply N.eqb_neq. intros E. apply H. symmetry. exact E. Qed.

(* ---- clusters of single-letter options ---------------------------------------------------------------- *)
Lemma short_letter_facts c a : lookup [45; c] = Some a -> c <> 45 /\ c <> 61 /\ is_ascii c = true.
Proof.
  intros H. apply lookup_short_cases in H.
  destruct H as [H|[H|[H|[H|[H|[H|[H|H]]]]]]]; destruct H as [-> _]; repeat split; discriminate.
Qed.

Lemma single_dash_not_sep c rest : c <> 45 -> str_eqb (45 :: c :: rest) (s2l "--") = false.
Proof. intros H. cbn. apply N.eqb_neq in H. rewrite H. reflexivity. Qed.

(* a single-dash word whose first letter is an option letter stands for the actions that cluster_rest
   reads off its letters *)
Lemma classify_cluster_word c rest a :
  lookup [45; c] = Some a -> all_ascii rest = true -> mem_char 61 rest = false ->
  exists sh ex, classify_word (45 :: c :: rest) = COpt a sh ex /\ resolve a sh ex = cluster_rest (c :: rest).
Proof.
  intros Hl Ha He. destruct (short_letter_facts c a Hl) as (Hc & Hc61 & Hca).
  assert (Hce : N.eqb c 45 = false) by (apply N.eqb_neq; exact Hc).
  destruct rest as [|r0 rest].
  - exists true, None. split.
    + unfold classify_word. unfold char in *. change (N.eqb 45 45) with true. cbn [negb].
      replace (all_ascii [45; c]) with true by (cbn; rewrite Hca; reflexivity). cbn [negb].
      rewrite Hl. unfold is_short. rewrite Hce. reflexivity.
    + unfold resolve. cbn [cluster_rest]. unfold char in *. rewrite Hl. destruct (takes_value a); reflexivity.
  - exists true, (Some (r0 :: rest)). split.
    + unfold classify_word. unfold char in *. change (N.eqb 45 45) with true. cbn [negb].
      replace (all_ascii (45 :: c :: r0 :: rest)) with true
        by (change (all_ascii (45 :: c :: r0 :: rest)) with (is_ascii 45 && (is_ascii c && all_ascii (r0 :: rest))); rewrite Hca, Ha; reflexivity).
      cbn [negb]. rewrite (lookup_single_dash_long c r0 rest Hc). rewrite Hce.
      rewrite (split_eq_none (45 :: c :: r0 :: rest)).
      * rewrite Hl. reflexivity.
      * change (mem_char 61 (45 :: c :: r0 :: rest)) with (N.eqb 61 45 || (N.eqb 61 c || mem_char 61 (r0 :: rest))).
        rewrite He, (neq_eqb61 c Hc61). reflexivity.
    + unfold resolve. cbn [cluster_rest]. unfold char in *. rewrite Hl. cbn [andb]. destruct (takes_value a); reflexivity.
Qed.

(* the whole vector is one single-dash word (and, for a trailing valued letter, its value) *)
Lemma argparse_one_word w a sh ex flags t o :
  str_eqb w (s2l "--") = false -> classify_word w = COpt a sh ex -> resolve a sh ex = Some (flags, t) ->
  argparse [w] o =
    match t with
    | TDone => match apply_flags flags o with Some o' => APOk o' | None => APOut end
    | TVal a' v => match apply_flags flags o with Some o' => APOk (set_value a' (norm_value v) o') | None => APOut end
    | TNext _ => APError
    end.
Proof.
  intros Hw Hc Hr. unfold argparse. cbn [classify_all]. rewrite Hw. cbn [existsb]. unfold is_unmodelled, is_ambiguous. cbn [fst].
  rewrite Hc. cbn [orb run_opts]. rewrite Hr. destruct t; [destruct (apply_flags flags o)|destruct (apply_flags flags o)|]; reflexivity.
Qed.

Lemma argparse_word_and_value w a sh ex flags a' v o :
  str_eqb w (s2l "--") = false -> classify_word w = COpt a sh ex -> resolve a sh ex = Some (flags, TNext a') ->
  starts_with [45] v = false ->
  argparse [w; v] o = match apply_flags flags o with Some o' => APOk (set_value a' v o') | None => APOut end.
Proof.
  intros Hw Hc Hr Hv. destruct (value_word_is_arg v Hv) as [Hcv Hsv].
  unfold argparse. cbn [classify_all]. rewrite Hw, Hsv. cbn [existsb]. unfold is_unmodelled, is_ambiguous. cbn [fst].
  rewrite Hc, Hcv. cbn [orb run_opts]. rewrite Hr. unfold norm_value. rewrite Hsv. destruct (apply_flags flags o); reflexivity.
Qed.

(* store_true options (everything without a value except help) *)
Definition is_store_true (a : action) : bool :=
  match a with AMatcherHelp | ARun | AGdb | APipe | ANoColor | AColor | ASupress | AVerbose => true | _ => false end.
Definition action_code (a : action) : nat :=
  match a with
  | AHelp => 0 | AMatcherHelp => 1 | ARun => 2 | AGdb => 3 | ALoad => 4 | APipe => 5 | AFilter => 6 | ABreak => 7
  | ANoColor => 8 | AColor => 9 | ASupress => 10 | AVerbose => 11 | ALibwayland => 12
  end%nat.
Definition action_eqb (a b : action) : bool := Nat.eqb (action_code a) (action_code b).
Definition flag_of (a : action) (o : opts) : bool :=
  match a with
  | AMatcherHelp => o_matcher_help o | ARun => o_run o | AGdb => o_gdb o | APipe => o_pipe o | ANoColor => o_no_color o
  | AColor => o_color o | ASupress => o_supress o | AVerbose => o_verbose o | _ => false
  end.
Definition values_of (o : opts) := (o_load o, o_filter o, o_break o, o_libwayland o).

Lemma store_true_no_value a : is_store_true a = true -> takes_value a = false.
Proof. destruct a; try discriminate; reflexivity. Qed.

Lemma set_flag_spec b o : is_store_true b = true ->
  exists o1, set_flag b o = Some o1 /\ values_of o1 = values_of o /\
             forall a, is_store_true a = true -> flag_of a o1 = flag_of a o || action_eqb a b.
Proof.
  intros Hb. destruct b; try discriminate; eexists; (split; [reflexivity|]); (split; [reflexivity|]);
    intros a Ha; destruct a; try discriminate; cbn; rewrite ?orb_false_r, ?orb_true_r; reflexivity.
Qed.

Lemma apply_flags_spec acts : forall o, Forall (fun a => is_store_true a = true) acts ->
  exists o', apply_flags acts o = Some o' /\ values_of o' = values_of o /\
             forall a, is_store_true a = true -> flag_of a o' = flag_of a o || existsb (action_eqb a) acts.
Proof.
  induction acts as [|b acts IH]; intros o H.
  - exists o. repeat split. intros a _. cbn. rewrite orb_false_r. reflexivity.
  - inversion H as [|? ? Hb Hacts]; subst. destruct (set_flag_spec b o Hb) as (o1 & Hs & Hv & Hf).
    destruct (IH o1 Hacts) as (o' & Ha & Hv' & Hf'). exists o'. cbn [apply_flags]. rewrite Hs. split; [exact Ha|].
    split; [rewrite Hv'; exact Hv|]. intros a Hst. rewrite (Hf' a Hst), (Hf a Hst). cbn [existsb]. rewrite orb_assoc. reflexivity.
Qed.

(* letters and the store_true options they stand for *)
Definition flag_letters (ls : str) (acts : list action) : Prop :=
  Forall2 (fun c a => lookup [45; c] = Some a /\ is_store_true a = true) ls acts.

Lemma flag_letters_facts ls acts : flag_letters ls acts ->
  all_ascii ls = true /\ mem_char 61 ls = false /\ Forall (fun a => is_store_true a = true) acts.
Proof.
  induction 1 as [|c a ls acts [Hl Hs] _ (IH1 & IH2 & IH3)]; [repeat split; constructor|].
  destruct (short_letter_facts c a Hl) as (_ & Hc61 & Hca). repeat split.
  - cbn. rewrite Hca. exact IH1.
  - cbn [mem_char]. rewrite IH2, (neq_eqb61 c Hc61). reflexivity.
  - constructor; assumption.
Qed.

Lemma cluster_rest_flags ls acts : flag_letters ls acts -> forall tl_,
  cluster_rest (ls ++ tl_) = match cluster_rest tl_ with Some (l, t) => Some (acts ++ l, t) | None => None end.
Proof.
  induction 1 as [|c a ls acts [Hl Hs] _ IH]; intros tl_.
  - cbn [app]. destruct (cluster_rest tl_) as [[l t]|]; reflexivity.
  - cbn [app cluster_rest]. unfold char in *. rewrite Hl, (store_true_no_value a Hs), IH. destruct (cluster_rest tl_) as [[l t]|]; reflexivity.
Qed.

(* -Cp, -pC, -CCp, ...: a cluster of flag letters sets exactly those flags and nothing else *)
Theorem cluster_flags ls acts o :
  ls <> [] -> flag_letters ls acts ->
  exists o', argparse [45 :: ls] o = APOk o' /\ values_of o' = values_of o /\
             forall a, is_store_true a = true -> flag_of a o' = flag_of a o || existsb (action_eqb a) acts.
Proof.
  intros Hne H. destruct (flag_letters_facts ls acts H) as (Ha & He & Hst).
  destruct (apply_flags_spec acts o Hst) as (o' & Hap & Hv & Hf). exists o'. split; [|split; assumption].
  pose proof (cluster_rest_flags ls acts H []) as Hcr. rewrite app_nil_r in Hcr. cbn [cluster_rest] in Hcr. rewrite app_nil_r in Hcr.
  destruct H as [|c a ls acts [Hl Hs] Hrest]; [contradiction|].
  cbn [all_ascii forallb] in Ha. apply andb_true_iff in Ha. destruct Ha as [_ Ha].
  cbn [mem_char] in He. apply orb_false_iff in He. destruct He as [_ He].
  destruct (classify_cluster_word c ls a Hl Ha He) as (sh & ex & Hc & Hr).
  destruct (short_letter_facts c a Hl) as (Hc45 & _ & _).
  pose proof (argparse_one_word _ a sh ex (a :: acts) TDone o (single_dash_not_sep c ls Hc45) Hc) as Hfin.
  rewrite Hap in Hfin. apply Hfin. rewrite Hr. exact Hcr.
Qed.

(* -CfVALUE, -fVALUE, -l/x: the value attached to a trailing valued letter *)
Theorem cluster_attached_value ls acts c a v o :
  flag_letters ls acts -> lookup [45; c] = Some a -> takes_value a = true ->
  v <> [] -> all_ascii v = true -> mem_char 61 v = false ->
  exists o', apply_flags acts o = Some o' /\ argparse [45 :: ls ++ c :: v] o = APOk (set_value a (norm_value v) o').
Proof.
  intros H Hl Ht Hv Hav Hev. destruct (flag_letters_facts ls acts H) as (Ha & He & Hst).
  destruct (apply_flags_spec acts o Hst) as (o' & Hap & _ & _). exists o'. split; [exact Hap|].
  destruct (short_letter_facts c a Hl) as (Hc45 & Hc61 & Hca).
  assert (Hcr : cluster_rest (ls ++ c :: v) = Some (acts, TVal a v)).
  { rewrite (cluster_rest_flags ls acts H). cbn [cluster_rest]. unfold char in *. rewrite Hl, Ht. rewrite app_nil_r.
    destruct v; [contradiction|reflexivity]. }
  assert (Hall : all_ascii (ls ++ c :: v) = true).
  { unfold all_ascii in *. rewrite forallb_app. cbn [forallb]. rewrite Ha, Hca, Hav. reflexivity. }
  assert (Hneq : mem_char 61 (ls ++ c :: v) = false).
  { clear -He Hev Hc61. induction ls as [|x ls IH]; cbn [app mem_char] in *.
    - rewrite Hev. rewrite (neq_eqb61 c Hc61). reflexivity.
    - apply orb_false_iff in He. destruct He as [E1 E2]. rewrite E1, (IH E2). reflexivity. }
  destruct (ls ++ c :: v) as [|c0 rest] eqn:Eq; [destruct ls; discriminate|].
  assert (Hl0 : exists a0, lookup [45; c0] = Some a0).
  { destruct H as [|c1 a1 ls acts [Hl1 _] _]; cbn [app] in Eq; injection Eq as <- _; eauto. }
  destruct Hl0 as [a0 Hl0]. destruct (short_letter_facts c0 a0 Hl0) as (Hc045 & _ & _).
  cbn [all_ascii forallb] in Hall. apply andb_true_iff in Hall. destruct Hall as [_ Hall].
  cbn [mem_char] in Hneq. apply orb_false_iff in Hneq. destruct Hneq as [_ Hneq].
  destruct (classify_cluster_word c0 rest a0 Hl0 Hall Hneq) as (sh & ex & Hc & Hr).
  pose proof (argparse_one_word _ a0 sh ex acts (TVal a v) o (single_dash_not_sep c0 rest Hc045) Hc) as Hfin.
  rewrite Hap in Hfin. apply Hfin. rewrite Hr. exact Hcr.
Qed.

(* -Cf VALUE, -f VALUE: a trailing valued letter takes the next word (when that word is an argument) *)
Theorem cluster_next_value ls acts c a v o :
  flag_letters ls acts -> lookup [45; c] = Some a -> takes_value a = true -> starts_with [45] v = false ->
  exists o', apply_flags acts o = Some o' /\ argparse [45 :: ls ++ [c]; v] o = APOk (set_value a v o').
Proof.
  intros H Hl Ht Hv. destruct (flag_letters_facts ls acts H) as (Ha & He & Hst).
  destruct (apply_flags_spec acts o Hst) as (o' & Hap & _ & _). exists o'. split; [exact Hap|].
  destruct (short_letter_facts c a Hl) as (Hc45 & Hc61 & Hca).
  assert (Hcr : cluster_rest (ls ++ [c]) = Some (acts, TNext a)).
  { rewrite (cluster_rest_flags ls acts H). cbn [cluster_rest]. unfold char in *. rewrite Hl, Ht. rewrite app_nil_r. reflexivity. }
  assert (Hall : all_ascii (ls ++ [c]) = true).
  { unfold all_ascii in *. rewrite forallb_app. cbn [forallb]. rewrite Ha, Hca. reflexivity. }
  assert (Hneq : mem_char 61 (ls ++ [c]) = false).
  { clear -He Hc61. induction ls as [|x ls IH]; cbn [app mem_char] in *.
    - rewrite (neq_eqb61 c Hc61). reflexivity.
    - apply orb_false_iff in He. destruct He as [E1 E2]. rewrite E1, (IH E2). reflexivity. }
  destruct (ls ++ [c]) as [|c0 rest] eqn:Eq; [destruct ls; discriminate|].
  assert (Hl0 : exists a0, lookup [45; c0] = Some a0).
  { destruct H as [|c1 a1 ls acts [Hl1 _] _]; cbn [app] in Eq; injection Eq as <- _; eauto. }
  destruct Hl0 as [a0 Hl0]. destruct (short_letter_facts c0 a0 Hl0) as (Hc045 & _ & _).
  cbn [all_ascii forallb] in Hall. apply andb_true_iff in Hall. destruct Hall as [_ Hall].
  cbn [mem_char] in Hneq. apply orb_false_iff in Hneq. destruct Hneq as [_ Hneq].
  destruct (classify_cluster_word c0 rest a0 Hl0 Hall Hneq) as (sh & ex & Hc & Hr).
  pose proof (argparse_word_and_value _ a0 sh ex acts a v o (single_dash_not_sep c0 rest Hc045) Hc) as Hfin.
  rewrite Hap in Hfin. apply Hfin; [|exact Hv]. rewrite Hr. exact Hcr.
Qed.

Example cluster_ex :
  argparse [s2l "-Cp"] opts0 = APOk (mkOpts None true None None true false false false None false false false)
  /\ argparse [s2l "-pC"] opts0 = argparse [s2l "-C"; s2l "-p"] opts0
  /\ argparse [s2l "-Cf"; s2l "wl_surface"] opts0 = APOk (mkOpts None false (Some (s2l "wl_surface")) None true false false false None false false false)
  /\ argparse [s2l "-Cfwl_surface"] opts0 = argparse [s2l "-Cf"; s2l "wl_surface"] opts0
  /\ argparse [s2l "-l/x"] opts0 = argparse [s2l "--load"; s2l "/x"] opts0
  /\ argparse [s2l "-C=p"] opts0 = argparse [s2l "-Cp"] opts0
  /\ argparse [s2l "-Cx"] opts0 = APError /\ argparse [s2l "-Cf"] opts0 = APError /\ argparse [s2l "-C-p"] opts0 = APError
  /\ argparse [s2l "-Ch"] opts0 = APOut
  /\ flag_letters (s2l "Cp") [ANoColor; APipe].
Proof. vm_compute. repeat split; repeat constructor. Qed.

(* ---- abbreviations of long options ---------------------------------------------------------------------- *)
Lemma two_dashes p : starts_with (s2l "--") p = true -> exists p2, p = 45 :: 45 :: p2.
Proof.
  destruct p as [|c0 [|c1 p2]]; try discriminate.
  - intros H. change (starts_with (s2l "--") [c0]) with (N.eqb 45 c0 && false) in H. rewrite andb_false_r in H. discriminate.
  - intros H. change (starts_with (s2l "--") (c0 :: c1 :: p2)) with (N.eqb 45 c0 && (N.eqb 45 c1 && true)) in H.
    rewrite andb_true_r in H. apply andb_true_iff in H. destruct H as [H0 H1]. apply N.eqb_eq in H0, H1. subst. eauto.
Qed.

(* a word starting with two dashes that is no option string itself, but a prefix of exactly one: it is
   read as that option *)
Theorem abbrev_unique_word p s a :
  starts_with (s2l "--") p = true -> all_ascii p = true -> mem_char 61 p = false ->
  lookup p = None -> long_matches p = [(s, a)] ->
  classify_word p = COpt a false None.
Proof.
  intros Hp Ha He Hl Hm. destruct (two_dashes p Hp) as [p2 ->].
  unfold classify_word. unfold char in *. change (N.eqb 45 45) with true. cbn [negb].
  rewrite Ha. cbn [negb]. rewrite Hl, (split_eq_none _ He). cbn [fst snd]. rewrite Hm. reflexivity.
Qed.

(* the full spelling of a long option *)
Lemma exact_long_word s a :
  starts_with (s2l "--") s = true -> all_ascii s = true -> lookup s = Some a -> classify_word s = COpt a false None.
Proof.
  intros Hp Ha Hl. destruct (two_dashes s Hp) as [s2 ->].
  unfold classify_word. unfold char in *. change (N.eqb 45 45) with true. cbn [negb]. rewrite Ha. cbn [negb]. rewrite Hl. reflexivity.
Qed.

Definition mk_arg (x : str) : cls * str := (CArg, x).
Definition is_sep (x : str) : bool := str_eqb x (s2l "--").

Lemma classify_all_cons x rest :
  classify_all (x :: rest) = if is_sep x then (CSep, x) :: map mk_arg rest else (classify_word x, x) :: classify_all rest.
Proof. reflexivity. Qed.

(* two words of the same class at the same place give the same pattern *)
Lemma classify_all_same p s : classify_word p = classify_word s -> is_sep p = false -> is_sep s = false ->
  forall pre post, map fst (classify_all (pre ++ p :: post)) = map fst (classify_all (pre ++ s :: post)).
Proof.
  intros Hc Hp Hs pre post. induction pre as [|x pre IH]; cbn [app]; rewrite !classify_all_cons.
  - rewrite Hp, Hs. cbn [map fst]. rewrite Hc. reflexivity.
  - destruct (is_sep x).
    + cbn [map fst]. rewrite !map_map. cbn [fst mk_arg]. f_equal. rewrite !map_app. cbn [map]. reflexivity.
    + cbn [map fst]. rewrite IH. reflexivity.
Qed.

(* no separator before: the word keeps its own class, and the words before it are the same *)
Lemma classify_all_at pre : existsb is_sep pre = false -> forall w post,
  is_sep w = false ->
  nth_error (classify_all (pre ++ w :: post)) (List.length pre) = Some (classify_word w, w).
Proof.
  induction pre as [|x pre IH]; intros H w post Hw; cbn [app]; rewrite classify_all_cons.
  - rewrite Hw. reflexivity.
  - cbn [existsb] in H. apply orb_false_iff in H. destruct H as [Hx Hpre]. rewrite Hx. cbn [List.length nth_error].
    apply IH; assumption.
Qed.

Lemma classify_all_words ws : map snd (classify_all ws) = ws.
Proof.
  induction ws as [|x ws IH]; [reflexivity|]. rewrite classify_all_cons. destruct (is_sep x); cbn [map snd].
  - f_equal. rewrite map_map. cbn [snd mk_arg]. apply map_id.
  - rewrite IH. reflexivity.
Qed.

(* a separator before: everything after it is an argument *)
Lemma classify_all_split pre : existsb is_sep pre = true ->
  exists items pre2, forall tail, classify_all (pre ++ tail) = items ++ (CSep, s2l "--") :: map mk_arg (pre2 ++ tail).
Proof.
  induction pre as [|x pre IH]; [discriminate|]. cbn [existsb]. intros H.
  destruct (is_sep x) eqn:Ex.
  - exists [], pre. intros tail. cbn [app]. rewrite classify_all_cons, Ex. unfold is_sep in Ex. apply aeqb_eq in Ex. subst x. reflexivity.
  - cbn [orb] in H. destruct (IH H) as (items & pre2 & Hi). exists ((classify_word x, x) :: items), pre2.
    intros tail. cbn [app]. rewrite classify_all_cons, Ex, Hi. reflexivity.
Qed.

Lemma run_args_extras rest : forall o, run_opts (map mk_arg rest) o true = APError.
Proof. induction rest as [|x rest IH]; intros o; [reflexivity|]. cbn [map mk_arg run_opts]. apply IH. Qed.

(* the words after the separator are never looked at *)
Lemma run_opts_after_sep n w rest1 rest2 : forall items o e, (List.length items <= n)%nat ->
  run_opts (items ++ (CSep, w) :: map mk_arg rest1) o e = run_opts (items ++ (CSep, w) :: map mk_arg rest2) o e.
Proof.
  induction n as [|n IH]; intros items o e Hn.
  - destruct items; [|cbn in Hn; lia]. cbn [app run_opts]. rewrite !run_args_extras. reflexivity.
  - destruct items as [|[c w0] r]; [cbn [app run_opts]; rewrite !run_args_extras; reflexivity|].
    cbn [List.length] in Hn. assert (IHr : forall o e, run_opts (r ++ (CSep, w) :: map mk_arg rest1) o e = run_opts (r ++ (CSep, w) :: map mk_arg rest2) o e)
      by (intros; apply IH; lia).
    cbn [app run_opts]. destruct c; try apply IHr; try reflexivity.
    destruct (resolve a short explicit) as [[flags t]|]; [|reflexivity].
    destruct t; [destruct (apply_flags flags o); [apply IHr|reflexivity] | destruct (apply_flags flags o); [apply IHr|reflexivity] |].
    destruct r as [|[c' v] r']; [reflexivity|]. cbn [app]. destruct c'; try reflexivity.
    destruct (apply_flags flags o); [|reflexivity]. apply IH. cbn [List.length] in Hn. lia.
Qed.

Lemma existsb_fst (f : cls -> bool) (l : list (cls * str)) : existsb (fun i => f (fst i)) l = existsb f (map fst l).
Proof. induction l as [|x l IH]; [reflexivity|]. cbn [existsb map]. rewrite IH. reflexivity. Qed.

(* the consume loop looks at the words only where an argument is taken as a value *)
Lemma run_opts_words n : forall i1 i2 o e, (List.length i1 <= n)%nat ->
  map fst i1 = map fst i2 ->
  (forall k c v1 v2, nth_error i1 k = Some (c, v1) -> nth_error i2 k = Some (c, v2) -> c = CArg -> v1 = v2) ->
  run_opts i1 o e = run_opts i2 o e.
Proof.
  induction n as [|n IH]; intros i1 i2 o e Hn Hm Hv.
  - destruct i1; [|cbn in Hn; lia]. destruct i2; [reflexivity|discriminate].
  - destruct i1 as [|[c1 w1] r1]; destruct i2 as [|[c2 w2] r2]; try discriminate; [reflexivity|].
    cbn [map fst] in Hm. injection Hm as -> Hm. cbn [List.length] in Hn.
    assert (Hv' : forall k c v1 v2, nth_error r1 k = Some (c, v1) -> nth_error r2 k = Some (c, v2) -> c = CArg -> v1 = v2)
      by (intros k; apply (Hv (S k))).
    assert (IHr : forall o e, run_opts r1 o e = run_opts r2 o e) by (intros; apply IH; [lia|exact Hm|exact Hv']).
    cbn [run_opts]. destruct c2; try apply IHr; try reflexivity.
    destruct (resolve a short explicit) as [[flags t]|]; [|reflexivity].
    destruct t; [destruct (apply_flags flags o); [apply IHr|reflexivity] | destruct (apply_flags flags o); [apply IHr|reflexivity] |].
    destruct r1 as [|[c1' v1] r1']; destruct r2 as [|[c2' v2] r2']; try discriminate; [reflexivity|].
    cbn [map fst] in Hm. injection Hm as -> Hm'.
    destruct c2'; try reflexivity.
    assert (v1 = v2) by (apply (Hv' 0%nat CArg v1 v2); reflexivity). subst v2.
    destruct (apply_flags flags o); [|reflexivity].
    apply IH; [cbn [List.length] in Hn; lia|exact Hm'|]. intros k; apply (Hv' (S k)).
Qed.

(* ... and therefore a unique abbreviation anywhere in the vector behaves as the full spelling *)
Theorem abbrev_unique p s a pre post o :
  starts_with (s2l "--") p = true -> all_ascii p = true -> mem_char 61 p = false ->
  lookup p = None -> long_matches p = [(s, a)] ->
  starts_with (s2l "--") s = true -> all_ascii s = true -> lookup s = Some a ->
  argparse (pre ++ p :: post) o = argparse (pre ++ s :: post) o.
Proof.
  intros Hp Ha He Hl Hm Hs Has Hls.
  assert (Hcp := abbrev_unique_word p s a Hp Ha He Hl Hm). assert (Hcs := exact_long_word s a Hs Has Hls).
  assert (Hpn : is_sep p = false).
  { unfold is_sep. destruct (str_eqb p (s2l "--")) eqn:E; [|reflexivity]. apply aeqb_eq in E. subst p. vm_compute in Hm. discriminate. }
  assert (Hsn : is_sep s = false).
  { unfold is_sep. destruct (str_eqb s (s2l "--")) eqn:E; [|reflexivity]. apply aeqb_eq in E. subst s. vm_compute in Hls. discriminate. }
  assert (Hcc : classify_word p = classify_word s) by (rewrite Hcp, Hcs; reflexivity).
  pose proof (classify_all_same p s Hcc Hpn Hsn pre post) as Hf.
  unfold argparse.
  assert (Hex : forall f, existsb (fun i : cls * str => f (fst i)) (classify_all (pre ++ p :: post))
                          = existsb (fun i : cls * str => f (fst i)) (classify_all (pre ++ s :: post))).
  { intros f. rewrite !existsb_fst, Hf. reflexivity. }
  assert (Hu : existsb is_unmodelled (classify_all (pre ++ p :: post)) = existsb is_unmodelled (classify_all (pre ++ s :: post)))
    by (apply (Hex (fun c => match c with CUnmodelled => true | _ => false end))).
  assert (Hamb : existsb is_ambiguous (classify_all (pre ++ p :: post)) = existsb is_ambiguous (classify_all (pre ++ s :: post)))
    by (apply (Hex (fun c => match c with CAmbiguous => true | _ => false end))).
  rewrite Hu, Hamb.
  assert (Hrun : run_opts (classify_all (pre ++ p :: post)) o false = run_opts (classify_all (pre ++ s :: post)) o false);
    [|rewrite Hrun; reflexivity].
  destruct (existsb is_sep pre) eqn:Esep.
  - (* a separator before: both words are left-over arguments *)
    destruct (classify_all_split pre Esep) as (items & pre2 & Hi). rewrite !Hi. apply (run_opts_after_sep _ _ _ _ _ _ _ (le_n _)).
  - apply (run_opts_words _ _ _ o false (le_n _) Hf).
    intros k c v1 v2 H1 H2 ->.
    assert (E1 : nth_error (pre ++ p :: post) k = Some v1)
      by (rewrite <- (classify_all_words (pre ++ p :: post)); rewrite nth_error_map, H1; reflexivity).
    assert (E2 : nth_error (pre ++ s :: post) k = Some v2)
      by (rewrite <- (classify_all_words (pre ++ s :: post)); rewrite nth_error_map, H2; reflexivity).
    destruct (Nat.lt_trichotomy k (List.length pre)) as [Hk|[Hk|Hk]].
    + rewrite nth_error_app1 in E1, E2 by exact Hk. congruence.
    + (* at the position of the option itself the class is not CArg *)
      exfalso. subst k. rewrite (classify_all_at pre Esep s post Hsn) in H2. rewrite Hcs in H2. discriminate.
    + rewrite nth_error_app2 in E1, E2 by lia.
      destruct (k - List.length pre)%nat as [|j] eqn:Ej; [lia|]. cbn [nth_error] in E1, E2. congruence.
Qed.

(* every proper prefix (longer than the two dashes) of every long option: ambiguous exactly for --l,
   otherwise read as the option it abbreviates; an exact spelling wins over being a prefix (--color
   is itself, although --no-color exists; --l is no spelling) *)
Definition long_options : list (str * action) := filter (fun e => starts_with (s2l "--") (fst e)) option_table.
Definition proper_prefixes (s : str) : list str := map (fun k => firstn k s) (seq 3 (List.length s - 3)).
Theorem abbreviations_of_the_table :
  forallb (fun e => forallb (fun p => if str_eqb p (s2l "--l") then match classify_word p with CAmbiguous => true | _ => false end
                                      else match classify_word p, classify_word (fst e) with
                                           | COpt a false None, COpt b false None => action_eqb a (snd e) && action_eqb b (snd e)
                                           | _, _ => false
                                           end) (proper_prefixes (fst e))) long_options = true
  /\ List.length long_options = 13%nat /\ List.length (flat_map (fun e => proper_prefixes (fst e)) long_options) = 65%nat.
Proof. vm_compute. repeat split. Qed.

Example abbrev_ex :
  argparse [s2l "--fil"; s2l "x"] opts0 = argparse [s2l "--filter"; s2l "x"] opts0
  /\ argparse [s2l "--fil"; s2l "x"] opts0 = APOk (mkOpts None false (Some (s2l "x")) None false false false false None false false false)
  /\ argparse [s2l "--sup"] opts0 = argparse [s2l "--supress"] opts0
  /\ argparse [s2l "--no"] opts0 = argparse [s2l "-C"] opts0
  /\ argparse [s2l "--col"] opts0 = argparse [s2l "--color"] opts0
  /\ argparse [s2l "--r"] opts0 = APOk (mkOpts None false None None false false false false None false true false)
  /\ argparse [s2l "--g"] opts0 = APOk (mkOpts None false None None false false false false None false false true)
  /\ argparse [s2l "--lib"; s2l "/x"] opts0 = APOk (mkOpts None false None None false false false false (Some (s2l "/x")) false false false)
  /\ argparse [s2l "--l"; s2l "x"] opts0 = APError
  /\ argparse [s2l "-p"; s2l "--l"; s2l "-h"] opts0 = APError
  /\ argparse [s2l "--ver"] opts0 = argparse [s2l "--verbose"] opts0
  /\ argparse [s2l "--m"] opts0 = APOk (mkOpts None false None None false false false false None true false false)
  /\ argparse [s2l "--load=/x"] opts0 = argparse [s2l "-l"; s2l "/x"] opts0
  /\ argparse [s2l "--lo=/x"] opts0 = argparse [s2l "-l"; s2l "/x"] opts0
  /\ argparse [s2l "--pipe=x"] opts0 = APError /\ argparse [s2l "--load="] opts0 = argparse [s2l "-l"; s2l ""] opts0
  /\ long_matches (s2l "--fil") = [(s2l "--filter", AFilter)] /\ lookup (s2l "--fil") = None
  /\ List.length (long_matches (s2l "--l")) = 2%nat.
Proof. vm_compute. repeat split. Qed.

(* ---- unknown options and stray words ---------------------------------------------------------------------- *)
(* a left-over word (unknown option, separator) is never consumed: the vector is not accepted *)
Definition left_over (c : cls) : bool := match c with CUnknown | CSep => true | _ => false end.

Lemma run_extras_not_ok n : forall items o, (List.length items <= n)%nat -> forall o', run_opts items o true <> APOk o'.
Proof.
  induction n as [|n IH]; intros items o Hn o'.
  - destruct items; [discriminate|cbn in Hn; lia].
  - destruct items as [|[c w] r]; [discriminate|]. cbn [List.length] in Hn.
    assert (IHr : forall o, run_opts r o true <> APOk o') by (intros; apply IH; lia).
    cbn [run_opts]. destruct c; try apply IHr; try discriminate.
    destruct (resolve a short explicit) as [[flags t]|]; [|discriminate].
    destruct t; [destruct (apply_flags flags o); [apply IHr|discriminate] | destruct (apply_flags flags o); [apply IHr|discriminate] |].
    destruct r as [|[c' v] r']; [discriminate|]. destruct c'; try discriminate.
    destruct (apply_flags flags o); [|discriminate]. apply IH. cbn [List.length] in Hn. lia.
Qed.

Lemma run_left_over_not_ok n : forall items o e, (List.length items <= n)%nat ->
  existsb (fun i => left_over (fst i)) items = true -> forall o', run_opts items o e <> APOk o'.
Proof.
  induction n as [|n IH]; intros items o e Hn Hex o'.
  - destruct items; [discriminate|cbn in Hn; lia].
  - destruct items as [|[c w] r]; [discriminate|]. cbn [List.length] in Hn. cbn [existsb fst] in Hex.
    assert (Hext : forall o, run_opts r o true <> APOk o') by (intros; apply (run_extras_not_ok _ _ _ (le_n _))).
    cbn [run_opts]. destruct c; try apply Hext; try discriminate; cbn [left_over orb] in Hex.
    destruct (resolve a short explicit) as [[flags t]|]; [|discriminate].
    destruct t; [destruct (apply_flags flags o); [apply IH; [lia|exact Hex]|discriminate]
                | destruct (apply_flags flags o); [apply IH; [lia|exact Hex]|discriminate] |].
    destruct r as [|[c' v] r']; [discriminate|]. destruct c'; try discriminate.
    destruct (apply_flags flags o); [|discriminate]. cbn [existsb fst left_over orb] in Hex.
    apply IH; [cbn [List.length] in Hn; lia|exact Hex].
Qed.

Lemma classify_all_left_over ws w : In w ws -> classify_word w = CUnknown ->
  existsb (fun i => left_over (fst i)) (classify_all ws) = true.
Proof.
  induction ws as [|x ws IH]; [contradiction|]. intros [->|Hin] Hc; rewrite classify_all_cons.
  - destruct (is_sep w); cbn [existsb fst]; [reflexivity|]. rewrite Hc. reflexivity.
  - destruct (is_sep x); cbn [existsb fst]; [reflexivity|]. rewrite (IH Hin Hc). apply orb_true_r.
Qed.

(* an unknown option anywhere: argparse does not accept the vector (it ends in the usage error, unless
   the help action fires first or a word is not modelled) *)
Theorem unknown_is_error ws w o :
  In w ws -> classify_word w = CUnknown ->
  (argparse ws o = APError \/ argparse ws o = APOut) /\ exists m, parse_opts ws o = Raise OutOfModel m.
Proof.
  intros Hin Hc.
  assert (H : forall o', argparse ws o <> APOk o').
  { intros o'. unfold argparse. destruct (existsb is_unmodelled (classify_all ws)); [discriminate|].
    destruct (existsb is_ambiguous (classify_all ws)); [discriminate|].
    apply (run_left_over_not_ok _ _ _ _ (le_n _)). apply (classify_all_left_over ws w Hin Hc). }
  unfold parse_opts. destruct (argparse ws o) as [o'| |]; [exfalso; apply (H o'); reflexivity| |]; split; eauto.
Qed.

(* the same for the "--" pseudo-argument: with no positionals in the table it is always left over *)
Theorem separator_is_error ws o :
  In (s2l "--") ws -> argparse ws o = APError \/ argparse ws o = APOut.
Proof.
  intros Hin.
  assert (Hex : existsb (fun i => left_over (fst i)) (classify_all ws) = true).
  { induction ws as [|x ws IH]; [contradiction|]. rewrite classify_all_cons. destruct (is_sep x) eqn:Ex; [reflexivity|].
    destruct Hin as [->|Hin]; [discriminate|]. cbn [existsb]. rewrite (IH Hin). apply orb_true_r. }
  assert (H : forall o', argparse ws o <> APOk o').
  { intros o'. unfold argparse. destruct (existsb is_unmodelled (classify_all ws)); [discriminate|].
    destruct (existsb is_ambiguous (classify_all ws)); [discriminate|].
    apply (run_left_over_not_ok _ _ _ _ (le_n _)). exact Hex. }
  destruct (argparse ws o) as [o'| |]; [exfalso; apply (H o'); reflexivity| |]; auto.
Qed.

(* a stray word in first position (nothing before it can take it as a value) *)
Theorem stray_first_is_error w ws o :
  classify_word w = CArg -> argparse (w :: ws) o = APError \/ argparse (w :: ws) o = APOut.
Proof.
  intros Hc.
  assert (H : forall o', argparse (w :: ws) o <> APOk o').
  { intros o'. unfold argparse. destruct (existsb is_unmodelled (classify_all (w :: ws))); [discriminate|].
    destruct (existsb is_ambiguous (classify_all (w :: ws))); [discriminate|].
    rewrite classify_all_cons. destruct (is_sep w); cbn [run_opts]; [|rewrite Hc]; apply (run_extras_not_ok _ _ _ (le_n _)). }
  destruct (argparse (w :: ws) o) as [o'| |]; [exfalso; apply (H o'); reflexivity| |]; auto.
Qed.

(* what an unknown option looks like: one dash and a letter that is no option letter ... *)
Theorem unknown_short_shape c rest :
  c <> 45 -> lookup [45; c] = None -> all_ascii (c :: rest) = true -> mem_char 61 (c :: rest) = false ->
  looks_negative (45 :: c :: rest) = false -> mem_char 32 (c :: rest) = false ->
  classify_word (45 :: c :: rest) = CUnknown.
Proof.
  intros Hc Hl Ha He Hn Hs.
  assert (Hce : N.eqb c 45 = false) by (apply N.eqb_neq; exact Hc).
  assert (Hlw : lookup (45 :: c :: rest) = None) by (destruct rest; [exact Hl|apply lookup_single_dash_long; exact Hc]).
  unfold classify_word. unfold char in *. change (N.eqb 45 45) with true. cbn [negb].
  replace (all_ascii (45 :: c :: rest)) with true by (change (all_ascii (45 :: c :: rest)) with (is_ascii 45 && all_ascii (c :: rest)); rewrite Ha; reflexivity).
  cbn [negb]. rewrite Hlw, Hce, Hl. rewrite (split_eq_none (45 :: c :: rest)).
  - unfold classify_rest. rewrite Hn.
    change (mem_char 32 (45 :: c :: rest)) with (N.eqb 32 45 || mem_char 32 (c :: rest)). rewrite Hs. reflexivity.
  - change (mem_char 61 (45 :: c :: rest)) with (N.eqb 61 45 || mem_char 61 (c :: rest)). rewrite He. reflexivity.
Qed.

(* ... or two dashes and a text that no option string starts with *)
Theorem unknown_long_shape p :
  starts_with (s2l "--") p = true -> all_ascii p = true -> mem_char 61 p = false -> mem_char 32 p = false ->
  long_matches p = [] -> classify_word p = CUnknown.
Proof.
  intros Hp Ha He Hs Hm. destruct (two_dashes p Hp) as [p2 ->].
  assert (Hl : lookup (45 :: 45 :: p2) = None).
  { destruct (lookup (45 :: 45 :: p2)) as [a|] eqn:E; [|reflexivity]. apply lookup_in in E.
    assert (In (45 :: 45 :: p2, a) (long_matches (45 :: 45 :: p2))).
    { unfold long_matches. apply filter_In. split; [exact E|]. cbn [fst]. clear. induction (45 :: 45 :: p2) as [|x l IH]; [reflexivity|].
      cbn [starts_with]. rewrite N.eqb_refl, IH. reflexivity. }
    rewrite Hm in H. contradiction. }
  unfold classify_word. unfold char in *. change (N.eqb 45 45) with true. cbn [negb].
  rewrite Ha. cbn [negb]. rewrite Hl, (split_eq_none _ He). cbn [fst snd]. rewrite Hm.
  unfold classify_rest. replace (looks_negative (45 :: 45 :: p2)) with false; [rewrite Hs; reflexivity|].
  unfold looks_negative. cbn [negnum_body drop_while is_digit in_range]. change (is_digit 45) with false. cbn iota.
  destruct (ends_with [10] (45 :: p2)); [|reflexivity]. cbn [orb andb].
  destruct p2 as [|x p2']; [reflexivity|]. change (removelast (45 :: x :: p2')) with (45 :: removelast (x :: p2')).
  reflexivity.
Qed.

Example unknown_ex :
  classify_word (s2l "-R") = CUnknown /\ classify_word (s2l "--gdbx") = CUnknown /\ classify_word (s2l "-x") = CUnknown
  /\ classify_word (s2l "-run") = COpt ARun true (Some (s2l "un")) /\ classify_word (s2l "stray") = CArg
  /\ classify_word (s2l "-5") = CArg /\ classify_word (s2l "-.5") = CArg /\ classify_word (s2l "-5.") = CUnknown
  /\ classify_word (s2l "-x y") = CArg /\ classify_word (s2l "-C y") = COpt ANoColor true (Some (s2l " y"))
  /\ argparse [s2l "-p"; s2l "-R"] opts0 = APError /\ argparse [s2l "--gdbx"; s2l "-p"] opts0 = APError
  /\ argparse [s2l "-p"; s2l "stray"] opts0 = APError /\ argparse [s2l "-run"] opts0 = APError
  /\ argparse [s2l "-R"; s2l "-h"] opts0 = APOut /\ argparse [s2l "-hR"] opts0 = APError
  /\ argparse [s2l "-p"; s2l "--"] opts0 = APError /\ argparse [s2l "--"; s2l "-p"] opts0 = APError
  /\ parse_opts [s2l "-R"] opts0 = Raise OutOfModel usage_error_tag
  /\ usage_error [s2l "main.py"; s2l "-R"; s2l "-r"; s2l "prog"] = true
  /\ usage_error [s2l "main.py"; s2l "-C"; s2l "-r"; s2l "prog"; s2l "-R"] = false.
Proof. vm_compute. repeat split. Qed.

(* ---- values that look like options, repeated options ------------------------------------------------------ *)
(* a valued option refuses a following word that is itself read as an option (known or not); a word
   that looks like a negative number, contains a blank, or is a lone dash is an argument *)
Theorem value_must_be_argument w a sh v rest o :
  is_sep w = false -> classify_word w = COpt a sh None -> takes_value a = true ->
  is_sep v = true \/ (exists b s e, classify_word v = COpt b s e) \/ classify_word v = CUnknown ->
  existsb is_unmodelled (classify_all (w :: v :: rest)) = false ->
  argparse (w :: v :: rest) o = APError.
Proof.
  intros Hw Hc Ht Hv Hu. unfold argparse. rewrite Hu.
  destruct (existsb is_ambiguous (classify_all (w :: v :: rest))); [reflexivity|].
  rewrite !classify_all_cons, Hw. cbn [run_opts]. rewrite Hc. unfold resolve. rewrite Ht.
  destruct Hv as [Hv|[(b & s & e & Hv)|Hv]].
  - rewrite Hv. reflexivity.
  - destruct (is_sep v); [reflexivity|]. rewrite Hv. reflexivity.
  - destruct (is_sep v); [reflexivity|]. rewrite Hv. reflexivity.
Qed.

Example dash_values_ex :
  argparse [s2l "-f"; s2l "-x"; s2l "-p"] opts0 = APError
  /\ argparse [s2l "-f"; s2l "-p"] opts0 = APError
  /\ argparse [s2l "-f"; s2l "--"; s2l "x"] opts0 = APError
  /\ argparse [s2l "-f"; s2l "-5"; s2l "-p"] opts0 = APOk (mkOpts None true (Some (s2l "-5")) None false false false false None false false false)
  /\ argparse [s2l "-f"; s2l "-x y"] opts0 = APOk (mkOpts None false (Some (s2l "-x y")) None false false false false None false false false)
  /\ argparse [s2l "-f"; s2l "-"] opts0 = APOk (mkOpts None false (Some (s2l "-")) None false false false false None false false false)
  /\ argparse [s2l "-f-x"] opts0 = APOk (mkOpts None false (Some (s2l "-x")) None false false false false None false false false)
  /\ argparse [s2l "--filter=-x"] opts0 = argparse [s2l "-f-x"] opts0
  /\ argparse [s2l "--load=--"] opts0 = argparse [s2l "--load="] opts0
  /\ argparse [s2l "-f"; s2l "a"; s2l "-f"; s2l "b"] opts0 = argparse [s2l "-f"; s2l "b"] opts0
  /\ argparse [s2l "-p"; s2l "-p"; s2l "--pipe"; s2l "-pp"] opts0 = argparse [s2l "-p"] opts0
  /\ argparse [s2l "-f"] opts0 = APError.
Proof. vm_compute. repeat split. Qed.

(* a valued option given twice: the last value stays *)
Theorem last_value_wins a v1 v2 o : set_value a v2 (set_value a v1 o) = set_value a v2 o.
Proof. destruct a; reflexivity. Qed.

(* a flag given twice is the flag given once *)
Theorem flag_twice a o o1 : set_flag a o = Some o1 -> set_flag a o1 = Some o1.
Proof. destruct a; cbn; intros H; try discriminate; injection H as <-; reflexivity. Qed.

(* ---- parse_args as a whole ------------------------------------------------------------------------------------ *)
Example parse_args_ex :
  parse_args [s2l "main.py"; s2l "-Cp"] = Ok (PAOk MPipe [] (MAlways true) (MAlways false) true [s2l "main.py"; s2l "-Cp"] [])
  /\ (exists f b, parse_args [s2l "main.py"; s2l "--fil"; s2l "wl_surface"; s2l "--sup"; s2l "-Cg"; s2l "prog"; s2l "-R"]
                  = Ok (PAOk MGdbRunner [] f b false [s2l "main.py"; s2l "--fil"; s2l "wl_surface"; s2l "--sup"; s2l "-C"] [s2l "prog"; s2l "-R"]))
  /\ (exists f b, parse_args [s2l "main.py"; s2l "--load=/x"] = Ok (PAOk MLoad (s2l "/x") f b true [s2l "main.py"; s2l "--load=/x"] []))
  /\ parse_args [s2l "main.py"; s2l "--r"] = Ok PAUsage
  /\ parse_args [s2l "main.py"; s2l "-p"; s2l "--matcher-help"] = Raise OutOfModel []
  /\ parse_args [s2l "main.py"; s2l "-h"] = Raise OutOfModel []
  /\ parse_args [s2l "main.py"; s2l "-R"] = Raise OutOfModel usage_error_tag.
Proof. vm_compute. repeat split; eexists; eexists; reflexivity. Qed.

Print Assumptions parse_opts_exact_spelling.
Print Assumptions cluster_flags.
Print Assumptions cluster_attached_value.
Print Assumptions cluster_next_value.
Print Assumptions abbrev_unique.
Print Assumptions abbreviations_of_the_table.
Print Assumptions unknown_is_error.
Print Assumptions separator_is_error.
Print Assumptions stray_first_is_error.
Print Assumptions unknown_short_shape.
Print Assumptions unknown_long_shape.
Print Assumptions value_must_be_argument.
