(* Proofs about the closure walk of GDB mode (C09). *)
From WD Require Import Base Wire Render Extract.
From Coq Require Import Lia.
Open Scope Z_scope.

Lemma nth_error_app_len {A} (pre : list A) x rest : nth_error (pre ++ x :: rest) (List.length pre) = Some x.
Proof. induction pre as [|p pre IH]; [reflexivity|exact IH]. Qed.

Lemma tl_skipn {A} (l : list A) : forall n, tl (skipn n l) = skipn (S n) l.
Proof.
  induction l as [|t l IH]; intros n.
  - rewrite !skipn_nil. reflexivity.
  - destruct n as [|n]; [reflexivity|]. change (skipn (S n) (t :: l)) with (skipn n l).
    change (skipn (S (S n)) (t :: l)) with (skipn (S n) l). apply IH.
Qed.

Lemma hd_skipn {A} (l : list (option A)) : forall n,
  match skipn n l with t :: _ => t | [] => None end = match nth_error l n with Some t => t | None => None end.
Proof. induction l as [|t l IH]; intros [|n]; cbn; try reflexivity. apply IH. Qed.

Lemma extract_arg_ok b cl c i v :
  nth_error (cl_args cl) i = Some v -> is_type_code c = true -> cval_ok c v = true ->
  extract_arg b cl c i =
    match denote_carg (match nth_error (cl_types cl) i with Some t => t | None => None end) c v with
    | Some a => Ok a
    | None => Raise OutOfModel []
    end.
Proof.
  intros Hn Hc Hv. unfold extract_arg. rewrite Hn. unfold is_type_code in Hc.
  destruct v as [z|k|[s|]|[[ifc id]|]|id ao|l]; cbn [cval_ok denote_carg] in *.
  - (* CInt: i, u or h *)
    assert (Hc3 : (c = 105 \/ c = 117 \/ c = 104)%N).
    { apply orb_true_iff in Hv. destruct Hv as [Hv|Hv]; [apply orb_true_iff in Hv; destruct Hv as [Hv|Hv]|]; apply N.eqb_eq in Hv; auto. }
    destruct Hc3 as [->|[->| ->]]; reflexivity.
  - apply N.eqb_eq in Hv. subst c. reflexivity.
  - apply N.eqb_eq in Hv. subst c. reflexivity.
  - apply N.eqb_eq in Hv. subst c. reflexivity.
  - apply andb_true_iff in Hv. destruct Hv as [Hv Hid]. apply N.eqb_eq in Hv. subst c. cbn.
    destruct (id <=? 0) eqn:E; [lia|reflexivity].
  - apply N.eqb_eq in Hv. subst c. reflexivity.
  - apply andb_true_iff in Hv. destruct Hv as [Hv Hid]. apply N.eqb_eq in Hv. subst c. cbn.
    destruct (id <=? 0) eqn:E; [lia|reflexivity].
  - apply N.eqb_eq in Hv. subst c. reflexivity.
Qed.

Lemma cval_ok_denote ty c v : cval_ok c v = true -> exists a, denote_carg ty c v = Some a.
Proof.
  destruct v as [z|k|[s|]|[[ifc id]|]|id ao|l]; cbn [cval_ok denote_carg]; intros H.
  - assert (Hc3 : (c = 105 \/ c = 117 \/ c = 104)%N).
    { apply orb_true_iff in H. destruct H as [H|H]; [apply orb_true_iff in H; destruct H as [H|H]|]; apply N.eqb_eq in H; auto. }
    destruct Hc3 as [->|[->| ->]]; eexists; reflexivity.
  - rewrite H. eexists; reflexivity.
  - rewrite H. eexists; reflexivity.
  - rewrite H. eexists; reflexivity.
  - apply andb_true_iff in H. destruct H as [H _]. rewrite H. eexists; reflexivity.
  - rewrite H. eexists; reflexivity.
  - apply andb_true_iff in H. destruct H as [H _]. rewrite H. eexists; reflexivity.
  - rewrite H. eexists; reflexivity.
Qed.

(* walking the signature with the running index reads exactly the slot of each type code: one
   argument per type code, in order; version digits and `?` are skipped; whatever precedes - in
   particular an array of any length - does not disturb the index *)
Lemma extract_args_spec b cl sig : forall pre vs,
  cl_args cl = pre ++ vs ->
  cvals_ok (codes sig) vs = true ->
  exists r, extract_args b cl sig (List.length pre) = Ok r /\
            denote_args (codes sig) (skipn (List.length pre) (cl_types cl)) vs = Some r.
Proof.
  induction sig as [|c sig IH]; intros pre vs Hargs Hok.
  - cbn [codes filter] in *. destruct vs; [|discriminate]. exists []. split; reflexivity.
  - cbn [extract_args]. unfold codes in *. cbn [filter] in *. destruct (is_type_code c) eqn:Ec.
    + destruct vs as [|v vs]; [discriminate|]. cbn [cvals_ok] in Hok. apply andb_true_iff in Hok. destruct Hok as [Hv Hrest].
      assert (Hn : nth_error (cl_args cl) (List.length pre) = Some v) by (rewrite Hargs; apply nth_error_app_len).
      rewrite (extract_arg_ok b cl c _ v Hn Ec Hv).
      destruct (cval_ok_denote (match nth_error (cl_types cl) (List.length pre) with Some t => t | None => None end) c v Hv) as [a Ha].
      rewrite Ha. cbn [bind].
      assert (Hargs' : cl_args cl = (pre ++ [v]) ++ vs) by (rewrite <- app_assoc; exact Hargs).
      destruct (IH (pre ++ [v]) vs Hargs' Hrest) as (r & Hr & Hd).
      rewrite app_length in Hr, Hd. cbn [List.length] in Hr, Hd. rewrite Nat.add_1_r in Hr, Hd.
      rewrite Hr. cbn [bind]. exists (a :: r). split; [reflexivity|].
      cbn [denote_args].
      rewrite hd_skipn, Ha, tl_skipn.
      rewrite Hd. reflexivity.
    + apply IH; assumption.
Qed.

(* C09: a well-formed closure is reported with its name, direction, sender id, interface and
   one argument per entry of its signature *)
Theorem extract_exact k target cl time :
  wf_closure cl = true ->
  exists args,
    extract_message k target cl time =
      Ok (mkPmsg time (match k with Sent => None | _ => Some target end) (cl_sender cl)
                 (match k with Sent => true | _ => false end) (cl_name cl) args) /\
    denote_args (codes (cl_sig cl)) (cl_types cl) (cl_args cl) = Some args.
Proof.
  unfold wf_closure. intros H. apply andb_true_iff in H. destruct H as [H _].
  apply andb_true_iff in H. destruct H as [Hok Hs].
  destruct (extract_args_spec (match k with RecvClient => true | _ => false end) cl (cl_sig cl) [] (cl_args cl) eq_refl Hok) as (r & Hr & Hd).
  cbn [List.length skipn] in Hr, Hd. exists r. split; [|exact Hd].
  unfold extract_message. rewrite Hr. cbn [bind]. destruct (cl_sender cl <=? 0) eqn:E; [lia|reflexivity].
Qed.

(* ---- agreement with log mode on what libwayland's print-out retains ------------------------------ *)
From WD Require Import Decode DecodeRoundTrip.
Open Scope Z_scope.

(* the print-out loses: array elements, the interface of a non-null plain object (it prints the
   actual one, GDB mode reports the declared one), the declared interface of a null argument *)
Definition retained_arg (a : parg) : parg :=
  match a with
  | PObj id ty false => PObj id None false
  | PArray _ => PArray None
  | PNull _ => PNull None
  | _ => a
  end.

Fixpoint wire_args (cs : str) (tys : list (option str)) (vs : list cval) : option (list warg) :=
  match cs, vs with
  | [], [] => Some []
  | c :: cs', v :: vs' =>
      let ty := match tys with t :: _ => t | [] => None end in
      match wire_arg ty c v, wire_args cs' (tl tys) vs' with
      | Some a, Some r => Some (a :: r)
      | _, _ => None
      end
  | _, _ => None
  end.

Definition cur : dialect := mkDialect true true true true false.

Lemma retained_args_agree cs : forall tys vs args wargs,
  cvals_ok cs vs = true ->
  denote_args cs tys vs = Some args -> wire_args cs tys vs = Some wargs ->
  map retained_arg args = map retained_arg (map (denote_arg cur) wargs).
Proof.
  induction cs as [|c cs IH]; intros tys vs args wargs Hok Hd Hw.
  - destruct vs; [|discriminate]. cbn in Hd, Hw. injection Hd as <-. injection Hw as <-. reflexivity.
  - destruct vs as [|v vs]; [discriminate|]. cbn [cvals_ok] in Hok. apply andb_true_iff in Hok. destruct Hok as [Hv Hrest].
    cbn [denote_args] in Hd. cbn [wire_args] in Hw.
    set (ty := match tys with t :: _ => t | [] => None end) in *.
    destruct (denote_carg ty c v) as [a|] eqn:Ea; [|discriminate].
    destruct (denote_args cs (tl tys) vs) as [r|] eqn:Er; [|discriminate]. injection Hd as <-.
    destruct (wire_arg ty c v) as [wa|] eqn:Ewa; [|discriminate].
    destruct (wire_args cs (tl tys) vs) as [wr|] eqn:Ewr; [|discriminate]. injection Hw as <-.
    cbn [map]. f_equal; [|eapply IH; eassumption].
    clear -Hv Ea Ewa.
    destruct v as [z|k|[s|]|[[ifc id]|]|id ao|l]; cbn [cval_ok denote_carg wire_arg] in *; try discriminate.
    + assert (Hc3 : (c = 105 \/ c = 117 \/ c = 104)%N).
      { apply orb_true_iff in Hv. destruct Hv as [Hv|Hv]; [apply orb_true_iff in Hv; destruct Hv as [Hv|Hv]|]; apply N.eqb_eq in Hv; auto. }
      destruct Hc3 as [->|[->| ->]]; cbn in Ea, Ewa; injection Ea as <-; injection Ewa as <-; reflexivity.
    + rewrite Hv in Ea. injection Ea as <-. injection Ewa as <-. reflexivity.
    + rewrite Hv in Ea. injection Ea as <-. injection Ewa as <-. reflexivity.
    + rewrite Hv in Ea. injection Ea as <-. injection Ewa as <-. reflexivity.
    + apply andb_true_iff in Hv. destruct Hv as [Hv _]. rewrite Hv in Ea. injection Ea as <-. injection Ewa as <-. reflexivity.
    + rewrite Hv in Ea. injection Ea as <-. injection Ewa as <-. reflexivity.
    + apply andb_true_iff in Hv. destruct Hv as [Hv _]. rewrite Hv in Ea. injection Ea as <-. injection Ewa as <-. reflexivity.
    + rewrite Hv in Ea. injection Ea as <-. injection Ewa as <-. reflexivity.
Qed.

(* C09: in everything libwayland's print-out of the closure retains, GDB mode agrees with what log
   mode decodes from that print-out (current dialect), provided the print-out is in the domain of
   C01 (NULL strings included since the fix of D5: both modes report a null argument) *)
Theorem gdb_agrees_with_log k target cl time wargs queue conn :
  wf_closure cl = true ->
  wire_args (codes (cl_sig cl)) (cl_types cl) (cl_args cl) = Some wargs ->
  let w := mkWmsg (Z.to_N time) queue conn (match k with Sent => true | _ => false end) target (cl_sender cl) (cl_name cl) wargs in
  wf_wmsg w = true -> 0 <= time ->
  exists gm lm cid,
    extract_message k target cl time = Ok gm /\ message (render cur w) = Ok (cid, lm) /\
    p_time gm = p_time lm /\ p_id gm = p_id lm /\ p_sent gm = p_sent lm /\ p_name gm = p_name lm /\
    (match k with Sent => True | _ => p_type gm = p_type lm end) /\
    map retained_arg (p_args gm) = map retained_arg (p_args lm).
Proof.
  intros Hwf Hw w Hww Ht.
  destruct (extract_exact k target cl time Hwf) as (args & He & Hd).
  pose proof (decode_render cur w Hww) as Hdr. unfold denote in Hdr.
  eexists _, _, _. split; [exact He|]. split; [exact Hdr|].
  cbn [p_time p_id p_sent p_name p_type p_args w_time w_id w_sent w_name w_iface w_args w].
  split; [rewrite Z2N.id; [reflexivity|exact Ht]|]. split; [reflexivity|]. split; [reflexivity|]. split; [reflexivity|].
  split; [destruct k; try reflexivity; exact I|].
  unfold wf_closure in Hwf. apply andb_true_iff in Hwf. destruct Hwf as [Hwf _]. apply andb_true_iff in Hwf. destruct Hwf as [Hok _].
  eapply retained_args_agree; eassumption.
Qed.
