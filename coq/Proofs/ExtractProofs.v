(* Proofs about the closure walk of GDB mode (C09). *)
From WD Require Import Base Wire Render Extract.
From Coq Require Import Lia.
Open Scope Z_scope.

Lemma nth_error_app_len {A} (pre : list A) x rest : nth_error (pre ++ x :: rest) (List.length pre) = Some x.
Proof. induction pre as [|p pre IH]; [reflexivity|exact IH]. Qed.

Lemma tl_skipn {A} (l : list A) : forall n, tl (skipn n l) = skipn (S n) l.
Proof.
  induction l as [|t l IH]; intros n.
  - rewrite !skipn_nil. reflexivity.
  - destruct n as [|n]; [reflexivity|]. change (skipn (S n) (t :: l)) with (skipn n l).
    change (skipn (S (S n)) (t :: l)) with (skipn (S n) l). apply IH.
Qed.

Lemma hd_skipn {A} (l : list (option A)) : forall n,
  match skipn n l with t :: _ => t | [] => None end = match nth_error l n with Some t => t | None => None end.
Proof. induction l as [|t l IH]; intros [|n]; cbn; try reflexivity. apply IH. Qed.

Lemma extract_arg_ok b cl c i v :
  nth_error (cl_args cl) i = Some v -> is_type_code c = true -> cval_ok c v = true ->
  extract_arg b cl c i =
    match denote_carg (match nth_error (cl_types cl) i with Some t => t | None => None end) c v with
    | Some a => Ok a
    | None => Raise OutOfModel []
    end.
Proof.
  intros Hn Hc Hv. unfold extract_arg. rewrite Hn. unfold is_type_code in Hc.
  destruct v as [z|k|[s|]|[[ifc id]|]|id ao|l]; cbn [cval_ok denote_carg] in *.
  - (* CInt: i, u or h *)
    assert (Hc3 : (c = 105 \/ c = 117 \/ c = 104)%N).
    { apply orb_true_iff in Hv. destruct Hv as [Hv|Hv]; [apply orb_true_iff in Hv; destruct Hv as [Hv|Hv]|]; apply N.eqb_eq in Hv; auto. }
    destruct Hc3 as [->|[->| ->]]; reflexivity.
  - apply N.eqb_eq in Hv. subst c. reflexivity.
  - apply N.eqb_eq in Hv. subst c. reflexivity.
  - apply N.eqb_eq in Hv. subst c. reflexivity.
  - apply andb_true_iff in Hv. destruct Hv as [Hv Hid]. apply N.eqb_eq in Hv. subst c. cbn.
    destruct (id <=? 0) eqn:E; [lia|reflexivity].
  - apply N.eqb_eq in Hv. subst c. reflexivity.
  - apply andb_true_iff in Hv. destruct Hv as [Hv Hid]. apply N.eqb_eq in Hv. subst c. cbn.
    destruct (id <=? 0) eqn:E; [lia|reflexivity].
  - apply N.eqb_eq in Hv. subst c. reflexivity.
Qed.

Lemma cval_ok_denote ty c v : cval_ok c v = true -> exists a, denote_carg ty c v = Some a.
Proof.
  destruct v as [z|k|[s|]|[[ifc id]|]|id ao|l]; cbn [cval_ok denote_carg]; intros H.
  - assert (Hc3 : (c = 105 \/ c = 117 \/ c = 104)%N).
    { apply orb_true_iff in H. destruct H as [H|H]; [apply orb_true_iff in H; destruct H as [H|H]|]; apply N.eqb_eq in H; auto. }
    destruct Hc3 as [->|[->| ->]]; eexists; reflexivity.
  - rewrite H. eexists; reflexivity.
  - rewrite H. eexists; reflexivity.
  - rewrite H. eexists; reflexivity.
  - apply andb_true_iff in H. destruct H as [H _]. rewrite H. eexists; reflexivity.
  - rewrite H. eexists; reflexivity.
  - apply andb_true_iff in H. destruct H as [H _]. rewrite H. eexists; reflexivity.
  - rewrite H. eexists; reflexivity.
Qed.

(* walking the signature with the running index reads exactly the slot of each type code: one
   argument per type code, in order; version digits and `?` are skipped; whatever precedes - in
   particular an array of any length - does not disturb the index *)
Lemma extract_args_spec b cl sig : forall pre vs,
  cl_args cl = pre ++ vs ->
  cvals_ok (codes sig) vs = true ->
  exists r, extract_args b cl sig (List.length pre) = Ok r /\
            denote_args (codes sig) (skipn (List.length pre) (cl_types cl)) vs = Some r.
Proof.
  induction sig as [|c sig IH]; intros pre vs Hargs Hok.
  - cbn [codes filter] in *. destruct vs; [|discriminate]. exists []. split; reflexivity.
  - cbn [extract_args]. unfold codes in *. cbn [filter] in *. destruct (is_type_code c) eqn:Ec.
    + destruct vs as [|v vs]; [discriminate|]. cbn [cvals_ok] in Hok. apply andb_true_iff in Hok. destruct Hok as [Hv Hrest].
      assert (Hn : nth_error (cl_args cl) (List.length pre) = Some v) by (rewrite Hargs; apply nth_error_app_len).
      rewrite (extract_arg_ok b cl c _ v Hn Ec Hv).
      destruct (cval_ok_denote (match nth_error (cl_types cl) (List.length pre) with Some t => t | None => None end) c v Hv) as [a Ha].
      rewrite Ha. cbn [bind].
      assert (Hargs' : cl_args cl = (pre ++ [v]) ++ vs) by (rewrite <- app_assoc; exact Hargs).
      destruct (IH (pre ++ [v]) vs Hargs' Hrest) as (r & Hr & Hd).
      rewrite app_length in Hr, Hd. cbn [List.length] in Hr, Hd. rewrite Nat.add_1_r in Hr, Hd.
      rewrite Hr. cbn [bind]. exists (a :: r). split; [reflexivity|].
      cbn [denote_args].
      rewrite hd_skipn, Ha, tl_skipn.
      rewrite Hd. reflexivity.
    + apply IH; assumption.
Qed.

(* C09: a well-formed closure is reported with its name, direction, sender id, interface and
   one argument per entry of its signature *)
Theorem extract_exact k target cl time :
  wf_closure cl = true ->
  exists args,
    extract_message k target cl time =
      Ok (mkPmsg time (match k with Sent => None | _ => Some target end) (cl_sender cl)
                 (match k with Sent => true | _ => false end) (cl_name cl) args) /\
    denote_args (codes (cl_sig cl)) (cl_types cl) (cl_args cl) = Some args.
Proof.
  unfold wf_closure. intros H. apply andb_true_iff in H. destruct H as [H _].
  apply andb_true_iff in H. destruct H as [Hok Hs].
  destruct (extract_args_spec (match k with RecvClient => true | _ => false end) cl (cl_sig cl) [] (cl_args cl) eq_refl Hok) as (r & Hr & Hd).
  cbn [List.length skipn] in Hr, Hd. exists r. split; [|exact Hd].
  unfold extract_message. rewrite Hr. cbn [bind]. destruct (cl_sender cl <=? 0) eqn:E; [lia|reflexivity].
Qed.
