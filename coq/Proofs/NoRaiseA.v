(* NoRaiseA.v — C18, decoder side: which exception classes can leave Decode.message, for EVERY
   line (arbitrary code points).

   Finding (not hidden): [forall l, okx (message l)] is FALSE for the model.  Besides RuntimeError
   (no match) and the model's own OutOfModel marker, message raises AssertionError, and exactly
   when an object id of the line denotes 0: the target id (`[1.0] a@0.b()`), an object argument
   (`a@0`) or a new-id argument (`new id a@0`, `new id [unknown]@0`).  Counterexamples below
   ([decode_not_always_okx] and the [assert_*] examples); the exact characterisation is
   [decode_assertion_iff_zero_id]; with zero ids excluded the expected statement holds
   ([decode_only_runtime_error]).  No other class (ValueError, IndexError, KeyError,
   OverflowError, UnicodeError, RecursionError, EOFError, OutOfFuel) is ever raised
   ([decode_exn_classes]). *)
From WD Require Import Base Wire Decode.
From WD Require Import TotalityProofs.
From Coq Require Import Lia.
Open Scope N_scope.

(* ---- combinators ----------------------------------------------------------------------------- *)
(* [only A r]: r is Ok, or raises a class satisfying A *)
Definition only {T} (A : exn -> Prop) (r : res T) : Prop :=
  match r with
  | Ok _ => True
  | Raise e _ => A e
  end.

Lemma only_bind {T U} (A : exn -> Prop) (r : res T) (f : T -> res U) :
  only A r -> (forall a, only A (f a)) -> only A (bind r f).
Proof. destruct r as [a|e m]; cbn; intros H Hf; [apply Hf|exact H]. Qed.

Lemma only_mapM {T U} (A : exn -> Prop) (f : T -> res U) l : (forall a, In a l -> only A (f a)) -> only A (mapM f l).
Proof.
  induction l as [|x l IH]; intros Hf; cbn [mapM]; [exact I|].
  apply only_bind; [apply Hf; left; reflexivity|]. intros y.
  apply only_bind; [apply IH; intros a Ha; apply Hf; right; exact Ha|]. intros ys. exact I.
Qed.

Lemma only_weaken {T} (A B : exn -> Prop) (r : res T) : (forall e, A e -> B e) -> only A r -> only B r.
Proof. destruct r; cbn; auto. Qed.

Definition okx_class (e : exn) : Prop := e = RuntimeError \/ e = OutOfModel \/ e = OutOfFuel.
Lemma okx_only {T} (r : res T) : okx r <-> only okx_class r.
Proof. destruct r; cbn; unfold okx_class; tauto. Qed.

(* an exception leaving mapM left one of the calls *)
Lemma mapM_raise {T U} (f : T -> res U) l e m : mapM f l = Raise e m -> exists x, In x l /\ f x = Raise e m.
Proof.
  induction l as [|x l IH]; cbn [mapM]; [discriminate|].
  destruct (f x) as [y|e' m'] eqn:E; cbn [bind].
  - destruct (mapM f l) as [ys|e' m'] eqn:E2; cbn [bind]; [discriminate|].
    intros H. destruct (IH H) as (z & Hz & Ez). exists z. split; [right; exact Hz|exact Ez].
  - intros H. injection H as -> ->. exists x. split; [left; reflexivity|]. exact E.
Qed.

Lemma mapM_raise_first {T U} (f : T -> res U) l x e m :
  In x l -> f x = Raise e m -> (forall y, In y l -> is_ok (f y) = true \/ exists m', f y = Raise e m') ->
  exists m', mapM f l = Raise e m'.
Proof.
  induction l as [|a l IH]; intros Hin Hx Hall; [contradiction|]. cbn [mapM].
  destruct (Hall a (or_introl eq_refl)) as [Hok|[m' Hr]].
  - destruct (f a) as [y|e' m'] eqn:E; [|discriminate]. cbn [bind].
    destruct Hin as [->|Hin]; [rewrite Hx in E; discriminate|].
    destruct (IH Hin Hx (fun y Hy => Hall y (or_intror Hy))) as [m' Hm]. rewrite Hm. exists m'. reflexivity.
  - rewrite Hr. exists m'. reflexivity.
Qed.

(* ---- digits denoting zero ------------------------------------------------------------------------ *)
Lemma dec_value_acc_zero s : forall acc, forallb is_digit s = true ->
  (dec_value_acc acc s = 0 <-> acc = 0 /\ forallb (N.eqb 48) s = true).
Proof.
  induction s as [|c s IH]; intros acc Hd; cbn [dec_value_acc forallb].
  - tauto.
  - cbn [forallb] in Hd. apply andb_prop in Hd. destruct Hd as [Hc Hs]. rewrite (IH _ Hs).
    unfold is_digit, in_range in Hc. apply andb_prop in Hc. destruct Hc as [H1 H2].
    apply N.leb_le in H1. apply N.leb_le in H2. rewrite andb_true_iff, N.eqb_eq. split; intros [Ha Hb]; [|destruct Hb as [Hb Hc]]; repeat split; try assumption; lia.
Qed.

(* a run of digits denotes 0 exactly when every digit is `0` *)
Lemma dec_value_zero_iff ds : forallb is_digit ds = true ->
  (dec_value ds = 0 <-> forallb (N.eqb 48) ds = true).
Proof. intros Hd. unfold dec_value. rewrite (dec_value_acc_zero ds 0 Hd). tauto. Qed.

Lemma zofn_eqb0 n : (Z.of_N n =? 0)%Z = true <-> n = 0.
Proof. rewrite Z.eqb_eq. lia. Qed.

(* ---- ts_micros ---------------------------------------------------------------------------------- *)
Lemma ts_micros_only ip fp : only (fun e => e = OutOfModel) (ts_micros ip fp).
Proof.
  unfold ts_micros. destruct (Nat.leb _ 3); [|reflexivity].
  destruct (Nat.ltb 15 _); [reflexivity|exact I].
Qed.

(* ---- argument() --------------------------------------------------------------------------------- *)
(* the argument text denotes an object (or new object) with id 0.  The first two alternatives of
   all_args_re decide: an integer is tried first, then the object form, then the new-id form *)
Definition zero_id_arg (v : str) : Prop :=
  is_int_text v = false /\
  ((exists ty ds, obj_text v = Some (ty, ds) /\ dec_value ds = 0) \/
   (obj_text v = None /\ exists ty ds, new_id_text v = Some (ty, ds) /\ dec_value ds = 0)).

Definition arg_class (e : exn) : Prop := e = OutOfModel \/ e = AssertionError.

Lemma argument_only v : only arg_class (argument v).
Proof.
  unfold argument, arg_class.
  repeat match goal with
         | |- only _ (Ok _) => exact I
         | |- only _ (Raise _ _) => cbn; auto
         | |- only _ (if ?b then _ else _) => destruct b
         | |- only _ (match ?x with _ => _ end) => destruct x
         | |- only _ (let '(_, _) := ?x in _) => destruct x
         end.
Qed.

Lemma argument_assertion v m : argument v = Raise AssertionError m -> zero_id_arg v.
Proof.
  unfold argument, zero_id_arg.
  destruct (negb (all_ascii v) && _); [discriminate|].
  destruct (is_int_text v); [discriminate|]. intros H. split; [reflexivity|]. revert H.
  destruct (obj_text v) as [[ty ds]|].
  - destruct (Z.of_N (dec_value ds) =? 0)%Z eqn:E; [|discriminate]. intros _. left. exists ty, ds.
    split; [reflexivity|]. apply zofn_eqb0. exact E.
  - destruct (new_id_text v) as [[ty ds]|].
    + destruct (Z.of_N (dec_value ds) =? 0)%Z eqn:E; [|discriminate]. intros _. right. split; [reflexivity|].
      exists ty, ds. split; [reflexivity|]. apply zofn_eqb0. exact E.
    + repeat match goal with
             | |- (if ?b then _ else _) = _ -> _ => destruct b
             | |- (match ?x with _ => _ end) = _ -> _ => destruct x
             end; discriminate.
Qed.

Lemma zero_id_arg_raises v : all_ascii v = true -> zero_id_arg v -> argument v = Raise AssertionError [].
Proof.
  intros Ha [Hi H]. unfold argument. rewrite Ha, Hi. cbn [negb andb].
  destruct H as [(ty & ds & -> & Hz)|(-> & ty & ds & -> & Hz)];
    (destruct (zofn_eqb0 (dec_value ds)) as [_ Hb]; rewrite (Hb Hz); reflexivity).
Qed.

(* with zero ids excluded an argument raises nothing but the model's own OutOfModel *)
Lemma argument_okx v : ~ zero_id_arg v -> okx (argument v).
Proof.
  intros Hn. pose proof (argument_only v) as H. pose proof (argument_assertion v) as Ha.
  destruct (argument v) as [a|e m]; [exact I|]. cbn in *. destruct H as [->| ->]; [auto|].
  exfalso. apply Hn. eapply Ha. reflexivity.
Qed.

(* ---- message() ---------------------------------------------------------------------------------- *)
(* the header message() picks: the earlier of the outgoing / incoming match *)
Definition pick_header (raw : str) : option (bool * nat * header) :=
  match search true raw O, search false raw O with
  | Some (po, ho), Some (pi, hi) => if Nat.leb po pi then Some (true, po, ho) else Some (false, pi, hi)
  | Some (po, ho), None => Some (true, po, ho)
  | None, Some (pi, hi) => Some (false, pi, hi)
  | None, None => None
  end.

Lemma message_unfold raw :
  message raw =
  match pick_header raw with
  | None => if all_ascii raw then Raise RuntimeError raw else Raise OutOfModel []
  | Some (sent, pos, h) =>
      if negb (all_ascii (firstn (List.length raw - List.length (h_args h) - 1) raw)) then Raise OutOfModel [] else
      do t <- ts_micros (h_ts_int h) (h_ts_frac h);
      let id := Z.of_N (dec_value (h_id h)) in
      if (id =? 0)%Z then Raise AssertionError [] else
      do args <- mapM argument (split_args (h_args h));
      Ok (match h_conn h with Some c => c | None => s2l "PARSED" end,
          mkPmsg t (Some (h_type h)) id sent (h_name h) args)
  end.
Proof. unfold message, pick_header. reflexivity. Qed.

(* the line denotes a message whose target id, or one of whose object arguments, is 0 *)
Definition zero_id_line (l : str) : Prop :=
  exists sent pos h, pick_header l = Some (sent, pos, h) /\
    (dec_value (h_id h) = 0 \/ Exists zero_id_arg (split_args (h_args h))).

Definition msg_class (e : exn) : Prop := e = RuntimeError \/ e = OutOfModel \/ e = AssertionError.

(* 1a. the classes that can leave the decoder, for every line *)
Theorem decode_exn_classes l : only msg_class (message l).
Proof.
  rewrite message_unfold. unfold msg_class.
  destruct (pick_header l) as [[[sent pos] h]|].
  - destruct (negb _); [cbn; auto|].
    apply only_bind; [eapply only_weaken; [|apply ts_micros_only]; cbn; intros e ->; auto|]. intros t.
    cbv zeta. destruct (_ =? 0)%Z; [cbn; auto|].
    apply only_bind; [|intros; exact I]. apply only_mapM. intros a _.
    eapply only_weaken; [|apply argument_only]. unfold arg_class. intros e [->| ->]; auto.
  - destruct (all_ascii l); cbn; auto.
Qed.

Corollary decode_exn_classes' l e m : message l = Raise e m -> e = RuntimeError \/ e = OutOfModel \/ e = AssertionError.
Proof. intros H. pose proof (decode_exn_classes l) as G. rewrite H in G. exact G. Qed.

(* 1b. AssertionError leaves the decoder only for a line with a zero id *)
Theorem decode_assertion_only_zero_id l m : message l = Raise AssertionError m -> zero_id_line l.
Proof.
  rewrite message_unfold. unfold zero_id_line.
  destruct (pick_header l) as [[[sent pos] h]|]; [|destruct (all_ascii l); discriminate].
  destruct (negb _); [discriminate|].
  pose proof (ts_micros_only (h_ts_int h) (h_ts_frac h)) as Ht.
  destruct (ts_micros _ _) as [t|e' m']; cbn [bind]; [|cbn in Ht; subst e'; discriminate].
  cbv zeta. destruct (_ =? 0)%Z eqn:E.
  - intros _. exists sent, pos, h. split; [reflexivity|]. left. apply zofn_eqb0. exact E.
  - destruct (mapM argument (split_args (h_args h))) as [args|e' m'] eqn:Em; cbn [bind]; [discriminate|].
    intros H. injection H as -> ->. destruct (mapM_raise _ _ _ _ Em) as (x & Hx & Ex).
    exists sent, pos, h. split; [reflexivity|]. right. apply Exists_exists. exists x. split; [exact Hx|].
    eapply argument_assertion. exact Ex.
Qed.

(* 1c. the expected statement, zero ids excluded: the decoder either succeeds or raises RuntimeError
   (or the model's own markers) *)
Theorem decode_only_runtime_error l : ~ zero_id_line l -> okx (message l).
Proof.
  intros Hn. pose proof (decode_exn_classes l) as H. pose proof (decode_assertion_only_zero_id l) as Ha.
  destruct (message l) as [a|e m]; [exact I|]. cbn in *. destruct H as [->|[->| ->]]; auto.
  exfalso. apply Hn. eapply Ha. reflexivity.
Qed.

(* conversely a zero target id always raises (unless the line leaves the model first), so the
   exclusion is necessary *)
Theorem zero_target_id_raises l sent pos h :
  pick_header l = Some (sent, pos, h) -> dec_value (h_id h) = 0 ->
  (exists m, message l = Raise AssertionError m) \/ (exists m, message l = Raise OutOfModel m).
Proof.
  intros Hp Hz. rewrite message_unfold, Hp.
  destruct (negb _); [right; eexists; reflexivity|].
  pose proof (ts_micros_only (h_ts_int h) (h_ts_frac h)) as Ht.
  destruct (ts_micros _ _) as [t|e' m']; cbn [bind]; [|cbn in Ht; subst e'; right; eexists; reflexivity].
  cbv zeta. destruct (zofn_eqb0 (dec_value (h_id h))) as [_ Hb]. rewrite (Hb Hz). left. eexists. reflexivity.
Qed.

(* ---- ids are non-empty runs of digits ------------------------------------------------------------- *)
Lemma obj_text_digits v ty ds : obj_text v = Some (ty, ds) -> ds <> [] /\ forallb is_digit ds = true.
Proof.
  unfold obj_text, span. destruct (take_while is_word v) as [|w0 w]; [discriminate|].
  destruct (drop_while is_word v) as [|c r]; [discriminate|].
  destruct (_ || _); [|discriminate]. cbn [andb].
  destruct r as [|d r]; [discriminate|]. destruct (forallb is_digit (d :: r)) eqn:E; [|discriminate].
  intros H. injection H as <- <-. split; [discriminate|exact E].
Qed.

Lemma new_id_text_digits v ty ds : new_id_text v = Some (ty, ds) -> ds <> [] /\ forallb is_digit ds = true.
Proof.
  unfold new_id_text. destruct (starts_with _ v); [|discriminate].
  destruct (starts_with _ (skipn 7 v)).
  - destruct (skipn 9 _) as [|c r]; [discriminate|]. destruct (_ || _); [|discriminate]. cbn [andb].
    destruct r as [|d r]; [discriminate|]. destruct (forallb is_digit (d :: r)) eqn:E; [|discriminate].
    intros H. injection H as <- <-. split; [discriminate|exact E].
  - destruct (obj_text (skipn 7 v)) as [[w ds']|] eqn:E; [|discriminate].
    intros H. injection H as <- <-. eapply obj_text_digits. exact E.
Qed.

Lemma match_tail_id out s ty id nm a : match_tail out s = Some (ty, id, nm, a) -> id <> [] /\ forallb is_digit id = true.
Proof.
  unfold match_tail, span. destruct (starts_with _ s); [|discriminate].
  destruct (take_while is_word _) as [|t0 t]; [discriminate|].
  destruct (drop_while is_word _) as [|c r2]; [discriminate|].
  destruct (_ || _); [|discriminate].
  pose proof (take_while_forallb is_digit r2) as Hd.
  destruct (take_while is_digit r2) as [|i0 i]; [discriminate|].
  destruct (drop_while is_digit r2) as [|d r4]; [discriminate|].
  destruct d as [|p]; [discriminate|].
  repeat match goal with
         | |- (if ?b then _ else _) = _ -> _ => destruct b
         | |- (match ?x with _ => _ end) = _ -> _ => destruct x
         end; try discriminate;
  intros H; injection H as <- <- <- <-; (split; [discriminate|exact Hd]).
Qed.

Definition tail_ok (t : str * str * str * str) : Prop :=
  let '(ty, id, nm, a) := t in id <> [] /\ forallb is_digit id = true.

Lemma match_tail_ok' out s t : match_tail out s = Some t -> tail_ok t.
Proof. destruct t as [[[ty id] nm] a]. apply match_tail_id. Qed.


Ltac split_char_match :=
  repeat match goal with
         | |- context [match ?p with xH => _ | _ => _ end] => destruct p; try discriminate
         end.

Lemma match_conn_tail_id out s c t : match_conn_tail out s = Some (c, t) -> tail_ok t.
Proof.
  unfold match_conn_tail.
  match goal with |- match ?wc with _ => _ end = _ -> _ => destruct wc as [[c' t']|] eqn:E end.
  - intros H. injection H as <- <-. revert E.
    destruct (starts_with [32; 60] s); [|discriminate]. unfold span.
    destruct (take_while is_word _) as [|w0 w]; [discriminate|].
    destruct (drop_while is_word _) as [|d r']; [discriminate|].
    destruct d as [|p]; [discriminate|]. split_char_match.
    destruct (match_tail out r') as [t''|] eqn:E; [|discriminate].
    intros H. injection H as <- <-. eapply match_tail_ok'. exact E.
  - destruct (match_tail out s) as [t'|] eqn:E2; [|discriminate]. intros H'. injection H' as <- <-.
    eapply match_tail_ok'. exact E2.
Qed.

Lemma match_queue_conn_tail_id out s c t : match_queue_conn_tail out s = Some (c, t) -> tail_ok t.
Proof.
  unfold match_queue_conn_tail.
  match goal with |- match ?wc with _ => _ end = _ -> _ => destruct wc as [[c' t']|] eqn:E end.
  - intros H. injection H as <- <-. revert E.
    destruct (starts_with [32; 123] s); [|discriminate].
    destruct (drop_while _ _) as [|d r]; [discriminate|].
    destruct d as [|p]; [discriminate|]. split_char_match.
    apply match_conn_tail_id.
  - apply match_conn_tail_id.
Qed.

Definition hdr_ok (h : header) : Prop := h_id h <> [] /\ forallb is_digit (h_id h) = true.

Lemma match_at_id out s h : match_at out s = Some h -> hdr_ok h.
Proof.
  unfold match_at, span. destruct s as [|c r0]; [discriminate|].
  destruct c as [|p]; [discriminate|]. split_char_match.
  destruct (take_while is_digit _) as [|i0 ip]; [discriminate|].
  destruct (drop_while is_digit (drop_while is_space r0)) as [|d r3]; [discriminate|].
  destruct (_ || _); [|discriminate].
  destruct (take_while is_digit r3) as [|f0 fp]; [discriminate|].
  destruct (drop_while is_space _) as [|e r5]; [discriminate|].
  destruct e as [|p]; [discriminate|]. split_char_match.
  destruct (match_queue_conn_tail out r5) as [[conn [[[ty id] nm] a]]|] eqn:E; [|discriminate].
  intros H. injection H as <-. unfold hdr_ok. cbn [h_id].
  exact (match_queue_conn_tail_id _ _ _ _ E).
Qed.

Lemma search_id out s : forall pos p h, search out s pos = Some (p, h) -> hdr_ok h.
Proof.
  induction s as [|c s IH]; intros pos p h; cbn [search].
  - destruct (match_at out []) as [h'|] eqn:E; [|discriminate]. intros H. injection H as <- <-. eapply match_at_id. exact E.
  - destruct (match_at out (c :: s)) as [h'|] eqn:E; [intros H; injection H as <- <-; eapply match_at_id; exact E|].
    apply IH.
Qed.

Lemma pick_header_id l sent pos h : pick_header l = Some (sent, pos, h) -> hdr_ok h.
Proof.
  unfold pick_header.
  destruct (search true l 0) as [[po ho]|] eqn:Eo; destruct (search false l 0) as [[pi hi]|] eqn:Ei;
    try discriminate; try destruct (Nat.leb po pi); intros H; injection H as <- <- <-;
    solve [eapply search_id; exact Eo | eapply search_id; exact Ei].
Qed.

(* ---- the same at text level: an id denotes 0 exactly when all its digits are `0` --------------------- *)
Definition all_zeros (ds : str) : Prop := forallb (N.eqb 48) ds = true.

Definition zero_id_arg_text (v : str) : Prop :=
  is_int_text v = false /\
  ((exists ty ds, obj_text v = Some (ty, ds) /\ all_zeros ds) \/
   (obj_text v = None /\ exists ty ds, new_id_text v = Some (ty, ds) /\ all_zeros ds)).

Lemma zero_id_arg_text_iff v : zero_id_arg v <-> zero_id_arg_text v.
Proof.
  unfold zero_id_arg, zero_id_arg_text, all_zeros. split; intros [Hi H]; (split; [exact Hi|]);
    destruct H as [(ty & ds & E & Hz)|(En & ty & ds & E & Hz)].
  - left. exists ty, ds. split; [exact E|]. apply dec_value_zero_iff; [apply (obj_text_digits _ _ _ E)|exact Hz].
  - right. split; [exact En|]. exists ty, ds. split; [exact E|]. apply dec_value_zero_iff; [apply (new_id_text_digits _ _ _ E)|exact Hz].
  - left. exists ty, ds. split; [exact E|]. apply dec_value_zero_iff; [apply (obj_text_digits _ _ _ E)|exact Hz].
  - right. split; [exact En|]. exists ty, ds. split; [exact E|]. apply dec_value_zero_iff; [apply (new_id_text_digits _ _ _ E)|exact Hz].
Qed.

Theorem zero_id_line_text l :
  zero_id_line l <->
  exists sent pos h, pick_header l = Some (sent, pos, h) /\
    (all_zeros (h_id h) \/ Exists zero_id_arg_text (split_args (h_args h))).
Proof.
  unfold zero_id_line. split; intros (sent & pos & h & Hp & H); exists sent, pos, h; (split; [exact Hp|]);
    pose proof (pick_header_id _ _ _ _ Hp) as [_ Hd]; destruct H as [H|H].
  - left. apply dec_value_zero_iff; assumption.
  - right. apply Exists_exists in H. destruct H as (x & Hx & Hz). apply Exists_exists. exists x. split; [exact Hx|].
    apply zero_id_arg_text_iff. exact Hz.
  - left. apply dec_value_zero_iff; assumption.
  - right. apply Exists_exists in H. destruct H as (x & Hx & Hz). apply Exists_exists. exists x. split; [exact Hx|].
    apply zero_id_arg_text_iff. exact Hz.
Qed.

(* ---- the counterexamples: genuine AssertionError lines --------------------------------------------- *)
Definition raises_class {T} (r : res T) : option exn := match r with Ok _ => None | Raise e _ => Some e end.

Example assert_target_id_zero : raises_class (message (s2l "[1.0] wl_surface@0.commit()")) = Some AssertionError.
Proof. vm_compute. reflexivity. Qed.
Example assert_target_id_zeros : raises_class (message (s2l "[3735928.559]  -> wl_a#000.b(1, 2)")) = Some AssertionError.
Proof. vm_compute. reflexivity. Qed.
Example assert_object_arg_zero : raises_class (message (s2l "[1.0] wl_surface@3.attach(wl_buffer@0, 0, 0)")) = Some AssertionError.
Proof. vm_compute. reflexivity. Qed.
Example assert_new_id_zero : raises_class (message (s2l "[1.0]  -> wl_display@1.sync(new id wl_callback@0)")) = Some AssertionError.
Proof. vm_compute. reflexivity. Qed.
Example assert_new_id_unknown_zero : raises_class (message (s2l "[1.0] wl_registry@2.bind(1, ""x"", 1, new id [unknown]@0)")) = Some AssertionError.
Proof. vm_compute. reflexivity. Qed.
(* garbage around the match does not protect: re.search finds it anywhere in the line *)
Example assert_inside_garbage : raises_class (message (s2l "%%%[[[ 7,5 ] {q} <c> x#0.y(]]])")) = Some AssertionError.
Proof. vm_compute. reflexivity. Qed.

(* so the unconditional statement is false *)
Theorem decode_not_always_okx : ~ (forall l, okx (message l)).
Proof. intros H. specialize (H (s2l "[1.0] wl_surface@0.commit()")). vm_compute in H. destruct H as [H|[H|H]]; discriminate. Qed.

(* ---- non-vacuity: concrete garbage lines ------------------------------------------------------------ *)
Definition class_is {T} (r : res T) (e : exn) : bool :=
  match r with Raise e' _ => Z.eqb (exn_code e') (exn_code e) | Ok _ => false end.

(* RuntimeError (the line is reported as unprocessed text) *)
Example garbage_runtime_error :
  forallb (fun l => class_is (message l) RuntimeError)
    [ [];                                                     (* empty line *)
      s2l "[";                                                (* only an opening bracket *)
      s2l "[[[[[[[[";
      s2l "]";
      s2l "[1e5] wl_a@1.b()";                                 (* exponent in the time stamp *)
      s2l "[1.0] wl_a@1.b(""unbalanced";                      (* no closing parenthesis *)
      s2l "[1.0] wl_a@1.b(";
      s2l "[1.0] wl_a@.b()";                                  (* no id *)
      s2l "[1.0] @1.b()";                                     (* no type *)
      s2l "[1.0]wl_a@1.b()";                                  (* no blank *)
      s2l "[1.] wl_a@1.b()";
      s2l "[.5] wl_a@1.b()";
      s2l "[1.0] {q wl_a@1.b()";                              (* unterminated queue *)
      s2l "[1.0] <c wl_a@1.b()";
      s2l "[1.0]  -> wl_a@1.b() trailing";
      s2l "hello from the program";
      [0]; [127]; [27; 91; 51; 49; 109] ] = true.
Proof. vm_compute. reflexivity. Qed.

(* accepted although odd: unbalanced quotes, 30 arguments, garbage arguments, leading zeros *)
Example garbage_accepted :
  forallb (fun l => is_ok (message l))
    [ s2l "[1.0] wl_a@1.b(""unbalanced)";
      s2l "[1.0] wl_a@1.b(""a, b"", ""c\"", d"", e"")";
      s2l "[1.0] wl_a@1.b("""""", """")";
      s2l "[1.0] wl_a@1.b(1, 2, 3, 4, 5, 6, 7, 8, 9, 10, 11, 12, 13, 14, 15, 16, 17, 18, 19, 20, 21, 22, 23, 24, 25, 26, 27, 28, 29, 30)";
      s2l "[1.0] wl_a@1.b(, , ,)";
      s2l "[1.0] wl_a@1.b(((((, ]]]], @@, #, new id, new id @3, fd, fd -1, array[, array[x], 1.2.3, --1, 1e, nil@, @0, new id @0)";
      s2l "[1.0] wl_a@007.b(wl_c@010, new id wl_d#0001)";
      s2l "[1.0] wl_a@99999999999999999999999999999999999999.b(wl_c@99999999999999999999999999999999999999, -99999999999999999999999999999999999999, fd 99999999999999999999999999999999999999)";
      s2l "[   1,5   ] {a{b[c} <d_1> wl_a@1.b()";
      s2l "xx[1.0] wl_a@1.b() [2.0] wl_c@0.d()";                 (* the first match decides; the closing parenthesis is the last character *)
      s2l "[000000000000000000000000000001.000] wl_a@1.b()" ] = true.
Proof. vm_compute. reflexivity. Qed.

(* left to the model's OutOfModel marker (float rounding, non-ASCII \w / \d): not claimed *)
Example garbage_out_of_model :
  forallb (fun l => class_is (message l) OutOfModel)
    [ s2l "[99999999999999999999999.0] wl_a@1.b()";          (* more than 15 significant digits *)
      s2l "[1.0000] wl_a@1.b()";
      s2l "[1.0] wl_a@1.b(1e999)";
      s2l "[1.0] wl_a@1.b(1.00000000000000000001)";
      s2l "[1.0] wl_a@1.b(" ++ [233] ++ s2l ")";
      [233; 91] ] = true.
Proof. vm_compute. reflexivity. Qed.

Print Assumptions decode_exn_classes.
Print Assumptions decode_assertion_only_zero_id.
Print Assumptions decode_only_runtime_error.
Print Assumptions zero_target_id_raises.
Print Assumptions decode_not_always_okx.
Print Assumptions zero_id_line_text.
