(* C17 lifted to the session, part E: the gdb plugin, step and run. *)
From WD Require Import Base Wire Protocol Conn Color LetterId Matcher MatcherParse Show Session.
From WD Require Import LetterIdProofs ColorProofs ShowProofs MatcherProofs SessionProofs ConnMgrProofs.
From WD Require Import SessionColorA SessionColorB SessionColorC SessionColorD.
From Coq Require Import Lia.
Open Scope Z_scope.

Ltac sr' H s1 :=
  let Hc := fresh "Hc" in let col := fresh "col" in
  let cs := fresh "cs" in let nx := fresh "nx" in let k := fresh "k" in let kn := fresh "kn" in let lt := fresh "lt" in
  let pf := fresh "pf" in let pa := fresh "pa" in let qt := fresh "qt" in let gd := fresh "gd" in
  let un := fresh "un" in let ig := fresh "ig" in
  destruct H as [Hc ->];
  destruct s1 as [cs nx k kn lt pf pa qt gd col un ig];
  cbn [s_color] in Hc; subst col; unfold recolor;
  cbn [s_conns s_next s_ctrl s_known s_last_time s_parse s_paused s_quit s_gdb s_color s_unprocessed s_in_gdb].

Lemma SR_set_gdb s1 s0 g : SR s1 s0 -> SR (set_gdb s1 g) (set_gdb s0 g).
Proof. intros H. sr' H s1. split; reflexivity. Qed.

Lemma process_command_inv fuel s input : Inv s -> Inv (fst (process_command fuel s input)).
Proof. intros H. eapply Inv_record; [apply process_command_record|exact H]. Qed.

(* the events whose decoded message must be free of ESC in its names *)
Definition ev_ok (e : event) : Prop :=
  match e with
  | EMsg _ m | EGdbMsg _ _ m | ESinkMsg _ m => pmsg_ok m
  | _ => True
  end.

Section WithP.
Variable P : pdb.
Hypothesis HP : pdb_clean P.

(* ---- gdb plugin ---------------------------------------------------------------------------------------------- *)
Definition gdb_open (s1 : sess) (id : str) (thread : Z) (m : pmsg) : sess * list oline :=
  match gdb_get (s_gdb s1) id with
  | Some _ => (s1, [])
  | None => let '(sa, oa) := open_conn s1 id (is_get_registry m) in (set_gdb sa (s_gdb sa ++ [(id, thread)]), oa)
  end.
Definition gdb_warn (s2 : sess) (id : str) (thread : Z) : list oline :=
  match gdb_get (s_gdb s2) id, find_open s2 id with
  | Some t, Some i =>
      match nth_error (s_conns s2) i with
      | Some c => match c_server c with
                  | Some false => []
                  | _ => if t =? thread then [] else [warn_line (s_color s2) [AnyText]]
                  end
      | None => []
      end
  | _, _ => []
  end.

Lemma gdb_message_eq s0 id thread rel m : gdb_message P s0 id thread rel m =
  let '(s2, o1) := gdb_open (set_pause s0 false (s_quit s0)) id thread m in
  let '(s3, o2, err, _) := conn_message P s2 id rel m in
  match err with
  | None => (s3, o1 ++ gdb_warn s2 id thread ++ o2 ++ [OStop (s_paused s3)])
  | Some (e, _) => (s3, o1 ++ gdb_warn s2 id thread ++ o2 ++ [ORaise e])
  end.
Proof. reflexivity. Qed.

Lemma gdb_open_names s id th m : names_ok s -> names_ok (fst (gdb_open s id th m)).
Proof.
  intros HI. unfold gdb_open. destruct (gdb_get (s_gdb s) id); [exact HI|].
  pose proof (open_conn_names s id (is_get_registry m) HI) as G. destruct (open_conn s id (is_get_registry m)) as [sa oa].
  cbn [fst] in *. exact G.
Qed.

Lemma gdb_open_sim s1 s0 id th m : SR s1 s0 -> names_ok s1 ->
  SR (fst (gdb_open s1 id th m)) (fst (gdb_open s0 id th m)) /\ Forall2 LineStrips (snd (gdb_open s1 id th m)) (snd (gdb_open s0 id th m)).
Proof.
  intros H HI. unfold gdb_open. destruct (SR_fields _ _ H) as (_ & _ & _ & _ & F5). rewrite F5.
  destruct (gdb_get (s_gdb s1) id); [split; [exact H|constructor]|].
  destruct (open_conn_sim s1 s0 id (is_get_registry m) H HI) as [G1 G2].
  destruct (open_conn s1 id (is_get_registry m)) as [sa1 oa1]. destruct (open_conn s0 id (is_get_registry m)) as [sa0 oa0].
  cbn [fst snd] in *. split; [|exact G2]. destruct (SR_fields _ _ G1) as (_ & _ & _ & _ & F5'). rewrite F5'. apply SR_set_gdb. exact G1.
Qed.

Lemma gdb_open_inv s id th m : Inv s -> Inv (fst (gdb_open s id th m)).
Proof.
  intros HI. unfold gdb_open. destruct (gdb_get (s_gdb s) id); [exact HI|].
  pose proof (open_conn_inv s id (is_get_registry m) HI) as G. destruct (open_conn s id (is_get_registry m)) as [sa oa].
  cbn [fst] in *. exact G.
Qed.

Lemma gdb_warn_sim s1 s0 id th : SR s1 s0 -> Forall2 LineStrips (gdb_warn s1 id th) (gdb_warn s0 id th).
Proof.
  intros H. destruct (SR_color _ _ H) as [C1 C0]. destruct (SR_fields _ _ H) as (F1 & _ & _ & _ & F5).
  unfold gdb_warn, find_open. rewrite C1, C0, F1, F5.
  destruct (gdb_get (s_gdb s1) id) as [t|]; [|constructor].
  destruct (find_open_from 0 (s_conns s1) id) as [i|]; [|constructor].
  destruct (nth_error (s_conns s1) i) as [c|]; [|constructor].
  assert (G : Forall2 LineStrips (if t =? th then [] else [warn_line true [AnyText]]) (if t =? th then [] else [warn_line false [AnyText]])).
  { destruct (t =? th); F2. apply warn_line_sim, TextEq_refl. }
  destruct (c_server c) as [[|]|]; [exact G|constructor|exact G].
Qed.

Lemma gdb_message_sim s1 s0 id th rel m : SR s1 s0 -> names_ok s1 ->
  SR (fst (gdb_message P s1 id th rel m)) (fst (gdb_message P s0 id th rel m)) /\
  Forall2 LineStrips (snd (gdb_message P s1 id th rel m)) (snd (gdb_message P s0 id th rel m)).
Proof.
  intros H HI. rewrite !gdb_message_eq. destruct (SR_fields _ _ H) as (_ & _ & _ & F4 & _). rewrite F4.
  assert (H' : SR (set_pause s1 false (s_quit s1)) (set_pause s0 false (s_quit s1))) by (apply SR_set_pause; exact H).
  assert (HI' : names_ok (set_pause s1 false (s_quit s1))) by exact HI.
  destruct (gdb_open_sim _ _ id th m H' HI') as [G1 G2].
  destruct (gdb_open (set_pause s1 false (s_quit s1)) id th m) as [s21 o11].
  destruct (gdb_open (set_pause s0 false (s_quit s1)) id th m) as [s20 o10]. cbn [fst snd] in *.
  pose proof (gdb_warn_sim s21 s20 id th G1) as W.
  destruct (conn_message_sim P s21 s20 id rel m G1) as (K1 & K2 & K3 & K4).
  destruct (conn_message P s21 id rel m) as [[[s31 o21] err1] st1]. destruct (conn_message P s20 id rel m) as [[[s30 o20] err0] st0].
  cbn [fst snd] in *. subst err0 st0. destruct (SR_fields _ _ K1) as (_ & _ & F3' & _).
  destruct err1 as [[e msg]|]; cbn [fst snd]; (split; [exact K1|F2; try assumption]); cbn [LineStrips]; [reflexivity|symmetry; exact F3'].
Qed.

Lemma gdb_message_inv s id th rel m : Inv s -> pmsg_ok m -> Inv (fst (gdb_message P s id th rel m)).
Proof.
  intros HI Hm. rewrite gdb_message_eq.
  assert (HI' : Inv (set_pause s false (s_quit s))) by exact HI.
  pose proof (gdb_open_inv _ id th m HI') as G3. destruct (gdb_open (set_pause s false (s_quit s)) id th m) as [s2 o1]. cbn [fst] in G3.
  pose proof (conn_message_inv P HP s2 id rel m G3 Hm) as G4. destruct (conn_message P s2 id rel m) as [[[s3 o2] err] st]. cbn [fst] in G4.
  destruct err as [[e msg]|]; exact G4.
Qed.

Lemma gdb_destroy_sim s1 s0 id : SR s1 s0 -> names_ok s1 ->
  SR (fst (gdb_destroy s1 id)) (fst (gdb_destroy s0 id)) /\ Forall2 LineStrips (snd (gdb_destroy s1 id)) (snd (gdb_destroy s0 id)).
Proof.
  intros H HI. unfold gdb_destroy. destruct (SR_fields _ _ H) as (_ & _ & _ & _ & F5). rewrite F5.
  assert (H' : SR (set_gdb s1 (gdb_del (s_gdb s1) id)) (set_gdb s0 (gdb_del (s_gdb s1) id))) by (apply SR_set_gdb; exact H).
  assert (HI' : names_ok (set_gdb s1 (gdb_del (s_gdb s1) id))) by exact HI.
  destruct (close_conn_sim _ _ id H' HI') as [G1 G2].
  destruct (close_conn (set_gdb s1 _) id) as [s1' o1]. destruct (close_conn (set_gdb s0 _) id) as [s0' o0]. cbn [fst snd] in *.
  split; [exact G1|F2; [exact G2|reflexivity]].
Qed.

Lemma gdb_destroy_inv s id : Inv s -> Inv (fst (gdb_destroy s id)).
Proof.
  intros HI. unfold gdb_destroy. assert (HI' : Inv (set_gdb s (gdb_del (s_gdb s) id))) by exact HI.
  pose proof (close_conn_inv _ id HI') as G. destruct (close_conn (set_gdb s _) id) as [s1 o]. exact G.
Qed.

Lemma gdb_command_sim s1 s0 cmd : SR s1 s0 -> names_ok s1 ->
  SR (fst (gdb_command s1 cmd)) (fst (gdb_command s0 cmd)) /\ Forall2 LineStrips (snd (gdb_command s1 cmd)) (snd (gdb_command s0 cmd)).
Proof.
  intros H HI. unfold gdb_command. destruct (SR_fields _ _ H) as (_ & _ & _ & F4 & _). rewrite F4.
  assert (H' : SR (set_pause s1 true (s_quit s1)) (set_pause s0 true (s_quit s1))) by (apply SR_set_pause; exact H).
  assert (HI' : names_ok (set_pause s1 true (s_quit s1))) by exact HI.
  destruct (process_command_sim command_fuel _ _ cmd H' HI') as [G1 G2].
  destruct (process_command command_fuel (set_pause s1 true (s_quit s1)) cmd) as [s1' o1].
  destruct (process_command command_fuel (set_pause s0 true (s_quit s1)) cmd) as [s0' o0]. cbn [fst snd] in *.
  destruct (SR_fields _ _ G1) as (_ & _ & F3' & F4' & _). rewrite F3', F4'.
  split; [exact G1|F2; [exact G2|]]. destruct (s_quit s1'); [F2; reflexivity|]. destruct (negb (s_paused s1')); F2. reflexivity.
Qed.

Lemma gdb_command_inv s cmd : Inv s -> Inv (fst (gdb_command s cmd)).
Proof.
  intros HI. unfold gdb_command. assert (HI' : Inv (set_pause s true (s_quit s))) by exact HI.
  pose proof (process_command_inv command_fuel _ cmd HI') as G. destruct (process_command command_fuel _ cmd) as [s1 o]. exact G.
Qed.

(* ---- step -------------------------------------------------------------------------------------------------------- *)
Definition TInv (T : top) : Prop := Inv (t_sess T).

Theorem step_inv T ev : TInv T -> ev_ok ev -> TInv (fst (step P T ev)).
Proof.
  unfold TInv. intros HI He. destruct T as [b s]. cbn [t_sess] in HI.
  destruct ev as [id m|t|c| |id th m|id|c|id sv|id|id m]; unfold step; cbn [t_base t_sess ev_ok] in *.
  - destruct (rel_time b (p_time m)) as [b' rel]. pose proof (log_message_inv P HP s id rel m HI He) as G.
    destruct (log_message P s id rel m) as [s' o]. exact G.
  - exact HI.
  - pose proof (process_command_inv command_fuel s c HI) as G. destruct (process_command command_fuel s c) as [s' o]. exact G.
  - pose proof (log_eof_inv s HI) as G. destruct (log_eof s) as [s' o]. exact G.
  - destruct (rel_time b (p_time m)) as [b' rel]. pose proof (gdb_message_inv s id th rel m HI He) as G.
    destruct (gdb_message P s id th rel m) as [s' o]. exact G.
  - pose proof (gdb_destroy_inv s id HI) as G. destruct (gdb_destroy s id) as [s' o]. exact G.
  - pose proof (gdb_command_inv s c HI) as G. destruct (gdb_command s c) as [s' o]. exact G.
  - destruct id as [|x id]; [exact HI|]. pose proof (open_conn_inv s (x :: id) sv HI) as G. destruct (open_conn s (x :: id) sv) as [s' o]. exact G.
  - pose proof (close_conn_inv s id HI) as G. destruct (close_conn s id) as [s' o]. exact G.
  - destruct (rel_time b (p_time m)) as [b' rel]. pose proof (conn_message_inv P HP s id rel m HI He) as G.
    destruct (conn_message P s id rel m) as [[[s' o] err] st]. exact G.
Qed.

(* C17 for one step of the session, every event of the log-mode, gdb-mode and sink pipelines:
   the two runs stay in step and each coloured line, stripped, is the plain line stripped *)
Theorem step_color_sim T1 T0 ev : ColorRel T1 T0 -> names_ok (t_sess T1) ->
  ColorRel (fst (step P T1 ev)) (fst (step P T0 ev)) /\ Forall2 LineStrips (snd (step P T1 ev)) (snd (step P T0 ev)).
Proof.
  intros [Hb H] HI. destruct T1 as [b s1]. destruct T0 as [b0 s0]. cbn [t_base t_sess] in *. subst b0.
  destruct ev as [id m|t|c| |id th m|id|c|id sv|id|id m]; unfold step; cbn [t_base t_sess] in *.
  - destruct (rel_time b (p_time m)) as [b' rel]. destruct (log_message_sim P s1 s0 id rel m H HI) as [G1 G2].
    destruct (log_message P s1 id rel m) as [s1' o1]. destruct (log_message P s0 id rel m) as [s0' o0]. cbn [fst snd] in *.
    split; [split; [reflexivity|exact G1]|exact G2].
  - cbn [fst snd]. split; [split; [reflexivity|exact H]|apply unprocessed_line_sim; exact H].
  - destruct (process_command_sim command_fuel s1 s0 c H HI) as [G1 G2].
    destruct (process_command command_fuel s1 c) as [s1' o1]. destruct (process_command command_fuel s0 c) as [s0' o0]. cbn [fst snd] in *.
    split; [split; [reflexivity|exact G1]|exact G2].
  - destruct (log_eof_sim s1 s0 H HI) as [G1 G2].
    destruct (log_eof s1) as [s1' o1]. destruct (log_eof s0) as [s0' o0]. cbn [fst snd] in *.
    split; [split; [reflexivity|exact G1]|exact G2].
  - destruct (rel_time b (p_time m)) as [b' rel]. destruct (gdb_message_sim s1 s0 id th rel m H HI) as [G1 G2].
    destruct (gdb_message P s1 id th rel m) as [s1' o1]. destruct (gdb_message P s0 id th rel m) as [s0' o0]. cbn [fst snd] in *.
    split; [split; [reflexivity|exact G1]|exact G2].
  - destruct (gdb_destroy_sim s1 s0 id H HI) as [G1 G2].
    destruct (gdb_destroy s1 id) as [s1' o1]. destruct (gdb_destroy s0 id) as [s0' o0]. cbn [fst snd] in *.
    split; [split; [reflexivity|exact G1]|exact G2].
  - destruct (gdb_command_sim s1 s0 c H HI) as [G1 G2].
    destruct (gdb_command s1 c) as [s1' o1]. destruct (gdb_command s0 c) as [s0' o0]. cbn [fst snd] in *.
    split; [split; [reflexivity|exact G1]|exact G2].
  - destruct id as [|x id]; [cbn [fst snd]; split; [split; [reflexivity|exact H]|F2; reflexivity]|].
    destruct (open_conn_sim s1 s0 (x :: id) sv H HI) as [G1 G2].
    destruct (open_conn s1 (x :: id) sv) as [s1' o1]. destruct (open_conn s0 (x :: id) sv) as [s0' o0]. cbn [fst snd] in *.
    split; [split; [reflexivity|exact G1]|exact G2].
  - destruct (close_conn_sim s1 s0 id H HI) as [G1 G2].
    destruct (close_conn s1 id) as [s1' o1]. destruct (close_conn s0 id) as [s0' o0]. cbn [fst snd] in *.
    split; [split; [reflexivity|exact G1]|exact G2].
  - destruct (rel_time b (p_time m)) as [b' rel]. destruct (conn_message_sim P s1 s0 id rel m H) as (G1 & G2 & G3 & G4).
    destruct (conn_message P s1 id rel m) as [[[s1' o1] err1] st1]. destruct (conn_message P s0 id rel m) as [[[s0' o0] err0] st0].
    cbn [fst snd] in *. subst err0. split; [split; [reflexivity|exact G1]|]. F2; [exact G2|]. destruct err1 as [[e msg]|]; F2. reflexivity.
Qed.

(* ---- run ---------------------------------------------------------------------------------------------------------- *)
Theorem run_inv es : forall T, TInv T -> Forall ev_ok es -> TInv (fst (run P T es)).
Proof.
  induction es as [|e es IH]; intros T HI He; cbn [run]; [exact HI|].
  inversion He as [|? ? He1 He2]; subst. pose proof (step_inv T e HI He1) as G.
  destruct (step P T e) as [T1 o]. cbn [fst] in G. specialize (IH T1 G He2). destruct (run P T1 es). exact IH.
Qed.

Theorem run_color_sim es : forall T1 T0, ColorRel T1 T0 -> names_ok (t_sess T1) ->
  ColorRel (fst (run P T1 es)) (fst (run P T0 es)) /\ Forall2 (Forall2 LineStrips) (snd (run P T1 es)) (snd (run P T0 es)).
Proof.
  induction es as [|e es IH]; intros T1 T0 H HI; cbn [run]; [split; [exact H|constructor]|].
  destruct (step_color_sim T1 T0 e H HI) as [G1 G2]. pose proof (step_names P T1 e HI) as G3.
  destruct (step P T1 e) as [T1' o1]. destruct (step P T0 e) as [T0' o0]. cbn [fst snd] in *.
  destruct (IH T1' T0' G1 G3) as [K1 K2]. destruct (run P T1' es) as [T1'' os1]. destruct (run P T0' es) as [T0'' os0].
  cbn [fst snd] in *. split; [exact K1|constructor; assumption].
Qed.

End WithP.

(* the two runs start from the same initial state but for the colour switch *)
Lemma ColorRel_init display stop un ig :
  ColorRel (mkTop None (init_sess display stop true un ig)) (mkTop None (init_sess display stop false un ig)).
Proof. split; [reflexivity|split; reflexivity]. Qed.
Lemma TInv_init display stop on un ig : TInv (mkTop None (init_sess display stop on un ig)).
Proof. split; constructor. Qed.

(* C17, first sentence, for the whole tool: any protocol data, any log / gdb / sink events, any
   commands, any start-up matchers: line by line, the coloured output stripped of escape sequences
   is the plain output stripped of escape sequences (and the two runs stay in the same state) *)
Theorem session_color_invariant P display stop un ig es :
  Forall2 (Forall2 LineStrips)
    (snd (run P (mkTop None (init_sess display stop true un ig)) es))
    (snd (run P (mkTop None (init_sess display stop false un ig)) es)).
Proof. apply run_color_sim; [apply ColorRel_init|apply names_ok_init]. Qed.

Print Assumptions step_color_sim.
Print Assumptions session_color_invariant.
Print Assumptions run_color_sim.
