(* DocLayD.v — instances of Renders: the uniform rendering Doc.render, the executable render_l, and the
   tool's own label spelling. *)
From WD Require Import Base Wire Conn Color LetterId Matcher MatcherParse Doc DocLay.
From WD Require Import LetterIdProofs DecodeBasics ColorProofs ProtocolProofs MatcherProofs
  DocParseA DocParseB DocParseC DocParseD DocParseE DocParseF DocLayA DocLayB DocLayC.
From Coq Require Import Lia.
Open Scope N_scope.

(* ---- Doc.render is one way of writing the expression ------------------------------------------------------ *)
Lemma uniform_PJ pad xs : blank pad -> PJ xs (pad ++ join_with (sep44 pad) xs ++ pad).
Proof.
  intros Hp. induction xs as [|x r IH].
  - cbn [join_with app]. apply PJ_nil. apply blank_app; assumption.
  - destruct r as [|y r'].
    + cbn [join_with]. apply PJ_one; assumption.
    + change (join_with (sep44 pad) (x :: y :: r')) with (x ++ sep44 pad ++ join_with (sep44 pad) (y :: r')).
      replace (pad ++ (x ++ sep44 pad ++ join_with (sep44 pad) (y :: r')) ++ pad)
        with (pad ++ x ++ pad ++ 44 :: (pad ++ join_with (sep44 pad) (y :: r') ++ pad))
        by (unfold sep44; rewrite <- ?app_assoc; cbn [app]; rewrite <- ?app_assoc; reflexivity).
      apply PJ_cons; assumption.
Qed.

Lemma uniform_PB pad pos neg : blank pad -> PB pos neg (pad ++ rlist pos neg pad ++ pad).
Proof.
  intros Hp. destruct neg as [|n0 neg'].
  - rewrite rlist_none. apply PB_pos, uniform_PJ, Hp.
  - rewrite rlist_some. apply PB_neg; apply uniform_PJ, Hp.
Qed.

Lemma bracket_sq s pad : bracket s pad = sq (pad ++ s ++ pad).
Proof. rewrite bracket_eq. reflexivity. Qed.

Lemma Forall2_map_self {A} (R : A -> str -> Prop) (r : A -> str) xs : Forall (fun x => R x (r x)) xs -> Forall2 R xs (map r xs).
Proof. intros H. induction H; constructor; assumption. Qed.

Lemma uniform_text pad : blank pad -> forall t, Rtext t (r_text pad t).
Proof.
  intros Hp. induction t as [w|pos neg IHp IHn] using dtext_ind'; cbn [r_text].
  - constructor.
  - rewrite bracket_sq. apply (Rt_list pos neg (map (r_text pad) pos) (map (r_text pad) neg));
      [apply Forall2_map_self, IHp|apply Forall2_map_self, IHn|apply uniform_PB, Hp].
Qed.

Lemma uniform_obj pad : blank pad -> forall o, Robj o (r_obj pad o).
Proof.
  intros Hp. induction o as [|w|a id l| |pos neg IHp IHn] using dobj_ind'; cbn [r_obj]; try constructor.
  rewrite bracket_sq. apply (Ro_list pos neg (map (r_obj pad) pos) (map (r_obj pad) neg));
    [apply Forall2_map_self, IHp|apply Forall2_map_self, IHn|apply uniform_PB, Hp].
Qed.

Lemma uniform_val pad : blank pad -> forall v, Rval v (r_val pad v).
Proof.
  intros Hp. induction v as [|z|n ip fp|s|w|c id l| |pos neg IHp IHn] using dval_ind'; cbn [r_val app]; try constructor.
  rewrite bracket_sq. apply (Rv_list pos neg (map (r_val pad) pos) (map (r_val pad) neg));
    [apply Forall2_map_self, IHp|apply Forall2_map_self, IHn|apply uniform_PB, Hp].
Qed.

Lemma uniform_vopt pad v : blank pad -> Rvopt v (match v with Some d => r_val pad d | None => [] end).
Proof. intros Hp. destruct v; cbn [Rvopt]; [apply uniform_val, Hp|reflexivity]. Qed.

Lemma uniform_item pad : blank pad -> forall i, Ritem i (r_item pad i).
Proof.
  intros Hp. induction i as [name v|pos neg IHp IHn] using ditem_ind'; cbn [r_item].
  - destruct name as [w|].
    + change (w ++ pad ++ [61] ++ pad ++ match v with Some d => r_val pad d | None => [] end)
        with (w ++ pad ++ 61 :: pad ++ match v with Some d => r_val pad d | None => [] end).
      apply Ri_named; [exact Hp|exact Hp|apply uniform_vopt, Hp].
    + apply Ri_unnamed, uniform_vopt, Hp.
  - rewrite bracket_sq. apply (Ri_list pos neg (map (r_item pad) pos) (map (r_item pad) neg));
      [apply Forall2_map_self, IHp|apply Forall2_map_self, IHn|apply uniform_PB, Hp].
Qed.

Lemma Forall_all {A} (P : A -> Prop) xs : (forall x, P x) -> Forall P xs.
Proof. intros H. induction xs; constructor; auto. Qed.

Lemma uniform_args pad d : blank pad -> Rargs d (r_args pad d).
Proof.
  intros Hp. destruct d as [| |pos neg]; cbn [r_args].
  - apply Ra_none, Hp.
  - apply (Ra_never pad pad Hp Hp).
  - apply (Ra_items pos neg (map (r_item pad) pos) (map (r_item pad) neg));
      [apply Forall2_map_self, Forall_all, uniform_item, Hp|apply Forall2_map_self, Forall_all, uniform_item, Hp|apply uniform_PB, Hp].
Qed.

Lemma uniform_pat pad p : blank pad -> Rpat p (r_pat pad p).
Proof.
  intros Hp. unfold r_pat. apply Rpat_intro.
  - destruct (dp_conn p) as [t|]; [|constructor].
    change (r_text pad t ++ pad ++ [58] ++ pad) with (r_text pad t ++ pad ++ 58 :: pad).
    apply Rc_some; [apply uniform_text, Hp|exact Hp|exact Hp].
  - destruct (dp_body p) as [o|o n a]; [apply Rb_bare, uniform_obj, Hp|].
    apply Rb_full; [apply uniform_obj, Hp| |].
    + destruct n as [t|]; [|constructor].
      change (pad ++ [46] ++ pad ++ r_text pad t) with (pad ++ 46 :: pad ++ r_text pad t).
      apply Rn_some; [apply uniform_text, Hp|exact Hp|exact Hp].
    + destruct a as [d|]; [|constructor].
      change (pad ++ [40] ++ r_args pad d ++ [41]) with (pad ++ 40 :: r_args pad d ++ [41]).
      apply Rp_some; [apply uniform_args, Hp|exact Hp].
Qed.

Theorem render_uniform lay e : Renders e (Doc.render lay e).
Proof.
  pose proof (blank_blanks lay) as Hp. destruct e as [| |pos neg]; cbn [Doc.render].
  - apply (R_star _ _ Hp Hp).
  - apply (R_bang _ _ Hp Hp).
  - apply (R_pats pos neg (map (r_pat (blanks lay)) pos) (map (r_pat (blanks lay)) neg));
      [apply Forall2_map_self, Forall_all; intros x; apply uniform_pat, Hp
      |apply Forall2_map_self, Forall_all; intros x; apply uniform_pat, Hp|apply uniform_PB, Hp].
Qed.

(* ---- the executable renderer -------------------------------------------------------------------------------- *)
Lemma sp4_blank l : blank_str (fst (sp4 l)).
Proof. destruct l as [|n r]; [reflexivity|]. cbn [sp4 fst]. apply forallb_repeat. reflexivity. Qed.

Section RLspec.
  Context {A : Type} (f : A -> stream -> str * stream) (R : A -> str -> Prop).

  Lemma rl_pad_spec x l : (forall l', R x (fst (f x l'))) ->
    exists p1 s p2, blank_str p1 /\ blank_str p2 /\ R x s /\ fst (rl_pad f x l) = p1 ++ s ++ p2.
  Proof.
    intros H. unfold rl_pad. pose proof (sp4_blank l) as B1. destruct (sp4 l) as [p1 l1].
    pose proof (H l1) as Hs. destruct (f x l1) as [s l2].
    pose proof (sp4_blank l2) as B2. destruct (sp4 l2) as [p2 l3].
    exists p1, s, p2. auto.
  Qed.

  Lemma rl_seq_spec xs : Forall (fun x => forall l', R x (fst (f x l'))) xs ->
    forall l, exists ss, Forall2 R xs ss /\ PJ ss (fst (rl_seq f xs l)).
  Proof.
    intros H. induction H as [|x r Hx Hr IH]; intros l.
    - exists []. split; [constructor|]. cbn [rl_seq]. apply PJ_nil, sp4_blank.
    - destruct r as [|y r'].
      + cbn [rl_seq]. destruct (rl_pad_spec x l Hx) as [p1 [s [p2 [B1 [B2 [Hs E]]]]]].
        exists [s]. split; [constructor; [exact Hs|constructor]|]. rewrite E. apply PJ_one; assumption.
      + change (rl_seq f (x :: y :: r') l) with
          (let '(s1, l1) := rl_pad f x l in let '(s2, l2) := rl_seq f (y :: r') l1 in (s1 ++ 44 :: s2, l2)).
        destruct (rl_pad_spec x l Hx) as [p1 [s [p2 [B1 [B2 [Hs E]]]]]].
        destruct (rl_pad f x l) as [s1 l1]. cbn [fst] in E. subst s1.
        destruct (IH l1) as [ss [F2 HJ]]. destruct (rl_seq f (y :: r') l1) as [s2 l2]. cbn [fst] in *.
        inversion F2 as [|a b xs' ss' Hab Hrest]; subst.
        exists (s :: b :: ss'). split; [constructor; assumption|].
        replace ((p1 ++ s ++ p2) ++ 44 :: s2) with (p1 ++ s ++ p2 ++ 44 :: s2) by (rewrite <- ?app_assoc; reflexivity).
        apply PJ_cons; assumption.
  Qed.

  Lemma rl_body_spec pos neg : Forall (fun x => forall l', R x (fst (f x l'))) pos ->
    Forall (fun x => forall l', R x (fst (f x l'))) neg ->
    forall l, exists ps ns, Forall2 R pos ps /\ Forall2 R neg ns /\ PB ps ns (fst (rl_body f pos neg l)).
  Proof.
    intros H1 H2 l. unfold rl_body. destruct (rl_seq_spec pos H1 l) as [ps [F1 J1]].
    destruct (rl_seq f pos l) as [a l1]. cbn [fst] in J1. destruct neg as [|n0 neg'].
    - exists ps, []. split; [exact F1|]. split; [constructor|]. cbn [fst]. apply PB_pos, J1.
    - destruct (rl_seq_spec (n0 :: neg') H2 l1) as [ns [F2 J2]].
      destruct (rl_seq f (n0 :: neg') l1) as [b l2]. cbn [fst] in *.
      inversion F2 as [|x y xs' ss' Hxy Hrest]; subst.
      exists ps, (y :: ss'). split; [exact F1|]. split; [exact F2|]. apply PB_neg; assumption.
  Qed.
End RLspec.

Lemma rl_text_spec : forall t l, Rtext t (fst (rl_text t l)).
Proof.
  induction t as [w|pos neg IHp IHn] using dtext_ind'; intros l; cbn [rl_text].
  - constructor.
  - destruct (rl_body_spec rl_text Rtext pos neg IHp IHn l) as [ps [ns [F1 [F2 HB]]]].
    destruct (rl_body rl_text pos neg l) as [b l']. cbn [fst] in *. apply (Rt_list pos neg ps ns); assumption.
Qed.

Lemma rl_obj_spec : forall o l, Robj o (fst (rl_obj o l)).
Proof.
  induction o as [|w|a id l0| |pos neg IHp IHn] using dobj_ind'; intros l; cbn [rl_obj fst r_obj]; try constructor.
  destruct (rl_body_spec rl_obj Robj pos neg IHp IHn l) as [ps [ns [F1 [F2 HB]]]].
  destruct (rl_body rl_obj pos neg l) as [b l']. cbn [fst] in *. apply (Ro_list pos neg ps ns); assumption.
Qed.

Lemma rl_val_spec : forall v l, Rval v (fst (rl_val v l)).
Proof.
  induction v as [|z|n ip fp|s|w|c id l0| |pos neg IHp IHn] using dval_ind'; intros l; cbn [rl_val fst r_val app]; try constructor.
  destruct (rl_body_spec rl_val Rval pos neg IHp IHn l) as [ps [ns [F1 [F2 HB]]]].
  destruct (rl_body rl_val pos neg l) as [b l']. cbn [fst] in *. apply (Rv_list pos neg ps ns); assumption.
Qed.

Lemma rl_vopt_spec v l : Rvopt v (fst (rl_vopt v l)).
Proof. destruct v as [d|]; cbn [rl_vopt Rvopt]; [apply rl_val_spec|reflexivity]. Qed.

Lemma rl_item_spec : forall i l, Ritem i (fst (rl_item i l)).
Proof.
  induction i as [name v|pos neg IHp IHn] using ditem_ind'; intros l; cbn [rl_item].
  - destruct name as [w|].
    + pose proof (sp4_blank l) as B1. destruct (sp4 l) as [p1 l1].
      pose proof (sp4_blank l1) as B2. destruct (sp4 l1) as [p2 l2].
      pose proof (rl_vopt_spec v l2) as Hv. destruct (rl_vopt v l2) as [sv l3]. cbn [fst] in *.
      apply Ri_named; assumption.
    + apply Ri_unnamed, rl_vopt_spec.
  - destruct (rl_body_spec rl_item Ritem pos neg IHp IHn l) as [ps [ns [F1 [F2 HB]]]].
    destruct (rl_body rl_item pos neg l) as [b l']. cbn [fst] in *. apply (Ri_list pos neg ps ns); assumption.
Qed.

Lemma rl_args_spec d l : Rargs d (fst (rl_args d l)).
Proof.
  destruct d as [| |pos neg]; cbn [rl_args].
  - apply Ra_none, sp4_blank.
  - pose proof (sp4_blank l) as B1. destruct (sp4 l) as [p1 l1].
    pose proof (sp4_blank l1) as B2. destruct (sp4 l1) as [p2 l2]. cbn [fst] in *. apply Ra_never; assumption.
  - destruct (rl_body_spec rl_item Ritem pos neg (Forall_all _ _ rl_item_spec) (Forall_all _ _ rl_item_spec) l) as [ps [ns [F1 [F2 HB]]]].
    apply (Ra_items pos neg ps ns); assumption.
Qed.

Lemma rl_pat_spec p l : Rpat p (fst (rl_pat p l)).
Proof.
  unfold rl_pat.
  assert (HC : forall l0, Rconn (dp_conn p) (fst (match dp_conn p with
     | None => ([], l0)
     | Some t => let '(st, l1) := rl_text t l0 in let '(p1, l2) := sp4 l1 in let '(p2, l3) := sp4 l2 in
                 (st ++ p1 ++ 58 :: p2, l3) end))).
  { intros l0. destruct (dp_conn p) as [t|]; [|constructor].
    pose proof (rl_text_spec t l0) as Ht. destruct (rl_text t l0) as [st l1].
    pose proof (sp4_blank l1) as B1. destruct (sp4 l1) as [p1 l2].
    pose proof (sp4_blank l2) as B2. destruct (sp4 l2) as [p2 l3]. cbn [fst] in *. apply Rc_some; assumption. }
  specialize (HC l).
  destruct (match dp_conn p with
     | None => ([], l)
     | Some t => let '(st, l1) := rl_text t l in let '(p1, l2) := sp4 l1 in let '(p2, l3) := sp4 l2 in
                 (st ++ p1 ++ 58 :: p2, l3) end) as [sc l1]. cbn [fst] in HC.
  assert (HB : forall l0, Rbody (dp_body p) (fst (match dp_body p with
    | BBare o => rl_obj o l0
    | BFull o n a =>
        let '(so, k1) := rl_obj o l0 in
        let '(sn, k2) :=
          match n with
          | None => ([], k1)
          | Some t => let '(p1, j1) := sp4 k1 in let '(p2, j2) := sp4 j1 in let '(st, j3) := rl_text t j2 in
                      (p1 ++ 46 :: p2 ++ st, j3)
          end in
        let '(sa, k3) :=
          match a with
          | None => ([], k2)
          | Some d => let '(p, j1) := sp4 k2 in let '(sd, j2) := rl_args d j1 in (p ++ 40 :: sd ++ [41], j2)
          end in
        (so ++ sn ++ sa, k3)
    end))).
  { intros l0. destruct (dp_body p) as [o|o n a]; [apply Rb_bare, rl_obj_spec|].
    pose proof (rl_obj_spec o l0) as Ho. destruct (rl_obj o l0) as [so k1]. cbn [fst] in Ho.
    assert (HN : forall k, Rname n (fst (match n with
          | None => ([], k)
          | Some t => let '(p1, j1) := sp4 k in let '(p2, j2) := sp4 j1 in let '(st, j3) := rl_text t j2 in
                      (p1 ++ 46 :: p2 ++ st, j3) end))).
    { intros k. destruct n as [t|]; [|constructor].
      pose proof (sp4_blank k) as B1. destruct (sp4 k) as [p1 j1].
      pose proof (sp4_blank j1) as B2. destruct (sp4 j1) as [p2 j2].
      pose proof (rl_text_spec t j2) as Ht. destruct (rl_text t j2) as [st j3]. cbn [fst] in *. apply Rn_some; assumption. }
    specialize (HN k1).
    destruct (match n with
          | None => ([], k1)
          | Some t => let '(p1, j1) := sp4 k1 in let '(p2, j2) := sp4 j1 in let '(st, j3) := rl_text t j2 in
                      (p1 ++ 46 :: p2 ++ st, j3) end) as [sn k2]. cbn [fst] in HN.
    assert (HA : forall k, Rparen a (fst (match a with
          | None => ([], k)
          | Some d => let '(p, j1) := sp4 k in let '(sd, j2) := rl_args d j1 in (p ++ 40 :: sd ++ [41], j2)
          end))).
    { intros k. destruct a as [d|]; [|constructor].
      pose proof (sp4_blank k) as B. destruct (sp4 k) as [p0 j1].
      pose proof (rl_args_spec d j1) as Hd. destruct (rl_args d j1) as [sd j2]. cbn [fst] in *. apply Rp_some; assumption. }
    specialize (HA k2).
    destruct (match a with
          | None => ([], k2)
          | Some d => let '(p, j1) := sp4 k2 in let '(sd, j2) := rl_args d j1 in (p ++ 40 :: sd ++ [41], j2)
          end) as [sa k3]. cbn [fst] in *. apply Rb_full; assumption. }
  specialize (HB l1).
  match goal with |- Rpat p (fst (let '(sb, l2) := ?X in _)) => destruct X as [sb l2] end.
  cbn [fst] in *. apply Rpat_intro; assumption.
Qed.

Theorem render_l_Renders : forall l e, Renders e (render_l l e).
Proof.
  intros l e. destruct e as [| |pos neg]; cbn [render_l].
  - pose proof (sp4_blank l) as B1. destruct (sp4 l) as [p1 l1].
    pose proof (sp4_blank l1) as B2. destruct (sp4 l1) as [p2 l2]. apply R_star; assumption.
  - pose proof (sp4_blank l) as B1. destruct (sp4 l) as [p1 l1].
    pose proof (sp4_blank l1) as B2. destruct (sp4 l1) as [p2 l2]. apply R_bang; assumption.
  - destruct (rl_body_spec rl_pat Rpat pos neg (Forall_all _ _ rl_pat_spec) (Forall_all _ _ rl_pat_spec) l) as [ps [ns [F1 [F2 HB]]]].
    apply (R_pats pos neg ps ns); assumption.
Qed.

(* every rendering by the executable renderer parses to the expected matcher *)
Corollary parse_render_l l e : wf_top e = true -> mok_top e = true -> bracket_depth_ok e ->
  exists m, parse (render_l l e) = Ok m /\ simplify m = simplify (elab e).
Proof. intros W M D. apply (parse_renders e _ W M D), render_l_Renders. Qed.

(* ---- the tool's own label spelling `B: 7c` --------------------------------------------------------------------- *)
Example label_spelling :
  Renders (TPats [mkDpat (Some (TWord [66])) (BBare (OId None 7 [99]))] []) (s2l "B: 7c").
Proof.
  apply (R_pats _ _ [s2l "B: 7c"] []); [|constructor|].
  - constructor; [|constructor].
    change (s2l "B: 7c") with (([66] ++ [] ++ 58 :: [32]) ++ r_id None 7 [99]).
    apply Rpat_intro; cbn [dp_conn dp_body].
    + apply Rc_some; [constructor|reflexivity|reflexivity].
    + apply Rb_bare. constructor.
  - apply PB_pos. apply (PJ_one [] (s2l "B: 7c") []); reflexivity.
Qed.

Example label_spelling_parses :
  exists m, parse (s2l "B: 7c") = Ok m /\
            simplify m = simplify (elab (TPats [mkDpat (Some (TWord [66])) (BBare (OId None 7 [99]))] [])).
Proof.
  apply (parse_renders (TPats [mkDpat (Some (TWord [66])) (BBare (OId None 7 [99]))] []) (s2l "B: 7c"));
    [reflexivity|reflexivity|apply Nat.le_0_l|apply label_spelling].
Qed.

Print Assumptions render_l_Renders.
Print Assumptions render_uniform.
