(* DocParseF.v — T1 with the side condition on the syntax tree: the bracket nesting of the
   expression (nest_top) is what bracket_depth computes on the rendered text, so
   [bracket_depth_ok e := nest_top e <= 60] keeps [parse] inside the model. *)
From WD Require Import Base Wire Conn Color LetterId Matcher MatcherParse Doc.
From WD Require Import LetterIdProofs DecodeBasics ColorProofs ProtocolProofs MatcherProofs
  DocParseA DocParseB DocParseC DocParseD DocParseE.
From Coq Require Import Lia ZifyBool ZifyNat ZifyN.
Open Scope N_scope.

(* ---- nesting of the syntax ------------------------------------------------------------------------------- *)
Section LMax.
  Context {A : Type} (d : A -> nat).
  Fixpoint lmax (l : list A) : nat := match l with [] => O | x :: r => Nat.max (d x) (lmax r) end.
End LMax.

Fixpoint nest_text (t : dtext) : nat :=
  match t with
  | TWord _ => O
  | TList pos neg => S (Nat.max (lmax nest_text pos) (lmax nest_text neg))
  end.
Fixpoint nest_obj (t : dobj) : nat :=
  match t with
  | OList pos neg => S (Nat.max (lmax nest_obj pos) (lmax nest_obj neg))
  | _ => O
  end.
Fixpoint nest_val (t : dval) : nat :=
  match t with
  | VList pos neg => S (Nat.max (lmax nest_val pos) (lmax nest_val neg))
  | _ => O
  end.
Fixpoint nest_item (t : ditem) : nat :=
  match t with
  | IItem _ (Some v) => nest_val v
  | IItem _ None => O
  | IList pos neg => S (Nat.max (lmax nest_item pos) (lmax nest_item neg))
  end.

Lemma nest_text_list pos neg : nest_text (TList pos neg) = S (Nat.max (lmax nest_text pos) (lmax nest_text neg)).
Proof. reflexivity. Qed.
Lemma nest_obj_list pos neg : nest_obj (OList pos neg) = S (Nat.max (lmax nest_obj pos) (lmax nest_obj neg)).
Proof. reflexivity. Qed.
Lemma nest_val_list pos neg : nest_val (VList pos neg) = S (Nat.max (lmax nest_val pos) (lmax nest_val neg)).
Proof. reflexivity. Qed.
Lemma nest_item_list pos neg : nest_item (IList pos neg) = S (Nat.max (lmax nest_item pos) (lmax nest_item neg)).
Proof. reflexivity. Qed.

Definition nest_opt {A} (d : A -> nat) (o : option A) : nat := match o with Some x => d x | None => O end.
Definition nest_args (a : dargs) : nat :=
  match a with AItems pos neg => Nat.max (lmax nest_item pos) (lmax nest_item neg) | _ => O end.
Definition nest_body (b : dbody) : nat :=
  match b with
  | BBare o => nest_obj o
  | BFull o n a => Nat.max (nest_obj o) (Nat.max (nest_opt nest_text n) (nest_opt nest_args a))
  end.
Definition nest_pat (p : dpat) : nat := Nat.max (nest_opt nest_text (dp_conn p)) (nest_body (dp_body p)).
Definition nest_top (t : dtop) : nat :=
  match t with TPats pos neg => Nat.max (lmax nest_pat pos) (lmax nest_pat neg) | _ => O end.

(* the side condition of T1 *)
Definition bracket_depth_ok (e : dtop) : Prop := (nest_top e <= max_depth)%nat.

(* ---- bracket_depth on text of known depth ------------------------------------------------------------------ *)
Definition HasDepth (s : str) (D : nat) : Prop :=
  forall rest cur best, (cur <= best)%nat ->
  bracket_depth (s ++ rest) cur best = bracket_depth rest cur (Nat.max best (cur + D)).

Lemma bd_flat s : free_of 91 93 s = true -> forall rest cur best,
  bracket_depth (s ++ rest) cur best = bracket_depth rest cur best.
Proof.
  unfold free_of. induction s as [|c s IH]; intros H rest cur best; [reflexivity|].
  cbn [forallb] in H. apply andb_true_iff in H. destruct H as [H1 H2].
  apply andb_true_iff in H1. destruct H1 as [A B]. apply negb_true_iff in A, B.
  cbn [app bracket_depth]. rewrite A, B. apply IH, H2.
Qed.

Lemma HasDepth_flat s : free_of 91 93 s = true -> HasDepth s 0.
Proof. intros H rest cur best Hc. rewrite bd_flat by exact H. f_equal. lia. Qed.

Lemma HasDepth_app a b D1 D2 : HasDepth a D1 -> HasDepth b D2 -> HasDepth (a ++ b) (Nat.max D1 D2).
Proof.
  intros Ha Hb rest cur best Hc. rewrite <- app_assoc. rewrite Ha by exact Hc. rewrite Hb by lia. f_equal. lia.
Qed.

Lemma HasDepth_eq s D D' : D = D' -> HasDepth s D -> HasDepth s D'.
Proof. intros ->. auto. Qed.

Lemma blank_free b : blank b -> free_of 91 93 b = true.
Proof. unfold blank, free_of. apply forallb_impl. intros c H. ccx. Qed.

Lemma HasDepth_blank b : blank b -> HasDepth b 0.
Proof. intros H. apply HasDepth_flat, blank_free, H. Qed.

Lemma HasDepth_one (c : char) : c <> 91 -> c <> 93 -> HasDepth [c] 0.
Proof.
  intros H1 H2. apply HasDepth_flat. unfold free_of. cbn [forallb].
  apply N.eqb_neq in H1, H2. rewrite H1, H2. reflexivity.
Qed.

Lemma HasDepth_nil : HasDepth [] 0.
Proof. apply HasDepth_flat. reflexivity. Qed.

Lemma HasDepth_bracket s pad D : blank pad -> HasDepth s D -> HasDepth (bracket s pad) (S D).
Proof.
  intros Hp Hs rest cur best Hc. rewrite bracket_eq. cbn [app]. rewrite <- app_assoc. cbn [app bracket_depth].
  cbn [N.eqb Pos.eqb].
  assert (HX : HasDepth (pad ++ s ++ pad) D).
  { apply (HasDepth_eq _ (Nat.max 0 (Nat.max D 0))); [lia|].
    apply HasDepth_app; [apply HasDepth_blank, Hp|]. apply HasDepth_app; [exact Hs|apply HasDepth_blank, Hp]. }
  rewrite HX by lia. cbn [bracket_depth N.eqb Pos.eqb Nat.pred]. f_equal. lia.
Qed.

Lemma HasDepth_join {A} (r : A -> str) (d : A -> nat) sep xs :
  HasDepth sep 0 -> Forall (fun x => HasDepth (r x) (d x)) xs -> HasDepth (join_with sep (map r xs)) (lmax d xs).
Proof.
  intros Hs H. induction H as [|x l Hx Hl IH]; [apply HasDepth_nil|].
  cbn [map join_with lmax]. destruct l as [|y l'].
  - cbn [map lmax]. apply (HasDepth_eq _ (d x)); [lia|exact Hx].
  - change (map r (y :: l')) with (r y :: map r l') in *.
    apply (HasDepth_eq _ (Nat.max (d x) (Nat.max 0 (lmax d (y :: l'))))); [lia|].
    apply HasDepth_app; [exact Hx|]. apply HasDepth_app; [exact Hs|exact IH].
Qed.

Lemma HasDepth_sep pad (c : char) : blank pad -> c <> 91 -> c <> 93 -> HasDepth (pad ++ [c] ++ pad) 0.
Proof.
  intros Hp H1 H2. apply (HasDepth_eq _ (Nat.max 0 (Nat.max 0 0))); [reflexivity|].
  apply HasDepth_app; [apply HasDepth_blank, Hp|]. apply HasDepth_app; [apply HasDepth_one; assumption|apply HasDepth_blank, Hp].
Qed.

Lemma HasDepth_rlist {A} (r : A -> str) (d : A -> nat) pad pos neg : blank pad ->
  Forall (fun x => HasDepth (r x) (d x)) pos -> Forall (fun x => HasDepth (r x) (d x)) neg ->
  HasDepth (rlist (map r pos) (map r neg) pad) (Nat.max (lmax d pos) (lmax d neg)).
Proof.
  intros Hp H1 H2. unfold rlist. apply HasDepth_app.
  - apply HasDepth_join; [apply HasDepth_sep; [exact Hp|discriminate|discriminate]|exact H1].
  - destruct neg as [|n0 neg']; [apply HasDepth_nil|].
    change (map r (n0 :: neg')) with (r n0 :: map r neg').
    apply (HasDepth_eq _ (Nat.max 0 (Nat.max 0 (Nat.max 0 (lmax d (n0 :: neg')))))); [lia|].
    apply HasDepth_app; [apply HasDepth_blank, Hp|]. apply HasDepth_app; [apply HasDepth_one; discriminate|].
    apply HasDepth_app; [apply HasDepth_blank, Hp|].
    change (r n0 :: map r neg') with (map r (n0 :: neg')).
    apply HasDepth_join; [apply HasDepth_sep; [exact Hp|discriminate|discriminate]|exact H2].
Qed.

Lemma HasDepth_list {A} (r : A -> str) (d : A -> nat) pad pos neg : blank pad ->
  Forall (fun x => HasDepth (r x) (d x)) pos -> Forall (fun x => HasDepth (r x) (d x)) neg ->
  HasDepth (bracket (rlist (map r pos) (map r neg) pad) pad) (S (Nat.max (lmax d pos) (lmax d neg))).
Proof. intros Hp H1 H2. apply HasDepth_bracket; [exact Hp|]. apply HasDepth_rlist; assumption. Qed.

(* ---- flat atoms ----------------------------------------------------------------------------------------------- *)
Lemma idc_free s : forallb idc s = true -> free_of 91 93 s = true.
Proof. unfold free_of. apply forallb_impl. intros c H. unfold idc in H. ccx. Qed.

Lemma ident_flat s : forallb ident_char s = true -> HasDepth s 0.
Proof. intros H. apply HasDepth_flat, idc_free, ident_idc, H. Qed.

Lemma float_free s : forallb float_char s = true -> free_of 91 93 s = true.
Proof. unfold free_of. apply forallb_impl. intros c H. unfold float_char in H. ccx. Qed.

(* ---- the levels -------------------------------------------------------------------------------------------------- *)
Lemma text_depth pad : blank pad -> forall t, wf_text t = true -> HasDepth (r_text pad t) (nest_text t).
Proof.
  intros Hp. induction t as [w|pos neg IHp IHn] using dtext_ind'; intros W.
  - cbn [wf_text r_text nest_text] in *. destruct (wf_tword_inv w W) as [_ Hi]. apply ident_flat, Hi.
  - cbn [wf_text] in W. apply andb_true_iff in W. destruct W as [W W3].
    apply andb_true_iff in W. destruct W as [W1 W2]. rewrite nest_text_list. cbn [r_text].
    apply HasDepth_list; [exact Hp| |].
    + apply (Forall_wf wf_text); [|exact W1]. exact IHp.
    + apply (Forall_wf wf_text); [|exact W2]. exact IHn.
Qed.

Lemma obj_depth pad : blank pad -> forall o, wf_obj o = true -> HasDepth (r_obj pad o) (nest_obj o).
Proof.
  intros Hp. induction o as [|w|a id l| |pos neg IHp IHn] using dobj_ind'; intros W.
  - apply HasDepth_nil.
  - cbn [wf_obj r_obj nest_obj] in *. destruct (wf_word_inv w W) as [c [r [E [_ [Hi _]]]]]. apply ident_flat, Hi.
  - cbn [r_obj nest_obj]. destruct (wf_obj_id_inv a id l W) as [H1 [H2 H3]].
    apply HasDepth_flat, idc_free, r_id_idc; assumption.
  - cbn [r_obj nest_obj]. apply HasDepth_flat. reflexivity.
  - cbn [wf_obj] in W. apply andb_true_iff in W. destruct W as [W W3].
    apply andb_true_iff in W. destruct W as [W1 W2]. rewrite nest_obj_list. cbn [r_obj].
    apply HasDepth_list; [exact Hp| |].
    + apply (Forall_wf wf_obj); [|exact W1]. exact IHp.
    + apply (Forall_wf wf_obj); [|exact W2]. exact IHn.
Qed.

Lemma val_depth pad : blank pad -> forall v, wf_val v = true -> HasDepth (r_val pad v) (nest_val v).
Proof.
  intros Hp. induction v as [|z|n ip fp|s|w|c id l| |pos neg IHp IHn] using dval_ind'; intros W.
  - apply HasDepth_flat. reflexivity.
  - cbn [r_val nest_val]. apply HasDepth_flat, idc_free, num_idc, z_to_dec_chars.
  - cbn [r_val nest_val]. destruct (wf_val_float_inv n ip fp W) as [H1 [H2 H3]].
    apply HasDepth_flat, float_free, r_float_chars; assumption.
  - cbn [r_val nest_val wf_val] in *. destruct (str_char_ok_free s W) as [_ [_ [F _]]].
    apply HasDepth_flat. rewrite !free_of_app, F. reflexivity.
  - cbn [r_val nest_val wf_val] in *. destruct (wf_word_inv w W) as [c [r [E [_ [Hi _]]]]]. apply ident_flat, Hi.
  - cbn [r_val nest_val]. destruct (wf_val_obj_inv c id l W) as [H1 [H2 H3]].
    apply HasDepth_flat, idc_free, r_id_idc; assumption.
  - apply HasDepth_flat. reflexivity.
  - cbn [wf_val] in W. apply andb_true_iff in W. destruct W as [W W3].
    apply andb_true_iff in W. destruct W as [W1 W2]. rewrite nest_val_list. cbn [r_val].
    apply HasDepth_list; [exact Hp| |].
    + apply (Forall_wf wf_val); [|exact W1]. exact IHp.
    + apply (Forall_wf wf_val); [|exact W2]. exact IHn.
Qed.

Lemma rv_depth pad v : blank pad -> match v with Some d => wf_val d | None => true end = true ->
  HasDepth (rv_of pad v) (nest_opt nest_val v).
Proof. intros Hp W. destruct v as [d|]; cbn [rv_of nest_opt]; [apply val_depth; assumption|apply HasDepth_nil]. Qed.

Lemma item_depth pad : blank pad -> forall i, wf_item i = true -> HasDepth (r_item pad i) (nest_item i).
Proof.
  intros Hp. induction i as [name v|pos neg IHp IHn] using ditem_ind'; intros W.
  - destruct (wf_item_inv name v W) as [W1 [W2 W3]]. pose proof (rv_depth pad v Hp W2) as Hv.
    assert (E : nest_item (IItem name v) = nest_opt nest_val v) by (destruct v; reflexivity). rewrite E.
    destruct name as [w|].
    + rewrite named_eq. destruct (wf_tword_inv w W1) as [_ Hi].
      apply (HasDepth_eq _ (Nat.max (Nat.max 0 0) (Nat.max 0 (Nat.max 0 (nest_opt nest_val v))))); [lia|].
      apply HasDepth_app; [apply HasDepth_app; [apply ident_flat, Hi|apply HasDepth_blank, Hp]|].
      change (61 :: pad ++ rv_of pad v) with ([61] ++ pad ++ rv_of pad v).
      apply HasDepth_app; [apply HasDepth_one; discriminate|]. apply HasDepth_app; [apply HasDepth_blank, Hp|exact Hv].
    + cbn [r_item]. exact Hv.
  - cbn [wf_item] in W. apply andb_true_iff in W. destruct W as [W W3].
    apply andb_true_iff in W. destruct W as [W1 W2]. rewrite nest_item_list. cbn [r_item].
    apply HasDepth_list; [exact Hp| |].
    + apply (Forall_wf wf_item); [|exact W1]. exact IHp.
    + apply (Forall_wf wf_item); [|exact W2]. exact IHn.
Qed.

Lemma Forall_of_forallb {A} (wf : A -> bool) (Q : A -> Prop) xs :
  (forall x, wf x = true -> Q x) -> forallb wf xs = true -> Forall Q xs.
Proof. intros H W. apply Forall_forall. intros x Hx. apply H. exact (forallb_In wf xs x W Hx). Qed.

Lemma args_depth pad d : blank pad -> wf_args d = true -> HasDepth (r_args pad d) (nest_args d).
Proof.
  intros Hp W. destruct d as [| |pos neg]; cbn [r_args nest_args].
  - apply HasDepth_blank, Hp.
  - apply HasDepth_sep; [exact Hp|discriminate|discriminate].
  - cbn [wf_args] in W. apply andb_true_iff in W. destruct W as [W W3].
    apply andb_true_iff in W. destruct W as [W1 W2].
    apply (HasDepth_eq _ (Nat.max 0 (Nat.max (Nat.max (lmax nest_item pos) (lmax nest_item neg)) 0))); [lia|].
    apply HasDepth_app; [apply HasDepth_blank, Hp|]. apply HasDepth_app; [|apply HasDepth_blank, Hp].
    apply HasDepth_rlist; [exact Hp| |]; eapply Forall_of_forallb; try eassumption; apply item_depth; exact Hp.
Qed.

Lemma pat_depth pad p : blank pad -> wf_pat p = true -> HasDepth (r_pat pad p) (nest_pat p).
Proof.
  intros Hp W. rewrite r_pat_eq. destruct (wf_pat_body_inv p W) as [W1 _]. pose proof (wf_body_of p W) as W2.
  unfold nest_pat. apply HasDepth_app.
  - destruct (dp_conn p) as [t|]; cbn [conn_str nest_opt]; [|apply HasDepth_nil].
    apply (HasDepth_eq _ (Nat.max (nest_text t) (Nat.max 0 (Nat.max 0 0)))); [lia|].
    apply HasDepth_app; [apply text_depth; assumption|]. apply HasDepth_sep; [exact Hp|discriminate|discriminate].
  - destruct (dp_body p) as [o|o n a]; cbn [body_str nest_body].
    + apply obj_depth; assumption.
    + destruct W2 as [X1 [X2 X3]]. apply HasDepth_app; [apply obj_depth; assumption|]. apply HasDepth_app.
      * destruct n as [t|]; cbn [npart nest_opt]; [|apply HasDepth_nil].
        apply (HasDepth_eq _ (Nat.max 0 (Nat.max 0 (Nat.max 0 (nest_text t))))); [lia|].
        apply HasDepth_app; [apply HasDepth_blank, Hp|]. apply HasDepth_app; [apply HasDepth_one; discriminate|].
        apply HasDepth_app; [apply HasDepth_blank, Hp|apply text_depth; assumption].
      * destruct a as [d|]; cbn [apart nest_opt]; [|apply HasDepth_nil].
        apply (HasDepth_eq _ (Nat.max 0 (Nat.max 0 (Nat.max (nest_args d) 0)))); [lia|].
        apply HasDepth_app; [apply HasDepth_blank, Hp|]. apply HasDepth_app; [apply HasDepth_one; discriminate|].
        apply HasDepth_app; [apply args_depth; assumption|apply HasDepth_one; discriminate].
Qed.

(* ---- the whole text ------------------------------------------------------------------------------------------------ *)
Lemma bd_trail_flat b : free_of 91 93 b = true -> forall s cur best,
  bracket_depth (s ++ b) cur best = bracket_depth s cur best.
Proof.
  intros Hb. induction s as [|c s IH]; intros cur best.
  - cbn [app]. rewrite <- (app_nil_r b). rewrite bd_flat by exact Hb. reflexivity.
  - cbn [app bracket_depth]. destruct (N.eqb c 91); [apply IH|]. destruct (N.eqb c 93); apply IH.
Qed.

Lemma bd_strip t : bracket_depth (strip t) 0 0 = bracket_depth t 0 0.
Proof.
  destruct (strip_decomp t) as [b1 [b2 [H1 [H2 E]]]]. rewrite E at 2.
  rewrite bd_flat by (apply blank_free, H1). rewrite bd_trail_flat by (apply blank_free, H2). reflexivity.
Qed.

Lemma HasDepth_total s D : HasDepth s D -> bracket_depth s 0 0 = D.
Proof. intros H. rewrite <- (app_nil_r s). rewrite H by apply le_n. cbn [bracket_depth]. lia. Qed.

Theorem render_depth lay e : wf_top e = true -> bracket_depth (strip (Doc.render lay e)) 0 0 = nest_top e.
Proof.
  intros W. pose proof (blank_blanks lay) as Hp. rewrite bd_strip. apply HasDepth_total.
  destruct e as [| |pos neg]; cbn [Doc.render nest_top].
  - apply HasDepth_sep; [exact Hp|discriminate|discriminate].
  - apply HasDepth_sep; [exact Hp|discriminate|discriminate].
  - cbn [wf_top] in W. apply andb_true_iff in W. destruct W as [W W3].
    apply andb_true_iff in W. destruct W as [W1 W2].
    apply (HasDepth_eq _ (Nat.max 0 (Nat.max (Nat.max (lmax nest_pat pos) (lmax nest_pat neg)) 0))); [lia|].
    apply HasDepth_app; [apply HasDepth_blank, Hp|]. apply HasDepth_app; [|apply HasDepth_blank, Hp].
    apply HasDepth_rlist; [exact Hp| |]; eapply Forall_of_forallb; try eassumption; intros x Hx; apply pat_depth; assumption.
Qed.

(* ---- T1 ----------------------------------------------------------------------------------------------------------------- *)
Theorem parse_render : forall lay e, wf_top e = true -> mok_top e = true -> bracket_depth_ok e ->
  exists m, parse (Doc.render lay e) = Ok m /\ simplify m = simplify (elab e).
Proof.
  intros lay e W M D. apply parse_render_mok; try assumption.
  rewrite render_depth by exact W. apply Nat.leb_le. exact D.
Qed.

(* without the restriction the parser still never builds a wrong matcher: it answers OutOfModel or the
   expected matcher — here only the positive half is stated; see cex_word / cex_str in DocParseE. *)
Print Assumptions parse_render.
