(* Proofs about colour (C17): escape sequences are presentation only. *)
From WD Require Import Base Color.
From Coq Require Import Lia.
Open Scope N_scope.

Definition esc_free (s : str) : Prop := forallb (fun c => negb (N.eqb c 27)) s = true.
Definition valid_code (c : str) : Prop := forallb is_sgr_body c = true.

Lemma esc_free_app a b : esc_free (a ++ b) <-> esc_free a /\ esc_free b.
Proof. unfold esc_free. rewrite forallb_app, andb_true_iff. tauto. Qed.

(* ---- no_color on fuel: enough fuel is enough ------------------------------------------------------- *)
Lemma nc_step_nonesc f c s : c <> 27 -> no_color_fuel (S f) (c :: s) = c :: no_color_fuel f s.
Proof.
  intros Hc. cbn [no_color_fuel]. destruct c as [|p]; [reflexivity|].
  do 5 (destruct p as [p|p|]; try reflexivity). exfalso; apply Hc; reflexivity.
Qed.
Lemma nc_step_esc_other f d s : d <> 91 -> no_color_fuel (S f) (27 :: d :: s) = 27 :: no_color_fuel f (d :: s).
Proof.
  intros Hd. cbn [no_color_fuel]. destruct d as [|p]; [reflexivity|].
  do 7 (destruct p as [p|p|]; try reflexivity). exfalso; apply Hd; reflexivity.
Qed.
Lemma nc_step_esc_end f : no_color_fuel (S f) [27] = 27 :: no_color_fuel f [].
Proof. reflexivity. Qed.
Lemma nc_step_csi f s : no_color_fuel (S f) (27 :: 91 :: s) =
  match match_sgr s with Some rest => no_color_fuel f rest | None => 27 :: no_color_fuel f (91 :: s) end.
Proof. reflexivity. Qed.

Lemma skip_sgr_body_len t : (List.length (skip_sgr_body t) <= List.length t)%nat.
Proof. induction t as [|x t IHt]; cbn; [lia|]. destruct (is_sgr_body x); cbn; lia. Qed.

Lemma match_sgr_len s rest : match_sgr s = Some rest -> (List.length rest < List.length s)%nat.
Proof.
  unfold match_sgr. pose proof (skip_sgr_body_len s) as G. destruct (skip_sgr_body s) as [|m r]; [discriminate|].
  destruct (N.eq_dec m 109) as [->|Hm]; [intros E; injection E as <-; cbn in G; lia|].
  destruct m as [|p]; [discriminate|]. do 7 (destruct p as [p|p|]; try discriminate). exfalso; apply Hm; reflexivity.
Qed.

Lemma no_color_fuel_mono s : forall f1 f2, (List.length s < f1)%nat -> (List.length s < f2)%nat ->
  no_color_fuel f1 s = no_color_fuel f2 s.
Proof.
  remember (List.length s) as n eqn:En. revert s En.
  induction n as [n IH] using lt_wf_ind. intros s En f1 f2 H1 H2.
  destruct f1 as [|f1]; [lia|]. destruct f2 as [|f2]; [lia|].
  destruct s as [|c s]; [reflexivity|].
  assert (Hgen : forall r, (List.length r < n)%nat -> no_color_fuel f1 r = no_color_fuel f2 r).
  { intros r Hr. apply (IH (List.length r) Hr r eq_refl); lia. }
  cbn [List.length] in En.
  destruct (N.eq_dec c 27) as [->|Hc].
  - destruct s as [|d s]; [rewrite !nc_step_esc_end; f_equal; apply Hgen; cbn; lia|].
    destruct (N.eq_dec d 91) as [->|Hd].
    + rewrite !nc_step_csi. destruct (match_sgr s) as [rest|] eqn:Em.
      * apply Hgen. apply match_sgr_len in Em. cbn in *. lia.
      * f_equal. apply Hgen. cbn in *. lia.
    + rewrite !(nc_step_esc_other _ d s Hd). f_equal. apply Hgen. cbn in *. lia.
  - rewrite !(nc_step_nonesc _ c s Hc). f_equal. apply Hgen. lia.
Qed.

Lemma no_color_unfold s f : (List.length s < f)%nat -> no_color_fuel f s = no_color s.
Proof. intros H. unfold no_color. apply no_color_fuel_mono; lia. Qed.

(* one step of no_color on a non-escape character *)
Lemma no_color_cons c s : c <> 27 -> no_color (c :: s) = c :: no_color s.
Proof.
  intros Hc. unfold no_color at 1. cbn [List.length]. rewrite (nc_step_nonesc _ c s Hc). reflexivity.
Qed.

(* L1: text without ESC is untouched, and stripping continues after it *)
Lemma no_color_esc_free a b : esc_free a -> no_color (a ++ b) = a ++ no_color b.
Proof.
  induction a as [|c a IH]; intros H; [reflexivity|].
  unfold esc_free in H. cbn [forallb] in H. apply andb_true_iff in H. destruct H as [Hc Ha].
  cbn [app]. rewrite no_color_cons by (apply negb_true_iff in Hc; apply N.eqb_neq; exact Hc).
  rewrite (IH Ha). reflexivity.
Qed.

Lemma no_color_esc_free' a : esc_free a -> no_color a = a.
Proof. intros H. rewrite <- (app_nil_r a) at 1. rewrite (no_color_esc_free a [] H). cbn. apply app_nil_r. Qed.

Lemma skip_sgr_body_app c r : forallb is_sgr_body c = true -> skip_sgr_body (c ++ 109 :: r) = 109 :: r.
Proof. induction c as [|x c IH]; intros H; [reflexivity|]. cbn in *. apply andb_true_iff in H. destruct H as [Hx Hc]. rewrite Hx. apply IH. exact Hc. Qed.

(* L2: a complete SGR sequence produced by color() disappears *)
Lemma no_color_csi c b : valid_code c -> no_color (csi c ++ b) = no_color b.
Proof.
  intros Hc.
  assert (E : csi c ++ b = 27 :: 91 :: c ++ 109 :: b) by (unfold csi; cbn [app]; rewrite <- app_assoc; reflexivity).
  rewrite E. unfold no_color at 1. cbn [List.length]. rewrite nc_step_csi.
  unfold match_sgr. rewrite (skip_sgr_body_app c b Hc).
  apply no_color_unfold. rewrite app_length. cbn. lia.
Qed.

(* ---- color() ------------------------------------------------------------------------------------------ *)
Definition code_ok (code : option str) : Prop := match code with Some c => valid_code c | None => True end.

Theorem color_off code s : color false code s = s.
Proof. destruct s as [|c s]; [reflexivity|]. unfold color. cbn [app]. f_equal. apply app_nil_r. Qed.

(* stripping the coloured text gives the text, whatever follows *)
Theorem strip_color code s k : code_ok code -> esc_free s ->
  no_color (color true code s ++ k) = s ++ no_color k.
Proof.
  intros Hc Hs. destruct s as [|x s]; [reflexivity|]. unfold color.
  assert (Hreset : valid_code [48]) by reflexivity.
  destruct code as [c|].
  - cbn [code_ok] in Hc. rewrite <- !app_assoc, (no_color_csi c _ Hc), (no_color_esc_free _ _ Hs).
    destruct c as [|y c]; cbn [app]; [reflexivity|]. unfold reset. rewrite (no_color_csi [48] k Hreset). reflexivity.
  - unfold reset. rewrite <- !app_assoc, (no_color_csi [48] _ Hreset), (no_color_esc_free _ _ Hs). reflexivity.
Qed.

Theorem strip_color_plain code s : code_ok code -> esc_free s -> no_color (color true code s) = s.
Proof. intros Hc Hs. rewrite <- (app_nil_r (color true code s)), (strip_color code s [] Hc Hs). cbn. apply app_nil_r. Qed.

(* the palette of core/util.py consists of valid codes *)
Theorem palette_ok :
  code_ok timestamp_color /\ code_ok object_type_color /\ code_ok object_id_color /\ code_ok message_color /\
  code_ok symbol_color /\ code_ok int_color /\ code_ok int_symbol_color /\ code_ok float_color /\ code_ok string_color /\
  code_ok fd_color /\ code_ok array_color /\ code_ok null_color /\ code_ok good_color /\ code_ok bad_color /\
  code_ok alert_color /\ code_ok white_color.
Proof. repeat split. Qed.

(* coloured text whose own text contains arbitrary characters (a passed-through line): the
   tool's sequences still strip away and what is left is the stripped text *)
Theorem strip_color_any code s : code_ok code ->
  no_color (color true code s) = no_color (color false code s) \/ exists c t, code = Some c /\ s = t.
Proof.
  intros Hc. destruct code as [c|]; [right; eauto|]. left.
  destruct s as [|x s]; [reflexivity|]. rewrite color_off. unfold color, reset.
  rewrite app_nil_r. apply (no_color_csi [48]). reflexivity.
Qed.

(* pasted back: a coloured rendering of a text is understood exactly as the text, by everything
   that strips colour first (matcher.parse, process_command) *)
Theorem no_color_idempotent_on_plain s : esc_free s -> no_color (no_color s) = no_color s.
Proof. intros H. rewrite (no_color_esc_free' s H). apply no_color_esc_free'. exact H. Qed.
