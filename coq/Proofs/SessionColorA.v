(* C17 lifted to the session, part A: the scanner splits at barrier characters; contextual
   equivalence of coloured and plain text; the text of an output line. *)
From WD Require Import Base Wire Conn Color LetterId Matcher Show.
From WD Require Import LetterIdProofs ColorProofs ShowProofs MatcherProofs.
From Coq Require Import Lia.
Open Scope N_scope.

Notation nc := no_color.
Ltac norm := unfold str, char in *.

(* ---- unfolding no_color one step ------------------------------------------------------------------- *)
Lemma nc_nil : nc [] = [].
Proof. reflexivity. Qed.

Lemma nc_esc_end : nc [27] = [27].
Proof. reflexivity. Qed.

Lemma nc_esc_other (d : N) (s : list N) : d <> 91 -> nc (27 :: d :: s) = 27 :: nc (d :: s).
Proof.
  intros Hd. unfold no_color at 1. cbn [List.length]. rewrite (nc_step_esc_other _ d s Hd).
  reflexivity.
Qed.

Lemma nc_csi (s : list N) : nc (27 :: 91 :: s) =
  match match_sgr s with Some rest => nc rest | None => 27 :: nc (91 :: s) end.
Proof.
  unfold no_color at 1. cbn [List.length]. rewrite nc_step_csi.
  destruct (match_sgr s) as [rest|] eqn:E.
  - apply no_color_unfold. apply match_sgr_len in E. lia.
  - f_equal; try (apply no_color_unfold; cbn [List.length]; lia).
Qed.

(* ---- barrier characters: anything that can neither continue nor close ESC [ digits ; ... ------------ *)
Definition barrier (c : char) : bool := negb (is_sgr_body c || N.eqb c 109 || N.eqb c 91).
Definition bhead (t : str) : Prop := match t with [] => True | x :: _ => barrier x = true end.
Definition bstart (t : str) : Prop := match t with [] => False | x :: _ => barrier x = true end.

Lemma bstart_bhead t : bstart t -> bhead t.
Proof. destruct t; [intros []|exact (fun H => H)]. Qed.
Lemma bstart_app a b : bstart a -> bstart (a ++ b).
Proof. destruct a; [intros []|exact (fun H => H)]. Qed.
Lemma bhead_app a b : bhead a -> bhead b -> bhead (a ++ b).
Proof. destruct a; [intros _ H; exact H|intros H _; exact H]. Qed.
Lemma bhead_app_l a b : bstart a -> bhead (a ++ b).
Proof. intros H. apply bstart_bhead, bstart_app, H. Qed.

Lemma barrier_facts x : barrier x = true -> is_sgr_body x = false /\ x <> 109 /\ x <> 91.
Proof.
  unfold barrier. intros H. apply negb_true_iff in H. apply orb_false_iff in H. destruct H as [H H3].
  apply orb_false_iff in H. destruct H as [H1 H2]. apply N.eqb_neq in H2, H3. auto.
Qed.

Lemma match_head_109 (x : N) (r : list N) :
  match x :: r with 109 :: r' => Some r' | _ => None end = if N.eqb x 109 then Some r else None.
Proof.
  destruct (N.eqb x 109) eqn:E; [apply N.eqb_eq in E; subst x; reflexivity|].
  apply N.eqb_neq in E. destruct x as [|p]; [reflexivity|].
  do 7 (destruct p as [p|p|]; try reflexivity). exfalso; apply E; reflexivity.
Qed.

Lemma match_sgr_spec (s : list N) : match_sgr s =
  match skip_sgr_body s with x :: r => if N.eqb x 109 then Some r else None | [] => None end.
Proof. unfold match_sgr. destruct (skip_sgr_body s) as [|x r]; [reflexivity|apply match_head_109]. Qed.

Lemma skip_bhead (t : list N) : bhead t -> skip_sgr_body t = t.
Proof. destruct t as [|x t]; [reflexivity|]. intros H. apply barrier_facts in H. cbn. destruct H as [-> _]. reflexivity. Qed.

Lemma skip_app (p t : list N) : skip_sgr_body (p ++ t) =
  match skip_sgr_body p with [] => skip_sgr_body t | r => r ++ t end.
Proof.
  induction p as [|c p IH]; [cbn; destruct (skip_sgr_body t); reflexivity|].
  cbn [app skip_sgr_body]. destruct (is_sgr_body c); [exact IH|reflexivity].
Qed.

Lemma match_sgr_app (p t : list N) : bhead t ->
  match_sgr (p ++ t) = match match_sgr p with Some r => Some (r ++ t) | None => None end.
Proof.
  intros Ht. rewrite !match_sgr_spec, skip_app. destruct (skip_sgr_body p) as [|x r].
  - rewrite (skip_bhead t Ht). destruct t as [|y t]; [reflexivity|].
    apply barrier_facts in Ht. destruct Ht as (_ & Hy & _). apply N.eqb_neq in Hy. rewrite Hy. reflexivity.
  - cbn [app]. destruct (N.eqb x 109); reflexivity.
Qed.

(* the scanner restarts at a barrier *)
Theorem nc_split (p t : list N) : bhead t -> nc (p ++ t) = nc p ++ nc t.
Proof.
  intros Ht. unfold char in *. remember (List.length p) as n eqn:En. revert p En.
  induction n as [n IH] using lt_wf_ind. intros p En.
  assert (Hgen : forall q, (List.length q < n)%nat -> nc (q ++ t) = nc q ++ nc t).
  { intros q Hq. apply (IH (List.length q) Hq q eq_refl). }
  destruct p as [|c p]; [reflexivity|]. cbn [List.length] in En.
  destruct (N.eq_dec c 27) as [->|Hc].
  - destruct p as [|d p].
    + cbn [app]. change (nc [27]) with [27]. destruct t as [|x t]; [reflexivity|].
      apply barrier_facts in Ht. destruct Ht as (_ & _ & H91). rewrite (nc_esc_other x t H91). reflexivity.
    + destruct (N.eq_dec d 91) as [->|Hd].
      * cbn [app]. rewrite !nc_csi, (match_sgr_app p t Ht).
        destruct (match_sgr p) as [r|] eqn:Em.
        -- apply Hgen. apply match_sgr_len in Em. cbn [List.length] in En. unfold char in *. lia.
        -- cbn [app]. f_equal. apply (Hgen (91 :: p)). cbn [List.length] in *. lia.
      * cbn [app]. rewrite !(nc_esc_other d _ Hd). cbn [app]. f_equal. apply (Hgen (d :: p)). cbn [List.length] in *. lia.
  - cbn [app]. rewrite !(no_color_cons c _ Hc). cbn [app]. f_equal. apply Hgen. lia.
Qed.

(* ---- relations between coloured and plain text ----------------------------------------------------------- *)
(* anchored at the start of a line: equal after stripping, whatever follows *)
Definition TR (a b : list N) : Prop := forall k : list N, nc (a ++ k) = nc (b ++ k).
(* in any context *)
Definition CE (a b : list N) : Prop := forall p k : list N, nc (p ++ a ++ k) = nc (p ++ b ++ k).

Lemma TR_refl a : TR a a.
Proof. intros k. reflexivity. Qed.
Lemma TR_nc a b : TR a b -> nc a = nc b.
Proof. intros H. specialize (H []). rewrite !app_nil_r in H. exact H. Qed.
Lemma TR_of_Strips a b : Strips a b -> TR a b.
Proof. intros [E H] k. pose proof (no_color_esc_free b k E) as G. norm. rewrite H, G. reflexivity. Qed.
Lemma TR_Strips_app a b a' b' : Strips a b -> TR a' b' -> TR (a ++ a') (b ++ b').
Proof.
  intros [E H] H' k. pose proof (no_color_esc_free b (b' ++ k) E) as G. specialize (H (a' ++ k)). specialize (H' k).
  norm. rewrite <- !app_assoc, H, G, H'. reflexivity.
Qed.
Lemma TR_of_CE a b : CE a b -> TR a b.
Proof. intros H k. apply (H [] k). Qed.
Lemma TR_app_CE a b a' b' : TR a b -> CE a' b' -> TR (a ++ a') (b ++ b').
Proof. intros H H' k. rewrite <- !app_assoc, H. apply (H' b k). Qed.
Lemma TR_trans a b c : TR a b -> TR b c -> TR a c.
Proof. intros H1 H2 k. rewrite H1. apply H2. Qed.

Lemma CE_refl a : CE a a.
Proof. intros p k. reflexivity. Qed.
Lemma CE_app a b a' b' : CE a b -> CE a' b' -> CE (a ++ a') (b ++ b').
Proof.
  intros H H' p k. rewrite <- !app_assoc, (H p (a' ++ k)).
  rewrite !(app_assoc p b). apply H'.
Qed.
Lemma CE_trans a b c : CE a b -> CE b c -> CE a c.
Proof. intros H1 H2 p k. rewrite H1. apply H2. Qed.

(* a block that starts with a barrier on both sides is independent of what precedes it *)
Lemma CE_block (a b : list N) : bstart a -> bstart b -> TR a b -> CE a b.
Proof.
  intros Ha Hb H p k. norm.
  rewrite (nc_split p (a ++ k)) by (apply bhead_app_l; exact Ha).
  rewrite (nc_split p (b ++ k)) by (apply bhead_app_l; exact Hb).
  rewrite H. reflexivity.
Qed.
Lemma CE_Strips a b : bstart a -> bstart b -> Strips a b -> CE a b.
Proof. intros Ha Hb H. apply CE_block; [exact Ha|exact Hb|apply TR_of_Strips; exact H]. Qed.

Lemma csi_bstart c k : bstart (csi c ++ k).
Proof. reflexivity. Qed.

Lemma color_on_shape code (s : list N) : code_ok code -> s <> [] ->
  exists pre post, color true code s = pre ++ s ++ post /\ Strips pre [] /\ Strips post [] /\ bstart pre.
Proof.
  intros Hc Hs. assert (R : Strips reset []) by (apply Strips_csi; reflexivity).
  destruct s as [|x s]; [congruence|]. unfold color. destruct code as [c|].
  - exists (csi c), (match c with [] => [] | _ => reset end).
    split; [reflexivity|]. split; [apply Strips_csi; exact Hc|]. split; [destruct c; [apply Strips_nil|exact R]|reflexivity].
  - exists reset, []. split; [reflexivity|]. split; [exact R|]. split; [apply Strips_nil|reflexivity].
Qed.

(* coloured fixed text that starts with a barrier: equivalent to the plain text in any context *)
Lemma CE_color code s : code_ok code -> esc_free s -> bhead s -> CE (color true code s) (color false code s).
Proof.
  intros Hc Hs Hb. destruct s as [|x s]; [apply CE_refl|].
  apply CE_Strips; [|rewrite color_off; exact Hb|apply Strips_color_plain; assumption].
  unfold color. destruct code; reflexivity.
Qed.

(* wrapping an equivalence in a colour: the closing sequence must come after fixed text *)
Lemma CE_color_wrap code (a b e : list N) : code_ok code -> CE a b -> bstart (b ++ e) -> esc_free e -> bstart e ->
  CE (color true code (a ++ e)) (color false code (b ++ e)).
Proof.
  intros Hc Hab Hbe He Hb. rewrite color_off.
  assert (Hne : a ++ e <> []) by (destruct e; [destruct Hb|destruct a; discriminate]).
  destruct (color_on_shape code (a ++ e) Hc Hne) as (pre & post & -> & Hpre & Hpost & Hbs).
  apply CE_block; [apply bstart_app; exact Hbs|exact Hbe|].
  intros k. destruct Hpre as [_ Hpre].
  assert (Hep : Strips (e ++ post) e) by (apply Strips_post; [apply Strips_plain; exact He|exact Hpost]).
  destruct Hep as [_ Hep]. pose proof (no_color_esc_free e k He) as G.
  specialize (Hpre ((a ++ e) ++ post ++ k)). specialize (Hab [] (e ++ post ++ k)). specialize (Hep k).
  pose proof (nc_split b (e ++ post ++ k) (bhead_app_l _ _ Hb)) as S1.
  pose proof (nc_split b (e ++ k) (bhead_app_l _ _ Hb)) as S2.
  norm. cbn [app] in *. rewrite <- !app_assoc in *. rewrite Hpre, Hab, S1, S2. f_equal.
  rewrite !app_assoc in *. rewrite Hep, G. reflexivity.
Qed.

Lemma CE_intercalate (sa sb : list N) (la lb : list (list N)) :
  CE sa sb -> Forall2 CE la lb -> CE (intercalate sa la) (intercalate sb lb).
Proof.
  intros Hs H. induction H as [|a b la lb Hab Hl IH]; [apply CE_refl|].
  destruct Hl as [|a2 b2 la2 lb2 H2 Hl2]; [exact Hab|].
  cbn [intercalate] in *. apply CE_app; [exact Hab|]. apply CE_app; [exact Hs|exact IH].
Qed.

Lemma CE_comma_join (f g : mt -> list N) l :
  Forall (fun m => CE (f m) (g m)) l -> CE (comma_join (map f l)) (comma_join (map g l)).
Proof.
  intros H. unfold comma_join. apply CE_intercalate; [apply CE_refl|].
  induction H as [|x l Hx _ IH]; cbn [map]; constructor; assumption.
Qed.

Lemma CE_bang : CE (color true bad_color (s2l " ! ")) (color false bad_color (s2l " ! ")).
Proof. apply CE_color; reflexivity. Qed.

(* a matcher prints the same with and without colour, after stripping, in any context and whatever
   characters its texts contain: only the fixed symbols * ! and " ! " are coloured *)
Theorem CE_mshow m : CE (mshow true m) (mshow false m).
Proof.
  induction m as [b|p|s|z t|d|a d b IHa IHb|pos neg IHp IHn|pos neg IHp IHn|k w IHw|c o n a mn md IHc IHo IHn IHa]
    using mt_ind'.
  - destruct b; cbn [mshow]; apply CE_color; reflexivity.
  - apply CE_refl.
  - apply CE_refl.
  - apply CE_refl.
  - apply CE_refl.
  - cbn [mshow]. apply CE_app; [exact IHa|]. apply CE_app; [apply CE_refl|exact IHb].
  - pose proof (CE_comma_join _ _ _ IHp) as Jp. pose proof (CE_comma_join _ _ _ IHn) as Jn.
    assert (G1 : CE ([91] ++ comma_join (map (mshow true) pos) ++ [93]) ([91] ++ comma_join (map (mshow false) pos) ++ [93])).
    { apply CE_app; [apply CE_refl|]. apply CE_app; [exact Jp|apply CE_refl]. }
    assert (G2 : CE ([91] ++ comma_join (map (mshow true) pos) ++ color true bad_color (s2l " ! ") ++ comma_join (map (mshow true) neg) ++ [93])
                    ([91] ++ comma_join (map (mshow false) pos) ++ color false bad_color (s2l " ! ") ++ comma_join (map (mshow false) neg) ++ [93])).
    { apply CE_app; [apply CE_refl|]. apply CE_app; [exact Jp|]. apply CE_app; [exact CE_bang|]. apply CE_app; [exact Jn|apply CE_refl]. }
    assert (G3 : CE ([91] ++ color true bad_color (s2l " ! ") ++ comma_join (map (mshow true) neg) ++ [93])
                    ([91] ++ color false bad_color (s2l " ! ") ++ comma_join (map (mshow false) neg) ++ [93])).
    { apply CE_app; [apply CE_refl|]. apply CE_app; [exact CE_bang|]. apply CE_app; [exact Jn|apply CE_refl]. }
    cbn [mshow]. destruct neg as [|n0 neg]; [exact G1|].
    destruct pos as [|p0 pos]; [exact G2|].
    destruct p0 as [[|]| | | | | | | | |]; try exact G2; destruct pos; first [exact G3|exact G2].
  - pose proof (CE_comma_join _ _ _ IHp) as Jp. pose proof (CE_comma_join _ _ _ IHn) as Jn.
    assert (G2 : CE (comma_join (map (mshow true) pos) ++ color true bad_color (s2l " ! ") ++ comma_join (map (mshow true) neg))
                    (comma_join (map (mshow false) pos) ++ color false bad_color (s2l " ! ") ++ comma_join (map (mshow false) neg))).
    { apply CE_app; [exact Jp|]. apply CE_app; [exact CE_bang|exact Jn]. }
    assert (G3 : CE (color true bad_color (s2l " ! ") ++ comma_join (map (mshow true) neg))
                    (color false bad_color (s2l " ! ") ++ comma_join (map (mshow false) neg))).
    { apply CE_app; [exact CE_bang|exact Jn]. }
    cbn [mshow]. destruct neg as [|n0 neg]; [exact Jp|].
    destruct pos as [|p0 pos]; [exact G2|].
    destruct p0 as [[|]| | | | | | | | |]; try exact G2; destruct pos; first [exact G3|exact G2].
  - exact IHw.
  - cbn [mshow]. apply CE_app; [destruct (is_always true c); [apply CE_refl|exact IHc]|].
    apply CE_app; [exact IHo|]. apply CE_app; [apply CE_refl|]. apply CE_app; [exact IHn|].
    apply CE_app; [apply CE_refl|]. apply CE_app; [exact IHa|apply CE_refl].
Qed.

Corollary mshow_nc m : nc (mshow true m) = nc (mshow false m).
Proof. apply TR_nc, TR_of_CE, CE_mshow. Qed.
