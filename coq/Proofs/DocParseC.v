(* DocParseC.v — T1 stage C, generic part: properties of rendered lists (balanced, chunks), the shape
   of [rlist] seen by the splitter, parse_matcher_list_with on a rendered list, and the congruence of
   [simplify] needed to compare the parser's matcher with the elaborated one. *)
From WD Require Import Base Wire Conn Color LetterId Matcher MatcherParse Doc.
From WD Require Import LetterIdProofs DecodeBasics ColorProofs ProtocolProofs MatcherProofs DocParseA DocParseB.
From Coq Require Import Lia ZifyBool ZifyNat ZifyN.
Open Scope N_scope.

(* ---- induction principles for the nested syntax ------------------------------------------------------- *)
Section Inds.
  Variable P : dtext -> Prop.
  Hypothesis Hw : forall w, P (TWord w).
  Hypothesis Hl : forall pos neg, Forall P pos -> Forall P neg -> P (TList pos neg).
  Fixpoint dtext_ind' (t : dtext) : P t :=
    match t with
    | TWord w => Hw w
    | TList pos neg =>
        Hl pos neg
          ((fix go (l : list dtext) : Forall P l :=
              match l with [] => Forall_nil P | x :: r => Forall_cons x (dtext_ind' x) (go r) end) pos)
          ((fix go (l : list dtext) : Forall P l :=
              match l with [] => Forall_nil P | x :: r => Forall_cons x (dtext_ind' x) (go r) end) neg)
    end.
End Inds.

Section IndsO.
  Variable P : dobj -> Prop.
  Hypothesis H1 : P OAny.
  Hypothesis H2 : forall w, P (OType w).
  Hypothesis H3 : forall a id l, P (OId a id l).
  Hypothesis H4 : P ONil.
  Hypothesis Hl : forall pos neg, Forall P pos -> Forall P neg -> P (OList pos neg).
  Fixpoint dobj_ind' (t : dobj) : P t :=
    match t with
    | OAny => H1 | OType w => H2 w | OId a id l => H3 a id l | ONil => H4
    | OList pos neg =>
        Hl pos neg
          ((fix go (l : list dobj) : Forall P l :=
              match l with [] => Forall_nil P | x :: r => Forall_cons x (dobj_ind' x) (go r) end) pos)
          ((fix go (l : list dobj) : Forall P l :=
              match l with [] => Forall_nil P | x :: r => Forall_cons x (dobj_ind' x) (go r) end) neg)
    end.
End IndsO.

Section IndsV.
  Variable P : dval -> Prop.
  Hypothesis H1 : P VAny.
  Hypothesis H2 : forall z, P (VInt z).
  Hypothesis H3 : forall n ip fp, P (VFloat n ip fp).
  Hypothesis H4 : forall s, P (VStr s).
  Hypothesis H5 : forall w, P (VWord w).
  Hypothesis H6 : forall c id l, P (VObj c id l).
  Hypothesis H7 : P VNil.
  Hypothesis Hl : forall pos neg, Forall P pos -> Forall P neg -> P (VList pos neg).
  Fixpoint dval_ind' (t : dval) : P t :=
    match t with
    | VAny => H1 | VInt z => H2 z | VFloat n ip fp => H3 n ip fp | VStr s => H4 s | VWord w => H5 w
    | VObj c id l => H6 c id l | VNil => H7
    | VList pos neg =>
        Hl pos neg
          ((fix go (l : list dval) : Forall P l :=
              match l with [] => Forall_nil P | x :: r => Forall_cons x (dval_ind' x) (go r) end) pos)
          ((fix go (l : list dval) : Forall P l :=
              match l with [] => Forall_nil P | x :: r => Forall_cons x (dval_ind' x) (go r) end) neg)
    end.
End IndsV.

Section IndsI.
  Variable P : ditem -> Prop.
  Hypothesis H1 : forall name v, P (IItem name v).
  Hypothesis Hl : forall pos neg, Forall P pos -> Forall P neg -> P (IList pos neg).
  Fixpoint ditem_ind' (t : ditem) : P t :=
    match t with
    | IItem name v => H1 name v
    | IList pos neg =>
        Hl pos neg
          ((fix go (l : list ditem) : Forall P l :=
              match l with [] => Forall_nil P | x :: r => Forall_cons x (ditem_ind' x) (go r) end) pos)
          ((fix go (l : list ditem) : Forall P l :=
              match l with [] => Forall_nil P | x :: r => Forall_cons x (ditem_ind' x) (go r) end) neg)
    end.
End IndsI.

(* ---- Good text: balanced square brackets, no parentheses, no ESC ------------------------------------ *)
Definition okc (c : char) : bool :=
  negb (N.eqb c 91) && negb (N.eqb c 93) && negb (N.eqb c 40) && negb (N.eqb c 41) && negb (N.eqb c 27).

Definition Good (s : str) : Prop := Bal 91 93 s /\ free_of 40 41 s = true /\ esc_free s.

Lemma Good_nil : Good [].
Proof. split; [constructor|split; reflexivity]. Qed.

Lemma Good_app a b : Good a -> Good b -> Good (a ++ b).
Proof.
  intros [A1 [A2 A3]] [B1 [B2 B3]]. split; [apply Bal_app; assumption|]. split.
  - rewrite free_of_app, A2, B2. reflexivity.
  - apply esc_free_app. split; assumption.
Qed.

Lemma Good_okc s : forallb okc s = true -> Good s.
Proof.
  intros H. split; [|split].
  - apply Bal_free. unfold free_of. revert H. apply forallb_impl. intros c Hc. unfold okc in Hc. lia.
  - unfold free_of. revert H. apply forallb_impl. intros c Hc. unfold okc in Hc. lia.
  - unfold esc_free. revert H. apply forallb_impl. intros c Hc. unfold okc in Hc. lia.
Qed.

Lemma Good_blank b : blank b -> Good b.
Proof. intros H. apply Good_okc. revert H. unfold blank. apply forallb_impl. intros c Hc. unfold okc. ccx. Qed.

Lemma Good_ident w : forallb ident_char w = true -> Good w.
Proof. intros H. apply Good_okc. revert H. apply forallb_impl. intros c Hc. unfold okc. ccx. Qed.

Lemma Good_one (c : char) : okc c = true -> Good [c].
Proof. intros H. apply Good_okc. cbn [forallb]. rewrite H. reflexivity. Qed.

Lemma Good_bracket s pad : blank pad -> Good s -> Good (bracket s pad).
Proof.
  intros Hp [S1 [S2 S3]]. destruct (Good_blank pad Hp) as [P1 [P2 P3]].
  split; [|unfold bracket; split].
  - rewrite bracket_eq. cbn [app]. apply (Bal_wrap 91 93 (pad ++ s ++ pad) []); [|constructor].
    apply Bal_app; [exact P1|]. apply Bal_app; assumption.
  - rewrite !free_of_app, P2, S2. reflexivity.
  - apply esc_free_app. split; [reflexivity|]. apply esc_free_app. split; [exact P3|].
    apply esc_free_app. split; [exact S3|]. apply esc_free_app. split; [exact P3|reflexivity].
Qed.

Lemma Good_join sep xs : Good sep -> Forall Good xs -> Good (join_with sep xs).
Proof.
  intros Hs H. induction H as [|x r Hx Hr IH]; [apply Good_nil|].
  cbn [join_with]. destruct r as [|y r']; [exact Hx|].
  apply Good_app; [exact Hx|]. apply Good_app; [exact Hs|exact IH].
Qed.

Lemma Good_sep pad (c : char) : blank pad -> okc c = true -> Good (pad ++ [c] ++ pad).
Proof. intros Hp Hc. apply Good_app; [apply Good_blank, Hp|]. apply Good_app; [apply Good_one, Hc|apply Good_blank, Hp]. Qed.

Lemma Good_rlist pos neg pad : blank pad -> Forall Good pos -> Forall Good neg -> Good (rlist pos neg pad).
Proof.
  intros Hp H1 H2. unfold rlist. apply Good_app.
  - apply Good_join; [apply Good_sep; [exact Hp|reflexivity]|exact H1].
  - destruct neg as [|n0 neg']; [apply Good_nil|].
    apply Good_app; [apply Good_blank, Hp|]. apply Good_app; [apply Good_one; reflexivity|].
    apply Good_app; [apply Good_blank, Hp|]. apply Good_join; [apply Good_sep; [exact Hp|reflexivity]|exact H2].
Qed.

(* a bracketed list is a chunk for every delimiter that is not a bracket *)
Lemma Chunk_bracket (d : char) s pad : d <> 91 -> blank pad -> Good s -> Chunk d (bracket s pad).
Proof.
  intros Hd Hp [S1 _]. destruct (Good_blank pad Hp) as [P1 _].
  rewrite bracket_eq. cbn [app].
  apply (Chunk_square d (pad ++ s ++ pad) []); [exact Hd| |constructor]. apply Bal_app; [exact P1|]. apply Bal_app; assumption.
Qed.

(* ---- counting opening brackets (the fuel argument) ---------------------------------------------------- *)
Definition cnt91 (s : str) : nat := List.length (filter (N.eqb 91) s).

Lemma cnt91_app a b : cnt91 (a ++ b) = (cnt91 a + cnt91 b)%nat.
Proof. unfold cnt91. rewrite filter_app, app_length. reflexivity. Qed.

Lemma cnt91_bracket s pad : (S (cnt91 s) <= cnt91 (bracket s pad))%nat.
Proof. unfold bracket. rewrite !cnt91_app. change (cnt91 [91]) with 1%nat. lia. Qed.

Lemma cnt91_join sep xs x : In x xs -> (cnt91 x <= cnt91 (join_with sep xs))%nat.
Proof.
  induction xs as [|y r IH]; intros H; [contradiction|].
  cbn [join_with]. destruct r as [|z r'].
  - destruct H as [->|[]]. lia.
  - rewrite !cnt91_app. destruct H as [->|H]; [lia|]. specialize (IH H). lia.
Qed.

Lemma cnt91_rlist pos neg pad x : In x (pos ++ neg) -> (cnt91 x <= cnt91 (rlist pos neg pad))%nat.
Proof.
  intros H. unfold rlist. rewrite cnt91_app. apply in_app_or in H. destruct H as [H|H].
  - pose proof (cnt91_join (pad ++ [44] ++ pad) pos x H). lia.
  - destruct neg as [|n0 neg']; [contradiction|]. rewrite !cnt91_app.
    pose proof (cnt91_join (pad ++ [44] ++ pad) (n0 :: neg') x H). lia.
Qed.

Lemma cnt91_strip t : cnt91 (strip t) = cnt91 t.
Proof.
  destruct (strip_decomp t) as [b1 [b2 [H1 [H2 E]]]].
  assert (Z : forall b, blank b -> cnt91 b = 0%nat).
  { intros b. unfold blank, cnt91. induction b as [|c b IH]; intros H; [reflexivity|].
    cbn [forallb] in H. apply andb_true_iff in H. destruct H as [Hc Hb]. cbn [filter].
    assert (X : N.eqb 91 c = false) by ccx. rewrite X. exact (IH Hb). }
  rewrite E at 2. rewrite !cnt91_app, (Z b1 H1), (Z b2 H2). lia.
Qed.

Lemma cnt91_le_length t : (cnt91 t <= List.length t)%nat.
Proof. unfold cnt91. induction t as [|c t IH]; [apply le_n|]. cbn [filter List.length]. destruct (N.eqb 91 c); cbn [List.length]; lia. Qed.

(* ---- the shape of a rendered list ------------------------------------------------------------------------ *)
Definition padded (pad x : str) : str := pad ++ x ++ pad.
Definition sep44 (pad : str) : str := pad ++ [44] ++ pad.

Lemma flat_cons (d : char) (a : str) l : flat d (a :: l) = d :: a ++ flat d l.
Proof. reflexivity. Qed.

Lemma join_padded pad more : forall x,
  pad ++ join_with (sep44 pad) (x :: more) ++ pad = padded pad x ++ flat 44 (map (padded pad) more).
Proof.
  induction more as [|y more IH]; intros x.
  - cbn [join_with map]. unfold flat, padded. cbn [map List.concat]. rewrite app_nil_r. reflexivity.
  - change (join_with (sep44 pad) (x :: y :: more)) with (x ++ sep44 pad ++ join_with (sep44 pad) (y :: more)).
    cbn [map]. rewrite flat_cons, <- IH. unfold padded, sep44.
    repeat rewrite <- app_assoc. cbn [app]. reflexivity.
Qed.

Lemma strip_padded pad x : blank pad -> strip (padded pad x) = strip x.
Proof. intros Hp. unfold padded. rewrite strip_blank_app by exact Hp. apply strip_app_blank. exact Hp. Qed.

Lemma Chunk_padded (d : char) pad x : is_space d = false -> blank pad -> Chunk d x -> Chunk d (padded pad x).
Proof.
  intros Hd Hp Hx. unfold padded. apply Chunk_app; [apply Chunk_blank; assumption|].
  apply Chunk_app; [exact Hx|apply Chunk_blank; assumption].
Qed.

Lemma Chunk_join (d : char) sep xs : Chunk d sep -> Forall (Chunk d) xs -> Chunk d (join_with sep xs).
Proof.
  intros Hs H. induction H as [|x r Hx Hr IH]; [constructor|].
  cbn [join_with]. destruct r as [|y r']; [exact Hx|].
  apply Chunk_app; [exact Hx|]. apply Chunk_app; [exact Hs|exact IH].
Qed.

Lemma Chunk_sep44 (d : char) pad : is_space d = false -> d <> 44 -> blank pad -> Chunk d (sep44 pad).
Proof.
  intros Hd H44 Hp. unfold sep44. apply Chunk_app; [apply Chunk_blank; assumption|].
  apply Chunk_app; [|apply Chunk_blank; assumption].
  apply Ch_char; [congruence|reflexivity|constructor].
Qed.

Lemma split_on_joined pad xs : blank pad -> Forall (Chunk 44) xs -> xs <> [] ->
  split_on (pad ++ join_with (sep44 pad) xs ++ pad) 44 false = Ok (map strip xs).
Proof.
  intros Hp Hx Hn. destruct xs as [|x more]; [congruence|].
  rewrite join_padded. inversion Hx as [|a b Ha Hb]; subst.
  rewrite split_on_segs; [|reflexivity|apply Chunk_padded; [reflexivity|exact Hp|exact Ha]|].
  - cbn [map]. rewrite strip_padded by exact Hp. do 2 f_equal. rewrite map_map.
    apply map_ext. intros y. apply strip_padded. exact Hp.
  - apply Forall_forall. intros y Hy. apply in_map_iff in Hy. destruct Hy as [z [<- Hz]].
    apply Chunk_padded; [reflexivity|exact Hp|]. rewrite Forall_forall in Hb. apply Hb, Hz.
Qed.

Lemma split_on_blank_only pad : blank pad -> split_on (pad ++ [] ++ pad) 44 false = Ok [[]].
Proof.
  intros Hp. rewrite split_on_false. cbn [app].
  rewrite sog_blank_only; [|reflexivity|apply blank_app; assumption]. reflexivity.
Qed.

Lemma rlist_none pos pad : pad ++ rlist pos [] pad ++ pad = pad ++ join_with (sep44 pad) pos ++ pad.
Proof. unfold rlist. rewrite app_nil_r. reflexivity. Qed.

Lemma rlist_some pos n0 neg pad :
  pad ++ rlist pos (n0 :: neg) pad ++ pad =
  (pad ++ join_with (sep44 pad) pos ++ pad) ++ 33 :: (pad ++ join_with (sep44 pad) (n0 :: neg) ++ pad).
Proof. unfold rlist. fold (sep44 pad). repeat rewrite <- app_assoc. cbn [app]. reflexivity. Qed.

Lemma mapM_Forall2 {A B} (f : A -> res B) xs ys :
  Forall2 (fun x y => f x = Ok y) xs ys -> mapM f xs = Ok ys.
Proof.
  intros H. induction H as [|x y xs ys Hxy Hr IH]; [reflexivity|].
  cbn [mapM]. rewrite Hxy. cbn [bind]. rewrite IH. reflexivity.
Qed.

Lemma mapM_strip_Forall2 {B} (f : str -> res B) xs ys :
  Forall2 (fun x y => f (strip x) = Ok y) xs ys -> mapM f (map strip xs) = Ok ys.
Proof.
  intros H. apply mapM_Forall2. induction H as [|x y xs ys Hxy Hr IH]; constructor; assumption.
Qed.

Definition assemble (m0 : mt) (ps ns : list mt) : mt :=
  match ns with
  | [] => match ps with [x] => x | _ => MList ps [] end
  | _ => MList (match ps with [] => [m0] | _ => ps end) ns
  end.

Lemma pml_rendered rec k pad pos neg ps ns m0 :
  blank pad -> Forall (Chunk 33) (pos ++ neg) -> Forall (Chunk 44) (pos ++ neg) ->
  Forall2 (fun x m => parse_item rec k (strip x) = Ok m) pos ps ->
  Forall2 (fun x m => parse_item rec k (strip x) = Ok m) neg ns ->
  parse_item rec k [] = Ok m0 -> (pos <> [] \/ neg <> []) ->
  parse_matcher_list_with rec k (pad ++ rlist pos neg pad ++ pad) = Ok (assemble m0 ps ns).
Proof.
  intros Hp H33 H44 Hps Hns H0 Hne.
  apply Forall_app in H33. destruct H33 as [P33 N33].
  apply Forall_app in H44. destruct H44 as [P44 N44].
  assert (CA : forall xs, Forall (Chunk 33) xs -> Chunk 33 (pad ++ join_with (sep44 pad) xs ++ pad)).
  { intros xs Hx. apply Chunk_app; [apply Chunk_blank; [reflexivity|exact Hp]|].
    apply Chunk_app; [|apply Chunk_blank; [reflexivity|exact Hp]].
    apply Chunk_join; [apply Chunk_sep44; [reflexivity|discriminate|exact Hp]|exact Hx]. }
  unfold parse_matcher_list_with. destruct neg as [|n0 neg].
  - inversion Hns; subst. destruct Hne as [Hne|Hne]; [|congruence].
    rewrite rlist_none. rewrite split_pair_none by (apply CA; exact P33). cbn [bind].
    rewrite split_on_joined by assumption. cbn [bind].
    rewrite (mapM_strip_Forall2 _ _ _ Hps). cbn [bind assemble].
    destruct ps as [|x [|y r]]; reflexivity.
  - rewrite rlist_some.
    rewrite split_pair_two; [|reflexivity|apply CA; exact P33|apply CA; exact N33].
    cbn [bind]. rewrite !split_on_strip by reflexivity.
    rewrite (split_on_joined pad (n0 :: neg)) by (try assumption; discriminate).
    destruct pos as [|p0 pos].
    + inversion Hps; subst. cbn [join_with]. rewrite split_on_blank_only by exact Hp.
      cbn [bind mapM]. rewrite H0. cbn [bind].
      rewrite (mapM_strip_Forall2 _ _ _ Hns). cbn [bind assemble].
      inversion Hns; subst. reflexivity.
    + rewrite (split_on_joined pad (p0 :: pos)) by (try assumption; discriminate).
      cbn [bind]. rewrite (mapM_strip_Forall2 _ _ _ Hps). cbn [bind].
      rewrite (mapM_strip_Forall2 _ _ _ Hns). cbn [bind assemble].
      inversion Hns; subst. inversion Hps; subst. reflexivity.
Qed.

(* ---- simplify sees only the simplified components --------------------------------------------------------- *)
Definition seq (m m' : mt) : Prop := simplify m = simplify m'.

Lemma seq_map ps ps' : Forall2 seq ps ps' -> map simplify ps = map simplify ps'.
Proof. intros H. induction H as [|x y xs ys Hxy Hr IH]; [reflexivity|]. cbn [map]. rewrite Hxy, IH. reflexivity. Qed.

Lemma seq_list ps ps' ns ns' : Forall2 seq ps ps' -> Forall2 seq ns ns' -> seq (MList ps ns) (MList ps' ns').
Proof.
  intros Hp Hn. unfold seq. rewrite !simplify_list_eq. rewrite (seq_map _ _ Hp), (seq_map _ _ Hn).
  destruct Hp; reflexivity.
Qed.

Lemma seq_args ps ps' ns ns' : Forall2 seq ps ps' -> Forall2 seq ns ns' -> seq (MArgsList ps ns) (MArgsList ps' ns').
Proof. intros Hp Hn. unfold seq. cbn [simplify]. rewrite (seq_map _ _ Hp), (seq_map _ _ Hn). reflexivity. Qed.

Lemma seq_wrap k m m' : seq m m' -> seq (MWrap k m) (MWrap k m').
Proof. unfold seq. intros H. cbn [simplify]. rewrite H. reflexivity. Qed.

Lemma seq_pair a a' d b b' : seq a a' -> seq b b' -> seq (MPair a d b) (MPair a' d b').
Proof. unfold seq. intros H1 H2. cbn [simplify]. rewrite H1, H2. reflexivity. Qed.

Lemma seq_pattern c c' o o' n n' a a' mn md : seq c c' -> seq o o' -> seq n n' -> seq a a' ->
  seq (MPattern c o n a mn md) (MPattern c' o' n' a' mn md).
Proof. unfold seq. intros H1 H2 H3 H4. cbn [simplify]. rewrite H1, H2, H3, H4. reflexivity. Qed.

Lemma seq_refl m : seq m m. Proof. reflexivity. Qed.

Lemma Forall2_seq_refl l : Forall2 seq l l.
Proof. induction l; constructor; [reflexivity|assumption]. Qed.

Lemma seq_assemble m0 ps ns es en : Forall2 seq ps es -> Forall2 seq ns en -> simplify m0 = MAlways true ->
  seq (assemble m0 ps ns) (list_or_single es en).
Proof.
  intros Hp Hn H0. unfold assemble, list_or_single. destruct Hn as [|n e ns en Hne Hn].
  - destruct Hp as [|p e ps es Hpe Hp]; [apply seq_list; constructor|].
    destruct Hp as [|p2 e2 ps es Hpe2 Hp]; [exact Hpe|].
    apply seq_list; [|constructor]. constructor; [exact Hpe|]. constructor; assumption.
  - destruct Hp as [|p e' ps es Hpe Hp].
    + apply seq_list; [|constructor; assumption]. constructor; [exact H0|constructor].
    + apply seq_list; constructor; assumption.
Qed.

Lemma Forall2_eq_map {A} (f : A -> mt) xs ms : Forall2 (fun x m => m = f x) xs ms -> ms = map f xs.
Proof. intros H. induction H as [|x y xs ys Hxy Hr IH]; [reflexivity|]. cbn [map]. rewrite Hxy, IH. reflexivity. Qed.

Lemma assemble_eq ps ns : (ps <> [] \/ ns <> []) -> assemble (MAlways true) ps ns = list_or_single ps ns.
Proof. intros H. unfold assemble, list_or_single. destruct ns; [reflexivity|]. destruct ps; reflexivity. Qed.
