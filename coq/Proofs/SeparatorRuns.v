(* SeparatorRuns.v — C16 (separators) lifted to whole streams.

   "A separator giving the gap is printed between two messages shown one after the other (in the live
    view or within one listing) whose times are more than one second apart, and nowhere else."

   Everything is read off the OUTPUT: the shown message items are the [OMsg] lines, the time of an
   item is the time printed in it ([m_time], relative to the first message of the log).
   [sep_for on prev t]  the separator due in front of an item of time [t] when the previously shown
                        item had time [prev]: the certain separator [OOut (sep_line on gap)] when
                        gap > 1 s, the rounding-dependent [OMaybe (sep_line on gap)] when gap is
                        exactly 1 s (the tool compares binary64 values; the model keeps exact
                        decimals and does not decide this case), nothing when gap < 1 s or when
                        there is no previous item.
   [with_seps on prev items]  re-inserts the due separators into a list of lines without separators.
   [separators_exact]   MAIN THEOREM, live view, any start state, any filter, any stream of message
                        and text lines:  out = with_seps on prev0 (strip out)  - the output is its own
                        non-separator lines with exactly the due separators put back.
   [sep_before_item], [sep_only_before_item]   the same, positionally.
   [separators_exact_cmds]  with commands: every listing is a run of its own, and a listing that
                        shows at least one message makes the live view forget its previous item.
   [SepExamples]        non-vacuity (0.9 s, exactly 1 s, 1.0001 s, a hidden message in between, two
                        connections), and the corner after `list`. *)
From WD Require Import Base Wire Protocol Conn Color LetterId Matcher MatcherParse Show Session.
From WD Require Import ProtocolProofs LetterIdProofs ControllerProofs SessionProofs ConnMgrProofs IsolationRuns.
From WD Require Import StreamSpecA.
From Coq Require Import Lia List.
Import ListNotations.
Open Scope Z_scope.

(* ---- reading the output ---------------------------------------------------------------------------------- *)
Definition is_omsg (o : oline) : bool := match o with OMsg _ _ _ => true | _ => false end.

(* the shown message items, with their times, in output order *)
Definition shown_times (out : list oline) : list Z :=
  flat_map (fun o => match o with OMsg _ m _ => [m_time m] | _ => [] end) out.

(* the time of the last shown item of [out], [prev] if there is none *)
Definition last_after (prev : option Z) (out : list oline) : option Z :=
  fold_left (fun l o => match o with OMsg _ m _ => Some (m_time m) | _ => l end) out prev.

(* the lines that are not time-gap separators *)
Definition not_sep (o : oline) : bool := negb (is_gap_sep o).
Definition strip (out : list oline) : list oline := filter not_sep out.

Definition gap_of (prev : option Z) (t : Z) : Z := match prev with Some t0 => t - t0 | None => 0 end.

Definition sep_for (on : bool) (prev : option Z) (t : Z) : list oline :=
  if 1000000 <? gap_of prev t then [OOut (sep_line on (gap_of prev t))]
  else if gap_of prev t =? 1000000 then [OMaybe (sep_line on (gap_of prev t))]
  else [].

Fixpoint with_seps (on : bool) (prev : option Z) (items : list oline) : list oline :=
  match items with
  | [] => []
  | OMsg ci m l :: r => sep_for on prev (m_time m) ++ OMsg ci m l :: with_seps on (Some (m_time m)) r
  | x :: r => x :: with_seps on prev r
  end.

(* [out] carries exactly the due separators, given the item shown before it *)
Definition seps_exact (on : bool) (prev : option Z) (out : list oline) : Prop :=
  out = with_seps on prev (strip out).

(* ---- list facts ------------------------------------------------------------------------------------------------ *)
Lemma last_after_app prev a b : last_after prev (a ++ b) = last_after (last_after prev a) b.
Proof. apply fold_left_app. Qed.

Lemma strip_app a b : strip (a ++ b) = strip a ++ strip b.
Proof. apply filter_app. Qed.

Lemma last_after_strip a : forall prev, last_after prev (strip a) = last_after prev a.
Proof.
  induction a as [|x a IH]; intros prev; [reflexivity|]. unfold strip. cbn [filter].
  fold (strip a). destruct (not_sep x) eqn:E.
  - change (last_after prev (x :: strip a)) with (last_after (last_after prev [x]) (strip a)).
    change (last_after prev (x :: a)) with (last_after (last_after prev [x]) a). apply IH.
  - rewrite IH. destruct x; try reflexivity; discriminate E.
Qed.

Lemma with_seps_app on a : forall prev b,
  with_seps on prev (a ++ b) = with_seps on prev a ++ with_seps on (last_after prev a) b.
Proof.
  induction a as [|x a IH]; intros prev b; [reflexivity|].
  destruct x; cbn [app with_seps last_after fold_left]; rewrite ?IH; try reflexivity.
  rewrite <- app_assoc. reflexivity.
Qed.

Lemma sep_for_not_msg on prev t : forallb (fun o => negb (is_omsg o)) (sep_for on prev t) = true.
Proof. unfold sep_for. destruct (1000000 <? _); [reflexivity|]. destruct (_ =? _); reflexivity. Qed.

Lemma last_after_no_msg l : forall prev, forallb (fun o => negb (is_omsg o)) l = true -> last_after prev l = prev.
Proof.
  induction l as [|x l IH]; intros prev H; [reflexivity|]. cbn [forallb] in H. apply andb_true_iff in H. destruct H as [Hx Hl].
  cbn [last_after fold_left]. destruct x; try discriminate Hx; apply IH; exact Hl.
Qed.

Lemma last_after_with_seps on its : forall prev, last_after prev (with_seps on prev its) = last_after prev its.
Proof.
  induction its as [|x its IH]; intros prev; [reflexivity|].
  destruct x; cbn [with_seps]; try (cbn [last_after fold_left]; apply IH).
  rewrite last_after_app, (last_after_no_msg _ _ (sep_for_not_msg on prev (m_time m))).
  cbn [last_after fold_left]. apply IH.
Qed.

(* [last_after] is the last of the shown times *)
Lemma last_cons {A} (a : A) r : forall d, last (a :: r) d = last r a.
Proof. revert a. induction r as [|b r IH]; intros a d; [reflexivity|]. change (last (a :: b :: r) d) with (last (b :: r) d). rewrite !IH. reflexivity. Qed.

Lemma last_after_shown_times l : forall prev, last_after prev l = last (map Some (shown_times l)) prev.
Proof.
  induction l as [|x l IH]; intros prev; [reflexivity|].
  destruct x; try (exact (IH prev)).
  change (last_after prev (OMsg ci m l0 :: l)) with (last_after (Some (m_time m)) l).
  change (shown_times (OMsg ci m l0 :: l)) with (m_time m :: shown_times l). cbn [map]. rewrite last_cons. apply IH.
Qed.

(* composing: [a] exact, then [b] exact from where [a] ends *)
Lemma seps_exact_app on prev a b :
  seps_exact on prev a -> seps_exact on (last_after prev a) b -> seps_exact on prev (a ++ b).
Proof.
  unfold seps_exact. intros Ha Hb. rewrite strip_app, with_seps_app, last_after_strip, <- Ha, <- Hb. reflexivity.
Qed.

(* lines that are neither separators nor message items *)
Definition neutral1 (o : oline) : bool := not_sep o && negb (is_omsg o).
Definition neutral (l : list oline) : bool := forallb neutral1 l.

Lemma neutral_app a b : neutral (a ++ b) = neutral a && neutral b.
Proof. apply forallb_app. Qed.

Lemma neutral_exact on l : neutral l = true -> forall prev, seps_exact on prev l /\ last_after prev l = prev.
Proof.
  unfold seps_exact. induction l as [|x l IH]; intros H prev; [split; reflexivity|].
  cbn [neutral forallb] in H. apply andb_true_iff in H. destruct H as [Hx Hl].
  unfold neutral1 in Hx. apply andb_true_iff in Hx. destruct Hx as [Hs Hm].
  destruct (IH Hl prev) as [I1 I2]. unfold strip in *. cbn [filter]. rewrite Hs.
  destruct x; try discriminate Hm; cbn [with_seps last_after fold_left]; (split; [f_equal; exact I1|exact I2]).
Qed.

Lemma seps_exact_neutral_l on prev a b : neutral a = true -> seps_exact on prev b -> seps_exact on prev (a ++ b).
Proof.
  intros Ha Hb. destruct (neutral_exact on a Ha prev) as [H1 H2]. apply seps_exact_app; [exact H1|]. rewrite H2. exact Hb.
Qed.

Lemma seps_exact_neutral_r on prev a b : seps_exact on prev a -> neutral b = true -> seps_exact on prev (a ++ b).
Proof.
  intros Ha Hb. apply seps_exact_app; [exact Ha|]. apply (neutral_exact on b Hb).
Qed.

Lemma last_after_neutral_r prev a b : neutral b = true -> last_after prev (a ++ b) = last_after prev a.
Proof. intros Hb. rewrite last_after_app. apply (neutral_exact false b Hb). Qed.

Lemma last_after_neutral_l prev a b : neutral a = true -> last_after prev (a ++ b) = last_after prev b.
Proof. intros Ha. rewrite last_after_app. destruct (neutral_exact false a Ha prev) as [_ ->]. reflexivity. Qed.

(* ---- which lines are separators ---------------------------------------------------------------------------- *)
(* a separator line has a [Time0] field in third position *)
Lemma is_sep_third a b c r : is_sep (OOut (a :: b :: c :: r)) = true -> exists z, c = Time0 z.
Proof.
  intros H. destruct c as [s|z|z|]; try (eexists; reflexivity); exfalso; cbn in H;
  repeat match type of H with
         | context [match ?x with _ => _ end] => destruct x; try discriminate H
         end.
Qed.

Lemma not_sep_short_out a : not_sep (OOut [a]) = true.
Proof. reflexivity. Qed.
Lemma not_sep_txt s : not_sep (OOut (txt s)) = true.
Proof. reflexivity. Qed.
Lemma not_sep_err l : not_sep (OErr l) = true.
Proof. reflexivity. Qed.

Lemma stop_notice_neutral on d m :
  neutral1 (OOut (Txt (color on alert_color (s2l "    Stopped at ")) :: show_msg_body on d m)) = true.
Proof.
  unfold neutral1. cbn [is_omsg negb]. rewrite andb_true_r. unfold not_sep, is_gap_sep.
  unfold show_msg_body. destruct (m_destroyed m) as [r|]; cbn [app].
  - match goal with |- negb (is_sep ?x) = true => destruct (is_sep x) eqn:E; [|reflexivity] end.
    apply is_sep_third in E. destruct E as [z E]. discriminate E.
  - match goal with |- negb (is_sep ?x) = true => destruct (is_sep x) eqn:E; [|reflexivity] end.
    apply is_sep_third in E. destruct E as [z E]. discriminate E.
Qed.

Lemma sep_line_is_sep on delta :
  not_sep (OOut (sep_line on delta)) = false /\ not_sep (OMaybe (sep_line on delta)) = false.
Proof. split; reflexivity. Qed.

Lemma strip_sep_for on prev t : strip (sep_for on prev t) = [].
Proof. unfold sep_for. destruct (1000000 <? _); [reflexivity|]. destruct (_ =? _); reflexivity. Qed.

(* ---- one shown message ------------------------------------------------------------------------------------------ *)
Lemma show_message_eq on ci d cn prev m :
  show_message on ci d cn prev m =
  (sep_for on prev (m_time m) ++ [OMsg ci m (show_msg on d cn m)], Some (m_time m)).
Proof. reflexivity. Qed.

Lemma show_message_seps on ci d cn prev m :
  seps_exact on prev (fst (show_message on ci d cn prev m)) /\
  last_after prev (fst (show_message on ci d cn prev m)) = Some (m_time m).
Proof.
  rewrite show_message_eq. cbn [fst]. split.
  - unfold seps_exact. rewrite strip_app, strip_sep_for. reflexivity.
  - rewrite last_after_app, (last_after_no_msg _ _ (sep_for_not_msg on prev (m_time m))). reflexivity.
Qed.

(* ---- the controller --------------------------------------------------------------------------------------------- *)
Definition kl (s : sess) : option Z := k_last_shown (s_ctrl s).

Lemma ctrl_on_message_seps on k ci d cn m :
  let r := ctrl_on_message on k ci d cn m in
  seps_exact on (k_last_shown k) (snd (fst r)) /\
  k_last_shown (fst (fst r)) = last_after (k_last_shown k) (snd (fst r)).
Proof.
  cbn zeta. unfold ctrl_on_message.
  destruct (match k_current k with None => true | Some j => Nat.eqb j ci end).
  2: { cbn [fst snd k_last_shown]. split; reflexivity. }
  assert (N : neutral (if matches (k_stop k) (VM (view_msg d cn m))
                       then [OOut (Txt (color on alert_color (s2l "    Stopped at ")) :: show_msg_body on d m)] else []) = true).
  { destruct (matches (k_stop k) _); [|reflexivity]. cbn [neutral forallb]. rewrite stop_notice_neutral. reflexivity. }
  destruct (matches (k_display k) (VM (view_msg d cn m))).
  - destruct (show_message_seps on ci d cn (k_last_shown k) m) as [H1 H2].
    destruct (show_message on ci d cn (k_last_shown k) m) as [o1 l1] eqn:E. cbn [fst snd k_last_shown] in *.
    split.
    + apply seps_exact_neutral_r; assumption.
    + rewrite (last_after_neutral_r _ _ _ N), H2. rewrite show_message_eq in E. injection E as _ <-. reflexivity.
  - cbn [fst snd k_last_shown app]. split.
    + apply (neutral_exact on _ N).
    + symmetry. apply (neutral_exact on _ N).
Qed.

Lemma close_conn_neutral s id : neutral (snd (close_conn s id)) = true.
Proof.
  unfold close_conn. destruct (find_open s id) as [i|]; [|reflexivity].
  destruct (nth_error (s_conns s) i); reflexivity.
Qed.

Lemma open_conn_neutral s id sv : neutral (snd (open_conn s id sv)) = true.
Proof.
  destruct (open_conn_spec s id sv) as (_ & _ & ->). rewrite neutral_app, close_conn_neutral. reflexivity.
Qed.

Section WithP.
Variable P : pdb.

Lemma conn_message_seps s id rel m :
  let r := conn_message P s id rel m in
  let s3 := fst (fst (fst r)) in
  seps_exact (s_color s) (kl s) (snd (fst (fst r))) /\
  kl s3 = last_after (kl s) (snd (fst (fst r))) /\
  s_color s3 = s_color s /\ s_unprocessed s3 = s_unprocessed s.
Proof.
  cbn zeta. unfold conn_message, kl.
  destruct (find_open s id) as [i|]; [|repeat split].
  destruct (nth_error (s_conns s) i) as [c|]; [|repeat split].
  destruct (resolve_msg P (c_db c) rel m) as [[d' rm] err].
  destruct err as [e|]; [repeat split|].
  destruct (ctrl_on_message_seps (s_color s) (s_ctrl s) i d' (c_name c) rm) as [H1 H2]. cbn zeta in H1, H2.
  destruct (ctrl_on_message (s_color s) (s_ctrl s) i d' (c_name c) rm) as [[k' outs] stop]. cbn [fst snd] in *.
  destruct stop; repeat split; assumption.
Qed.

(* one log line, any state *)
Lemma log_message_seps s id rel m :
  let r := log_message P s id rel m in
  seps_exact (s_color s) (kl s) (snd r) /\
  kl (fst r) = last_after (kl s) (snd r) /\
  s_color (fst r) = s_color s.
Proof.
  cbn zeta. unfold log_message. destruct (negb (s_parse s)); [repeat split|].
  match goal with |- context [if ?b then (?s1, []) else _] => destruct b; set (sl := s1) end.
  - cbn beta iota zeta. pose proof (conn_message_seps sl id rel m) as H. cbn zeta in H.
    change (kl sl) with (kl s) in H. change (s_color sl) with (s_color s) in H.
    destruct (conn_message P sl id rel m) as [[[s3 o2] err] st]. cbn [fst snd] in H.
    destruct H as (H1 & H2 & H3 & H4).
    destruct err as [[[] msg]|]; cbn [fst snd app];
      try (split; [apply seps_exact_neutral_r; [exact H1|reflexivity]|]; split; [rewrite last_after_neutral_r by reflexivity; exact H2|exact H3]).
    + (* RuntimeError *)
      assert (N : neutral (unprocessed_line s3 msg) = true) by (unfold unprocessed_line; destruct (s_unprocessed s3); reflexivity).
      split; [apply seps_exact_neutral_r; assumption|]. split; [rewrite last_after_neutral_r by exact N; exact H2|exact H3].
    + split; [exact H1|]. split; [exact H2|exact H3].
  - destruct (open_conn_misc sl id (is_get_registry m)) as (Hk & Hc & Hu). cbn zeta in Hk, Hc, Hu.
    pose proof (open_conn_neutral sl id (is_get_registry m)) as N1.
    destruct (open_conn sl id (is_get_registry m)) as [sa oa]. cbn [fst snd] in *. cbn beta iota zeta.
    match goal with |- context [conn_message P ?s2 id rel m] => set (sb := s2) end.
    pose proof (conn_message_seps sb id rel m) as H. cbn zeta in H.
    change (kl sb) with (k_last_shown (s_ctrl sa)) in H. change (s_color sb) with (s_color sa) in H.
    rewrite Hk, Hc in H. change (k_last_shown (s_ctrl sl)) with (kl s) in H. change (s_color sl) with (s_color s) in H.
    destruct (conn_message P sb id rel m) as [[[s3 o2] err] st]. cbn [fst snd] in H.
    destruct H as (H1 & H2 & H3 & H4).
    destruct err as [[[] msg]|]; cbn [fst snd];
      try (split; [apply seps_exact_neutral_l; [exact N1|]; apply seps_exact_neutral_r; [exact H1|reflexivity]|];
           split; [rewrite (last_after_neutral_l _ _ _ N1), last_after_neutral_r by reflexivity; exact H2|exact H3]).
    + assert (N : neutral (unprocessed_line s3 msg) = true) by (unfold unprocessed_line; destruct (s_unprocessed s3); reflexivity).
      split; [apply seps_exact_neutral_l; [exact N1|]; apply seps_exact_neutral_r; assumption|].
      split; [rewrite (last_after_neutral_l _ _ _ N1), last_after_neutral_r by exact N; exact H2|exact H3].
    + split; [apply seps_exact_neutral_l; assumption|].
      split; [rewrite (last_after_neutral_l _ _ _ N1); exact H2|exact H3].
Qed.

(* ---- the live view over whole streams ------------------------------------------------------------------------- *)
Definition live_event (e : event) : bool := match e with EMsg _ _ | EText _ => true | _ => false end.
Definition klT (T : top) : option Z := kl (t_sess T).
Definition onT (T : top) : bool := s_color (t_sess T).

Lemma step_live_seps T e : live_event e = true ->
  seps_exact (onT T) (klT T) (snd (step P T e)) /\
  klT (fst (step P T e)) = last_after (klT T) (snd (step P T e)) /\
  onT (fst (step P T e)) = onT T.
Proof.
  intros He. destruct e as [id m|t| | | | | | | | ]; try discriminate.
  - destruct (step_msg P T id m) as [_ Hs]. unfold klT, onT. rewrite Hs, step_msg_out.
    apply log_message_seps.
  - rewrite text_passthrough. cbn [fst snd].
    assert (N : neutral (if s_unprocessed (t_sess T)
                         then [OOut [Txt (color (s_color (t_sess T)) symbol_color (s2l "       |  " ++ t))]] else []) = true)
      by (destruct (s_unprocessed (t_sess T)); reflexivity).
    destruct (neutral_exact (onT T) _ N (klT T)) as [H1 H2]. split; [exact H1|]. split; [symmetry; exact H2|reflexivity].
Qed.

(* any start state: the invariant "the controller's memory = time of the last shown item so far" *)
Theorem separators_exact_from evs : forall T, forallb live_event evs = true ->
  let out := List.concat (snd (run P T evs)) in
  seps_exact (onT T) (klT T) out /\
  klT (fst (run P T evs)) = last_after (klT T) out /\
  onT (fst (run P T evs)) = onT T.
Proof.
  induction evs as [|e evs IH]; intros T Hl; cbn zeta.
  - cbn [run fst snd List.concat]. repeat split.
  - cbn [forallb] in Hl. apply andb_true_iff in Hl. destruct Hl as [He Hl].
    rewrite run_snd_cons, run_cons. cbn [List.concat].
    destruct (step_live_seps T e He) as (S1 & S2 & S3).
    destruct (IH (fst (step P T e)) Hl) as (I1 & I2 & I3). cbn zeta in I1, I2, I3.
    rewrite S2, S3 in I1. rewrite S2 in I2. rewrite S3 in I3.
    split; [apply seps_exact_app; assumption|]. split; [rewrite last_after_app; exact I2|exact I3].
Qed.

(* MAIN THEOREM (live view).  From the initial state, for every filter [d] (and breakpoint matcher,
   colour switch, ...), over any stream of message lines and other lines: the output is exactly its
   own non-separator lines with the due separators put back - a separator stands immediately in
   front of a shown message item exactly when its time exceeds the time of the previous shown item
   of the whole output by more than one second (certain) or by exactly one second
   (rounding-dependent), it gives that gap, there is none before the first shown item and none
   anywhere else. *)
Theorem separators_exact d st c u g evs : forallb live_event evs = true ->
  let out := List.concat (snd (run P (top0 d st c u g) evs)) in
  out = with_seps c None (strip out).
Proof. intros Hl. exact (proj1 (separators_exact_from evs (top0 d st c u g) Hl)). Qed.

End WithP.

(* ---- reading [with_seps] positionally (pure list facts) ----------------------------------------------------- *)
Definition nosep (l : list oline) : bool := forallb not_sep l.

Lemma nosep_strip out : nosep (strip out) = true.
Proof.
  unfold nosep, strip. apply forallb_forall. intros x Hx. apply filter_In in Hx. exact (proj2 Hx).
Qed.

Lemma sep_for_cases on prev t :
  sep_for on prev t = [] \/ exists s, sep_for on prev t = [s] /\ not_sep s = false /\ is_omsg s = false.
Proof.
  unfold sep_for. destruct (1000000 <? _); [right; eexists; repeat split|].
  destruct (_ =? _); [right; eexists; repeat split|left; reflexivity].
Qed.

(* what [sep_for] is, case by case *)
Lemma sep_for_spec on prev t :
  match prev with
  | None => sep_for on prev t = []
  | Some t0 =>
      (1000000 < t - t0 -> sep_for on prev t = [OOut (sep_line on (t - t0))]) /\
      (t - t0 = 1000000 -> sep_for on prev t = [OMaybe (sep_line on (t - t0))]) /\
      (t - t0 < 1000000 -> sep_for on prev t = [])
  end.
Proof.
  unfold sep_for. destruct prev as [t0|]; cbn [gap_of]; [|reflexivity].
  destruct (1000000 <? t - t0) eqn:E1; [apply Z.ltb_lt in E1|apply Z.ltb_ge in E1];
  (destruct (t - t0 =? 1000000) eqn:E2; [apply Z.eqb_eq in E2|apply Z.eqb_neq in E2]);
  repeat split; intros; try reflexivity; lia.
Qed.

Lemma with_seps_other on prev x r : is_omsg x = false -> with_seps on prev (x :: r) = x :: with_seps on prev r.
Proof. destruct x; try reflexivity; discriminate. Qed.
Lemma last_after_other prev x r : is_omsg x = false -> last_after prev (x :: r) = last_after prev r.
Proof. destruct x; try reflexivity; discriminate. Qed.

Lemma split_at_msg (S : list oline) X R : forall pre Y post,
  forallb (fun o => negb (is_omsg o)) S = true -> is_omsg Y = true ->
  S ++ X :: R = pre ++ Y :: post ->
  (pre = S /\ X = Y /\ R = post) \/ (exists pre', pre = S ++ X :: pre' /\ R = pre' ++ Y :: post).
Proof.
  induction S as [|s S IH]; intros pre Y post HS HY E.
  - destruct pre as [|p pre']; cbn [app] in E.
    + injection E as -> ->. left. repeat split.
    + injection E as -> ->. right. exists pre'. split; reflexivity.
  - cbn [forallb] in HS. apply andb_true_iff in HS. destruct HS as [Hs HS].
    destruct pre as [|p pre']; cbn [app] in E.
    + injection E as -> _. rewrite HY in Hs. discriminate.
    + injection E as -> E. destruct (IH pre' Y post HS HY E) as [(-> & -> & ->)|(pre'' & -> & ->)].
      * left. repeat split.
      * right. exists pre''. split; reflexivity.
Qed.

Lemma with_seps_split_msg on its : forall prev pre ci m l post,
  with_seps on prev its = pre ++ OMsg ci m l :: post ->
  exists ipre ipost, its = ipre ++ OMsg ci m l :: ipost /\
    pre = with_seps on prev ipre ++ sep_for on (last_after prev ipre) (m_time m) /\
    post = with_seps on (Some (m_time m)) ipost.
Proof.
  induction its as [|x r IH]; intros prev pre ci m l post E.
  - destruct pre; discriminate E.
  - destruct (is_omsg x) eqn:Ex.
    + destruct x as [| ci' m' l'| | | | | | | ]; try discriminate Ex. cbn [with_seps] in E.
      destruct (split_at_msg _ _ _ pre (OMsg ci m l) post (sep_for_not_msg on prev (m_time m')) eq_refl E) as [(-> & Em & <-)|(pre' & -> & E')].
      * injection Em as <- <- <-. exists [], r. repeat split.
      * destruct (IH _ _ _ _ _ _ E') as (ipre & ipost & -> & -> & ->).
        exists (OMsg ci' m' l' :: ipre), ipost. split; [reflexivity|]. split; [|reflexivity].
        cbn [with_seps]. change (last_after prev (OMsg ci' m' l' :: ipre)) with (last_after (Some (m_time m')) ipre).
        rewrite <- !app_assoc. reflexivity.
    + rewrite (with_seps_other on prev x r Ex) in E. destruct pre as [|p pre']; cbn [app] in E.
      * injection E as -> _. discriminate Ex.
      * injection E as <- E. destruct (IH _ _ _ _ _ _ E) as (ipre & ipost & -> & -> & ->).
        exists (x :: ipre), ipost. split; [reflexivity|]. split; [|reflexivity].
        rewrite (with_seps_other on prev x ipre Ex), (last_after_other prev x ipre Ex). reflexivity.
Qed.

Lemma app_eq_snoc {A} (a b : list A) : forall p y, b <> [] -> a ++ b = p ++ [y] -> exists p', b = p' ++ [y].
Proof.
  induction a as [|a0 a IH]; intros p y Hb E; [exists p; exact E|].
  destruct p as [|p0 p']; cbn [app] in E.
  - injection E as _ E. destruct a; [cbn in E; contradiction|discriminate E].
  - injection E as _ E. exact (IH p' y Hb E).
Qed.

(* re-inserting separators never leaves one at the end *)
Lemma with_seps_last on its : nosep its = true -> forall prev p y,
  with_seps on prev its = p ++ [y] -> not_sep y = true.
Proof.
  induction its as [|x r IH]; intros Hn prev p y E.
  - destruct p; discriminate E.
  - cbn [nosep forallb] in Hn. apply andb_true_iff in Hn. destruct Hn as [Hx Hr].
    destruct (is_omsg x) eqn:Ex.
    + destruct x as [| ci' m' l'| | | | | | | ]; try discriminate Ex. cbn [with_seps] in E.
      assert (Hne : OMsg ci' m' l' :: with_seps on (Some (m_time m')) r <> []) by discriminate.
      destruct (app_eq_snoc _ _ _ _ Hne E) as (p' & E').
      destruct p' as [|p0 p'']; cbn [app] in E'.
      * injection E' as <- _. reflexivity.
      * injection E' as _ E'. exact (IH Hr _ _ _ E').
    + rewrite (with_seps_other on prev x r Ex) in E. destruct p as [|p0 p']; cbn [app] in E.
      * injection E as <- _. exact Hx.
      * injection E as _ E. exact (IH Hr _ _ _ E).
Qed.

(* a re-inserted separator is immediately followed by a message item *)
Lemma with_seps_sep_followed on its : nosep its = true -> forall prev pre x post,
  with_seps on prev its = pre ++ x :: post -> not_sep x = false ->
  exists ci m l post', post = OMsg ci m l :: post'.
Proof.
  induction its as [|x0 r IH]; intros Hn prev pre x post E Hx.
  - destruct pre; discriminate E.
  - cbn [nosep forallb] in Hn. apply andb_true_iff in Hn. destruct Hn as [Hx0 Hr].
    destruct (is_omsg x0) eqn:Ex.
    + destruct x0 as [| ci' m' l'| | | | | | | ]; try discriminate Ex. cbn [with_seps] in E.
      assert (G : forall pre, OMsg ci' m' l' :: with_seps on (Some (m_time m')) r = pre ++ x :: post ->
                              exists ci m l post', post = OMsg ci m l :: post').
      { intros pre1 E1. destruct pre1 as [|p0 pre1']; cbn [app] in E1.
        - injection E1 as <- _. discriminate Hx.
        - injection E1 as _ E1. exact (IH Hr _ _ _ _ E1 Hx). }
      destruct (sep_for_cases on prev (m_time m')) as [Es|(s & Es & _ & _)]; rewrite Es in E; cbn [app] in E.
      * exact (G _ E).
      * destruct pre as [|p0 pre']; cbn [app] in E.
        -- injection E as _ <-. eexists _, _, _, _. reflexivity.
        -- injection E as _ E. exact (G _ E).
    + rewrite (with_seps_other on prev x0 r Ex) in E. destruct pre as [|p0 pre']; cbn [app] in E.
      * injection E as <- _. rewrite Hx0 in Hx. discriminate.
      * injection E as _ E. exact (IH Hr _ _ _ _ E Hx).
Qed.

(* [pre] does not end with a separator *)
Definition ends_clean (pre : list oline) : Prop := forall p y, pre = p ++ [y] -> not_sep y = true.

(* POSITIONAL FORM 1: in front of every shown message item stands exactly the separator due with
   respect to the previous shown item, and in front of that there is no further separator *)
Theorem sep_before_item_gen on prev out pre ci m l post :
  seps_exact on prev out -> out = pre ++ OMsg ci m l :: post ->
  exists pre0, pre = pre0 ++ sep_for on (last_after prev pre0) (m_time m) /\ ends_clean pre0 /\
               last_after prev pre0 = last_after prev pre.
Proof.
  unfold seps_exact. intros Hex Hout.
  assert (E : with_seps on prev (strip out) = pre ++ OMsg ci m l :: post) by (rewrite <- Hex; exact Hout).
  destruct (with_seps_split_msg on _ _ _ _ _ _ _ E) as (ipre & ipost & Es & -> & _).
  exists (with_seps on prev ipre). rewrite last_after_with_seps. split; [reflexivity|]. split.
  - intros p y Ep. apply (with_seps_last on ipre) with (prev := prev) (p := p); [|exact Ep].
    pose proof (nosep_strip out) as Hn. rewrite Es in Hn. unfold nosep in *. rewrite forallb_app in Hn.
    apply andb_true_iff in Hn. exact (proj1 Hn).
  - rewrite last_after_app, last_after_with_seps.
    symmetry. apply last_after_no_msg. apply sep_for_not_msg.
Qed.

(* POSITIONAL FORM 2: a separator occurs nowhere else - every separator line of the output is
   immediately followed by a shown message item, and is the separator due for that item *)
Theorem sep_only_before_item_gen on prev out pre x post :
  seps_exact on prev out -> out = pre ++ x :: post -> not_sep x = false ->
  exists ci m l post', post = OMsg ci m l :: post' /\ sep_for on (last_after prev pre) (m_time m) = [x] /\ ends_clean pre.
Proof.
  intros Hex Hout Hx.
  assert (E : with_seps on prev (strip out) = pre ++ x :: post) by (unfold seps_exact in Hex; rewrite <- Hex; exact Hout).
  destruct (with_seps_sep_followed on _ (nosep_strip out) _ _ _ _ E Hx) as (ci & m & l & post' & ->).
  exists ci, m, l, post'. split; [reflexivity|].
  assert (Hout' : out = (pre ++ [x]) ++ OMsg ci m l :: post') by (rewrite <- app_assoc; exact Hout).
  destruct (sep_before_item_gen on prev out _ ci m l post' Hex Hout') as (pre0 & Ep & Hc & _).
  destruct (sep_for_cases on (last_after prev pre0) (m_time m)) as [Es|(s & Es & _ & _)]; rewrite Es in Ep.
  - rewrite app_nil_r in Ep. subst pre0. specialize (Hc pre x eq_refl). rewrite Hc in Hx. discriminate.
  - apply app_inj_tail in Ep. destruct Ep as [-> ->]. split; [exact Es|exact Hc].
Qed.

Section Positional.
Variable P : pdb.

Theorem sep_before_item d st c u g evs pre ci m l post :
  forallb live_event evs = true ->
  List.concat (snd (run P (top0 d st c u g) evs)) = pre ++ OMsg ci m l :: post ->
  exists pre0, pre = pre0 ++ sep_for c (last_after None pre0) (m_time m) /\ ends_clean pre0 /\
               last_after None pre0 = last_after None pre.
Proof.
  intros Hl Ho. apply (sep_before_item_gen c None _ pre ci m l post (separators_exact P d st c u g evs Hl) Ho).
Qed.

Theorem sep_only_before_item d st c u g evs pre x post :
  forallb live_event evs = true ->
  List.concat (snd (run P (top0 d st c u g) evs)) = pre ++ x :: post -> is_gap_sep x = true ->
  exists ci m l post', post = OMsg ci m l :: post' /\ sep_for c (last_after None pre) (m_time m) = [x] /\ ends_clean pre.
Proof.
  intros Hl Ho Hx. apply (sep_only_before_item_gen c None _ pre x post (separators_exact P d st c u g evs Hl) Ho).
  unfold not_sep. rewrite Hx. reflexivity.
Qed.

End Positional.

(* ---- commands: every listing is a run of its own ---------------------------------------------------------------- *)
(* the closing line of a listing that showed something: "(N matched, M didn't ...)" *)
Definition is_counts (o : oline) : bool := match o with OOut [Txt (40%N :: _)] => true | _ => false end.
Definition has_counts (o : list oline) : bool := existsb is_counts o.

(* what every command but a successful `list` prints: no separator, no message item, no closing line *)
Definition plain1 (o : oline) : bool := neutral1 o && negb (is_counts o).
Definition plain (l : list oline) : bool := forallb plain1 l.

Lemma plain_app a b : plain (a ++ b) = plain a && plain b.
Proof. apply forallb_app. Qed.
Lemma has_counts_app a b : has_counts (a ++ b) = has_counts a || has_counts b.
Proof. apply existsb_app. Qed.

Lemma plain_facts l : plain l = true -> neutral l = true /\ has_counts l = false.
Proof.
  induction l as [|x l IH]; [split; reflexivity|]. cbn [plain forallb]. intros H. apply andb_true_iff in H. destruct H as [Hx Hl].
  destruct (IH Hl) as [I1 I2]. unfold plain1 in Hx. apply andb_true_iff in Hx. destruct Hx as [Hn Hc].
  cbn [neutral forallb has_counts existsb]. rewrite Hn. apply negb_true_iff in Hc. rewrite Hc. split; [exact I1|exact I2].
Qed.

(* the three facts about a command's effect, with the memory of the live view before it [kl0] *)
Definition cmd_ok (on : bool) (kl0 : option Z) (r : sess * list oline) : Prop :=
  seps_exact on None (snd r) /\
  kl (fst r) = (if has_counts (snd r) then None else kl0) /\
  s_color (fst r) = on.

Lemma plain_cmd_ok on kl0 s o : plain o = true -> kl s = kl0 -> s_color s = on -> cmd_ok on kl0 (s, o).
Proof.
  intros Hp Hk Hc. destruct (plain_facts o Hp) as [Hn Hh]. unfold cmd_ok. cbn [fst snd]. rewrite Hh.
  split; [apply (neutral_exact on o Hn)|]. split; assumption.
Qed.

Lemma cmd_ok_pre on kl0 s pre o : plain pre = true -> cmd_ok on kl0 (s, o) -> cmd_ok on kl0 (s, pre ++ o).
Proof.
  intros Hp (H1 & H2 & H3). destruct (plain_facts pre Hp) as [Hn Hh]. unfold cmd_ok in *. cbn [fst snd] in *.
  rewrite has_counts_app, Hh. cbn [orb]. split; [apply seps_exact_neutral_l; assumption|]. split; assumption.
Qed.

Lemma get_command_plain on c : plain (snd (get_command' on c)) = true.
Proof. unfold get_command'. destruct (filter (starts_with c) command_names) as [|x [|y l]]; reflexivity. Qed.

Ltac finp :=
  cbn [fst snd]; rewrite ?plain_app;
  try (match goal with H : plain _ = true |- _ => exact H end);
  repeat match goal with H : plain _ = true |- _ => rewrite H; clear H end; try reflexivity.

Lemma resolve_cmd_plain fuel : forall on input, plain (fst (resolve_cmd fuel on input)) = true.
Proof.
  induction fuel as [|f IH]; intros on input; [reflexivity|]. cbn [resolve_cmd].
  repeat match goal with
  | |- context [resolve_cmd f ?a ?b] =>
      let H := fresh "HR" in pose proof (IH a b) as H; destruct (resolve_cmd f a b); cbn [fst] in H
  | |- context [get_command' ?a ?b] =>
      let H := fresh "HC" in pose proof (get_command_plain a b) as H; destruct (get_command' a b); cbn [snd] in H
  | |- context [if ?b then _ else _] => destruct b
  | |- context [match ?x with _ => _ end] => destruct x
  end; finp.
Qed.

Lemma parse_and_join_plain s t old :
  match parse_and_join s t old with Ok (m, errs) => plain errs = true | Raise _ _ => True end.
Proof.
  unfold parse_and_join. destruct (parse t) as [p|e msg]; [reflexivity|]. destruct e; try exact I. reflexivity.
Qed.

Lemma list_connections_plain s : plain (list_connections s) = true.
Proof.
  unfold list_connections. generalize 0%nat. induction (s_conns s) as [|c cs IH]; intros i; [reflexivity|].
  cbn [plain forallb]. apply andb_true_iff. split; [|exact (IH (S i))].
  destruct (k_current (s_ctrl s)) as [j|]; [destruct (Nat.eqb i j)|]; destruct (s_color s); reflexivity.
Qed.

Lemma has_counts_show on prev t ci m l : has_counts (sep_for on prev t ++ [OMsg ci m l]) = false.
Proof. unfold sep_for. destruct (1000000 <? _); [destruct on; reflexivity|]. destruct (_ =? _); reflexivity. Qed.

(* a listing: its own run of separators, starting with no previous item; if it shows anything it
   ends with the closing line and the live view's memory is cleared, otherwise nothing changes *)
Lemma show_messages_ok s m cap : cmd_ok (s_color s) (kl s) (show_messages s m cap).
Proof.
  unfold show_messages. destruct (scan_matching _ _ _ _ _ _) as [[matching d] ns].
  destruct matching as [|x matching].
  { apply plain_cmd_ok; [destruct (s_conns s); reflexivity|reflexivity|reflexivity]. }
  match goal with |- context [fold_left ?f _ _] => set (F := f) end.
  assert (G : forall l acc, seps_exact (s_color s) None (fst acc) -> snd acc = last_after None (fst acc) ->
                            seps_exact (s_color s) None (fst (fold_left F l acc)) /\
                            has_counts (fst (fold_left F l acc)) = has_counts (fst acc)).
  { induction l as [|p l IHl]; intros acc H1 H2; cbn [fold_left]; [split; [exact H1|reflexivity]|].
    assert (S : seps_exact (s_color s) None (fst (F acc p)) /\ snd (F acc p) = last_after None (fst (F acc p)) /\
                has_counts (fst (F acc p)) = has_counts (fst acc)).
    { unfold F. destruct (nth_error (s_conns s) (fst p)) as [c|]; [|repeat split; assumption].
      destruct (show_message_seps (s_color s) (fst p) (c_db c) (c_name c) (snd acc) (snd p)) as [S1 S2].
      pose proof (show_message_eq (s_color s) (fst p) (c_db c) (c_name c) (snd acc) (snd p)) as E.
      destruct (show_message _ _ _ _ _ _) as [o l']. cbn [fst snd] in *. injection E as -> ->.
      split; [apply seps_exact_app; [exact H1|rewrite <- H2; exact S1]|].
      split; [rewrite last_after_app, <- H2; symmetry; exact S2|].
      rewrite has_counts_app, has_counts_show. apply orb_false_r. }
    destruct S as (S1 & S2 & S3). destruct (IHl (F acc p) S1 S2) as [I1 I2]. split; [exact I1|rewrite I2; exact S3]. }
  destruct (G (x :: matching) ([], None) eq_refl eq_refl) as [G1 G2].
  destruct (fold_left F (x :: matching) ([], None)) as [outs lst]. cbn [fst snd] in *.
  unfold cmd_ok. cbn [fst snd]. split; [|split; [|reflexivity]].
  - apply seps_exact_neutral_l; [reflexivity|]. apply seps_exact_neutral_r; [exact G1|reflexivity].
  - match goal with |- context [has_counts ?l] => assert (Hc : has_counts l = true) end.
    { rewrite !has_counts_app. apply orb_true_iff. right. apply orb_true_iff. right. reflexivity. }
    rewrite Hc. reflexivity.
Qed.

Ltac crunchp :=
  repeat match goal with
  | |- context [parse_and_join ?a ?b ?c] =>
      let H := fresh "HP" in pose proof (parse_and_join_plain a b c) as H; destruct (parse_and_join a b c) as [[? ?]|? ?]
  | |- context [get_command' ?a ?b] =>
      let H := fresh "HC" in pose proof (get_command_plain a b) as H; destruct (get_command' a b); cbn [snd] in H
  | |- context [list_connections ?a] =>
      let H := fresh "HL" in pose proof (list_connections_plain a) as H; generalize dependent (list_connections a); intros
  | |- context [if ?b then _ else _] => destruct b
  | |- context [match ?x with _ => _ end] => destruct x
  end; (apply plain_cmd_ok; [finp|reflexivity|reflexivity]).

Lemma cmd_help_ok s a : cmd_ok (s_color s) (kl s) (cmd_help s a).
Proof. unfold cmd_help. crunchp. Qed.
Lemma cmd_filter_ok s a : cmd_ok (s_color s) (kl s) (cmd_filter s a).
Proof. unfold cmd_filter. crunchp. Qed.
Lemma cmd_break_ok s a : cmd_ok (s_color s) (kl s) (cmd_break s a).
Proof. unfold cmd_break. crunchp. Qed.
Lemma cmd_matcher_ok s a : cmd_ok (s_color s) (kl s) (cmd_matcher s a).
Proof. unfold cmd_matcher. crunchp. Qed.
Lemma cmd_connection_ok s a : cmd_ok (s_color s) (kl s) (cmd_connection s a).
Proof. unfold cmd_connection. crunchp. Qed.

Lemma cmd_list_ok s a : cmd_ok (s_color s) (kl s) (cmd_list s a).
Proof.
  unfold cmd_list.
  repeat match goal with
  | |- context [parse_and_join ?a ?b ?c] =>
      let H := fresh "HP" in pose proof (parse_and_join_plain a b c) as H; destruct (parse_and_join a b c) as [[? ?]|? ?]
  | |- cmd_ok _ _ (show_messages _ _ _) => apply show_messages_ok
  | |- cmd_ok _ _ (let '(s1, o) := show_messages ?a ?b ?c in (s1, ?e ++ o)) =>
      let H := fresh "HS" in pose proof (show_messages_ok a b c) as H; destruct (show_messages a b c);
      apply cmd_ok_pre; [assumption|exact H]
  | |- cmd_ok _ _ (_, _) => apply plain_cmd_ok; [reflexivity|reflexivity|reflexivity]
  | |- context [if ?b then _ else _] => destruct b
  | |- context [match ?x with _ => _ end] => destruct x
  end.
Qed.

Lemma run_command_ok s n a : cmd_ok (s_color s) (kl s) (run_command s n a).
Proof.
  unfold run_command.
  destruct (str_eqb n (s2l "help")); [apply cmd_help_ok|].
  destruct (str_eqb n (s2l "list")); [apply cmd_list_ok|].
  destruct (str_eqb n (s2l "filter")); [apply cmd_filter_ok|].
  destruct (str_eqb n (s2l "breakpoint")); [apply cmd_break_ok|].
  destruct (str_eqb n (s2l "matcher")); [apply cmd_matcher_ok|].
  destruct (str_eqb n (s2l "connection")); [apply cmd_connection_ok|].
  destruct (str_eqb n (s2l "resume")); [apply plain_cmd_ok; reflexivity|].
  destruct (str_eqb n (s2l "quit")); apply plain_cmd_ok; reflexivity.
Qed.

Lemma process_command_ok fuel s input : cmd_ok (s_color s) (kl s) (process_command fuel s input).
Proof.
  unfold process_command. pose proof (resolve_cmd_plain fuel (s_color s) input) as H.
  destruct (resolve_cmd fuel (s_color s) input) as [pre [[name arg]|]]; cbn [fst] in H.
  - pose proof (run_command_ok s name arg) as H2. destruct (run_command s name arg) as [s1 o].
    apply cmd_ok_pre; assumption.
  - apply plain_cmd_ok; [exact H|reflexivity|reflexivity].
Qed.

Section WithCmds.
Variable P : pdb.

Lemma step_cmd_ok T c :
  seps_exact (onT T) None (snd (step P T (ECmd c))) /\
  klT (fst (step P T (ECmd c))) = (if has_counts (snd (step P T (ECmd c))) then None else klT T) /\
  onT (fst (step P T (ECmd c))) = onT T.
Proof.
  destruct T as [ob s]. unfold step, klT, onT. cbn [t_sess t_base].
  pose proof (process_command_ok command_fuel s c) as H. revert H.
  generalize (process_command command_fuel s c). intros [s1 o] H. exact H.
Qed.

Definition view_event (e : event) : bool := match e with EMsg _ _ | EText _ | ECmd _ => true | _ => false end.

(* the demand, read off the events' kinds and the per-event outputs alone: a live line is exact with
   respect to the remembered item; a command's output is exact as a run of its own (no previous
   item), and it clears the memory iff it is a listing that showed something (closing line) *)
Fixpoint cmds_exact (on : bool) (prev : option Z) (evs : list event) (outs : list (list oline)) : Prop :=
  match evs, outs with
  | e :: evs', o :: outs' =>
      match e with
      | ECmd _ => seps_exact on None o /\ cmds_exact on (if has_counts o then None else prev) evs' outs'
      | _ => seps_exact on prev o /\ cmds_exact on (last_after prev o) evs' outs'
      end
  | _, _ => True
  end.

(* SECOND THEOREM: live view and commands, any start state *)
Theorem separators_exact_cmds evs : forall T, forallb view_event evs = true ->
  cmds_exact (onT T) (klT T) evs (snd (run P T evs)).
Proof.
  induction evs as [|e evs IH]; intros T Hl; [exact I|].
  cbn [forallb] in Hl. apply andb_true_iff in Hl. destruct Hl as [He Hl].
  rewrite run_snd_cons. cbn [cmds_exact]. specialize (IH (fst (step P T e)) Hl).
  destruct e as [id m|t|c| | | | | | | ]; try discriminate.
  - destruct (step_live_seps P T (EMsg id m) eq_refl) as (S1 & S2 & S3). rewrite S2, S3 in IH. split; assumption.
  - destruct (step_live_seps P T (EText t) eq_refl) as (S1 & S2 & S3). rewrite S2, S3 in IH. split; assumption.
  - destruct (step_cmd_ok T c) as (C1 & C2 & C3). rewrite C2, C3 in IH. split; assumption.
Qed.

End WithCmds.

Print Assumptions separators_exact_from.
Print Assumptions separators_exact.
Print Assumptions sep_before_item.
Print Assumptions sep_only_before_item.
Print Assumptions sep_for_spec.
Print Assumptions separators_exact_cmds.

(* ---- non-vacuity and the corner (empty protocol database) ---------------------------------------------------- *)
Module SepExamples.

Definition sy (t : Z) : pmsg :=
  mkPmsg t (Some (s2l "wl_display")) 1 true (s2l "sync") [PObj 2 (Some (s2l "wl_callback")) true].
Definition gr (t : Z) : pmsg :=
  mkPmsg t (Some (s2l "wl_display")) 1 true (s2l "get_registry") [PObj 3 (Some (s2l "wl_registry")) true].
Definition flt (s : string) : mt := match parse (s2l s) with Ok p => simplify p | Raise _ _ => MAlways false end.
Definition x := s2l "x".
Definition y := s2l "y".

(* a one-word summary of a line (ASCII characters only) *)
Definition show1 (o : oline) : str :=
  match o with
  | OMsg ci m _ => s2l "msg " ++ z_to_dec (m_time m)
  | OOut [Txt s] => filter (fun c => (c <? 128)%N) s
  | OOut [_; _; Time0 z; _; _] => s2l "SEP " ++ z_to_dec z
  | OMaybe [_; _; Time0 z; _; _] => s2l "MAYBE " ++ z_to_dec z
  | _ => s2l "?"
  end.

(* filter `.sync`: the get_registry requests are hidden.  Log times 5.0, 5.0, 5.9, 6.9 (a text line),
   7.9001, 8.5 (hidden), 8.9002 (first message of a second connection), 9.0, 9.5 (hidden), 10.000001 *)
Definition evs : list event :=
  [EMsg x (gr 5000000); EMsg x (sy 5000000); EMsg x (sy 5900000); EMsg x (sy 6900000); EText (s2l "noise");
   EMsg x (sy 7900100); EMsg x (gr 8500000); EMsg y (sy 8900200); EMsg x (sy 9000000); EMsg y (gr 9500000);
   EMsg y (sy 10000001)].
Definition T0 := top0 (flt ".sync") (MAlways false) false true false.
Definition out := List.concat (snd (run [] T0 evs)).

Example ex_live : forallb live_event evs = true.
Proof. reflexivity. Qed.

(* gap 0.9 s: nothing; exactly 1 s: the rounding-dependent separator; 1.0001 s: a separator, placed
   AFTER the passthrough line and directly in front of the item; 1.0001 s to an item of another
   connection with a hidden message (0.6 s and 0.4 s away) in between: a separator, placed after the
   connection notice; 0.0998 s back on the first connection: nothing; 1.000001 s with a hidden
   message in between: a separator; nothing before the first item *)
Example ex_output :
  map show1 out =
  map s2l ["New client connection A"; "msg 0"; "msg 900000"; "MAYBE 1000000"; "msg 1900000";
           "       |  noise"; "SEP 1000100"; "msg 2900100";
           "New unknown type connection B"; "SEP 1000100"; "msg 3900200"; "msg 4000000";
           "SEP 1000001"; "msg 5000001"]%string.
Proof. vm_compute. reflexivity. Qed.

Example ex_shown_times : shown_times out = [0; 900000; 1900000; 2900100; 3900200; 4000000; 5000001].
Proof. vm_compute. reflexivity. Qed.

Example ex_sep_text :
  nth 6 out OOM = OOut (sep_line false 1000100) /\ nth 3 out OOM = OMaybe (sep_line false 1000000) /\
  map is_gap_sep out = [false; false; false; true; false; false; true; false; false; true; false; false; true; false].
Proof. vm_compute. repeat split. Qed.

(* the main theorem on this instance: by computation, and as an instance of the theorem *)
Example ex_exact_computed : out = with_seps false None (strip out).
Proof. vm_compute. reflexivity. Qed.
Example ex_exact_instance : out = with_seps false None (strip out).
Proof. exact (separators_exact [] (flt ".sync") (MAlways false) false true false evs ex_live). Qed.

(* CORNER (why the first theorem has no commands): `list` forgets the live view's previous item.
   Times 0 and 2.0 (separator), then `list` shows both (a run of its own: no separator before its
   first item, 2.0 s before its second) and clears the memory: the next live message, 2.5 s after
   the previous one, gets NO separator.  A listing that shows nothing (`list wl_surface`) and the
   other commands (`filter`) leave the memory alone: separators 1.5 s and 2.0 s are printed. *)
Definition evs2 : list event :=
  [EMsg x (sy 1000000); EMsg x (sy 3000000); ECmd (s2l "list"); EMsg x (sy 5500000);
   ECmd (s2l "list wl_surface"); EMsg x (sy 7000000); ECmd (s2l "filter .sync"); EMsg x (sy 9000000)].
Definition T1 := top0 (MAlways true) (MAlways false) false true false.
Definition outs2 := snd (run [] T1 evs2).

Example corner_no_separator_after_list :
  map (map show1) outs2 =
  map (map s2l)
  [["New unknown type connection A"; "msg 0"];
   ["SEP 2000000"; "msg 2000000"];
   ["Messages that match *:"; "msg 0"; "SEP 2000000"; "msg 2000000"; "(2 matched, 0 didn't)"];
   ["msg 4500000"];
   ["Messages that match [wl_surface.*(*), *.*(*=wl_surface)]:"; "  None of the 3 messages so far"];
   ["SEP 1500000"; "msg 6000000"];
   ["Only showing messages that match *.sync(*)"];
   ["SEP 2000000"; "msg 8000000"]]%string /\
  map has_counts outs2 = [false; false; true; false; false; false; false; false].
Proof. vm_compute. split; reflexivity. Qed.

(* the live view alone is NOT exact over this run (the item at 4.5 lacks its separator) ... *)
Example corner_live_theorem_fails_with_list :
  List.concat outs2 <> with_seps false None (strip (List.concat outs2)).
Proof. vm_compute. discriminate. Qed.

(* ... the second theorem describes it *)
Example ex_cmds_instance : cmds_exact false None evs2 outs2.
Proof. exact (separators_exact_cmds [] evs2 T1 eq_refl). Qed.

End SepExamples.
